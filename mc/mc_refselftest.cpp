// Self-test of the reference model on hand-written consensus vectors and published BIP vectors.
// A failure here is an infrastructure error (exit 2 in vcheck), never a property verdict.
// Does not touch the implementation under test.
#include "ref/refscript.hpp"
#include "ref/refsigenc.hpp"
#include "ref/reftx.hpp"
#include "ref/refec.hpp"
#include "ref/refcodec.hpp"
#include "ref/refsession.hpp"
#include "ref/vectors.hpp"
#include <cstdio>

using namespace ref;
static int fails = 0, total = 0;
#define CHECK(c) do { total++; if (!(c)) { fails++; printf("FAIL %s:%d %s\n", __FILE__, __LINE__, #c); } } while (0)

namespace ref {
int selftest_tx(int& total) {
    int f = 0;
#define TCHECK(c) do { total++; if (!(c)) { f++; printf("FAIL %s:%d %s\n", __FILE__, __LINE__, #c); } } while (0)
    // BIP143 native P2WPKH example transaction; digest cross-computed offline with a separate Python
    // implementation of the BIP143 formula (its hashPrevouts/hashSequence/hashOutputs equal the published ones)
    {
        Tx t; TCHECK(parse_tx(unhex("0100000002fff7f7881a8099afa6940d42d1e7f6362bec38171ea3edf433541db4e4ad969f0000000000eeffffffef51e1b804cc89d182d279655c3aa89e815b1b309fe287d9b2b55d57b90ec68a0100000000ffffffff02202cb206000000001976a9148280b37df378db99f66f85c95a783a76ac7a6d5988ac9093510d000000001976a9143bde42dbee7e4dbe6a21b2d50ce2f0167faa815988ac11000000"), t));
        TCHECK(t.vin.size() == 2 && t.vout.size() == 2 && t.locktime == 17);
        bytes sc = unhex("76a9141d0f172a0ecb48aeb1a6764c7c5d81fb9c8e1bfb88ac");
        TCHECK(hex(sighash_bip143(t, 1, sc, 600000000, 1)) == "feb9841f4f676deb210eac01e00a0eaa0a45b034d75e2ea80bd364118e859479");
        TCHECK(hex(ser_tx(t)) == "0100000002fff7f7881a8099afa6940d42d1e7f6362bec38171ea3edf433541db4e4ad969f0000000000eeffffffef51e1b804cc89d182d279655c3aa89e815b1b309fe287d9b2b55d57b90ec68a0100000000ffffffff02202cb206000000001976a9148280b37df378db99f66f85c95a783a76ac7a6d5988ac9093510d000000001976a9143bde42dbee7e4dbe6a21b2d50ce2f0167faa815988ac11000000");
    }
    // real-chain pairs: parse, round-trip, txid linkage, and full input validation under the standard flags
    for (auto& v : CHAIN_VECTORS) {
        Tx fin, sp;
        bytes a = unhex(v.txin), b = unhex(v.tx);
        TCHECK(parse_tx(a, fin)); TCHECK(parse_tx(b, sp));
        TCHECK(ser_tx(fin) == a); TCHECK(ser_tx(sp) == b);
        bytes id = txid(fin);
        int found = -1;
        for (size_t i = 0; i < sp.vin.size(); i++) if (sp.vin[i].prev_hash == id) found = int(i);
        TCHECK(found >= 0);
        if (found < 0) continue;
        std::vector<TxOut> spent(sp.vin.size());
        TCHECK(sp.vin[found].prev_n < fin.vout.size());
        spent[found] = fin.vout[sp.vin[found].prev_n];
        int ver; bytes prog;
        bool taproot = is_witness_program(spent[found].spk, ver, prog) && ver == 1;
        if (taproot && sp.vin.size() != 1) continue;
        Err e = verify_input(sp, found, spent, F_STANDARD);
        if (v.valid) TCHECK(e == Err::OK); else TCHECK(e != Err::OK);
        if ((e == Err::OK) != v.valid) printf("  chain vector %s: %s\n", v.name, err_name(e));
        // one flipped bit in the first output amount must invalidate every SIGHASH_ALL spend
        if (v.valid && !sp.vout.empty()) { Tx m = sp; m.vout[0].value ^= 1; TCHECK(verify_input(m, found, spent, F_STANDARD) != Err::OK); }
    }
    // truncations of a segwit tx are all rejected
    { bytes b = unhex(CHAIN_VECTORS[3].tx); Tx t; bool any = false; for (size_t n = 0; n < b.size(); n++) { bytes c(b.begin(), b.begin() + n); if (parse_tx(c, t)) any = true; } TCHECK(!any); }
    return f;
}
int selftest_ec(int& total) {
    int f = 0;
    // BIP340 vectors 0 and 1
    bytes sk0 = unhex("0000000000000000000000000000000000000000000000000000000000000003");
    bytes pk0 = unhex("F9308A019258C31049344F85F89D5229B531C845836F99B08601F113BCE036F9");
    bytes m0(32, 0);
    bytes sig0 = unhex("E907831F80848D1069A5371B402410364BDF1C5F8307B0084C55F1CE2DCA821525F66A4A85EA8B71E482A74F382D2CE5EBEEE8FDB2172F477DF4900D310536C0");
    TCHECK(xonly_of(pub_of(sk0)) == pk0);
    TCHECK(schnorr_verify(pk0, m0, sig0));
    TCHECK(schnorr_sign(sk0, m0, bytes(32, 0)) == sig0);
    bytes sk1 = unhex("B7E151628AED2A6ABF7158809CF4F3C762E7160F38B4DA56A784D9045190CFEF");
    bytes pk1 = unhex("DFF1D77F2A671C5F36183726DB2341BE58FEAE1DA2DECED843240F7B502BA659");
    bytes aux1 = unhex("0000000000000000000000000000000000000000000000000000000000000001");
    bytes m1 = unhex("243F6A8885A308D313198A2E03707344A4093822299F31D0082EFA98EC4E6C89");
    bytes sig1 = unhex("6896BD60EEAE296DB48A229FF71DFE071BDE413E6D43F917DC8DCF8C78DE33418906D11AC976ABCCB20B091292BFF4EA897EFCB639EA871CFA95F6DE339E4B0A");
    TCHECK(xonly_of(pub_of(sk1)) == pk1);
    TCHECK(schnorr_verify(pk1, m1, sig1));
    TCHECK(schnorr_sign(sk1, m1, aux1) == sig1);
    { bytes bad = sig1; bad[5] ^= 1; TCHECK(!schnorr_verify(pk1, m1, bad)); }
    { bytes bad = m1; bad[31] ^= 1; TCHECK(!schnorr_verify(pk1, bad, sig1)); }
    // x not on curve / x >= p
    { Pt P; TCHECK(!lift_x(unhex("EEFDEA4CDB677750A420FEE807EACF21EB9898AE79B9768766E4FAA04A2D4A34"), P)); TCHECK(!lift_x(unhex("FFFFFFFFFFFFFFFFFFFFFFFFFFFFFFFFFFFFFFFFFFFFFFFFFFFFFFFEFFFFFC30"), P)); }
    // ECDSA sign/verify round trip, high-S twin, bit flips
    for (int k = 1; k <= 8; k++) {
        bytes sk(32, 0); sk[31] = uint8_t(k); sk[0] = uint8_t(17 * k);
        bytes msg = sha256(bytes{uint8_t(k)});
        Pt Q = pub_of(sk);
        bytes lo = ecdsa_sign_der(sk, msg, true), hi = ecdsa_sign_der(sk, msg, false);
        for (int form : {2, 4, 6}) { bytes pk = ser_pub(Q, form); TCHECK(ecdsa_verify(lo, pk, msg)); TCHECK(ecdsa_verify(hi, pk, msg)); }
        bytes lo1 = lo; lo1.push_back(1); bytes hi1 = hi; hi1.push_back(1);
        TCHECK(is_valid_der_sig_encoding(lo1) && is_low_s(lo1)); TCHECK(is_valid_der_sig_encoding(hi1) && !is_low_s(hi1));
        bytes bad = lo; bad[bad.size() - 1] ^= 1; TCHECK(!ecdsa_verify(bad, ser_pub(Q, 2), msg));
        bytes m2 = msg; m2[0] ^= 0x80; TCHECK(!ecdsa_verify(lo, ser_pub(Q, 2), m2));
    }
    // generator: pubkey of 1
    { bytes one(32, 0); one[31] = 1; TCHECK(hex(ser_pub(pub_of(one), 2)) == "0279be667ef9dcbbac55a06295ce870b07029bfcdb2dce28d959f2815b16f81798"); }
    return f;
}
int selftest_codec(int& total) {
    int f = 0;
    // BIP173 / BIP350 address vectors
    { std::string hrp; int v; bytes p; TCHECK(segwit_addr_decode("BC1QW508D6QEJXTDG4Y5R3ZARVARY0C5XW7KV8F3T4", hrp, v, p) && hrp == "bc" && v == 0 && hex(p) == "751e76e8199196d454941c45d1b3a323f1433bd6"); }
    { std::string hrp; int v; bytes p; TCHECK(segwit_addr_decode("bc1p0xlxvlhemja6c4dqv22uapctqupfhlxm9h8z3k2e72q4k9hcz7vqzk5jj0", hrp, v, p) && v == 1 && hex(p) == "79be667ef9dcbbac55a06295ce870b07029bfcdb2dce28d959f2815b16f81798"); }
    { std::string hrp; int v; bytes p; TCHECK(!segwit_addr_decode("bc1p0xlxvlhemja6c4dqv22uapctqupfhlxm9h8z3k2e72q4k9hcz7vqh2y7hd", hrp, v, p)); }   // v1 with bech32 checksum
    { std::string hrp; int v; bytes p; TCHECK(!segwit_addr_decode("BC1QW508D6QEJXTDG4Y5R3ZARVARY0C5XW7KV8F3T5", hrp, v, p)); }
    TCHECK(segwit_addr("bc", 0, unhex("751e76e8199196d454941c45d1b3a323f1433bd6")) == "bc1qw508d6qejxtdg4y5r3zarvary0c5xw7kv8f3t4");
    TCHECK(segwit_addr("bc", 1, unhex("79be667ef9dcbbac55a06295ce870b07029bfcdb2dce28d959f2815b16f81798")) == "bc1p0xlxvlhemja6c4dqv22uapctqupfhlxm9h8z3k2e72q4k9hcz7vqzk5jj0");
    { std::string hrp; std::vector<uint8_t> d; TCHECK(b32_decode("A12UEL5L", hrp, d) == B32Enc::BECH32); TCHECK(b32_decode("A1LQFN3A", hrp, d) == B32Enc::BECH32M); TCHECK(b32_decode("a12uel5L", hrp, d) == B32Enc::INVALID); }
    // base58check: the genesis address
    { bytes p = unhex("0062e907b15cbf27d5425399ebf6f0fb50ebb88f18"); TCHECK(b58check_encode(p) == "1A1zP1eP5QGefi2DMPTfTL5SLmv7DivfNa"); bytes q; TCHECK(b58check_decode("1A1zP1eP5QGefi2DMPTfTL5SLmv7DivfNa", q) && q == p); TCHECK(!b58check_decode("1A1zP1eP5QGefi2DMPTfTL5SLmv7DivfNb", q)); }
    // BIP341: the p2ts chain vector's control block verifies against its output key
    {
        Tx sp, fin; parse_tx(unhex(CHAIN_VECTORS[5].tx), sp); parse_tx(unhex(CHAIN_VECTORS[5].txin), fin);
        auto& w = sp.vin[0].witness;
        bytes control = w.back(), script = w[w.size() - 2];
        bytes spk = fin.vout[sp.vin[0].prev_n].spk; bytes prog(spk.begin() + 2, spk.end());
        TapVerify tv = taproot_verify(control, script, prog);
        TCHECK(tv.size_ok && tv.ok);
        bytes c2 = control; c2[0] ^= 1; TCHECK(!taproot_verify(c2, script, prog).ok);
        bytes s2 = script; s2[0] ^= 1; TCHECK(!taproot_verify(control, s2, prog).ok);
    }
    return f;
#undef TCHECK
}
}  // namespace ref

static Err run(const std::string& hexscript, std::vector<bytes>& stack, uint32_t flags = 0, SigVer sv = SigVer::BASE, std::vector<bytes>* alt = nullptr) {
    Machine m; m.script = unhex(hexscript); m.stack = stack; m.flags = flags; m.sv = sv; m.ed.weight_left = 1000;
    while (!m.at_end()) { Err e = m.step(); if (e != Err::OK) return e; }
    stack = m.stack; if (alt) *alt = m.alt;
    return m.finish();
}
static std::vector<bytes> S(std::initializer_list<const char*> l) { std::vector<bytes> s; for (auto x : l) s.push_back(unhex(x)); return s; }

int main() {
    // ---- script numbers
    CHECK(num_decode(unhex("")) == 0); CHECK(num_decode(unhex("80")) == 0); CHECK(num_decode(unhex("81")) == -1);
    CHECK(num_decode(unhex("ff00")) == 255); CHECK(num_decode(unhex("ff80")) == -255); CHECK(num_decode(unhex("ffffff7f")) == 2147483647);
    CHECK(num_decode(unhex("ffffffff")) == -2147483647); CHECK(num_decode(unhex("0000008000")) == 2147483648LL);
    CHECK(hex(num_encode(0)) == ""); CHECK(hex(num_encode(127)) == "7f"); CHECK(hex(num_encode(128)) == "8000"); CHECK(hex(num_encode(-128)) == "8080");
    CHECK(hex(num_encode(-1)) == "81"); CHECK(hex(num_encode(32768)) == "008000"); CHECK(hex(num_encode(-2147483648LL)) == "0000008080");
    CHECK(hex(num_encode(INT64_MIN)) == "000000000000008080"); CHECK(hex(num_encode(INT64_MAX)) == "ffffffffffffff7f");
    CHECK(num_is_minimal(unhex(""))); CHECK(!num_is_minimal(unhex("00"))); CHECK(!num_is_minimal(unhex("80"))); CHECK(num_is_minimal(unhex("ff00")));
    CHECK(!num_is_minimal(unhex("0100"))); CHECK(num_is_minimal(unhex("ff80"))); CHECK(!num_is_minimal(unhex("7f80"))); CHECK(num_is_minimal(unhex("8000")));
    for (int64_t n = -70000; n <= 70000; n++) { bytes e = num_encode(n); if (num_decode(e) != n || !num_is_minimal(e)) { CHECK(false); break; } }
    CHECK(!cast_to_bool(unhex(""))); CHECK(!cast_to_bool(unhex("00"))); CHECK(!cast_to_bool(unhex("80"))); CHECK(!cast_to_bool(unhex("0080")));
    CHECK(cast_to_bool(unhex("8000"))); CHECK(cast_to_bool(unhex("01"))); CHECK(cast_to_bool(unhex("0001")));
    // ---- minimal pushes
    CHECK(push_is_minimal(0x00, {})); CHECK(!push_is_minimal(0x4c, {})); CHECK(!push_is_minimal(0x01, unhex("05"))); CHECK(!push_is_minimal(0x01, unhex("81")));
    CHECK(push_is_minimal(0x01, unhex("00"))); CHECK(push_is_minimal(0x01, unhex("11"))); CHECK(!push_is_minimal(0x4c, bytes(75, 1))); CHECK(push_is_minimal(0x4c, bytes(76, 1)));
    CHECK(!push_is_minimal(0x4d, bytes(255, 1))); CHECK(push_is_minimal(0x4d, bytes(256, 1)));
    // ---- interpreter vectors (from the consensus rules / Core's script_tests semantics)
    { auto s = S({}); CHECK(run("5152935387", s) == Err::OK && hex(s[0]) == "01"); }                       // 1 2 ADD 3 EQUAL
    { auto s = S({}); CHECK(run("525194", s) == Err::OK && hex(s[0]) == "01"); }                            // 2 1 SUB -> 1
    { auto s = S({}); CHECK(run("515294", s) == Err::OK && hex(s[0]) == "81"); }                            // 1 2 SUB -> -1
    { auto s = S({}); CHECK(run("5152a0", s) == Err::OK && hex(s[0]) == ""); }                              // 1 2 GREATERTHAN -> 0
    { auto s = S({}); CHECK(run("51529f", s) == Err::OK && hex(s[0]) == "01"); }                            // 1 2 LESSTHAN -> 1
    { auto s = S({}); CHECK(run("515153a5", s) == Err::OK && hex(s[0]) == "01"); }                          // 1 1 3 WITHIN -> 1 (min inclusive)
    { auto s = S({}); CHECK(run("535153a5", s) == Err::OK && hex(s[0]) == ""); }                            // 3 1 3 WITHIN -> 0 (max exclusive)
    { auto s = S({}); CHECK(run("005153a5", s) == Err::OK && hex(s[0]) == ""); }                            // 0 1 3 WITHIN -> 0
    { auto s = S({"0a", "0b", "0c"}); CHECK(run("5179", s) == Err::OK && s.size() == 4 && hex(s[3]) == "0b"); }   // 1 PICK
    { auto s = S({"0a", "0b", "0c"}); CHECK(run("527a", s) == Err::OK && s.size() == 3 && hex(s[2]) == "0a" && hex(s[0]) == "0b"); }  // 2 ROLL
    { auto s = S({"0a", "0b", "0c"}); CHECK(run("5379", s) == Err::INVALID_STACK_OPERATION); }              // 3 PICK out of range
    { auto s = S({"0a", "0b", "0c"}); CHECK(run("4f79", s) == Err::INVALID_STACK_OPERATION); }              // -1 PICK
    { auto s = S({"0a", "0b", "0c"}); CHECK(run("7b", s) == Err::OK && hex(s[0]) == "0b" && hex(s[1]) == "0c" && hex(s[2]) == "0a"); }  // ROT
    { auto s = S({"01", "02", "03", "04", "05", "06"}); CHECK(run("71", s) == Err::OK && hex(s[0]) == "03" && hex(s[4]) == "01" && hex(s[5]) == "02"); }  // 2ROT
    { auto s = S({"01", "02", "03", "04"}); CHECK(run("70", s) == Err::OK && s.size() == 6 && hex(s[4]) == "01" && hex(s[5]) == "02"); }   // 2OVER
    { auto s = S({"01", "02", "03", "04"}); CHECK(run("72", s) == Err::OK && hex(s[0]) == "03" && hex(s[1]) == "04" && hex(s[2]) == "01"); }  // 2SWAP
    { auto s = S({"01", "02"}); CHECK(run("7d", s) == Err::OK && s.size() == 3 && hex(s[0]) == "02" && hex(s[1]) == "01" && hex(s[2]) == "02"); }  // TUCK
    { auto s = S({"01", "02"}); CHECK(run("77", s) == Err::OK && s.size() == 1 && hex(s[0]) == "02"); }    // NIP
    { auto s = S({"80"}); CHECK(run("73", s) == Err::OK && s.size() == 1); }                                // IFDUP on negative zero
    { auto s = S({"80"}); CHECK(run("69", s) == Err::VERIFY); }
    { auto s = S({"80"}); CHECK(run("635168", s) == Err::OK && s.empty()); }                               // negative zero is false for IF
    { auto s = S({}); CHECK(run("006351675268", s) == Err::OK && s.size() == 1 && hex(s[0]) == "02"); }   // 0 IF 1 ELSE 2 ENDIF
    { auto s = S({}); CHECK(run("00630063516768675268", s) == Err::OK && s.size() == 1 && hex(s[0]) == "02"); } // nested: outer false -> inner ELSE toggling unobservable
    { auto s = S({}); CHECK(run("5163", s) == Err::UNBALANCED_CONDITIONAL); }
    { auto s = S({}); CHECK(run("67", s) == Err::UNBALANCED_CONDITIONAL); }
    { auto s = S({}); CHECK(run("63", s) == Err::UNBALANCED_CONDITIONAL); }                                 // IF on empty stack
    { auto s = S({}); CHECK(run("006365", s) == Err::BAD_OPCODE); }                                         // VERIF fails even unexecuted
    { auto s = S({}); CHECK(run("00637e68", s) == Err::DISABLED_OPCODE); }                                  // CAT fails even unexecuted
    { auto s = S({}); CHECK(run("00635068", s) == Err::OK); }                                               // RESERVED unexecuted ok
    { auto s = S({}); CHECK(run("50", s) == Err::BAD_OPCODE); }
    { auto s = S({}); CHECK(run("0500000000008b", s) == Err::UNKNOWN_ERROR); }                              // 5-byte operand to 1ADD
    { auto s = S({}); CHECK(run("04ffffff7f8b", s) == Err::OK && hex(s[0]) == "0000008000"); }              // result may overflow 4 bytes
    { auto s = S({}); CHECK(run("04ffffff7f8b8b", s) == Err::UNKNOWN_ERROR); }                              // ...but cannot be reused
    { auto s = S({}); CHECK(run("0200008b", s, F_MINIMALDATA) == Err::UNKNOWN_ERROR); }                     // non-minimal operand
    { auto s = S({}); CHECK(run("0105", s, F_MINIMALDATA) == Err::MINIMALDATA); }
    { auto s = S({}); CHECK(run("0105", s, 0) == Err::OK); }
    { auto s = S({}); CHECK(run("0063010568", s, F_MINIMALDATA) == Err::OK); }                              // non-minimal push unexecuted ok
    { auto s = S({}); CHECK(run("b0", s, F_DISCOURAGE_UPGRADABLE_NOPS) == Err::DISCOURAGE_UPGRADABLE_NOPS); }
    { auto s = S({}); CHECK(run("0063b068", s, F_DISCOURAGE_UPGRADABLE_NOPS) == Err::OK); }
    { auto s = S({}); CHECK(run("b1", s, 0) == Err::OK); }
    { auto s = S({}); CHECK(run("b1", s, F_CLTV) == Err::INVALID_STACK_OPERATION); }
    { auto s = S({}); CHECK(run("4fb1", s, F_CLTV) == Err::NEGATIVE_LOCKTIME); }
    { auto s = S({}); CHECK(run("00b1", s, F_CLTV) == Err::UNSATISFIED_LOCKTIME); }                          // no tx
    { auto s = S({}); CHECK(run("050000008000b2", s, F_CSV) == Err::OK); }             // disable flag set (2^31) -> NOP
    { auto s = S({}); CHECK(run("0063ab68", s, F_CONST_SCRIPTCODE, SigVer::BASE) == Err::OP_CODESEPARATOR); }
    { auto s = S({}); CHECK(run("0063ab68", s, F_CONST_SCRIPTCODE, SigVer::WITNESS_V0) == Err::OK); }
    { auto s = S({"02"}); CHECK(run("635168", s, F_MINIMALIF, SigVer::WITNESS_V0) == Err::MINIMALIF); }
    { auto s = S({"02"}); CHECK(run("635168", s, F_MINIMALIF, SigVer::BASE) == Err::OK); }
    { auto s = S({"02"}); CHECK(run("635168", s, 0, SigVer::TAPSCRIPT) == Err::TAPSCRIPT_MINIMALIF); }
    { auto s = S({"0100"}); CHECK(run("635168", s, 0, SigVer::TAPSCRIPT) == Err::TAPSCRIPT_MINIMALIF); }
    { auto s = S({}); CHECK(run("0000ae", s, 0) == Err::INVALID_STACK_OPERATION); }                         // 0 0 CHECKMULTISIG needs dummy
    { auto s = S({}); CHECK(run("000000ae", s, 0) == Err::OK && hex(s[0]) == "01"); }                       // dummy 0 0 CMS -> true
    { auto s = S({}); CHECK(run("510000ae", s, F_NULLDUMMY) == Err::SIG_NULLDUMMY); }
    { auto s = S({}); CHECK(run("000000ae", s, 0, SigVer::TAPSCRIPT) == Err::TAPSCRIPT_CHECKMULTISIG); }
    { auto s = S({}); CHECK(run("000115ae", s, 0) == Err::PUBKEY_COUNT); }          // 0 21 CMS
    { auto s = S({}); CHECK(run("000000ba", s, 0, SigVer::BASE) == Err::BAD_OPCODE); }
    { auto s = S({}); CHECK(run("000051ba", s, 0, SigVer::TAPSCRIPT) == Err::OK && hex(s[0]) == ""); }      // empty sig, unknown key type: 0+0
    { auto s = S({}); CHECK(run("000000ba", s, 0, SigVer::TAPSCRIPT) == Err::PUBKEYTYPE); }                  // empty key
    { auto s = S({}); CHECK(run("0000ac", s, 0) == Err::OK && hex(s[0]) == ""); }                            // empty sig, empty key, no flags -> false
    { auto s = S({}); CHECK(run("0000ac", s, F_STRICTENC) == Err::PUBKEYTYPE); }
    { auto s = S({}); CHECK(run("5100ac", s, F_DERSIG) == Err::SIG_DER); }
    { auto s = S({}); CHECK(run("5100ac", s, F_NULLFAIL) == Err::SIG_NULLFAIL); }
    { auto s = S({}); CHECK(run("82", s, 0) == Err::INVALID_STACK_OPERATION); }
    { auto s = S({"aabbcc"}); CHECK(run("82", s, 0) == Err::OK && hex(s[1]) == "03"); }
    { auto s = S({}); CHECK(run("6c", s, 0) == Err::INVALID_ALTSTACK_OPERATION); }
    { auto s = S({}); std::vector<bytes> alt; CHECK(run("516b", s, 0, SigVer::BASE, &alt) == Err::OK && s.empty() && alt.size() == 1); }
    { auto s = S({}); CHECK(run("00a8", s) == Err::OK && hex(s[0]) == "e3b0c44298fc1c149afbf4c8996fb92427ae41e4649b934ca495991b7852b855"); }
    { auto s = S({}); CHECK(run("00a6", s) == Err::OK && hex(s[0]) == "9c1185a5c5e9fc54612808977ee8f548b2258d31"); }
    { auto s = S({}); CHECK(run("00a7", s) == Err::OK && hex(s[0]) == "da39a3ee5e6b4b0d3255bfef95601890afd80709"); }
    { auto s = S({}); CHECK(run("00a9", s) == Err::OK && hex(s[0]) == "b472a266d0bd89c13706a4132ccfb16f7c3b9fcb"); }
    { auto s = S({}); CHECK(run("00aa", s) == Err::OK && hex(s[0]) == "5df6e0e2761359d30a8275058e299fcc0381534545f55cf43e41983f5d4c9456"); }
    // op count: 201 NOPs ok, 202 fail; pushes do not count; tapscript exempt
    { std::string sc; for (int i = 0; i < 201; i++) sc += "61"; auto s = S({}); CHECK(run(sc, s) == Err::OK); sc += "61"; CHECK(run(sc, s) == Err::OP_COUNT); CHECK(run(sc, s, 0, SigVer::TAPSCRIPT) == Err::OK); }
    // stack size: 1000 ok, 1001 fail
    { std::string sc; for (int i = 0; i < 1000; i++) sc += "51"; auto s = S({}); CHECK(run(sc, s) == Err::OK); s.clear(); sc += "51"; CHECK(run(sc, s) == Err::STACK_SIZE); }
    // ---- DER / low-S
    CHECK(is_valid_der_sig_encoding(unhex("304402207f874ef00f11dcc9a621acad9354f3fca1bf90c43878f607b7e2d358088487e7022052a01b47b8eef5e1c96a6affdc3dac46fdc11b60612464dc8c5921a852090d2701")));
    CHECK(!is_valid_der_sig_encoding(unhex("304402207f874ef00f11dcc9a621acad9354f3fca1bf90c43878f607b7e2d358088487e7022052a01b47b8eef5e1c96a6affdc3dac46fdc11b60612464dc8c5921a852090d27")));
    CHECK(is_low_s(unhex("304402207f874ef00f11dcc9a621acad9354f3fca1bf90c43878f607b7e2d358088487e7022052a01b47b8eef5e1c96a6affdc3dac46fdc11b60612464dc8c5921a852090d2701")));
    // ---- FindAndDelete
    { bytes sc = unhex("0302ff030302ff03"); CHECK(find_and_delete(sc, unhex("0302ff03")) == 2 && sc.empty()); }
    { bytes sc = unhex("0302ff030302ff03"); CHECK(find_and_delete(sc, unhex("02")) == 0); }
    { bytes sc = unhex("0302ff030302ff03"); CHECK(find_and_delete(sc, unhex("ff")) == 0); }
    { bytes sc = unhex("0302ff030302ff03"); CHECK(find_and_delete(sc, unhex("03")) == 2 && hex(sc) == "02ff0302ff03"); }
    { bytes sc = unhex("02feed5169"); CHECK(find_and_delete(sc, unhex("feed51")) == 0); CHECK(find_and_delete(sc, unhex("02feed51")) == 1 && hex(sc) == "69"); }
    { bytes sc = unhex("516902feed5169"); CHECK(find_and_delete(sc, unhex("feed51")) == 0); CHECK(find_and_delete(sc, unhex("69")) == 2 && hex(sc) == "5102feed51"); }
    { bytes sc = unhex("0003feed"); CHECK(find_and_delete(sc, unhex("03feed")) == 1 && hex(sc) == "00"); }
    { bytes sc = unhex("0003feed"); CHECK(find_and_delete(sc, unhex("00")) == 1 && hex(sc) == "03feed"); }

    fails += selftest_tx(total);
    fails += selftest_ec(total);
    fails += selftest_codec(total);

    printf("refselftest: %d checks, %d failures\n", total, fails);
    return fails ? 1 : 0;
}
