// mc_bounds — C10 (resource limits at exactly the consensus bounds), C17 (re-enabled opcodes compute what
// their names denote), C18 (script-number codec is a bijection on minimal encodings).
#include "scriptcmp.hpp"
#include "ref/refsession.hpp"
#include <value.h>

// =========================================================================================== C10
struct Prefix { std::string name; Cfg cfg; bytes script; };

static void rep(bytes& b, const char* hexs, int n) { bytes x = ref::unhex(hexs); for (int i = 0; i < n; i++) b.insert(b.end(), x.begin(), x.end()); }

static std::vector<Prefix> c10_prefixes(bool thorough = false) {
    std::vector<Prefix> P;
    ref::SigVer svs[3] = {ref::SigVer::BASE, ref::SigVer::WITNESS_V0, ref::SigVer::TAPSCRIPT};
    for (uint32_t fl : (thorough ? std::vector<uint32_t>{0u, ref::F_STANDARD & ~ref::F_CLEANSTACK} : std::vector<uint32_t>{0u})) for (auto sv : svs) {
        Cfg c{sv, fl, {}};
        // op count by NOPs
        for (int k : {199, 200, 201, 202}) { bytes s; rep(s, "61", k); P.push_back({"nop*" + std::to_string(k), c, s}); }
        // inside an unexecuted branch: 0 IF NOP*k ENDIF  (IF and ENDIF count)
        for (int k : {197, 198, 199, 200}) { bytes s = ref::unhex("0063"); rep(s, "61", k); P.push_back({"0 IF nop*" + std::to_string(k) + " (ENDIF is the next symbol)", c, s}); }
        // pushes and OP_RESERVED in an unexecuted branch do not count
        { bytes s = ref::unhex("0063"); rep(s, "50", 300); s.push_back(0x68); rep(s, "51", 10); rep(s, "61", 199); P.push_back({"0 IF RESERVED*300 ENDIF 1*10 nop*199", c, s}); }
        // multisig key counts: NOP*k dummy nsigs=0 <n keys> n  (CHECKMULTISIG is among the next symbols)
        for (int n = 0; n <= 21; n++) for (int total : {200, 201, 202}) {
            int k = total - 1 - n; if (k < 0) continue;
            bytes s; rep(s, "61", k); s.push_back(0x00); s.push_back(0x00);
            for (int i = 0; i < n; i++) { s.push_back(0x01); s.push_back(0x02); }
            bytes pn = ref::push_num(n); s.insert(s.end(), pn.begin(), pn.end());
            P.push_back({"nop*" + std::to_string(k) + " 0 0 <" + std::to_string(n) + " keys> " + std::to_string(n) + " (total with CHECKMULTISIG " + std::to_string(total) + ")", c, s});
        }
        // multisig first, counted ops afterwards: 0 0 <n keys> n CHECKMULTISIG DROP NOP*k   (the key count must stay in the running total)
        for (int n : {0, 1, 3, 20}) for (int total : {199, 200, 201}) {
            int k = total - 2 - n; if (k < 0) continue;
            bytes s{0x00, 0x00};
            for (int i = 0; i < n; i++) { s.push_back(0x01); s.push_back(0x02); }
            bytes pn = ref::push_num(n); s.insert(s.end(), pn.begin(), pn.end());
            s.push_back(0xae); s.push_back(0x75); rep(s, "61", k);
            P.push_back({"0 0 <" + std::to_string(n) + " keys> " + std::to_string(n) + " CHECKMULTISIG DROP nop*" + std::to_string(k) + " (total " + std::to_string(total) + ")", c, s});
        }
        // two multisigs in one script
        for (int total : {200, 201}) {
            int k = total - 2 * (1 + 10) - 1; bytes s;
            for (int m = 0; m < 2; m++) { s.push_back(0x00); s.push_back(0x00); for (int i = 0; i < 10; i++) { s.push_back(0x01); s.push_back(0x02); } s.push_back(0x5a); s.push_back(0xae); if (m == 0) s.push_back(0x75); }
            rep(s, "61", k);
            P.push_back({"two 0-of-10 multisigs, DROP, nop*" + std::to_string(k) + " (total " + std::to_string(total) + ")", c, s});
        }
        // stack size by DUP chains
        for (int n : {998, 999, 1000}) { bytes s = ref::unhex("51"); rep(s, "76", n - 1); P.push_back({"1 DUP*" + std::to_string(n - 1) + " (" + std::to_string(n) + " items)", c, s}); }
        // stack + altstack combined
        for (int n : {998, 999, 1000}) { bytes s = ref::unhex("51"); rep(s, "766b", 500); rep(s, "76", n - 501); P.push_back({"500 on altstack, " + std::to_string(n - 500) + " on stack", c, s}); }
        // 3DUP near the limit
        for (int n : {996, 997, 998}) { bytes s = ref::unhex("515253"); rep(s, "6f", 0); rep(s, "76", n - 3); P.push_back({std::to_string(n) + " items before 3DUP/2DUP", c, s}); }
        // initial stack of 999 / 1000 items
        for (int n : {999, 1000}) { Cfg ci{sv, fl, std::vector<bytes>(n, bytes{0x01})}; P.push_back({"initial stack of " + std::to_string(n), ci, {}}); }
        // numeric operand widths
        for (const char* v : {"04ffffff7f", "050000008000", "05ffffffff7f", "06000000008000", "06ffffffffff7f"}) {
            bytes s = ref::unhex(v); P.push_back({std::string("operand ") + v, c, s});
            bytes s2 = ref::unhex("51"); bytes x = ref::unhex(v); s2.insert(s2.end(), x.begin(), x.end()); P.push_back({std::string("operands 1, ") + v, c, s2});
            Cfg cl{sv, fl | ref::F_CLTV | ref::F_CSV, {}}; P.push_back({std::string("operand ") + v + " with CLTV/CSV enabled", cl, s});
        }
    }
    return P;
}

// whole-script boundary cases that are not "prefix + symbol": script size, multi-phase op-count reset
struct Whole { std::string name; ref::SigVer sv; uint32_t flags; bytes script; bytes successor; std::vector<bytes> stack; bool allow_disabled = false; };
static bytes sized_script(size_t n) {   // exactly n bytes: 520-byte pushes, a filler push, then one DROP per push so the stack ends empty
    // layout: [push520]*a [pushX] DROP*(a+1) 1
    for (size_t a = 19;; a--) {
        size_t used = a * 523 + (a + 1) + 1;    // pushes + drops + final OP_1
        if (used + 2 > n) continue;
        size_t rest = n - used;                  // bytes for the filler push (opcode + data)
        bytes s;
        for (size_t i = 0; i < a; i++) { bytes p = ref::push_raw(alpha::filler(520)); s.insert(s.end(), p.begin(), p.end()); }
        bytes fill;
        if (rest - 1 <= 75) fill = ref::push_raw(alpha::filler(rest - 1));
        else if (rest - 2 <= 255) { fill = bytes{0x4c, uint8_t(rest - 2)}; bytes d = alpha::filler(rest - 2); fill.insert(fill.end(), d.begin(), d.end()); }
        else { fill = bytes{0x4d, uint8_t((rest - 3) & 0xff), uint8_t((rest - 3) >> 8)}; bytes d = alpha::filler(rest - 3); fill.insert(fill.end(), d.begin(), d.end()); }
        s.insert(s.end(), fill.begin(), fill.end());
        for (size_t i = 0; i < a + 1; i++) s.push_back(0x75);
        s.push_back(0x51);
        if (s.size() == n) return s;
    }
}
static std::vector<Whole> c10_wholes() {
    std::vector<Whole> W;
    for (auto sv : {ref::SigVer::BASE, ref::SigVer::WITNESS_V0, ref::SigVer::TAPSCRIPT})
        for (size_t n : {9999, 10000, 10001}) W.push_back({"script of " + std::to_string(n) + " bytes", sv, 0, sized_script(n), {}, {}});
    // tapscript has no script-size limit at all: leaves far beyond 10,000 bytes (units of <520 bytes> DROP, then OP_1) run to the end
    for (size_t units : {40, 120, 191, 192, 400, 760}) {     // 40 units = 20,961 bytes ... 192 units = 100,609 bytes ... 760 units = 398,241 bytes
        bytes s2; bytes p = ref::push_raw(alpha::filler(520)); for (size_t i = 0; i < units; i++) { s2.insert(s2.end(), p.begin(), p.end()); s2.push_back(0x75); } s2.push_back(0x51);
        W.push_back({"tapscript leaf of " + std::to_string(s2.size()) + " bytes", ref::SigVer::TAPSCRIPT, 0, s2, {}, {}});
    }
    // successor scriptPubKey of 10000 / 10001 bytes after a scriptSig
    for (size_t n : {10000, 10001}) W.push_back({"scriptPubKey of " + std::to_string(n) + " bytes after scriptSig OP_1", ref::SigVer::BASE, 0, ref::unhex("51"), sized_script(n), {}});
    // op count is per script: scriptSig / scriptPubKey / redeem script each at the limit
    for (int k2 : {201, 202}) {
        bytes a; rep(a, "61", 201); a.push_back(0x51);
        bytes b; rep(b, "61", k2);
        W.push_back({"scriptSig nop*201 1, scriptPubKey nop*" + std::to_string(k2), ref::SigVer::BASE, 0, a, b, {}});
    }
    for (int k3 : {201, 202}) {
        bytes redeem; rep(redeem, "61", k3); redeem.push_back(0x51);
        bytes sig = ref::push_raw(redeem);   // BIP16: the scriptSig of a P2SH spend is push-only
        bytes spk = ref::unhex("a914"); bytes h = ref::hash160(redeem); spk.insert(spk.end(), h.begin(), h.end()); spk.push_back(0x87);
        W.push_back({"P2SH: scriptSig <redeem>, redeem nop*" + std::to_string(k3) + " 1", ref::SigVer::BASE, ref::F_P2SH, sig, spk, {}});
    }
    // BIP342: a tapscript's initial stack may hold at most 1000 items (checked before anything executes); legacy / v0 scripts have no such
    // initial check - there the combined limit applies after each operation only
    for (auto sv : {ref::SigVer::BASE, ref::SigVer::WITNESS_V0, ref::SigVer::TAPSCRIPT}) for (size_t n : {999, 1000, 1001, 1002}) {
        std::vector<bytes> st(n, bytes{0x01});
        W.push_back({"initial stack of " + std::to_string(n) + " items, script DROP DROP", sv, 0, ref::unhex("7575"), {}, st});
        W.push_back({"initial stack of " + std::to_string(n) + " items, script NOP", sv, 0, ref::unhex("61"), {}, st});
    }
    // re-enabled opcodes (--allow-disabled-opcodes) are operations like any other: the combined stack limit is tested after them, and what
    // they produce is a stack element (at most 520 bytes)
    for (auto sv : {ref::SigVer::BASE, ref::SigVer::WITNESS_V0}) {
        for (size_t n : {1001, 1002, 1003}) { std::vector<bytes> st(n, bytes{0x01}); Whole w{"re-enabled OP_CAT on an initial stack of " + std::to_string(n) + " items", sv, 0, ref::unhex("7e"), {}, st}; w.allow_disabled = true; W.push_back(w); }
        for (size_t n : {1000, 1001, 1002}) { std::vector<bytes> st(n, bytes{0x01}); Whole w{"re-enabled OP_INVERT on an initial stack of " + std::to_string(n) + " items", sv, 0, ref::unhex("83"), {}, st}; w.allow_disabled = true; W.push_back(w); }
        for (size_t a : {259, 260, 261}) { std::vector<bytes> st{alpha::filler(a), alpha::filler(260)}; Whole w{"re-enabled OP_CAT of " + std::to_string(a) + " + 260 bytes", sv, 0, ref::unhex("7e8277"), {}, st}; w.allow_disabled = true; W.push_back(w); }
    }
    // the 520-byte element limit applies to every push the interpreter reads, executed or not (the limit check precedes the
    // fExec test); a scriptPubKey reaches the interpreter without the parse-time screen applied to command-line scripts
    for (size_t n : {519, 520, 521, 522}) {
        bytes push = ref::push_raw(alpha::filler(n));
        auto cat = [&](std::initializer_list<bytes> parts) { bytes r; for (auto& p : parts) r.insert(r.end(), p.begin(), p.end()); return r; };
        std::string N = std::to_string(n);
        W.push_back({"scriptPubKey: executed push of " + N + " bytes", ref::SigVer::BASE, 0, ref::unhex("51"), cat({push, ref::unhex("7551")}), {}});
        W.push_back({"scriptPubKey: push of " + N + " bytes in an unexecuted IF branch", ref::SigVer::BASE, 0, ref::unhex("00"), cat({ref::unhex("63"), push, ref::unhex("6851")}), {}});
        W.push_back({"scriptPubKey: push of " + N + " bytes in the skipped ELSE branch", ref::SigVer::BASE, 0, ref::unhex("51"), cat({ref::unhex("6351"), ref::unhex("67"), push, ref::unhex("68")}), {}});
        W.push_back({"scriptPubKey: push of " + N + " bytes nested under a false outer branch", ref::SigVer::BASE, 0, ref::unhex("00"), cat({ref::unhex("6351"), ref::unhex("63"), push, ref::unhex("6868"), ref::unhex("51")}), {}});
        bytes redeem = cat({ref::unhex("0063"), push, ref::unhex("6851")});
        if (redeem.size() <= 520) {   // a redeem script is itself a stack element
            bytes spk = ref::unhex("a914"); bytes h = ref::hash160(redeem); spk.insert(spk.end(), h.begin(), h.end()); spk.push_back(0x87);
            W.push_back({"P2SH redeem script with a push of " + N + " bytes in an unexecuted branch", ref::SigVer::BASE, ref::F_P2SH, ref::push_raw(redeem), spk, {}});
        }
    }
    return W;
}

// reference outcome of a multi-phase legacy session as the debugger stages it (scriptSig, scriptPubKey, P2SH redeem script)
static ref::Err ref_phases(const Whole& w, std::vector<bytes>& stack) {
    stack = w.stack;
    if (w.sv == ref::SigVer::TAPSCRIPT && stack.size() > ref::MAX_STACK) return ref::Err::STACK_SIZE;   // BIP342 initial stack limit
    ref::Err e = ref::eval_script(stack, w.script, w.flags, w.sv, nullptr, ref::ExecData(), w.allow_disabled);
    if (e != ref::Err::OK || w.successor.empty()) return e;
    std::vector<bytes> copy = stack;
    e = ref::eval_script(stack, w.successor, w.flags, ref::SigVer::BASE, nullptr);
    if (e != ref::Err::OK) return e;
    if ((w.flags & ref::F_P2SH) && ref::is_p2sh(w.successor)) {
        if (stack.empty() || !ref::cast_to_bool(stack.back())) return ref::Err::EVAL_FALSE;
        if (!ref::is_push_only(w.script)) return ref::Err::SIG_PUSHONLY;
        stack = copy;
        bytes redeem = stack.back(); stack.pop_back();
        e = ref::eval_script(stack, redeem, w.flags, ref::SigVer::BASE, nullptr);
    }
    return e;
}

static void run_whole(const Whole& w, Violations& V, long long& sessions) {
    J rj = JObj().put("engine", "mc_bounds").put("mode", "c10-whole").put("sv", int(w.sv)).put("flags", (long long)w.flags).put("script", ref::hex(w.script)).put("successor", ref::hex(w.successor)).j();
    note(rj.s);
    sessions++;
    std::vector<bytes> rstack;
    ref::Err re = ref_phases(w, rstack);
    impl::Session s;
    if (!w.successor.empty()) s.inst.successor_script = CScript(w.successor.begin(), w.successor.end());
    bool opened = s.open(w.script, w.stack, w.flags, w.sv, w.allow_disabled);
    std::string ie;
    if (!s.parse_ok) ie = "REFUSED";
    else if (!opened) ie = impl::err_name(s.inst.error);
    else { int guard = 0; while (!s.inst.at_end() && guard++ < 100000) { ie = s.step(); if (ie != "") break; } }
    std::string rs = re == ref::Err::OK ? "" : ref::err_name(re);
    if (rs != ie) {
        V.add("limit:" + w.name + ";sv=" + impl::sv_name(w.sv) + ";ref=" + (rs == "" ? "OK" : rs) + ";impl=" + (ie == "" ? "OK" : ie),
              "boundary session '" + w.name + "' under " + impl::sv_name(w.sv) + ": consensus gives " + (rs == "" ? "success" : rs) + ", debugger gives " + (ie == "" ? "success" : ie), rj);
    } else if (rs == "" && s.stack() != rstack) {
        V.add("limit:" + w.name + ";stack", "boundary session '" + w.name + "': final stack differs", rj);
    }
}

// =========================================================================================== C17
struct ExtCase { uint8_t op; std::vector<bytes> operands; bool allow; bool executed; uint32_t flags; };
static const char* ext_name(uint8_t c) {
    switch (c) { case 0x7e: return "CAT"; case 0x7f: return "SUBSTR"; case 0x80: return "LEFT"; case 0x81: return "RIGHT"; case 0x83: return "INVERT"; case 0x84: return "AND"; case 0x85: return "OR";
    case 0x86: return "XOR"; case 0x8d: return "2MUL"; case 0x8e: return "2DIV"; case 0x95: return "MUL"; case 0x96: return "DIV"; case 0x97: return "MOD"; case 0x98: return "LSHIFT"; case 0x99: return "RSHIFT"; }
    return "?";
}
static int ext_arity(uint8_t c) { return c == 0x7f ? 3 : (c == 0x83 || c == 0x8d || c == 0x8e) ? 1 : 2; }

static std::vector<bytes> W_values(bool thorough = false) {
    std::vector<bytes> w;
    if (thorough) { for (int b = 0; b < 256; b++) w.push_back(bytes{uint8_t(b)}); for (const char* h : {"", "0080", "8000", "8080", "ff00", "ff7f", "ffff", "ff80", "0100", "ffffff7f", "ffffffff", "00000080", "0000008000", "aabb", "aabbcc", "0102030405", "ffffffff7f"}) w.push_back(ref::unhex(h)); return w; }
    for (const char* h : {"", "00", "80", "01", "81", "02", "03", "7f", "ff", "0080", "8000", "8080", "ff00", "ff7f", "ffff", "ffffff7f", "ffffffff", "0000008000", "aabb", "aabbcc", "0102030405", "10", "1f", "20", "21", "3f", "40", "05", "06", "3e", "3d", "19", "ffffffff7f"}) w.push_back(ref::unhex(h));
    return w;
}

// classification of what the property fixes for this operand tuple: 0 = result/failure fully determined and compared,
// 1 = only "must not crash" (property silent: 5-byte numeric operands, negative or >=32 shift counts, negative shift base)
static int ext_domain(uint8_t c, const std::vector<bytes>& o) {
    auto isnum4 = [](const bytes& b) { return b.size() <= 4; };
    switch (c) {
    case 0x8d: case 0x8e: return isnum4(o[0]) ? 0 : 1;
    case 0x95: case 0x96: case 0x97: {
        if (isnum4(o[0]) && isnum4(o[1])) return 0;
        // 5-byte operands are accepted by these opcodes: a product that does not fit 64 bits must be a script error, everything else the value
        return (o[0].size() <= 5 && o[1].size() <= 5) ? 2 : 1;
    }
    case 0x98: case 0x99: {
        if (o[0].size() > 5 || o[1].size() > 5) return 1;
        int64_t a = ref::num_decode(o[0]), b = ref::num_decode(o[1]);
        if (a >= 0 && b >= 0 && b < 32 && isnum4(o[0]) && isnum4(o[1])) return 0;
        // wider shifts / 5-byte values: either a script error or exactly the denoted value (a left shift whose result needs more than
        // 63 bits has no denoted value: the reference fails it); negative values shifted right are left to the implementation
        if (c == 0x99 && a < 0) return (b >= 0 && b <= 62) ? 3 : 1;   // 3: sign-preserving shift, rounding either down (two's complement) or towards zero (sign-magnitude)
        return 2;
    }
    case 0x7f: return (o[1].size() <= 2 && o[2].size() <= 2) ? 0 : 2;   // 2: must fail or give the slice (wider offsets are numerically out of range or tool-limited)
    case 0x80: case 0x81: return o[1].size() <= 2 ? 0 : 2;
    }
    return 0;
}

static void run_ext(const ExtCase& e, Violations& V, std::map<std::string, long long>& hist) {
    bytes script;
    if (!e.executed) { script.push_back(0x00); script.push_back(0x63); }
    script.push_back(e.op);
    if (!e.executed) script.push_back(0x68);
    J rj = JObj().put("engine", "mc_bounds").put("mode", "c17").put("op", int(e.op)).put("operands", impl::stack_json(e.operands)).put("allow", e.allow).put("executed", e.executed).put("flags", (long long)e.flags).j();
    note(rj.s);
    // reference
    ref::Machine m; m.sv = ref::SigVer::BASE; m.flags = e.flags; m.allow_disabled = e.allow; m.script = script; m.stack = e.operands;
    ref::Err re = ref::Err::OK; while (!m.at_end()) { re = m.step(); if (re != ref::Err::OK) break; }
    impl::Session s;
    if (!s.open(script, e.operands, e.flags, ref::SigVer::BASE, e.allow)) { V.add("c17:setup-failed", "session could not be opened", rj); return; }
    std::string ie; for (size_t i = 0; i < (e.executed ? 1u : 3u); i++) { ie = s.step(); if (ie != "") break; }
    std::string nm = ext_name(e.op);
    std::string what = std::string("OP_") + nm + " on " + impl::stack_str(e.operands) + (e.allow ? " with" : " without") + " --allow-disabled-opcodes" + (e.executed ? "" : " in an unexecuted branch");
    if (!e.allow) {
        hist["disabled"]++;
        if (ie != "DISABLED_OPCODE") V.add("c17:not-disabled:" + nm + (e.executed ? "" : ":unexecuted"), what + ": expected DISABLED_OPCODE, got " + (ie == "" ? "success" : ie), rj);
        return;
    }
    if (!e.executed) {
        hist["unexecuted-enabled"]++;
        if (ie != "" || s.stack() != e.operands) V.add("c17:unexecuted-has-effect:" + nm, what + ": must be skipped", rj);
        return;
    }
    int dom = (int)e.operands.size() < ext_arity(e.op) ? 0 : ext_domain(e.op, e.operands);
    if (dom == 1) { hist["no-crash-only"]++; return; }
    if (dom == 3) {
        hist["rshift-negative"]++;
        int64_t a = ref::num_decode(e.operands[0]), b = ref::num_decode(e.operands[1]);
        bytes down = ref::num_encode(a >> b), tozero = ref::num_encode(-((-a) >> b));
        if (ie == "" && !(s.stack().size() == 1 && (s.stack()[0] == down || s.stack()[0] == tozero)))
            V.add("c17:wrong-result:" + nm + ":negative", what + ": a right shift of a negative value is " + ref::hex(down) + " (rounding down) or " + ref::hex(tozero) + " (towards zero); the debugger gives " + impl::stack_str(s.stack()), rj);
        return;
    }
    bool ref_ok = re == ref::Err::OK;
    if (dom == 2) { hist["fail-or-denoted"]++; if (ie == "" && (!ref_ok || s.stack() != m.stack)) V.add("c17:wrong-result:" + nm, what + ": result " + impl::stack_str(s.stack()) + " is neither a script error nor the denoted value", rj); return; }
    if (!ref_ok) {
        hist["must-fail"]++;
        if (ie == "") V.add("c17:accepts-invalid-operands:" + nm, what + ": must fail with a script error, got result " + impl::stack_str(s.stack()), rj);
        return;
    }
    hist["must-compute"]++;
    if (ie != "") { V.add("c17:rejects-valid-operands:" + nm + ":" + ie, what + ": must give " + impl::stack_str(m.stack) + " but fails with " + ie, rj); return; }
    if (s.stack() != m.stack) {
        // sub-classify by operand shape so that distinct defects of one opcode get distinct keys
        std::string cls;
        if (e.op == 0x8d || e.op == 0x8e) { int64_t a = ref::num_decode(e.operands[0]); cls = a < 0 ? "negative" : (!ref::num_is_minimal(e.operands[0]) ? "nonminimal-operand" : "positive"); }
        V.add("c17:wrong-result:" + nm + (cls.empty() ? "" : ":" + cls), what + ": denotes " + impl::stack_str(m.stack) + " but the debugger gives " + impl::stack_str(s.stack()), rj);
    }
}

// =========================================================================================== C18
static bool impl_num(const bytes& v, bool req_min, size_t maxlen, int64_t& out) {
    try { CScriptNum n(v, req_min, maxlen); out = n.GetInt64(); return true; } catch (const scriptnum_error&) { return false; }
}
struct NumStats { long long strings = 0, minimal = 0, ints = 0, locktime_operands = 0; };
static void check_string(const bytes& v, size_t maxlen, Violations& V, NumStats& st) {
    st.strings++;
    int64_t want = ref::num_decode(v);
    bool min = ref::num_is_minimal(v);
    if (min) st.minimal++;
    int64_t got = 0;
    auto rj = [&]() { return JObj().put("engine", "mc_bounds").put("mode", "c18").put("string", ref::hex(v)).put("maxlen", (long long)maxlen).j(); };
    if (!impl_num(v, false, maxlen, got)) { V.add("c18:decode-rejects:len=" + std::to_string(v.size()), "decoding " + ref::hex(v) + " without minimality must succeed", rj()); return; }
    if (got != want) { V.add("c18:decode-value:len=" + std::to_string(v.size()), "decoding " + ref::hex(v) + " gives " + std::to_string(got) + ", Bitcoin assigns " + std::to_string(want), rj()); return; }
    int64_t g2 = 0;
    bool acc = impl_num(v, true, maxlen, g2);
    if (acc != min) { V.add(std::string("c18:minimality-verdict:") + (min ? "rejects-minimal" : "accepts-nonminimal") + ":len=" + std::to_string(v.size()), "minimality verdict for " + ref::hex(v) + " is wrong", rj()); return; }
    bytes re = CScriptNum::serialize(want);
    if ((re == v) != min) V.add("c18:reencode:len=" + std::to_string(v.size()), "serialize(decode(" + ref::hex(v) + ")) = " + ref::hex(re), rj());
    // one byte too long for the limit must be rejected
}
static void check_int(int64_t n, Violations& V, NumStats& st) {
    st.ints++;
    bytes want = ref::num_encode(n);
    bytes got = CScriptNum::serialize(n);
    auto rj = [&]() { return JObj().put("engine", "mc_bounds").put("mode", "c18").put("int", std::to_string(n)).j(); };
    if (got != want) { V.add("c18:encode", "serialize(" + std::to_string(n) + ") = " + ref::hex(got) + ", expected " + ref::hex(want), rj()); return; }
    if (want.size() <= 8) { int64_t back; if (!impl_num(want, true, 9, back) || back != n) V.add("c18:roundtrip", "decode(serialize(" + std::to_string(n) + ")) != n", rj()); }
    // the debugger's conversions
    Value vi((int64_t)n);
    if (vi.hex_str() != ref::hex(want)) V.add("c18:value-int-to-hex", "Value(" + std::to_string(n) + ").hex_str() = " + vi.hex_str(), rj());
    std::string dec = std::to_string(n);
    Value vd(dec.c_str());
    if (vd.type != Value::T_INT || vd.int64 != n) V.add("c18:decimal-literal", "decimal literal " + dec + " is not read as that integer", rj());
    // the literal as a script: compiled (OP_0 / OP_1NEGATE / OP_1..OP_16 / a number push) and EXECUTED it must leave the codec's encoding of n
    if (vd.type == Value::T_INT) {
        CScript cs; vd >> cs;
        bytes scr(cs.begin(), cs.end());
        impl::Session se;
        if (se.open(scr, {}, 0, ref::SigVer::BASE, false)) {
            std::string e = se.step();
            if (e != "" || se.stack().size() != 1 || se.stack()[0] != want)
                V.add("c18:literal-executed", "the literal " + dec + " compiles to " + ref::hex(scr) + " and executing it " + (e != "" ? "fails with " + e : "leaves " + impl::stack_str(se.stack())) + ", expected [" + ref::hex(want) + "]", rj());
        } else if (want.size() <= 520) V.add("c18:literal-executed", "the literal " + dec + " compiles to " + ref::hex(scr) + ", which is refused", rj());
    }
    if (want.size() <= 4) {
        std::string lit = "0x" + ref::hex(want);
        Value vh(lit.c_str());
        if (!want.empty() && (vh.type != Value::T_DATA || vh.int_value() != n)) V.add("c18:value-hex-to-int", "Value(" + lit + ").int_value() != " + dec, rj());
    }
}

int main(int argc, char** argv) {
    Args a(argc, argv);
    ECCVerifyHandle ecc;
    impl::quiet_globals();
    std::string out = a.get("out", "/dev/stdout"), tier = a.get("tier", "quick"), mode = a.get("mode", "c10");
    double t0 = now_s();
    auto sigma = alpha::sigma(true);
    Violations V; JObj res; res.put("engine", "mc_bounds").put("mode", mode).put("tier", tier);
    std::string tmp = make_tmpdir();

    if (a.has("replay")) {
        JParser p(read_file(a.get("replay"))); JVal v = p.parse(); const JVal& r = v.has("replay") ? v["replay"] : v;
        Violations V1, V2; std::string md = r["mode"].s;
        for (Violations* vv : {&V1, &V2}) {
            if (md == "c17") { ExtCase e{uint8_t(r["op"].i()), impl::stack_from_json(r["operands"]), r["allow"].b, r["executed"].b, uint32_t(r["flags"].i())}; std::map<std::string, long long> h; run_ext(e, *vv, h); }
            else if (md == "c18") { NumStats st; if (r.has("string")) check_string(ref::unhex(r["string"].s), size_t(r["maxlen"].i()), *vv, st); else check_int(atoll(r["int"].s.c_str()), *vv, st); }
            else if (md == "c10-whole") { Whole w{"replay", ref::SigVer(r["sv"].i()), uint32_t(r["flags"].i()), ref::unhex(r["script"].s), ref::unhex(r["successor"].s), {}}; long long n = 0; run_whole(w, *vv, n); }
            else { Cfg c{ref::SigVer(r["sv"].i()), uint32_t(r["flags"].i()), impl::stack_from_json(r["init"])}; Stats S; compare_script(c, ref::unhex(r["script"].s), *vv, S, vv == &V1); }
        }
        if (V1.j().s != V2.j().s) { fprintf(stderr, "NONDETERMINISTIC replay\n"); return 2; }
        for (auto& kv : V1.by_key) printf("DIVERGENCE %s: %s\n", kv.first.c_str(), kv.second.first.what.c_str());
        if (V1.by_key.empty()) printf("no divergence\n");
        rm_rf(tmp);
        return V1.by_key.empty() ? 0 : 1;
    }

    if (mode == "c10") {
        auto P = c10_prefixes(tier != "quick"); auto W = c10_wholes();
        Stats S; long long whole_sessions = 0; std::vector<std::string> samples;
        // item = (prefix, symbol) ; plus the prefix itself ; plus whole sessions
        struct It { int p; int s; };
        std::vector<It> items;
        // symbols that would only re-trigger C01's listed findings (OP_CHECKSIGADD refused; OP_SUCCESSx in tapscript) are left to C01
        auto c01_only = [&](const Prefix& p, int s) {
            bool tap = p.cfg.sv == ref::SigVer::TAPSCRIPT;
            if (tap) for (size_t pc = 0; pc < p.script.size();) { ref::Op op = ref::decode_op(p.script, pc); if (ref::is_op_success(op.code)) return true; pc = op.end; }
            if (s < 0) return false;
            uint8_t c = sigma[s].enc[0];
            if (sigma[s].enc.size() == 1 && c == 0xba) return true;
            if (tap && sigma[s].enc.size() == 1 && ref::is_op_success(c) && !sigma[s].refuse) return true;
            return false;
        };
        for (size_t i = 0; i < P.size(); i++) { if (!c01_only(P[i], -1)) items.push_back({int(i), -1}); for (size_t s = 0; s < sigma.size(); s++) if (!c01_only(P[i], int(s))) items.push_back({int(i), int(s)}); }
        size_t nprefix_items = items.size();
        for (size_t i = 0; i < W.size(); i++) items.push_back({-1, int(i)});
        parallel_for(items.size(), default_workers(), tmp, "c10",
            [&](size_t i, FILE* o) {
                Violations v; Stats s; long long ws = 0;
                if (items[i].p >= 0) {
                    const Prefix& p = P[items[i].p];
                    bytes sc = p.script; size_t nops = 0;
                    for (size_t pc = 0; pc < p.script.size();) { ref::Op op = ref::decode_op(p.script, pc); pc = op.end; nops++; }
                    if (items[i].s >= 0) sc.insert(sc.end(), sigma[items[i].s].enc.begin(), sigma[items[i].s].enc.end());
                    CmpResult r = compare_script(p.cfg, sc, v, s, false, items[i].s >= 0 ? (nops > 4 ? nops - 2 : 0) : 0);
                    s.transitions++; s.outcomes[r.outcome]++;
                    if (items[i].s >= 0 && i % 211 == 0) fprintf(o, "M\t%s + %s -> %s\n", p.name.c_str(), sigma[items[i].s].name.c_str(), r.outcome.c_str());
                } else run_whole(W[items[i].s], v, ws);
                s.dump(o); v.dump(o); fprintf(o, "W\t%lld\n", ws);
            },
            [&](size_t i, int stt, const std::string& nt) { V.add("crash:" + crash_desc(stt), "worker died (" + crash_desc(stt) + ")", J::raw(nt.empty() ? "{}" : nt)); },
            [&](const std::string& l) { if (l.empty()) return; if (l[0] == 'V') V.merge_line(l); else if (l[0] == 'M') { if (samples.size() < 10) samples.push_back(l.substr(2)); } else if (l[0] == 'W') whole_sessions += atoll(l.c_str() + 2); else S.merge_line(l); });
        res.put("prefixes", P.size()).put("symbols", sigma.size()).put("prefix_items", nprefix_items).put("whole_sessions", whole_sessions);
        res.put("transitions", S.transitions).put("sessions", S.sessions + whole_sessions);
        { JObj o; for (auto& kv : S.outcomes) o.put(kv.first, kv.second); res.put("outcomes", o.j()); }
        res.put("samples", J::strs(samples));
    } else if (mode == "c17") {
        std::vector<ExtCase> cases;
        auto Wv = W_values(tier != "quick");
        uint8_t ops[15] = {0x7e, 0x7f, 0x80, 0x81, 0x83, 0x84, 0x85, 0x86, 0x8d, 0x8e, 0x95, 0x96, 0x97, 0x98, 0x99};
        std::vector<bytes> offs; for (const char* h : {"", "01", "02", "03", "04", "05", "06", "81", "80", "0100", "ff00", "ffffff7f"}) offs.push_back(ref::unhex(h));
        for (uint8_t op : ops) {
            int ar = ext_arity(op);
            std::vector<std::vector<bytes>> tuples;
            if (ar == 1) for (auto& x : Wv) tuples.push_back({x});
            else if (ar == 2) {
                if (op == 0x80 || op == 0x81) { for (auto& x : Wv) for (auto& y : offs) tuples.push_back({x, y}); }
                else for (auto& x : Wv) for (auto& y : Wv) tuples.push_back({x, y});
            } else for (auto& x : Wv) for (auto& y : offs) for (auto& z : offs) tuples.push_back({x, y, z});
            // beyond the small values: long strings (every length class around 8/16/32/64/128/256 and the 520-byte limit), offsets
            // around 128 / 256 / the string length, mid-range numbers whose products and quotients need more than 32 bits
            {
                auto pat = [](size_t n, int seed) { bytes b(n); for (size_t i = 0; i < n; i++) b[i] = uint8_t((i * 37 + seed * 101 + (i >> 3) * 13 + (i % 7 == 3 ? 0x80 : 0)) & 0xff); if (n && seed == 2) b[n - 1] = 0x80; if (n && seed == 3) b[n - 1] = 0x00; return b; };
                std::vector<size_t> lens = {7, 8, 9, 15, 16, 17, 24, 31, 32, 33, 63, 64, 65, 100, 127, 128, 129, 130, 200, 255, 256, 257, 259, 260, 261, 300, 511, 512, 513, 519, 520};
                if (tier != "quick") for (size_t n = 5; n <= 520; n += 1) lens.push_back(n);
                auto num = [](int64_t v) { return ref::num_encode(v); };
                if (op == 0x83) for (size_t n : lens) for (int sd = 0; sd < 4; sd++) tuples.push_back({pat(n, sd)});
                if (op == 0x84 || op == 0x85 || op == 0x86) for (size_t n : lens) { tuples.push_back({pat(n, 0), pat(n, 1)}); tuples.push_back({pat(n, 2), pat(n, 3)}); tuples.push_back({pat(n, 1), bytes(n, 0xff)}); tuples.push_back({pat(n, 0), pat(n - 1, 1)}); tuples.push_back({pat(n - 1, 0), pat(n, 1)}); }
                if (op == 0x7e) {
                    for (size_t n : lens) for (size_t m : {size_t(0), size_t(1), size_t(2), size_t(127), size_t(128), size_t(255), size_t(256), size_t(260), n, 519 - std::min(n, size_t(519)), 520 - n, 521 - n})
                        if (m <= 520) { tuples.push_back({pat(n, 0), pat(m, 1)}); if (tier != "quick" || n % 2) tuples.push_back({pat(m, 2), pat(n, 3)}); }
                }
                if (op == 0x7f || op == 0x80 || op == 0x81) {
                    for (size_t n : lens) {
                        if (tier != "quick" && n > 300 && n % 16 > 2 && n < 500) continue;
                        std::vector<int64_t> os = {0, 1, 2, 126, 127, 128, 129, 130, 254, 255, 256, 257, 258, int64_t(n) - 2, int64_t(n) - 1, int64_t(n), int64_t(n) + 1, int64_t(n) / 2, -1};
                        std::sort(os.begin(), os.end()); os.erase(std::unique(os.begin(), os.end()), os.end());
                        for (int sd : {0, 2}) {
                            if (op != 0x7f) { for (int64_t o1 : os) tuples.push_back({pat(n, sd), num(o1)}); }
                            else for (int64_t o1 : os) for (int64_t o2 : os) { if (tier == "quick" && sd == 2 && (o1 + o2) % 3) continue; tuples.push_back({pat(n, sd), num(o1), num(o2)}); }
                        }
                    }
                }
                std::vector<int64_t> mids = {3, 7, 10, 100, 255, 256, 257, 1000, 0x1234, 0x7fff, 0x8000, 0xb504, 0xb505, 46340, 46341, 65535, 65536, 65537, 0x12345, 99999, 0x123456, 0x800000, 0x7fffff, 1000000, 0x1234567, 0x76543210 >> 1, 0x40000000, 0x5a827999, 1234567890, 2147483647};
                if (op == 0x95 || op == 0x96 || op == 0x97) for (int64_t a : mids) for (int64_t b : mids) for (int sg = 0; sg < 4; sg++) { if (tier == "quick" && sg && (a + b) % 2) continue; tuples.push_back({num(sg & 1 ? -a : a), num(sg & 2 ? -b : b)}); }
                if (op == 0x8d || op == 0x8e) for (int64_t a : mids) { tuples.push_back({num(a)}); tuples.push_back({num(-a)}); }
                if (op == 0x98 || op == 0x99) for (int64_t a : mids) for (int64_t sh = 0; sh <= 66; sh++) { tuples.push_back({num(a), num(sh)}); if (sh % 5 == 0) tuples.push_back({num(-a), num(sh)}); }
            }
            // too few operands
            for (int k = 0; k < ar; k++) tuples.push_back(std::vector<bytes>(k, bytes{0x01}));
            for (auto& t : tuples) {
                cases.push_back({op, t, true, true, 0});
                if (tier != "quick" || t.size() < 3) { cases.push_back({op, t, false, true, 0}); cases.push_back({op, t, true, false, 0}); cases.push_back({op, t, false, false, 0}); }
                if (tier != "quick") cases.push_back({op, t, true, true, ref::F_MINIMALDATA});
            }
        }
        std::map<std::string, long long> hist;
        parallel_for(cases.size(), default_workers(), tmp, "c17",
            [&](size_t i, FILE* o) { Violations v; std::map<std::string, long long> h; run_ext(cases[i], v, h); v.dump(o); for (auto& kv : h) fprintf(o, "H\t%s\t%lld\n", kv.first.c_str(), kv.second); },
            [&](size_t i, int stt, const std::string& nt) {
                const ExtCase& e = cases[i];
                std::string cls = (e.operands.size() >= 2 && e.operands.back().size() <= 8 && ref::num_decode(e.operands.back()) == 0) ? ":zero-divisor" : "";
                V.add(std::string("c17:crash:") + ext_name(e.op) + ":" + (WIFSIGNALED(stt) ? strsignal(WTERMSIG(stt)) : crash_desc(stt).c_str()) + ((e.op == 0x96 || e.op == 0x97) ? cls : ""),
                      std::string("OP_") + ext_name(e.op) + " on " + impl::stack_str(e.operands) + " terminates the process: " + crash_desc(stt), J::raw(nt.empty() ? "{}" : nt));
                hist["crash"]++;
            },
            [&](const std::string& l) { if (l.empty()) return; if (l[0] == 'V') V.merge_line(l); else if (l[0] == 'H') { char n[64]; long long c; sscanf(l.c_str() + 2, "%63s\t%lld", n, &c); hist[n] += c; } });
        res.put("cases", cases.size()).put("values", Wv.size());
        { JObj o; for (auto& kv : hist) o.put(kv.first, kv.second); res.put("classes", o.j()); }
        std::vector<std::string> smp; for (size_t i = 0; i < cases.size() && smp.size() < 8; i += cases.size() / 8 + 1) smp.push_back(std::string("OP_") + ext_name(cases[i].op) + " " + impl::stack_str(cases[i].operands) + (cases[i].allow ? " allow" : " disallow") + (cases[i].executed ? "" : " unexecuted"));
        res.put("samples", J::strs(smp));
    } else if (mode == "c18") {
        // strings: all of length 0..3; length 4: quick = {00,01,7f,80,ff}^3 x all top bytes, thorough = all 2^32; length 5 (maxlen 5): {00,01,7f,80,ff}^4 x all top bytes
        NumStats T; bool full4 = tier != "quick";
        int chunks = 256;   // split by top (last) byte
        auto work = [&](size_t idx, FILE* o) {
            Violations v; NumStats st; uint8_t top = uint8_t(idx);
            const uint8_t five[5] = {0x00, 0x01, 0x7f, 0x80, 0xff};
            if (idx == 0) { check_string({}, 4, v, st); }
            check_string({top}, 4, v, st);
            for (int b0 = 0; b0 < 256; b0++) check_string({uint8_t(b0), top}, 4, v, st);
            for (int b0 = 0; b0 < 256; b0++) for (int b1 = 0; b1 < 256; b1++) check_string({uint8_t(b0), uint8_t(b1), top}, 4, v, st);
            if (full4) { bytes s(4); s[3] = top; for (int b0 = 0; b0 < 256; b0++) for (int b1 = 0; b1 < 256; b1++) for (int b2 = 0; b2 < 256; b2++) { s[0] = b0; s[1] = b1; s[2] = b2; check_string(s, 4, v, st); } }
            else for (uint8_t x : five) for (uint8_t y : five) for (uint8_t z : five) check_string({x, y, z, top}, 4, v, st);
            for (uint8_t x : five) for (uint8_t y : five) for (uint8_t z : five) for (uint8_t w : five) { check_string({x, y, z, w, top}, 5, v, st); }
            // lock-time operands: the same strings of length 0..5 as the operand of CLTV / CSV through the interpreter (no transaction:
            // the outcome distinguishes overflow / negative / disabled-by-bit-31 / decoded-and-compared), with and without MINIMALDATA
            {
                std::vector<bytes> ops5; ops5.push_back({top});
                for (uint8_t x : five) { ops5.push_back({x, top}); for (uint8_t y : five) { ops5.push_back({x, y, top}); for (uint8_t z : five) { ops5.push_back({x, y, z, top}); for (uint8_t w : five) ops5.push_back({x, y, z, w, top}); } } }
                if (idx == 0) { ops5.push_back({}); ops5.push_back({1, 2, 3, 4, 5, 6}); }
                for (auto& operand : ops5) for (uint8_t opc : {uint8_t(0xb1), uint8_t(0xb2)}) for (uint32_t fl : {ref::F_CLTV | ref::F_CSV, ref::F_CLTV | ref::F_CSV | ref::F_MINIMALDATA}) {
                    Violations lv; Stats ls; Cfg c{ref::SigVer::BASE, fl, {operand}};
                    compare_script(c, bytes{opc, 0x75, 0x51}, lv, ls);
                    st.locktime_operands++;
                    for (auto& kv : lv.by_key) v.add("c18:locktime-operand:len=" + std::to_string(operand.size()) + ":" + kv.first, kv.second.first.what, J::raw(kv.second.first.replay_json));
                }
                // the same strings through the unary numeric opcodes (1ADD 1SUB NEGATE ABS NOT 0NOTEQUAL), with and without MINIMALDATA: whatever
                // the operand's spelling, the result on the stack is the minimal encoding of the value (a padded or negative-zero operand is
                // never passed through byte for byte)
                for (auto& operand : ops5) for (uint8_t opc : {uint8_t(0x8b), uint8_t(0x8c), uint8_t(0x8f), uint8_t(0x90), uint8_t(0x91), uint8_t(0x92)}) for (uint32_t fl : {0u, uint32_t(ref::F_MINIMALDATA)}) {
                    if (operand.size() > 4 && (operand[0] != 0x7f || fl)) continue;
                    Violations lv; Stats ls; Cfg c{ref::SigVer::BASE, fl, {operand}};
                    compare_script(c, bytes{opc}, lv, ls);
                    st.locktime_operands++;
                    for (auto& kv : lv.by_key) v.add("c18:unary-result:len=" + std::to_string(operand.size()) + ":" + kv.first, kv.second.first.what, J::raw(kv.second.first.replay_json));
                }
            }
            // over-long strings are rejected at either setting
            { int64_t d; bytes s5{1, 2, 3, 4, top}; if (impl_num(s5, false, 4, d)) v.add("c18:length-limit", "a 5-byte string is accepted with a 4-byte limit", JObj().put("engine", "mc_bounds").put("mode", "c18").put("string", ref::hex(s5)).put("maxlen", 4).j()); bytes s6{1, 2, 3, 4, 5, top}; if (impl_num(s6, false, 5, d)) v.add("c18:length-limit", "a 6-byte string is accepted with a 5-byte limit", JObj().put("engine", "mc_bounds").put("mode", "c18").put("string", ref::hex(s6)).put("maxlen", 5).j()); }
            // integers: [-2^16, 2^16] split over the chunks, and around every +-2^k
            for (int64_t n = -65536 + int64_t(idx) * 512; n < -65536 + int64_t(idx + 1) * 512 + (idx == 255 ? 1 : 0); n++) check_int(n, v, st);
            if (idx < 64) { int k = int(idx); for (int d = -3; d <= 3; d++) { if (k < 63) { int64_t p = (int64_t(1) << k); check_int(p + d, v, st); check_int(-p + d, v, st); } } }
            // mid-range integers, far from every power of two: three stride lattices (a decimal-rich, a just-above-2^32 and a
            // byte-pattern-rich stride) split over the chunks; decimal digit shapes; every value whose magnitude bytes are drawn from
            // {00, 01, 5a, 7f, 80, ff} (up to 6 bytes, inner 0x80 / 0xff / 0x00 bytes at every position)
            {
                int J = full4 ? 4000 : 500;
                for (int j = 0; j < J; j++) { int64_t m = int64_t(idx) + 256 * int64_t(j);
                    for (int64_t stride : {int64_t(1000003), int64_t(4294967311LL), int64_t(0x0080ff017fLL)}) {
                        __int128 w = (__int128)m * stride; if (w > (__int128)INT64_MAX) continue; check_int(int64_t(w), v, st); check_int(-int64_t(w), v, st); } }
            }
            if (idx == 65) {
                for (int len = 1; len <= 18; len++) {
                    int64_t p10 = 1; for (int i = 0; i < len; i++) p10 *= 10;
                    for (int d = -2; d <= 2; d++) { check_int(p10 + d, v, st); check_int(-p10 + d, v, st); }
                    for (int d = 1; d <= 9; d++) { int64_t r = 0; for (int i = 0; i < len; i++) r = r * 10 + d; check_int(r, v, st); check_int(-r, v, st);
                        // a run of 9s with the digit d at each position, and a run of 0s after a leading 1 with d at each position
                        int64_t q = 1; for (int pos = 0; pos < len; pos++, q *= 10) { int64_t nines = p10 - 1 - (9 - d) * q; check_int(nines, v, st); check_int(-nines, v, st); int64_t zeros = p10 + d * q; check_int(zeros, v, st); check_int(-zeros, v, st); } }
                    int64_t asc = 0; for (int i = 0; i < len; i++) asc = asc * 10 + (i + 1) % 10; check_int(asc, v, st); check_int(-asc, v, st);
                }
            }
            if (idx >= 66 && idx < 72) {
                const uint8_t six[6] = {0x00, 0x01, 0x5a, 0x7f, 0x80, 0xff};
                for (int k = 1; k <= 6; k++) { int total = 1; for (int i = 1; i < k; i++) total *= 6;
                    for (int c = 0; c < total; c++) { int64_t val = six[idx - 66]; int cc = c; for (int i = 1; i < k; i++) { val |= int64_t(six[cc % 6]) << (8 * i); cc /= 6; } check_int(val, v, st); check_int(-val, v, st); } }
            }
            if (idx == 64) { check_int(INT64_MAX, v, st); check_int(INT64_MAX - 1, v, st); check_int(INT64_MIN + 1, v, st); check_int(INT64_MIN, v, st); }
            v.dump(o); fprintf(o, "N\t%lld\t%lld\t%lld\t%lld\n", st.strings, st.minimal, st.ints, st.locktime_operands);
        };
        parallel_for(chunks, default_workers(), tmp, "c18", work,
            [&](size_t i, int stt, const std::string& nt) { V.add("c18:crash:" + crash_desc(stt), "worker died (" + crash_desc(stt) + ") in chunk " + std::to_string(i), J::raw(nt.empty() ? "{}" : nt)); },
            [&](const std::string& l) { if (l.empty()) return; if (l[0] == 'V') V.merge_line(l); else if (l[0] == 'N') { long long x, y, z, w = 0; sscanf(l.c_str() + 2, "%lld\t%lld\t%lld\t%lld", &x, &y, &z, &w); T.strings += x; T.minimal += y; T.ints += z; T.locktime_operands += w; } });
        res.put("strings", T.strings).put("minimal_strings", T.minimal).put("integers", T.ints).put("locktime_operand_sessions", T.locktime_operands).put("full_4_byte_space", full4);
        res.put("samples", J::strs({"80 -> 0, non-minimal", "ff00 -> 255, minimal", "ffffff7f -> 2147483647, minimal", "-128 -> 8080"}));
    }
    rm_rf(tmp);
    res.put("violations", V.j());
    res.put("wall_s", now_s() - t0);
    write_result(out, res);
    return 0;
}
