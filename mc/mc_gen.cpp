// mc_gen — emits synthesised spend cases with their reference session plan as JSON lines, for the
// Python drivers that work at process level (C12 listing/marker, C08 slices with --tx).
//   mc_gen plans [--tier quick|thorough]
// each line: {"label","type","tx","txin","sv","scripts":[hex..],"p2sh":bool,"commit_steps":n,"control":hex,"stack":[hex..],"valid":bool}
// The plan lists, in execution order, the scripts the debugger is specified to run for that input
// (legacy: scriptSig, scriptPubKey and - when p2sh - the redeem script = the item the scriptSig leaves on top of the stack;
//  segwit: the witness script / implied P2WPKH script; taproot key path: "<program> OP_CHECKSIG";
//  tapscript: commit_steps commitment micro-steps followed by the leaf script).
#include "sessioncmp.hpp"
#include "ref/vectors.hpp"
#include <iostream>

using namespace mc;
using namespace ref;

static void emit(const std::string& label, const Tx& fund, const Tx& tx, uint32_t flags) {
    sc::Plan P = sc::make_plan(tx, fund, -1, flags);
    if (P.refused || P.out_of_scope) return;
    std::vector<TxOut> spent(tx.vin.size()); spent[P.nin] = fund.vout[tx.vin[P.nin].prev_n];
    Err verdict = verify_input(tx, P.nin, spent, flags);
    bool valid = verdict == Err::OK;
    std::vector<std::string> scripts; for (auto& s : P.scripts) scripts.push_back(hex(s));
    if (P.p2sh) {   // redeem script = the item the scriptSig leaves on top of the stack (not "the data of its last push": OP_1NEGATE and OP_1..OP_16 push a byte too)
        Machine m; m.sv = SigVer::BASE; m.flags = flags; m.script = P.scripts[0];
        while (!m.at_end()) if (m.step() != Err::OK) break;
        scripts.push_back(hex(m.stack.empty() ? bytes{} : m.stack.back()));
    }
    bytes control; if (P.sv == SigVer::TAPSCRIPT) { auto w = tx.vin[P.nin].witness; if (P.annex_present) w.pop_back(); control = w.back(); }
    std::cout << JObj().put("label", label).put("type", P.type).put("tx", hex(ser_tx(tx))).put("txin", hex(ser_tx(fund))).put("sv", int(P.sv)).put("scripts", J::strs(scripts)).put("p2sh", P.p2sh)
        .put("commit_steps", P.commit_steps).put("control", hex(control)).put("stack", impl::stack_json(P.stack)).put("valid", valid).put("err", ref::err_name(verdict)).put("flags", (long long)flags).j().s << "\n";
}

int main(int argc, char** argv) {
    Args a(argc, argv);
    bool th = a.get("tier", "quick") != "quick";
    if (a.get("set", "") == "handover") {
        // hand-made legacy spends whose verdict depends on what one script hands to the next: a conditional opened in the scriptSig (executed
        // or not) and closed by the scriptPubKey or by the redeem script, an alt stack item carried over, and controls that are valid
        struct B { const char* name; const char* sig; const char* spk; };
        for (B b : {B{"scriptSig OP_1 OP_IF, scriptPubKey OP_ENDIF OP_1", "5163", "6851"}, B{"scriptSig OP_0 OP_IF, scriptPubKey OP_ELSE OP_7 OP_ENDIF", "0063", "675768"},
                    B{"scriptSig OP_0 OP_NOTIF OP_1, scriptPubKey OP_ENDIF", "006451", "68"}, B{"scriptSig OP_1 OP_IF OP_1 OP_ELSE, scriptPubKey OP_ENDIF", "51635167", "68"},
                    B{"scriptSig OP_1 OP_1 OP_TOALTSTACK, scriptPubKey OP_FROMALTSTACK OP_DROP", "51516b", "6c75"},
                    B{"scriptSig OP_1 OP_IF OP_1 OP_ENDIF, scriptPubKey OP_NOP", "51635168", "61"}, B{"scriptSig OP_1, scriptPubKey OP_IF OP_1 OP_ENDIF", "51", "635168"},
                    B{"scriptSig OP_1 OP_1, scriptPubKey OP_TOALTSTACK", "5151", "6b"}}) {
            gen::Shape sh; sh.nin = 2; sh.pos = 1; sh.fund_vout = 1; sh.nout = 2;
            gen::Spend S = gen::make_spend("p2pk", sh);
            S.fund.vout[1].spk = unhex(b.spk); S.tx.vin[1].prev_hash = txid(S.fund); S.tx.vin[1].script_sig = unhex(b.sig);
            for (uint32_t f : {uint32_t(F_STANDARD), uint32_t(F_STANDARD & ~F_CLEANSTACK)}) emit(std::string("handover: ") + b.name + (f == F_STANDARD ? "" : " without CLEANSTACK"), S.fund, S.tx, f);
        }
        // P2SH: the scriptSig leaves a conditional open before pushing the redeem script / the redeem script leaves one open
        for (B b : {B{"P2SH, scriptSig OP_1 OP_IF <redeem OP_ENDIF OP_1>", "5163", "6851"}, B{"P2SH, scriptSig <redeem OP_1 OP_IF>", "", "5163"}, B{"P2SH, scriptSig OP_1 <redeem OP_IF OP_1 OP_ENDIF>", "51", "635168"}}) {
            gen::Shape sh; sh.nin = 2; sh.pos = 1; sh.fund_vout = 1; sh.nout = 2;
            gen::Spend S = gen::make_spend("p2pk", sh);
            bytes redeem = unhex(b.spk); bytes h = hash160(redeem); bytes spk{0xa9, 0x14}; spk.insert(spk.end(), h.begin(), h.end()); spk.push_back(0x87);
            bytes sig = unhex(b.sig); bytes pr = push_raw(redeem); sig.insert(sig.end(), pr.begin(), pr.end());
            S.fund.vout[1].spk = spk; S.tx.vin[1].prev_hash = txid(S.fund); S.tx.vin[1].script_sig = sig;
            emit(std::string("handover: ") + b.name, S.fund, S.tx, F_STANDARD);
        }
        return 0;
    }
    for (auto& type : gen::all_types()) {
        for (int pathlen : (type == "p2tr-script" ? (th ? std::vector<int>{0, 1, 2, 3, 4, 7} : std::vector<int>{0, 1, 2, 4}) : std::vector<int>{1})) for (bool annex : (gen::is_taproot_type(type) ? std::vector<bool>{false, true} : std::vector<bool>{false})) {
            gen::Shape sh; sh.nin = gen::is_taproot_type(type) ? 1 : 2; sh.pos = sh.nin - 1; sh.fund_vout = 1; sh.nout = 2;
            gen::Spend S = gen::make_spend(type, sh, 1, pathlen, annex);
            emit(type + (type == "p2tr-script" ? " path=" + std::to_string(pathlen) : "") + (annex ? " annex" : ""), S.fund, S.tx, F_STANDARD);
        }
    }
    // signature-free witness scripts / leaves (small data items; a script of the P2SH shape, which is an ordinary script there)
    for (std::string type : {"p2wsh-checksig", "p2tr-script"}) for (std::string kind : {"data", "p2sh-shaped"}) {
        gen::Shape sh; sh.nin = gen::is_taproot_type(type) ? 1 : 2; sh.pos = sh.nin - 1; sh.fund_vout = 1; sh.nout = 2; sh.leaf_kind = kind;
        gen::Spend S = gen::make_spend(type, sh, 1, 1, false);
        emit(type + " " + kind + " script", S.fund, S.tx, F_STANDARD);
    }
    // a witness script and a tapscript leaf longer than 256 bytes (hashed in one piece by the signature hash)
    for (std::string type : {"p2wsh-checksig", "p2tr-script"}) {
        gen::Shape sh; sh.nin = gen::is_taproot_type(type) ? 1 : 2; sh.pos = sh.nin - 1; sh.fund_vout = 1; sh.nout = 2; sh.pad = 300;
        gen::Spend S = gen::make_spend(type, sh, 1, 1, false);
        emit(type + " long script", S.fund, S.tx, F_STANDARD);
    }
    // multi-signature spends whose signatures use different hash types, in both orders, in a transaction with several inputs (no precomputed
    // digests then): each check derives its own digest
    for (std::string type : {"p2wsh", "p2sh-multisig", "p2sh-p2wsh"}) for (auto hp : std::vector<std::pair<int, int>>{{1, 0x81}, {0x81, 1}, {1, 3}, {0x83, 2}}) {
        gen::Shape sh; sh.nin = 2; sh.pos = 1; sh.fund_vout = 1; sh.nout = 2; sh.ht2 = hp.second;
        gen::Spend S = gen::make_spend(type, sh, uint8_t(hp.first), 1, false);
        char nm[64]; snprintf(nm, 64, " signatures with hash types %02x,%02x", hp.first, hp.second);
        emit(type + nm, S.fund, S.tx, F_STANDARD);
    }
    // bare legacy outputs with hand-made scriptSig / scriptPubKey pairs: sections of zero, one and several operations
    {
        struct B { const char* name; const char* sig; const char* spk; };
        for (B b : {B{"empty scriptSig, scriptPubKey OP_1", "", "51"}, B{"empty scriptSig, scriptPubKey OP_1 OP_DUP OP_DROP", "", "517675"},
                    B{"scriptSig OP_1, scriptPubKey OP_NOP", "51", "61"}, B{"scriptSig 2 3, scriptPubKey OP_ADD 5 OP_EQUAL", "5253", "935587"},
                    B{"scriptSig OP_0, scriptPubKey OP_NOT", "00", "91"}, B{"empty scriptSig, scriptPubKey OP_0 (fails)", "", "00"}}) {
            gen::Shape sh; sh.nin = 2; sh.pos = 1; sh.fund_vout = 1; sh.nout = 2;
            gen::Spend S = gen::make_spend("p2pk", sh);
            S.fund.vout[1].spk = unhex(b.spk); S.tx.vin[1].prev_hash = txid(S.fund); S.tx.vin[1].script_sig = unhex(b.sig);
            emit(std::string("bare: ") + b.name, S.fund, S.tx, F_STANDARD);
        }
    }
    // P2SH outputs whose one-byte redeem script reaches the stack through a small-number opcode of the scriptSig (OP_1NEGATE pushes 0x81 =
    // OP_RIGHT) or through an ordinary push (control): the listing must show the redeem script that will run
    {
        struct B { const char* name; const char* sig; int redeem; };
        // (redeem -1: the EMPTY redeem script, which the last operation of the scriptSig - OP_0 - leaves after a non-empty push)
        for (B b : {B{"P2SH, redeem script OP_NOP pushed as data", "510161", 0x61}, B{"P2SH, redeem script 0x81 pushed by OP_1NEGATE", "02aabb514f", 0x81},
                    B{"P2SH, empty redeem script pushed by OP_0 after a non-empty push", "015100", -1}, B{"P2SH, empty redeem script pushed by OP_0 after OP_1", "5100", -1}}) {
            gen::Shape sh; sh.nin = 2; sh.pos = 1; sh.fund_vout = 1; sh.nout = 2;
            gen::Spend S = gen::make_spend("p2pk", sh);
            bytes h = hash160(b.redeem < 0 ? bytes{} : bytes{uint8_t(b.redeem)}); bytes spk{0xa9, 0x14}; spk.insert(spk.end(), h.begin(), h.end()); spk.push_back(0x87);
            S.fund.vout[1].spk = spk; S.tx.vin[1].prev_hash = txid(S.fund); S.tx.vin[1].script_sig = unhex(b.sig);
            emit(std::string("bare: ") + b.name, S.fund, S.tx, F_STANDARD);
        }
    }
    // the same P2SH spends with the P2SH rule switched off (--modify-flags=-P2SH,-CLEANSTACK,-WITNESS): the scriptPubKey is an ordinary hash
    // comparison then, no redeem script runs and the listing must not announce one; a P2PKH spend under the same flags as control
    {
        uint32_t nf = F_STANDARD & ~(F_P2SH | F_CLEANSTACK | F_WITNESS);
        for (std::string type : {"p2sh-multisig", "p2pkh"}) { gen::Shape sh; sh.nin = 2; sh.pos = 1; sh.fund_vout = 1; sh.nout = 2; gen::Spend S = gen::make_spend(type, sh, 1, 1, false); emit(type + " without the P2SH rule", S.fund, S.tx, nf); }
        struct B { const char* name; const char* sig; int redeem; };
        for (B b : {B{"P2SH-shaped output, OP_NOP pushed as data, without the P2SH rule", "510161", 0x61}, B{"P2SH-shaped output, empty item pushed by OP_0, without the P2SH rule", "5100", -1}}) {
            gen::Shape sh; sh.nin = 2; sh.pos = 1; sh.fund_vout = 1; sh.nout = 2;
            gen::Spend S = gen::make_spend("p2pk", sh);
            bytes h = hash160(b.redeem < 0 ? bytes{} : bytes{uint8_t(b.redeem)}); bytes spk{0xa9, 0x14}; spk.insert(spk.end(), h.begin(), h.end()); spk.push_back(0x87);
            S.fund.vout[1].spk = spk; S.tx.vin[1].prev_hash = txid(S.fund); S.tx.vin[1].script_sig = unhex(b.sig);
            emit(std::string("bare: ") + b.name, S.fund, S.tx, nf);
        }
    }
    for (auto& v : CHAIN_VECTORS) { Tx f, t; parse_tx(unhex(v.txin), f); parse_tx(unhex(v.tx), t); emit(std::string("chain:") + v.name, f, t, F_STANDARD); }
    return 0;
}
