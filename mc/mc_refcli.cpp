// mc_refcli — command-line front end to the reference model for the Python drivers.
// Reads one request per line on stdin, writes one JSON reply per line on stdout. Never touches the
// implementation under test (it is linked with it only because the build links every mc_* alike).
//
//   run <sv:0|1|3> <flags:uint> <allow_disabled:0|1> <script-hex|-> <stack: hex,hex,...|->   [tx-less]
//       -> {"refused":bool,"ok":bool,"err":"NAME","fail_index":n,"stack":[...],"alt":[...],"steps":[{"stack":[..],"alt":[..],"cond_size":n,"cond_first_false":k}],"nops":n,"op_success":bool}
//   decode <script-hex>  -> {"ok":bool,"ops":[{"code":n,"data":"hex"}]}
//   num_encode <int64>   -> {"hex":"..."}        num_decode <hex> -> {"value":n,"minimal":bool}
//   push <hex>           -> {"hex": minimal-form push of the bytes}
//   taproot_verify <control> <script> <program> -> {"size_ok":..,"ok":..,"leaf":"..","k":[..]}
//   hash <sha256|sha1|ripemd160|hash160|hash256> <hex> ; tagged <tag> <hex>
#include "mc/common.hpp"
#include "ref/refsession.hpp"
#include <iostream>

using namespace ref;
using mc::J; using mc::JObj;

static std::vector<std::string> split(const std::string& s, char c) { std::vector<std::string> r; std::string cur; for (char x : s) { if (x == c) { r.push_back(cur); cur.clear(); } else cur += x; } r.push_back(cur); return r; }
static J stackj(const std::vector<bytes>& s) { std::vector<std::string> v; for (auto& b : s) v.push_back(hex(b)); return J::strs(v); }

int main() {
    std::string line;
    while (std::getline(std::cin, line)) {
        auto t = split(line, ' ');
        JObj o;
        try {
            if (t[0] == "run" && t.size() >= 6) {
                SigVer sv = SigVer(atoi(t[1].c_str())); uint32_t flags = uint32_t(strtoul(t[2].c_str(), nullptr, 10)); bool ad = t[3] == "1";
                bytes script = t[4] == "-" ? bytes{} : unhex(t[4]);
                std::vector<bytes> st; if (t[5] != "-") for (auto& x : split(t[5], ',')) st.push_back(unhex(x));
                bool in_domain = true, succ = false; size_t nops = 0;
                for (size_t pc = 0; pc < script.size();) { Op op = decode_op(script, pc); if (!op.ok || op.code > 0xba || op.data.size() > MAX_ELEM) { in_domain = false; break; } if (sv == SigVer::TAPSCRIPT && is_op_success(op.code)) succ = true; nops++; pc = op.end; }
                o.put("refused", !in_domain).put("op_success", succ).put("nops", nops);
                if (in_domain) {
                    Machine m; m.sv = sv; m.flags = flags; m.allow_disabled = ad; m.script = script; m.stack = st; m.ed.weight_left = 1000000;
                    std::vector<J> steps; Err e = Err::OK; long long fi = -1; size_t i = 0;
                    if ((sv == SigVer::BASE || sv == SigVer::WITNESS_V0) && script.size() > MAX_SCRIPT) { e = Err::SCRIPT_SIZE; fi = 0; }
                    else {
                        while (!m.at_end()) {
                            e = m.step();
                            if (e != Err::OK) { fi = (long long)i; break; }
                            steps.push_back(JObj().put("stack", stackj(m.stack)).put("alt", stackj(m.alt)).put("cond_size", m.cond_size()).put("cond_first_false", (long long)m.cond_first_false()).j());
                            i++;
                        }
                        if (e == Err::OK) { e = m.finish(); if (e != Err::OK) fi = (long long)i; }
                    }
                    o.put("ok", e == Err::OK).put("err", err_name(e)).put("fail_index", fi).put("stack", stackj(m.stack)).put("alt", stackj(m.alt)).put("steps", J::arr(steps));
                }
            } else if (t[0] == "decode" && t.size() >= 2) {
                bytes s = t[1] == "-" ? bytes{} : unhex(t[1]); std::vector<J> ops; bool ok = true;
                for (size_t pc = 0; pc < s.size();) { Op op = decode_op(s, pc); if (!op.ok) { ok = false; break; } ops.push_back(JObj().put("code", int(op.code)).put("data", hex(op.data)).j()); pc = op.end; }
                o.put("ok", ok).put("ops", J::arr(ops));
            } else if (t[0] == "num_encode") { o.put("hex", hex(num_encode(atoll(t[1].c_str()))));
            } else if (t[0] == "num_decode") { bytes b = t[1] == "-" ? bytes{} : unhex(t[1]); o.put("value", (long long)num_decode(b)).put("minimal", num_is_minimal(b));
            } else if (t[0] == "push") { bytes b = t[1] == "-" ? bytes{} : unhex(t[1]); o.put("hex", hex(push_encode(b)));
            } else if (t[0] == "taproot_verify") { TapVerify v = taproot_verify(unhex(t[1]), t[2] == "-" ? bytes{} : unhex(t[2]), unhex(t[3])); std::vector<std::string> ks; for (auto& k : v.k) ks.push_back(hex(k)); o.put("size_ok", v.size_ok).put("ok", v.ok).put("leaf", hex(v.leaf)).put("k", J::strs(ks));
            } else if (t[0] == "hash") { bytes b = t[2] == "-" ? bytes{} : unhex(t[2]); bytes h = t[1] == "sha256" ? sha256(b) : t[1] == "sha1" ? sha1(b) : t[1] == "ripemd160" ? ripemd160(b) : t[1] == "hash160" ? hash160(b) : hash256(b); o.put("hex", hex(h));
            } else if (t[0] == "tagged") { bytes b = t[2] == "-" ? bytes{} : unhex(t[2]); o.put("hex", hex(tagged_hash(t[1], b)));
            } else o.put("error", "unknown request");
        } catch (const std::exception& ex) { o = JObj(); o.put("error", ex.what()); }
        std::cout << o.j().s << "\n" << std::flush;
    }
    return 0;
}
