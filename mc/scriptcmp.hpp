// Shared by mc_script and mc_bounds: stepwise comparison of one script on the real Instance against the
// reference interpreter (domain/refusal, per-step state, end-of-script verdict, ContinueScript vs stepping).
#pragma once
#include "impl.hpp"
#include "alphabet.hpp"
#include "ref/refsigenc.hpp"
#include <unordered_set>
#include <algorithm>

using namespace mc;
using ref::bytes;

struct Cfg { ref::SigVer sv; uint32_t flags; std::vector<bytes> init; };

static std::string cfg_str(const Cfg& c) { return std::string(impl::sv_name(c.sv)) + "/" + alpha::flags_str(c.flags) + "/" + impl::stack_str(c.init); }

static J replay_json(const Cfg& c, const bytes& script) {
    return JObj().put("engine", "mc_script").put("sv", int(c.sv)).put("flags", (long long)c.flags).put("init", impl::stack_json(c.init)).put("script", ref::hex(script)).j();
}

struct Stats {
    long long transitions = 0, states = 0, sessions = 0, refused = 0, failing = 0;
    std::map<std::string, long long> outcomes;      // error name -> count ("OK" for success)
    std::map<int, std::pair<long long, long long>> opstat;  // opcode -> (ok, fail) of last-symbol transitions
    void merge(const Stats& o) {
        transitions += o.transitions; states += o.states; sessions += o.sessions; refused += o.refused; failing += o.failing;
        for (auto& kv : o.outcomes) outcomes[kv.first] += kv.second;
        for (auto& kv : o.opstat) { opstat[kv.first].first += kv.second.first; opstat[kv.first].second += kv.second.second; }
    }
    void dump(FILE* f) const {
        fprintf(f, "T\t%lld\t%lld\t%lld\t%lld\t%lld\n", transitions, states, sessions, refused, failing);
        for (auto& kv : outcomes) fprintf(f, "O\t%s\t%lld\n", kv.first.c_str(), kv.second);
        for (auto& kv : opstat) fprintf(f, "P\t%d\t%lld\t%lld\n", kv.first, kv.second.first, kv.second.second);
    }
    void merge_line(const std::string& l) {
        if (l[0] == 'T') { long long a, b, c, d, e; sscanf(l.c_str() + 2, "%lld\t%lld\t%lld\t%lld\t%lld", &a, &b, &c, &d, &e); transitions += a; states += b; sessions += c; refused += d; failing += e; }
        else if (l[0] == 'O') { char n[128]; long long c; sscanf(l.c_str() + 2, "%127s\t%lld", n, &c); outcomes[n] += c; }
        else if (l[0] == 'P') { int op; long long a, b; sscanf(l.c_str() + 2, "%d\t%lld\t%lld", &op, &a, &b); opstat[op].first += a; opstat[op].second += b; }
    }
};

struct CmpResult {
    bool live = false;         // script ran to its end without error in both; may be extended
    ref::Machine m;            // reference state after the script
    std::string outcome;       // reference outcome of the last op ("OK" or error name or "REFUSED"/"OP_SUCCESS")
    int last_opcode = -1;
};

// schnorr checks without a transaction leave the error unspecified in the reference checker; C01 has no tx
static bool err_matches(ref::Err e, const std::string& impl_err, bool sigop) {
    if (impl_err == ref::err_name(e)) return true;
    if (sigop && e == ref::Err::SCHNORR_SIG) return impl_err != "";  // any failure
    return false;
}

static CmpResult compare_script(const Cfg& c, const bytes& script, Violations& V, Stats& S, bool verbose = false, size_t skip_cmp = 0) {
    CmpResult R;
    // ---- domain
    std::vector<ref::Op> ops;
    bool decodable = true, in_domain = true, has_success = false;
    for (size_t pc = 0; pc < script.size();) {
        ref::Op o = ref::decode_op(script, pc);
        if (!o.ok) { decodable = false; in_domain = false; break; }
        if (o.code > 0xba || o.data.size() > ref::MAX_ELEM) in_domain = false;
        if (c.sv == ref::SigVer::TAPSCRIPT && ref::is_op_success(o.code)) has_success = true;
        ops.push_back(o);
        pc = o.end;
    }
    if (!ops.empty()) R.last_opcode = ops.back().code;
    note(replay_json(c, script).s);
    S.sessions++;
    impl::Session sess;
    bool opened = sess.open(script, c.init, c.flags, c.sv, false);
    if (!in_domain) {
        R.outcome = "REFUSED";
        S.refused++;
        if (sess.parse_ok) {
            char k[96]; snprintf(k, 96, "accepted-out-of-domain:%s:last=0x%02x", decodable ? "opcode-or-push" : "undecodable", R.last_opcode);
            V.add(k, "script outside the domain was not refused at parse time: " + ref::hex(script) + " cfg=" + cfg_str(c), replay_json(c, script));
        }
        return R;
    }
    if (!sess.parse_ok) {
        char k[64]; snprintf(k, 64, "refused-in-domain:op=0x%02x", R.last_opcode);
        V.add(k, "in-domain script refused by parse_script: " + ref::hex(script) + " cfg=" + cfg_str(c), replay_json(c, script));
        R.outcome = "REFUSED";
        return R;
    }
    if (!opened) {
        V.add("setup-failed", "setup_environment failed for in-domain script " + ref::hex(script) + " cfg=" + cfg_str(c), replay_json(c, script));
        return R;
    }
    // ---- reference machine
    ref::Machine m;
    m.sv = c.sv; m.flags = c.flags; m.script = script; m.stack = c.init;
    m.ed.weight_init = true; m.ed.weight_left = 1000000;
    if (has_success) {
        // BIP342: a tapscript containing OP_SUCCESSx succeeds without being executed (or fails with
        // DISCOURAGE_OP_SUCCESS when that flag is set). The debugger has no such pre-scan.
        R.outcome = "OP_SUCCESS";
        bool expect_ok = !(c.flags & ref::F_DISCOURAGE_OP_SUCCESS);
        int first_succ = -1; for (auto& o : ops) if (ref::is_op_success(o.code)) { first_succ = o.code; break; }
        auto bad = [&](const std::string& impl_desc) {
            char k[96]; snprintf(k, 96, "tapscript-op-success:0x%02x:%s", first_succ, expect_ok ? "must-succeed" : "must-fail-discouraged");
            V.add(k, std::string("tapscript containing OP_SUCCESSx must ") + (expect_ok ? "succeed without executing anything" : "fail with DISCOURAGE_OP_SUCCESS before executing anything") + "; impl: " + impl_desc + " script=" + ref::hex(script) + " cfg=" + cfg_str(c), replay_json(c, script));
        };
        auto untouched = [&]() { return sess.stack() == c.init && sess.alt().empty() && sess.cond_size() == 0; };
        if (!expect_ok) {
            std::string e = sess.step();
            if (e != "DISCOURAGE_OP_SUCCESS") bad("first step reports " + (e == "" ? std::string("success") : e));
            else if (!untouched()) bad("state changed by the failing step");
            return R;
        }
        // no operation may have an effect; the verdict is success whatever the stack holds
        for (size_t i = 0; i < ops.size(); i++) {
            std::string e = sess.step();
            if (e != "") { bad("step " + std::to_string(i) + " reports " + e); return R; }
            if (!untouched()) { bad("step " + std::to_string(i) + " changed the stack, alt stack or conditional state"); return R; }
        }
        { std::string e = sess.step(); if (e != "" || !sess.inst.at_end()) { bad("verdict step reports " + (e == "" ? std::string("not done") : e)); return R; } }
        {   // run-to-completion agrees
            impl::Session s2; s2.open(script, c.init, c.flags, c.sv, false); std::string ce;
            try { if (!ContinueScript(*s2.inst.env)) ce = impl::err_name(*s2.inst.env->serror); } catch (const std::exception&) { ce = "UNKNOWN_ERROR"; }
            if (ce != "" || s2.stack() != c.init) bad("ContinueScript reports " + (ce == "" ? std::string("a changed stack") : ce));
        }
        return R;
    }
    // ---- step by step
    std::string stepped_err; int stepped_fail_index = -1;
    bool diverged = false;
    for (size_t i = 0; i < ops.size(); i++) {
        uint8_t opc = ops[i].code;
        bool sigop = opc >= ref::OP_CHECKSIG && opc <= ref::OP_CHECKSIGADD && opc != ref::OP_NOP1;
        ref::Err er = m.step();
        std::string ei = sess.step();
        if (verbose) fprintf(stderr, "  op#%zu 0x%02x ref=%s impl=%s stack ref=%s impl=%s\n", i, opc, ref::err_name(er), ei == "" ? "OK" : ei.c_str(), impl::stack_str(m.stack).c_str(), impl::stack_str(sess.stack()).c_str());
        char opk[48]; snprintf(opk, 48, "sv=%s;op=0x%02x", impl::sv_name(c.sv), opc);
        if (er != ref::Err::OK) {
            R.outcome = i + 1 == ops.size() ? std::string(ref::err_name(er)) : std::string(ref::err_name(er)) + "(before-last-op)";
            if (!err_matches(er, ei, sigop)) {
                V.add(std::string("step-outcome:") + opk + ";ref=" + ref::err_name(er) + ";impl=" + (ei == "" ? "OK" : ei),
                      "op #" + std::to_string(i) + " must fail with " + ref::err_name(er) + " but the debugger reports " + (ei == "" ? "success" : ei) + "; script=" + ref::hex(script) + " cfg=" + cfg_str(c), replay_json(c, script));
                diverged = true;
            }
            stepped_err = ei; stepped_fail_index = int(i);
            break;
        }
        if (ei != "") {
            V.add(std::string("step-outcome:") + opk + ";ref=OK;impl=" + ei,
                  "op #" + std::to_string(i) + " must succeed but the debugger reports " + ei + "; script=" + ref::hex(script) + " cfg=" + cfg_str(c), replay_json(c, script));
            stepped_err = ei; stepped_fail_index = int(i); diverged = true;
            break;
        }
        const char* kind = nullptr;
        if (i < skip_cmp) continue;   // prefix states were compared when the prefix itself was explored
        if (sess.stack() != m.stack) kind = "stack";
        else if (sess.alt() != m.alt) kind = "altstack";
        else if (sess.cond_size() != m.cond_size() || sess.cond_first_false() != m.cond_first_false()) kind = "cond";
        else if (sess.env().nOpCount != m.opcount) kind = "opcount";
        else if (sess.pc_off() != m.pc) kind = "pc";
        if (kind) {
            V.add(std::string("step-state:") + opk + ";" + kind,
                  "after op #" + std::to_string(i) + " the " + kind + " differs: ref stack=" + impl::stack_str(m.stack) + " alt=" + impl::stack_str(m.alt) + " impl stack=" + impl::stack_str(sess.stack()) + " alt=" + impl::stack_str(sess.alt()) + "; script=" + ref::hex(script) + " cfg=" + cfg_str(c), replay_json(c, script));
            diverged = true;
            break;
        }
    }
    if (diverged) return R;
    bool ref_failed = stepped_fail_index >= 0;
    std::string final_err;  // outcome of the whole session when stepped
    std::vector<bytes> final_stack;
    if (!ref_failed) {
        R.outcome = "OK";
        // end-of-script verdict
        ref::Err ef = m.finish();
        std::string ei = ops.empty() ? (ef == ref::Err::OK ? "" : "x") : sess.step();
        if (!ops.empty()) {
            if ((ef == ref::Err::OK) != (ei == "") || (ef != ref::Err::OK && ei != ref::err_name(ef))) {
                V.add(std::string("final-verdict:sv=") + impl::sv_name(c.sv) + ";ref=" + ref::err_name(ef) + ";impl=" + (ei == "" ? "OK" : ei),
                      "end-of-script verdict differs; script=" + ref::hex(script) + " cfg=" + cfg_str(c), replay_json(c, script));
                return R;
            }
            if (!sess.inst.at_end()) {
                V.add("final-verdict:not-done", "session not done after the final step; script=" + ref::hex(script), replay_json(c, script));
                return R;
            }
        }
        final_err = ef == ref::Err::OK ? "" : ref::err_name(ef);
        final_stack = m.stack;
        R.live = true;
        R.m = m;
    } else {
        final_err = stepped_err;
    }
    // ---- run-to-completion equals stepping
    if (!ops.empty()) {
        impl::Session s2;
        s2.open(script, c.init, c.flags, c.sv, false);
        std::string ce;
        try {
            if (!ContinueScript(*s2.inst.env)) ce = impl::err_name(*s2.inst.env->serror);
        } catch (const std::exception&) { ce = "UNKNOWN_ERROR"; }
        bool same = (ce == final_err) || (ref_failed && ce != "" && final_err != "" && err_matches(ref::Err::SCHNORR_SIG, ce, true) && R.outcome == "SCHNORR_SIG");
        if (same && ce == "" && s2.stack() != final_stack) same = false;
        if (!same) {
            V.add(std::string("continue-vs-step:sv=") + impl::sv_name(c.sv) + ";step=" + (final_err == "" ? "OK" : final_err) + ";continue=" + (ce == "" ? "OK" : ce),
                  "ContinueScript result differs from stepping; script=" + ref::hex(script) + " cfg=" + cfg_str(c), replay_json(c, script));
            R.live = false;
        }
    }
    return R;
}

static std::string state_key(const ref::Machine& m) {
    std::string k;
    auto put = [&](const std::vector<bytes>& s) { k += char(s.size() & 0xff); k += char(s.size() >> 8); for (auto& b : s) { k += char(b.size() & 0xff); k += char(b.size() >> 8); k.append((const char*)b.data(), b.size()); } };
    put(m.stack); k += '|'; put(m.alt); k += '|';
    for (bool b : m.cond) k += b ? 'T' : 'F';
    k += '|'; k += std::to_string(m.opcount);
    if (m.sv == ref::SigVer::TAPSCRIPT) { k += '|'; k += std::to_string(m.ed.weight_left); }
    return k;
}

