// Adaptors around the implementation under test. Only the public surface that test/ uses:
// Instance::{parse_script, parse_transaction, setup_environment, step, rewind, eval}, ContinueScript,
// and the public fields of InterpreterEnv.
#pragma once
#include <instance.h>
#include <debugger/script.h>
#include <script/script_error.h>
#include "common.hpp"
#include "ref/refscript.hpp"

namespace impl {

using ref::bytes;

inline const char* err_name(ScriptError e) {
    switch (e) {
#define E(x) case SCRIPT_ERR_##x: return #x;
    E(OK) E(UNKNOWN_ERROR) E(EVAL_FALSE) E(OP_RETURN) E(SCRIPT_SIZE) E(PUSH_SIZE) E(OP_COUNT) E(STACK_SIZE) E(SIG_COUNT)
    E(PUBKEY_COUNT) E(VERIFY) E(EQUALVERIFY) E(CHECKMULTISIGVERIFY) E(CHECKSIGVERIFY) E(NUMEQUALVERIFY) E(BAD_OPCODE)
    E(DISABLED_OPCODE) E(INVALID_STACK_OPERATION) E(INVALID_ALTSTACK_OPERATION) E(UNBALANCED_CONDITIONAL)
    E(NEGATIVE_LOCKTIME) E(UNSATISFIED_LOCKTIME) E(SIG_HASHTYPE) E(SIG_DER) E(MINIMALDATA) E(SIG_PUSHONLY) E(SIG_HIGH_S)
    E(SIG_NULLDUMMY) E(PUBKEYTYPE) E(CLEANSTACK) E(MINIMALIF) E(SIG_NULLFAIL) E(DISCOURAGE_UPGRADABLE_NOPS)
    E(DISCOURAGE_UPGRADABLE_WITNESS_PROGRAM) E(DISCOURAGE_UPGRADABLE_TAPROOT_VERSION) E(DISCOURAGE_OP_SUCCESS)
    E(DISCOURAGE_UPGRADABLE_PUBKEYTYPE) E(WITNESS_PROGRAM_WRONG_LENGTH) E(WITNESS_PROGRAM_WITNESS_EMPTY)
    E(WITNESS_PROGRAM_MISMATCH) E(WITNESS_MALLEATED) E(WITNESS_MALLEATED_P2SH) E(WITNESS_UNEXPECTED) E(WITNESS_PUBKEYTYPE)
    E(SCHNORR_SIG_SIZE) E(SCHNORR_SIG_HASHTYPE) E(SCHNORR_SIG) E(TAPROOT_WRONG_CONTROL_SIZE) E(TAPSCRIPT_VALIDATION_WEIGHT)
    E(TAPSCRIPT_CHECKMULTISIG) E(TAPSCRIPT_MINIMALIF) E(OP_CODESEPARATOR) E(SIG_FINDANDDELETE)
#undef E
    default: return "?";
    }
}

inline SigVersion to_impl(ref::SigVer sv) {
    switch (sv) {
    case ref::SigVer::BASE: return SigVersion::BASE;
    case ref::SigVer::WITNESS_V0: return SigVersion::WITNESS_V0;
    case ref::SigVer::TAPROOT: return SigVersion::TAPROOT;
    default: return SigVersion::TAPSCRIPT;
    }
}
inline const char* sv_name(ref::SigVer sv) {
    switch (sv) {
    case ref::SigVer::BASE: return "BASE";
    case ref::SigVer::WITNESS_V0: return "WITNESS_V0";
    case ref::SigVer::TAPROOT: return "TAPROOT";
    default: return "TAPSCRIPT";
    }
}

inline void quiet_globals() {
    btc_logf = btc_logf_dummy;
    btc_sighash_logf = btc_logf_dummy;
    btc_sign_logf = btc_logf_dummy;
    btc_segwit_logf = btc_logf_dummy;
    btc_taproot_logf = btc_logf_dummy;
    btcdeb_verbose = false;
}

// one debugging session on the real code
struct Session {
    Instance inst;
    bool parse_ok = false, setup_ok = false;

    // explicit-mode session: script bytes + stack + flags + sigversion (+ optional "amt:txhex")
    bool open(const bytes& script, const std::vector<bytes>& stack, uint32_t flags, ref::SigVer sv, bool allow_disabled,
              const char* tx = nullptr, int64_t weight_left = 1000000) {
        quiet_globals();
        if (tx) { if (!inst.parse_transaction(tx, true)) return false; }
        parse_ok = inst.parse_script(script);
        if (!parse_ok) return false;
        inst.stack = stack;
        inst.sigver = to_impl(sv);
        if (sv == ref::SigVer::TAPSCRIPT) {
            inst.execdata.m_validation_weight_left_init = true;
            inst.execdata.m_validation_weight_left = weight_left;
            inst.execdata.m_tapleaf_hash_init = true;
            inst.execdata.m_annex_init = true;
            inst.execdata.m_annex_present = false;
        }
        setup_ok = inst.setup_environment(flags);
        if (!setup_ok) return false;
        inst.env->allow_disabled_opcodes = allow_disabled;
        return true;
    }
    InterpreterEnv& env() { return *inst.env; }
    // step; returns "" on success, else the error name ("UNKNOWN_ERROR" for C++ exceptions the tool converts)
    std::string step() {
        if (inst.step()) return "";
        if (inst.exception_string != "") return "UNKNOWN_ERROR";
        if (inst.env->done && *inst.env->serror == SCRIPT_ERR_OK) return "ALREADY_DONE";
        return err_name(*inst.env->serror);
    }
    std::vector<bytes> stack() { return inst.env->stack; }
    std::vector<bytes> alt() { return inst.env->altstack; }
    size_t cond_size() { return inst.env->vfExec.size(); }
    int64_t cond_first_false() { auto& v = inst.env->vfExec; for (size_t i = 0; i < v.size(); i++) if (!v.at(i)) return int64_t(i); return -1; }
    size_t pc_off() { return inst.env->pc - inst.env->script.begin(); }
};

inline std::string stack_str(const std::vector<bytes>& s) {
    std::string r = "[";
    for (size_t i = 0; i < s.size(); i++) { if (i) r += " "; r += s[i].empty() ? "\"\"" : (s[i].size() > 40 ? ref::hex(bytes(s[i].begin(), s[i].begin() + 8)) + "..(" + std::to_string(s[i].size()) + ")" : ref::hex(s[i])); }
    return r + "]";
}
inline mc::J stack_json(const std::vector<bytes>& s) { std::vector<std::string> v; for (auto& b : s) v.push_back(ref::hex(b)); return mc::J::strs(v); }
inline std::vector<bytes> stack_from_json(const mc::JVal& v) { std::vector<bytes> s; for (auto& x : v.a) s.push_back(ref::unhex(x.s)); return s; }

}  // namespace impl
