// mc_sig — C02 (signature opcodes accept exactly the valid signatures) and C11 (mock signatures affect
// exactly the listed pairs). Shape I x S: products of small explicit alphabets (transaction shape, input
// index, amount, sigversion, all 256 hash-type bytes, script templates with code separators / multisig /
// FindAndDelete, annex, encoding classes x all 2^8 encoding-flag subsets, every single-bit corruption),
// every element executed step by step on the real Instance against the reference interpreter whose
// SigChecker is backed by the independent digest + EC implementation.
#include "sessioncmp.hpp"
#include <unordered_set>

using namespace mc;
using namespace ref;

// ------------------------------------------------------------------------------------------- explicit-mode context
struct Ctx {
    Tx tx, fund; int k = 0; int64_t amount = 0; SigVer sv = SigVer::BASE;
    std::string label;
};
static Ctx make_ctx(int nin, int nout, int k, int64_t amount, SigVer sv, int32_t version = 2, uint32_t locktime = 0, uint32_t seq = 0xfffffffe) {
    gen::Shape sh; sh.nin = nin; sh.nout = nout; sh.pos = k; sh.fund_vout = 1; sh.amount = amount; sh.version = version; sh.locktime = locktime;
    sh.sequences.assign(nin, 0xfffffffe); sh.sequences[k] = seq; if (nin > 1) sh.sequences[(k + 1) % nin] = 7;
    Ctx c; c.fund = gen::base_fund(sh, unhex("51")); c.tx = gen::base_spend(sh, c.fund); c.k = k; c.amount = amount; c.sv = sv;
    if (sv == SigVer::WITNESS_V0) c.tx.vin[k].witness = {bytes{1}};   // the tool selects BIP143 when the transaction carries a witness
    char b[160]; snprintf(b, 160, "%s nin=%d nout=%d idx=%d amt=%lld ver=%d lt=%u seq=%x", impl::sv_name(sv), nin, nout, k, (long long)amount, version, locktime, seq);
    c.label = b;
    return c;
}
static std::string amounts_prefix(const Ctx& c) {
    std::string s;
    for (size_t i = 0; i < c.tx.vin.size(); i++) {
        int64_t a = int(i) == c.k ? c.amount : 0;
        char b[64]; snprintf(b, 64, "%lld.%08lld", (long long)(a / 100000000), (long long)(a % 100000000));
        s += b; s += i + 1 < c.tx.vin.size() ? "," : ":";
    }
    return s;
}

struct Stats2 { long long sessions = 0, steps = 0, sig_accept = 0, sig_reject = 0; std::map<std::string, long long> outcomes;
    void dump(FILE* f) const { fprintf(f, "T\t%lld\t%lld\t%lld\t%lld\n", sessions, steps, sig_accept, sig_reject); for (auto& kv : outcomes) fprintf(f, "O\t%s\t%lld\n", kv.first.c_str(), kv.second); }
    void merge_line(const std::string& l) { if (l[0] == 'T') { long long a, b, c, d; sscanf(l.c_str() + 2, "%lld\t%lld\t%lld\t%lld", &a, &b, &c, &d); sessions += a; steps += b; sig_accept += c; sig_reject += d; } else { char n[200]; long long c; if (sscanf(l.c_str() + 2, "%199[^\t]\t%lld", n, &c) == 2) outcomes[n] += c; } }
};

static J explicit_json(const Ctx& c, const bytes& script, const std::vector<bytes>& stack, uint32_t flags, const std::string& label, const std::vector<std::pair<bytes, bytes>>& mocks = {}) {
    std::vector<J> mk; for (auto& m : mocks) mk.push_back(J::strs({hex(m.first), hex(m.second)}));
    return JObj().put("engine", "mc_sig").put("mode", "explicit").put("tx", hex(ser_tx(c.tx))).put("txin", hex(ser_tx(c.fund))).put("k", c.k).put("amount", (long long)c.amount).put("sv", int(c.sv))
        .put("script", hex(script)).put("stack", impl::stack_json(stack)).put("flags", (long long)flags).put("label", label).put("mocks", J::arr(mk)).j();
}

// explicit-mode session mirroring main(): --tx=<amounts>:<hex> --txin=<hex> --select=k '<script>' <stack...> [--pretend-valid=..]
struct Explicit {
    Instance inst; bool ok = false;
    bool open(const Ctx& c, const bytes& script, const std::vector<bytes>& stack, uint32_t flags, const std::vector<std::pair<bytes, bytes>>& mocks, bool with_tx = true) {
        impl::quiet_globals();
        try {
            if (with_tx) {
                std::string t = amounts_prefix(c) + hex(ser_tx(c.tx));
                if (!inst.parse_transaction(t.c_str(), true)) return false;
                if (!inst.parse_input_transaction(hex(ser_tx(c.fund)).c_str(), c.k)) return false;
            } else if (c.sv == SigVer::WITNESS_V0) inst.sigver = SigVersion::WITNESS_V0;
            if (!mocks.empty()) { std::string e; for (size_t i = 0; i < mocks.size(); i++) { if (i) e += ","; e += "0x" + hex(mocks[i].first) + ":0x" + hex(mocks[i].second); } if (!inst.parse_pretend_valid_expr(e.c_str())) return false; }
            if (!inst.parse_script(script)) return false;
            inst.stack = stack;
            if (!inst.setup_environment(flags)) return false;
        } catch (const std::exception&) { return false; }
        ok = true; return true;
    }
    std::string step() { if (inst.step()) return ""; if (inst.exception_string != "") return "UNKNOWN_ERROR"; return impl::err_name(*inst.env->serror); }
};

// runs script on both sides; returns reference outcome ("OK" or error name of the failing op)
static std::string compare_explicit(const Ctx& c, const bytes& script, const std::vector<bytes>& stack, uint32_t flags, const std::string& label, const std::string& klass,
                                    Violations& V, Stats2& S, const std::vector<std::pair<bytes, bytes>>& mocks = {}, bool with_tx = true, bool verbose = false, const char* prop = "c02") {
    J rj = explicit_json(c, script, stack, flags, label, mocks);
    note(rj.s);
    S.sessions++;
    auto rep = [&](const std::string& key, const std::string& what) { V.add(key, what + " [" + label + " | " + c.label + " flags=" + alpha::flags_str(flags) + "]", rj); };
    Explicit E;
    if (!E.open(c, script, stack, flags, mocks, with_tx)) { rep(std::string(prop) + ":setup-failed:" + klass, "the explicit session could not be opened"); return "SETUP"; }
    if (with_tx && E.inst.env->sigversion != impl::to_impl(c.sv)) { rep(std::string(prop) + ":sigversion:" + klass, "sigversion chosen by the tool differs"); return "SETUP"; }
    TxChecker ck(c.tx, size_t(c.k), c.amount);
    Machine m; m.sv = c.sv; m.flags = flags; m.script = script; m.stack = stack; m.checker = with_tx ? &ck : nullptr; m.mock_pairs = mocks;
    size_t i = 0; std::string outcome = "OK";
    while (!m.at_end()) {
        Op o = decode_op(script, m.pc);
        bool sigop = o.code >= 0xac && o.code <= 0xaf;
        size_t before = m.stack.size();
        Err re = m.step(); std::string ie = E.step(); S.steps++;
        if (verbose) fprintf(stderr, "  op#%zu 0x%02x ref=%s impl=%s\n", i, o.code, err_name(re), ie == "" ? "OK" : ie.c_str());
        char opk[96]; snprintf(opk, 96, "%s;op=0x%02x;%s", impl::sv_name(c.sv), o.code, klass.c_str());
        if (re != Err::OK) {
            outcome = err_name(re);
            if (ie != err_name(re)) { rep(std::string(prop) + ":step-outcome:" + opk + ";ref=" + err_name(re) + ";impl=" + (ie == "" ? "OK" : ie), std::string("op #") + std::to_string(i) + ": reference " + err_name(re) + ", debugger " + (ie == "" ? "OK" : ie)); return "DIVERGED"; }
            if (sigop) S.sig_reject++;
            S.outcomes[outcome]++;
            return outcome;
        }
        if (ie != "") { rep(std::string(prop) + ":step-outcome:" + opk + ";ref=OK;impl=" + ie, std::string("op #") + std::to_string(i) + " must succeed, debugger reports " + ie); return "DIVERGED"; }
        if (E.inst.env->stack != m.stack) {
            bool refacc = !m.stack.empty() && cast_to_bool(m.stack.back());
            rep(std::string(prop) + ":step-state:" + opk + (sigop ? (refacc ? ";valid-signature-rejected" : ";invalid-signature-accepted") : ";stack"), std::string("after op #") + std::to_string(i) + ": reference stack " + impl::stack_str(m.stack) + ", debugger " + impl::stack_str(E.inst.env->stack));
            return "DIVERGED";
        }
        if (sigop) { if (!m.stack.empty() && cast_to_bool(m.stack.back())) S.sig_accept++; else if (o.code == 0xad || o.code == 0xaf) S.sig_accept++; else S.sig_reject++; }
        (void)before;
        i++;
    }
    S.outcomes["OK"]++;
    return "OK";
}

// ------------------------------------------------------------------------------------------- templates (ECDSA)
// scriptCode recorder: pass 1 of template instantiation
struct RecordChecker : SigChecker {
    std::vector<bytes> codes;  // one per sigop execution (CHECKSIG: one call; CHECKMULTISIG: first call of the op)
    size_t last_pc = size_t(-1); Machine* m = nullptr;
    bool check_ecdsa(const bytes&, const bytes&, const bytes& script_code, SigVer) override { if (m->pc != last_pc) { codes.push_back(script_code); last_pc = m->pc; } return true; }
};

struct Slot { int key; int sigop; };   // which key signs, for which sigop ordinal
struct Tmpl {
    std::string name;
    std::function<bytes(const std::vector<gen::Key>&, const std::vector<bytes>& sigs)> script;   // may embed sigs (FindAndDelete)
    std::function<std::vector<bytes>(const std::vector<bytes>& sigs)> stack;
    std::vector<Slot> slots;
};
static bytes P(const bytes& d) { return push_raw(d); }
static bytes C(std::initializer_list<bytes> l) { return gen::script_cat(l); }
static bytes O(uint8_t c) { return bytes{c}; }

static std::vector<Tmpl> ecdsa_templates() {
    std::vector<Tmpl> T;
    auto one = [](const std::vector<bytes>& s) { return std::vector<bytes>{s[0]}; };
    T.push_back({"CHECKSIG", [](auto& k, auto&) { return C({P(k[0].pub), O(0xac)}); }, one, {{0, 0}}});
    T.push_back({"CHECKSIGVERIFY", [](auto& k, auto&) { return C({P(k[0].pub), O(0xad), O(0x51)}); }, one, {{0, 0}}});
    T.push_back({"CODESEP CHECKSIG", [](auto& k, auto&) { return C({O(0xab), P(k[0].pub), O(0xac)}); }, one, {{0, 0}}});
    T.push_back({"NOP CODESEP CHECKSIG", [](auto& k, auto&) { return C({O(0x61), O(0xab), P(k[0].pub), O(0xac)}); }, one, {{0, 0}}});
    T.push_back({"0 IF CODESEP ENDIF CHECKSIG", [](auto& k, auto&) { return C({O(0x00), O(0x63), O(0xab), O(0x68), P(k[0].pub), O(0xac)}); }, one, {{0, 0}}});
    T.push_back({"1 IF CODESEP ENDIF CHECKSIG", [](auto& k, auto&) { return C({O(0x51), O(0x63), O(0xab), O(0x68), P(k[0].pub), O(0xac)}); }, one, {{0, 0}}});
    T.push_back({"CODESEP NOP CODESEP CHECKSIG", [](auto& k, auto&) { return C({O(0xab), O(0x61), O(0xab), P(k[0].pub), O(0xac)}); }, one, {{0, 0}}});
    T.push_back({"CHECKSIGVERIFY CODESEP CHECKSIG (two digests)", [](auto& k, auto&) { return C({P(k[0].pub), O(0xad), O(0xab), P(k[1].pub), O(0xac)}); }, [](auto& s) { return std::vector<bytes>{s[1], s[0]}; }, {{0, 0}, {1, 1}}});
    T.push_back({"1-of-1 multisig", [](auto& k, auto&) { return C({O(0x51), P(k[0].pub), O(0x51), O(0xae)}); }, [](auto& s) { return std::vector<bytes>{{}, s[0]}; }, {{0, 0}}});
    T.push_back({"1-of-2 multisig, second key signs", [](auto& k, auto&) { return C({O(0x51), P(k[0].pub), P(k[1].pub), O(0x52), O(0xae)}); }, [](auto& s) { return std::vector<bytes>{{}, s[0]}; }, {{1, 0}}});
    T.push_back({"2-of-2 multisig", [](auto& k, auto&) { return C({O(0x52), P(k[0].pub), P(k[1].pub), O(0x52), O(0xae)}); }, [](auto& s) { return std::vector<bytes>{{}, s[0], s[1]}; }, {{0, 0}, {1, 0}}});
    T.push_back({"2-of-2 multisig, signatures in the wrong order", [](auto& k, auto&) { return C({O(0x52), P(k[0].pub), P(k[1].pub), O(0x52), O(0xae)}); }, [](auto& s) { return std::vector<bytes>{{}, s[1], s[0]}; }, {{0, 0}, {1, 0}}});
    T.push_back({"2-of-3 multisig keys 1,3", [](auto& k, auto&) { return C({O(0x52), P(k[0].pub), P(k[1].pub), P(k[2].pub), O(0x53), O(0xae)}); }, [](auto& s) { return std::vector<bytes>{{}, s[0], s[1]}; }, {{0, 0}, {2, 0}}});
    T.push_back({"2-of-3 multisig keys 2,3", [](auto& k, auto&) { return C({O(0x52), P(k[0].pub), P(k[1].pub), P(k[2].pub), O(0x53), O(0xae)}); }, [](auto& s) { return std::vector<bytes>{{}, s[0], s[1]}; }, {{1, 0}, {2, 0}}});
    T.push_back({"2-of-3 multisig keys 3,1 (wrong order)", [](auto& k, auto&) { return C({O(0x52), P(k[0].pub), P(k[1].pub), P(k[2].pub), O(0x53), O(0xae)}); }, [](auto& s) { return std::vector<bytes>{{}, s[0], s[1]}; }, {{2, 0}, {0, 0}}});
    T.push_back({"2-of-3 multisig, one signature missing", [](auto& k, auto&) { return C({O(0x52), P(k[0].pub), P(k[1].pub), P(k[2].pub), O(0x53), O(0xae)}); }, [](auto& s) { return std::vector<bytes>{{}, s[0]}; }, {{0, 0}}});
    T.push_back({"1-of-2 multisig, extra signature", [](auto& k, auto&) { return C({O(0x51), P(k[0].pub), P(k[1].pub), O(0x52), O(0xae)}); }, [](auto& s) { return std::vector<bytes>{{}, s[0], s[1]}; }, {{0, 0}, {1, 0}}});
    T.push_back({"2-of-3 CHECKMULTISIGVERIFY", [](auto& k, auto&) { return C({O(0x52), P(k[0].pub), P(k[1].pub), P(k[2].pub), O(0x53), O(0xaf), O(0x51)}); }, [](auto& s) { return std::vector<bytes>{{}, s[0], s[1]}; }, {{0, 0}, {1, 0}}});
    T.push_back({"scriptCode contains the signature push (FindAndDelete)", [](auto& k, auto& s) { return C({P(s[0]), O(0x75), P(k[0].pub), O(0xac)}); }, one, {{0, 0}}});
    T.push_back({"multisig scriptCode contains a signature push (FindAndDelete)", [](auto& k, auto& s) { return C({P(s[1]), O(0x75), O(0x52), P(k[0].pub), P(k[1].pub), O(0x52), O(0xae)}); }, [](auto& s) { return std::vector<bytes>{{}, s[0], s[1]}; }, {{0, 0}, {1, 0}}});
    // occurrences at the very end of the script code and in the middle (the match loop's end condition), and two adjacent ones
    T.push_back({"scriptCode ends with the signature push (FindAndDelete at the end)", [](auto& k, auto& s) { return C({P(k[0].pub), O(0xac), O(0x69), P(s[0])}); }, one, {{0, 0}}});
    T.push_back({"scriptCode ends with two signature pushes (FindAndDelete)", [](auto& k, auto& s) { return C({P(k[0].pub), O(0xac), O(0x69), P(s[0]), P(s[0])}); }, one, {{0, 0}}});
    T.push_back({"signature push in the middle and at the end (FindAndDelete)", [](auto& k, auto& s) { return C({P(k[0].pub), O(0xac), O(0x69), P(s[0]), O(0x75), O(0x51), O(0x69), P(s[0])}); }, one, {{0, 0}}});
    T.push_back({"multisig scriptCode ends with a signature push (FindAndDelete)", [](auto& k, auto& s) { return C({O(0x52), P(k[0].pub), P(k[1].pub), O(0x52), O(0xae), O(0x69), P(s[0])}); }, [](auto& s) { return std::vector<bytes>{{}, s[0], s[1]}; }, {{0, 0}, {1, 0}}});
    return T;
}

struct Inst { bytes script; std::vector<bytes> stack; std::vector<bytes> digests; std::vector<bytes> sigs; };
// instantiate a template in a context: pass 1 records the scriptCode of every sigop, then the slots are signed
static Inst instantiate(const Tmpl& t, const Ctx& c, const std::vector<gen::Key>& keys, const std::vector<uint8_t>& hts) {
    Inst I;
    std::vector<bytes> ph; for (size_t i = 0; i < t.slots.size(); i++) ph.push_back(bytes(71, uint8_t(0xa0 + i)));
    bytes s1 = t.script(keys, ph);
    RecordChecker rc; Machine m; rc.m = &m; m.sv = c.sv; m.flags = 0; m.script = s1; m.stack = t.stack(ph); m.checker = &rc;
    while (!m.at_end()) if (m.step() != Err::OK) break;
    for (size_t i = 0; i < t.slots.size(); i++) {
        bytes code = t.slots[i].sigop < (int)rc.codes.size() ? rc.codes[t.slots[i].sigop] : s1;
        uint8_t ht = hts[i % hts.size()];
        bytes d = c.sv == SigVer::WITNESS_V0 ? sighash_bip143(c.tx, c.k, code, c.amount, ht) : sighash_legacy(c.tx, c.k, code, ht);
        I.digests.push_back(d);
        I.sigs.push_back(gen::sign_ecdsa(keys[t.slots[i].key], d, ht));
    }
    I.script = t.script(keys, I.sigs); I.stack = t.stack(I.sigs);
    return I;
}

// runs one explicit session in a fresh process (this binary re-executed with --replay): the session is then the FIRST thing the process does
// with the interpreter - as in the command-line tools, which start a process per run - whereas the engine otherwise runs thousands of
// sessions per worker process (a fork would inherit the worker's function-local statics, lazily built globals and caches; both situations
// are covered). The replay runs the session twice in that process: a difference between the two runs is reported as well.
static void in_fresh_process(const Ctx& c, const bytes& script, const std::vector<bytes>& stack, uint32_t flags, const std::string& label, const std::string& klass, Violations& V, Stats2& S) {
    J rj = explicit_json(c, script, stack, flags, label);
    char path[] = "/tmp/mc_sig_fresh_XXXXXX"; int fd = mkstemp(path); if (fd < 0) return;
    { std::string js = rj.s; ssize_t w = write(fd, js.data(), js.size()); (void)w; close(fd); }
    static std::string self; if (self.empty()) { char b[4096]; ssize_t n = readlink("/proc/self/exe", b, sizeof b - 1); if (n <= 0) return; b[n] = 0; self = b; }
    std::string cmd = "'" + self + "' --replay " + path + " 2>/dev/null";
    FILE* p = popen(cmd.c_str(), "r"); std::string out; if (p) { char buf[4096]; size_t n; while ((n = fread(buf, 1, sizeof buf, p)) > 0) out.append(buf, n); }
    int st = p ? pclose(p) : -1; unlink(path);
    S.sessions++;
    int rc = WIFEXITED(st) ? WEXITSTATUS(st) : -1;
    if (rc == 0) return;
    if (rc == 2) { V.add("c02:fresh-process:second-run-differs:" + klass, "in a fresh process the session gives one result the first time and another the second time [" + label + "]", rj); return; }
    if (rc != 1) { V.add("c02:fresh-process:died:" + klass, "the fresh process ended abnormally (status " + std::to_string(st) + ") [" + label + "]", rj); return; }
    size_t pos = out.find("DIVERGENCE "); std::string what = pos == std::string::npos ? out : out.substr(pos + 11, out.find('\n', pos) - pos - 11);
    // the key of the divergence with the replay's class replaced by ours
    std::string key = what.substr(0, what.find(": "));
    size_t r = key.find("replay"); if (r != std::string::npos) key.replace(r, 6, klass);
    V.add("fresh-process:" + key, "as the first session of a process: " + what + " [" + label + "]", rj);
}

// ---- C04 over sessions with real signatures: a session whose signature checks pass only with the right script code / digest (code separators
// between checks) is stepped to every depth M and from there rewound step by step to the start; after each rewind the session is continued
// to the end: stack trace and final stack are those of the uninterrupted run (a cache of anything derived from the position - script code,
// digests - that a rewind does not invalidate shows here and nowhere else, because dummy signatures fail whatever they are checked against)
static void rewind_roundtrip(const Ctx& c, const bytes& script, const std::vector<bytes>& stack, uint32_t flags, const std::string& label, const std::string& klass, Violations& V, Stats2& S) {
    J rj = explicit_json(c, script, stack, flags, label);
    { size_t m = rj.s.find("\"mode\":\"explicit\""); if (m != std::string::npos) rj.s.replace(m, 17, "\"mode\":\"c04sig\""); }
    note(rj.s);
    auto rep = [&](const std::string& key, const std::string& what) { V.add(key, what + " [" + label + " | " + c.label + " flags=" + alpha::flags_str(flags) + "]", rj); };
    // the uninterrupted run
    std::vector<std::vector<bytes>> trace; std::string ferr;
    { Explicit E; if (!E.open(c, script, stack, flags, {}, true)) return; trace.push_back(E.inst.env->stack);
      while (!E.inst.at_end()) { std::string e = E.step(); if (e != "") { ferr = e; break; } trace.push_back(E.inst.env->stack); if (trace.size() > 2000) return; } }
    if (ferr != "") return;   // sessions with a failing step are outside C04's quantifier
    int N = int(trace.size()) - 1;
    S.sessions++;
    for (int M = 1; M <= N; M++) for (int R = 1; R <= M; R++) {
        Explicit E; if (!E.open(c, script, stack, flags, {}, true)) return;
        for (int i = 0; i < M; i++) E.step();
        int done = 0; for (; done < R; done++) if (!E.inst.rewind()) break;
        S.steps += M + done;
        if (E.inst.env->stack != trace[M - done]) { rep("c04:signed-session:rewind-state:" + klass, "after " + std::to_string(M) + " steps and " + std::to_string(done) + " rewinds the stack is " + impl::stack_str(E.inst.env->stack) + ", a fresh session after " + std::to_string(M - done) + " steps has " + impl::stack_str(trace[M - done])); return; }
        int at = M - done; std::string e;
        while (!E.inst.at_end() && at < N + 2) { e = E.step(); if (e != "") break; at++; if (at <= N && E.inst.env->stack != trace[at]) { rep("c04:signed-session:continuation-state:" + klass, "after " + std::to_string(M) + " steps, " + std::to_string(done) + " rewinds and continuing to step " + std::to_string(at) + " the stack is " + impl::stack_str(E.inst.env->stack) + ", the uninterrupted run has " + impl::stack_str(trace[at])); return; } }
        if (e != "" || at != N) { rep("c04:signed-session:continuation-outcome:" + klass, "after " + std::to_string(M) + " steps and " + std::to_string(done) + " rewinds the continued session " + (e != "" ? "fails with " + e + " at step " + std::to_string(at + 1) : "ends after " + std::to_string(at) + " steps") + "; the uninterrupted run succeeds in " + std::to_string(N) + " steps"); return; }
    }
}
static void gen_c04sig(const std::string& tier, std::vector<struct Work>& W);

// ------------------------------------------------------------------------------------------- work items
struct Work { std::function<void(Violations&, Stats2&)> run; std::string label; };

static void gen_c04sig(const std::string& tier, std::vector<Work>& W) {
    bool th = tier != "quick";
    std::vector<gen::Key> keys = {gen::make_key(1), gen::make_key(2), gen::make_key(3)};
    auto T = ecdsa_templates();
    for (size_t ti = 0; ti < T.size(); ti++) for (SigVer sv : {SigVer::BASE, SigVer::WITNESS_V0}) for (auto sh : std::vector<std::array<int, 3>>{{1, 1, 0}, {2, 3, 1}}) {
        if (!th && sh[0] == 2 && T[ti].slots.size() < 2) continue;
        Ctx c = make_ctx(sh[0], sh[1], sh[2], 123456789, sv);
        W.push_back({[=](Violations& V, Stats2& S) {
            auto T2 = ecdsa_templates();
            for (uint8_t ht : std::vector<uint8_t>{1, 0x83}) for (uint32_t fl : std::vector<uint32_t>{0u, F_STANDARD & ~F_CONST_SCRIPTCODE}) {
                Inst I = instantiate(T2[ti], c, keys, {ht});
                rewind_roundtrip(c, I.script, I.stack, fl, T2[ti].name + " hashtype=" + std::to_string(ht), T2[ti].name, V, S);
            }
            // two checks around a code separator where the FIRST check fails (its signature is the second one's): false goes to the alt stack,
            // the second check passes - rewinding across the separator must bring back the first check's own script code
            if (T2[ti].slots.size() == 1) {
                Inst I = instantiate(T2[ti], c, keys, {1});
                bytes pre = C({P(I.stack.back()), P(keys[0].pub), O(0xac), O(0x6b), O(0xab)});   // <sig> <key0> CHECKSIG TOALTSTACK CODESEPARATOR, then the template
                bytes sc2 = pre; sc2.insert(sc2.end(), I.script.begin(), I.script.end());
                // the template's signature was made for the script code of the template alone, which is what follows the separator
                rewind_roundtrip(c, sc2, I.stack, F_STANDARD & ~(F_CONST_SCRIPTCODE | F_NULLFAIL), T2[ti].name + " after <sig> <key> CHECKSIG TOALTSTACK CODESEPARATOR", "prefixed:" + T2[ti].name, V, S);
            }
        }, "signed rewinds " + T[ti].name});
    }
}

static void gen_c02_ecdsa(const std::string& tier, std::vector<Work>& W) {
    bool th = tier != "quick";
    std::vector<gen::Key> keys = {gen::make_key(1), gen::make_key(2), gen::make_key(3)};
    auto T = ecdsa_templates();
    // (0) lengths across the one-byte compact-size boundary inside the digests: script codes of every length 240..270 (whole script, and the
    //     part after a code separator), and transactions with 252 / 253 / 254 inputs or outputs, signing input 0 / 252 / the last
    for (SigVer sv : {SigVer::BASE, SigVer::WITNESS_V0}) {
        W.push_back({[=](Violations& V, Stats2& S) {
            Ctx c = make_ctx(2, 2, 1, 123456789, sv);
            auto one = [](const std::vector<bytes>& s) { return std::vector<bytes>{s[0]}; };
            for (int n = 198; n <= 236; n++) for (int form = 0; form < 2; form++) {
                Tmpl t = form == 0 ? Tmpl{"padded CHECKSIG", [n](auto& k, auto&) { return C({P(bytes(size_t(n), 0x5a)), O(0x75), P(k[0].pub), O(0xac)}); }, one, {{0, 0}}}
                                   : Tmpl{"padded CODESEP padded CHECKSIG", [n](auto& k, auto&) { return C({P(bytes(40, 0x33)), O(0x75), O(0xab), P(bytes(size_t(n), 0x5a)), O(0x75), P(k[0].pub), O(0xac)}); }, one, {{0, 0}}};
                for (uint8_t ht : {uint8_t(1), uint8_t(0x83)}) for (uint32_t fl : {0u, F_STANDARD}) {
                    Inst I = instantiate(t, c, keys, {ht});
                    compare_explicit(c, I.script, I.stack, fl, t.name + " script code of " + std::to_string(n + 38) + " bytes hashtype=" + std::to_string(ht), "script-code-length", V, S);
                }
            }
        }, "script code lengths across 253"});
        for (std::array<int, 3> sh : {std::array<int, 3>{252, 2, 251}, {253, 2, 0}, {253, 2, 252}, {254, 2, 253}, {2, 252, 1}, {2, 253, 1}, {2, 254, 0}, {253, 253, 100}, {300, 300, 260}}) {
            Ctx c = make_ctx(sh[0], sh[1], sh[2], 123456789, sv);
            W.push_back({[=](Violations& V, Stats2& S) {
                for (uint8_t ht : {uint8_t(1), uint8_t(2), uint8_t(3), uint8_t(0x81), uint8_t(0x82), uint8_t(0x83)}) for (uint32_t fl : {0u, F_STANDARD}) {
                    Inst I = instantiate(T[0], c, keys, {ht});
                    compare_explicit(c, I.script, I.stack, fl, "CHECKSIG in a wide transaction hashtype=" + std::to_string(ht), "wide-transaction", V, S);
                }
            }, "wide transaction " + c.label});
        }
    }
    // (1) all 256 hash types x transaction shapes x input index x {BASE, WITNESS_V0} on CHECKSIG (and on 2-of-3 multisig for the main shape), flags NONE and STANDARD
    std::vector<std::array<int, 2>> shapes = th ? std::vector<std::array<int, 2>>{{1, 1}, {1, 2}, {1, 3}, {2, 1}, {2, 2}, {2, 3}, {3, 1}, {3, 2}, {3, 3}} : std::vector<std::array<int, 2>>{{1, 1}, {2, 1}, {2, 3}, {3, 2}};
    for (auto sh : shapes) for (int k = 0; k < sh[0]; k++) for (SigVer sv : {SigVer::BASE, SigVer::WITNESS_V0}) {
        for (int64_t amt : (th ? std::vector<int64_t>{0, 1, 100000000, 2100000000000000LL} : std::vector<int64_t>{100000000})) for (int32_t ver : (th ? std::vector<int32_t>{1, 2} : std::vector<int32_t>{2})) {
            Ctx c = make_ctx(sh[0], sh[1], k, amt, sv, ver, th && k == 1 ? 500000000 : 0);
            W.push_back({[=](Violations& V, Stats2& S) {
                for (int ht = 0; ht < 256; ht++) for (uint32_t fl : {0u, F_STANDARD}) {
                    Inst I = instantiate(T[0], c, keys, {uint8_t(ht)});
                    compare_explicit(c, I.script, I.stack, fl, "CHECKSIG hashtype=" + std::to_string(ht), "hashtype", V, S);
                }
            }, "hashtypes " + c.label});
        }
    }
    // (1a) extreme amounts of the spent output (BIP143 commits to it): 0, 1 and 21e14 satoshi - in every tier
    for (int64_t amt : {int64_t(0), int64_t(1), int64_t(2100000000000000LL)}) for (SigVer sv : {SigVer::BASE, SigVer::WITNESS_V0}) for (auto sh : std::vector<std::array<int, 3>>{{1, 1, 0}, {2, 2, 1}}) {
        Ctx c = make_ctx(sh[0], sh[1], sh[2], amt, sv);
        W.push_back({[=](Violations& V, Stats2& S) {
            auto T3 = ecdsa_templates();
            for (size_t ti : {size_t(0), size_t(1), size_t(8)}) for (uint8_t ht : std::vector<uint8_t>{1, 0x83}) for (uint32_t fl : std::vector<uint32_t>{0u, F_STANDARD}) {
                if (ti >= T3.size()) continue;
                Inst I = instantiate(T3[ti], c, keys, {ht});
                compare_explicit(c, I.script, I.stack, fl, T3[ti].name + " amount=" + std::to_string(amt) + " hashtype=" + std::to_string(ht), "extreme-amount:" + T3[ti].name, V, S);
                Ctx c2 = c; c2.amount = amt == 0 ? 1 : amt - 1; Inst J2 = instantiate(T3[ti], c2, keys, {ht});
                compare_explicit(c, I.script, J2.stack, fl, T3[ti].name + " amount=" + std::to_string(amt) + " signed for a neighbouring amount", "extreme-amount:other-amount:" + T3[ti].name, V, S);
            }
        }, "extreme amounts " + c.label});
    }
    // (1b) templates with two signatures: every ORDERED pair of hash types (each signature has its own digest; what one check computed -
    //      BIP143's hashPrevouts / hashSequence / hashOutputs are blank or different for ANYONECANPAY, NONE, SINGLE - must not reach the next),
    //      one-input and multi-input transactions
    {
        auto T2 = ecdsa_templates();
        std::vector<uint8_t> hp = {1, 2, 3, 0x81, 0x82, 0x83};
        for (size_t ti = 0; ti < T2.size(); ti++) {
            if (T2[ti].slots.size() < 2) continue;
            for (SigVer sv : {SigVer::BASE, SigVer::WITNESS_V0}) for (auto sh : std::vector<std::array<int, 3>>{{1, 1, 0}, {3, 2, 2}, {2, 3, 1}}) {
                if (!th && sv == SigVer::BASE && sh[0] == 3) continue;
                Ctx c = make_ctx(sh[0], sh[1], sh[2], 123456789, sv);
                W.push_back({[=](Violations& V, Stats2& S) {
                    auto T3 = ecdsa_templates();
                    for (uint8_t h1 : hp) for (uint8_t h2 : hp) for (uint32_t fl : std::vector<uint32_t>{F_STANDARD}) {
                        Inst I = instantiate(T3[ti], c, keys, {h1, h2});
                        std::string lab = T3[ti].name + " hashtypes " + std::to_string(h1) + "," + std::to_string(h2);
                        compare_explicit(c, I.script, I.stack, fl, lab, "template-hashtype-pair:" + T3[ti].name, V, S);
                        // ... and as the first session of a process of its own
                        in_fresh_process(c, I.script, I.stack, fl, lab + " (fresh process)", "template-hashtype-pair:" + T3[ti].name, V, S);
                    }
                }, "hashtype pairs " + T2[ti].name});
            }
        }
    }
    // (2) every template x a hash-type set x {BASE, V0} x two shapes x flags {NONE, STANDARD, STANDARD-CONST_SCRIPTCODE}
    std::vector<uint8_t> htset = {1, 2, 3, 0x81, 0x82, 0x83, 0, 4, 0x41, 0xff};
    for (size_t ti = 0; ti < T.size(); ti++) for (SigVer sv : {SigVer::BASE, SigVer::WITNESS_V0}) for (auto sh : std::vector<std::array<int, 3>>{{1, 1, 0}, {3, 2, 2}, {2, 3, 1}}) {
        Ctx c = make_ctx(sh[0], sh[1], sh[2], 123456789, sv);
        W.push_back({[=](Violations& V, Stats2& S) {
            for (uint8_t ht : htset) for (uint32_t fl : std::vector<uint32_t>{0u, F_STANDARD, F_STANDARD & ~F_CONST_SCRIPTCODE, uint32_t(F_CONST_SCRIPTCODE)}) {
                Inst I = instantiate(T[ti], c, keys, {ht});
                compare_explicit(c, I.script, I.stack, fl, T[ti].name + " hashtype=" + std::to_string(ht), "template:" + T[ti].name, V, S);
                // a signature made for another amount / another input index / another template's scriptCode must not verify
                if (ht == 1 && fl == 0) {
                    Ctx c2 = c; c2.amount += 1; Inst J2 = instantiate(T[ti], c2, keys, {ht});
                    compare_explicit(c, I.script, J2.stack, fl, T[ti].name + " signed for amount+1", "template:" + T[ti].name + ":other-amount", V, S);
                }
            }
        }, "template " + T[ti].name + " " + c.label});
    }
    // (2b) a signed legacy input of a transaction whose OTHER inputs carry witnesses (explicit session: script and stack on the command line):
    //      the input itself has no witness and a non-empty scriptSig, so its signatures are over the legacy digest
    for (size_t ti : {size_t(0), size_t(1), size_t(10)}) for (auto sh : std::vector<std::array<int, 3>>{{2, 1, 0}, {3, 2, 1}, {3, 2, 2}}) {
        Ctx c = make_ctx(sh[0], sh[1], sh[2], 123456789, SigVer::BASE);
        c.tx.vin[c.k].script_sig = bytes{0x51};
        for (int i = 0; i < sh[0]; i++) if (i != c.k) c.tx.vin[i].witness = {bytes{0x30, 0x01}, bytes(33, 0x02)};
        c.label += " (other inputs carry witnesses)";
        W.push_back({[=](Violations& V, Stats2& S) {
            for (uint8_t ht : {uint8_t(1), uint8_t(3), uint8_t(0x81)}) for (uint32_t fl : {0u, F_STANDARD}) {
                Inst I = instantiate(T[ti], c, keys, {ht});
                compare_explicit(c, I.script, I.stack, fl, T[ti].name + " hashtype=" + std::to_string(ht) + " legacy input of a mixed transaction", "mixed-transaction:legacy-input", V, S);
            }
        }, "mixed transaction " + T[ti].name + " " + c.label});
    }
    // (3) encoding classes x all 2^8 subsets of the encoding flags
    std::vector<uint32_t> encbits = {F_DERSIG, F_LOW_S, F_STRICTENC, F_NULLFAIL, F_NULLDUMMY, F_WITNESS_PUBKEYTYPE, F_CONST_SCRIPTCODE, F_DISCOURAGE_UPGRADABLE_PUBKEYTYPE};
    auto subsets = alpha::subsets(encbits);
    struct Enc { std::string name; std::function<void(const Ctx&, bytes& script, std::vector<bytes>& stack, const bytes& digest, const gen::Key&)> apply; };
    std::vector<Enc> encs;
    encs.push_back({"valid", [](auto&, auto&, auto&, auto&, auto&) {}});
    encs.push_back({"high-S", [](auto& c, auto& sc, auto& st, auto& d, auto& k) { st.back() = gen::sign_ecdsa(k, d, 1, false); }});
    encs.push_back({"padded-R (non-DER, verifies laxly)", [](auto&, auto&, auto& st, auto&, auto&) { bytes s = st.back(); /* 30 L 02 lr R.. : insert a 00 before R */ s.insert(s.begin() + 4, 0x00); s[3]++; s[1]++; st.back() = s; }});
    encs.push_back({"long-form length (non-DER, verifies laxly)", [](auto&, auto&, auto& st, auto&, auto&) { bytes s = st.back(); uint8_t L = s[1]; s[1] = 0x81; s.insert(s.begin() + 2, L); st.back() = s; }});
    encs.push_back({"trailing garbage inside sequence (non-DER)", [](auto&, auto&, auto& st, auto&, auto&) { bytes s = st.back(); s.insert(s.end() - 1, 0x00); st.back() = s; }});
    encs.push_back({"empty signature", [](auto&, auto&, auto& st, auto&, auto&) { st.back() = {}; }});
    encs.push_back({"garbage one-byte signature", [](auto&, auto&, auto& st, auto&, auto&) { st.back() = bytes{0x01}; }});
    encs.push_back({"well-formed DER, wrong message", [](auto&, auto&, auto& st, auto& d, auto& k) { bytes d2 = d; d2[0] ^= 1; st.back() = gen::sign_ecdsa(k, d2, 1); }});
    encs.push_back({"undefined hash type 0x00", [](auto& c, auto& sc, auto& st, auto&, auto& k) { bytes code = sc; bytes d = c.sv == SigVer::WITNESS_V0 ? sighash_bip143(c.tx, c.k, code, c.amount, 0) : sighash_legacy(c.tx, c.k, code, 0); st.back() = gen::sign_ecdsa(k, d, 0); }});
    encs.push_back({"uncompressed key", [](auto& c, auto& sc, auto& st, auto&, auto& k) { sc = C({P(k.pubu), O(0xac)}); bytes d = c.sv == SigVer::WITNESS_V0 ? sighash_bip143(c.tx, c.k, sc, c.amount, 1) : sighash_legacy(c.tx, c.k, sc, 1); st.back() = gen::sign_ecdsa(k, d, 1); }});
    encs.push_back({"hybrid key", [](auto& c, auto& sc, auto& st, auto&, auto& k) { sc = C({P(k.pubh), O(0xac)}); bytes d = c.sv == SigVer::WITNESS_V0 ? sighash_bip143(c.tx, c.k, sc, c.amount, 1) : sighash_legacy(c.tx, c.k, sc, 1); st.back() = gen::sign_ecdsa(k, d, 1); }});
    encs.push_back({"truncated key (32 bytes)", [](auto& c, auto& sc, auto& st, auto&, auto& k) { bytes pk(k.pub.begin(), k.pub.end() - 1); sc = C({P(pk), O(0xac)}); }});
    encs.push_back({"key with invalid prefix 05", [](auto& c, auto& sc, auto& st, auto&, auto& k) { bytes pk = k.pub; pk[0] = 5; sc = C({P(pk), O(0xac)}); }});
    encs.push_back({"empty key", [](auto& c, auto& sc, auto& st, auto&, auto& k) { sc = C({O(0x00), O(0xac)}); }});
    for (size_t ei = 0; ei < encs.size(); ei++) for (SigVer sv : {SigVer::BASE, SigVer::WITNESS_V0}) {
        Ctx c = make_ctx(2, 2, 1, 50000, sv);
        W.push_back({[=](Violations& V, Stats2& S) {
            Inst I = instantiate(T[0], c, keys, {1});
            bytes sc = I.script; std::vector<bytes> st = I.stack;
            encs[ei].apply(c, sc, st, I.digests[0], keys[0]);
            for (uint32_t fl : subsets) compare_explicit(c, sc, st, fl, "CHECKSIG with " + encs[ei].name, "enc:" + encs[ei].name, V, S);
        }, "encoding " + encs[ei].name});
    }
    // multisig encoding classes: non-null dummy, failing non-empty signature, mixed
    struct MEnc { std::string name; std::function<void(std::vector<bytes>& stack)> apply; };
    std::vector<MEnc> mencs = {
        {"valid", [](auto&) {}}, {"non-null dummy", [](auto& st) { st[0] = bytes{1}; }}, {"first signature replaced by garbage byte", [](auto& st) { st[1] = bytes{0x01}; }},
        {"second signature empty", [](auto& st) { st[2] = {}; }}, {"both signatures empty", [](auto& st) { st[1] = {}; st[2] = {}; }}, {"second signature has undefined hash type", [](auto& st) { st[2].back() = 0x05; }},
        {"first signature high-S form of garbage", [](auto& st) { st[1][st[1].size() - 2] ^= 1; }},
    };
    for (size_t ei = 0; ei < mencs.size(); ei++) for (SigVer sv : {SigVer::BASE, SigVer::WITNESS_V0}) {
        Ctx c = make_ctx(2, 2, 0, 50000, sv);
        W.push_back({[=](Violations& V, Stats2& S) {
            Inst I = instantiate(T[12], c, keys, {1});
            std::vector<bytes> st = I.stack; mencs[ei].apply(st);
            for (uint32_t fl : subsets) compare_explicit(c, I.script, st, fl, "2-of-3 multisig with " + mencs[ei].name, "menc:" + mencs[ei].name, V, S);
        }, "multisig encoding " + mencs[ei].name});
    }
    // (4) every single-bit flip of the signature, of the public key, and of the serialised transaction (one context per sigversion and opcode)
    for (SigVer sv : {SigVer::BASE, SigVer::WITNESS_V0}) for (size_t ti : {size_t(0), size_t(12)}) {
        Ctx c = make_ctx(2, 2, 1, 777777, sv);
        Inst I0 = instantiate(T[ti], c, keys, {1});
        size_t nsigbits = I0.stack.back().size() * 8, nkeybits = 33 * 8;
        bytes raw = ser_tx(c.tx, false);
        size_t ntxbits = raw.size() * 8;
        int chunk = 64;
        for (size_t b0 = 0; b0 < nsigbits; b0 += chunk) W.push_back({[=](Violations& V, Stats2& S) { for (size_t b = b0; b < std::min(nsigbits, b0 + chunk); b++) for (uint32_t fl : {0u, F_STANDARD}) { auto st = I0.stack; st.back()[b / 8] ^= uint8_t(1 << (b % 8)); compare_explicit(c, I0.script, st, fl, T[ti].name + " signature bit " + std::to_string(b) + " flipped", "bitflip:signature", V, S); } }, "sig bitflips"});
        for (size_t b0 = 0; b0 < nkeybits; b0 += chunk) W.push_back({[=](Violations& V, Stats2& S) { for (size_t b = b0; b < std::min(nkeybits, b0 + chunk); b++) for (uint32_t fl : {0u, F_STANDARD}) { bytes sc = I0.script; size_t off = ti == 0 ? 1 : 2; sc[off + b / 8] ^= uint8_t(1 << (b % 8)); compare_explicit(c, sc, I0.stack, fl, T[ti].name + " public key bit " + std::to_string(b) + " flipped", "bitflip:pubkey", V, S); } }, "key bitflips"});
        for (size_t b0 = 0; b0 < ntxbits; b0 += chunk) W.push_back({[=](Violations& V, Stats2& S) {
            for (size_t b = b0; b < std::min(ntxbits, b0 + chunk); b++) {
                bytes r2 = raw; r2[b / 8] ^= uint8_t(1 << (b % 8));
                Tx t2; if (!parse_tx(r2, t2) || t2.vin.size() != c.tx.vin.size() || t2.vin.size() <= size_t(c.k)) continue;   // structure-changing flips are C13's business
                if (t2.vin[c.k].prev_hash != c.tx.vin[c.k].prev_hash) continue;   // the tool would (rightly) refuse: the input no longer spends the funding tx
                if (t2.vin[c.k].prev_n >= c.fund.vout.size()) continue;           // referenced output does not exist: malformed pair, C15's finding (unchecked vout index)
                Ctx c2 = c; c2.tx = t2; if (sv == SigVer::WITNESS_V0) c2.tx.vin[c.k].witness = {bytes{1}};
                compare_explicit(c2, I0.script, I0.stack, 0, T[ti].name + " transaction bit " + std::to_string(b) + " flipped after signing", "bitflip:transaction", V, S);
            }
        }, "tx bitflips"});
    }
}

// ------------------------------------------------------------------------------------------- Schnorr: taproot key path and tapscript (auto mode)
struct TapRecord : SigChecker { std::vector<uint32_t> pos; bool check_schnorr(const bytes&, const bytes&, SigVer, const ExecData& ed, Err&) override { pos.push_back(ed.codesep_pos); return true; } };

// tapscript spend with an arbitrary leaf script; witness = sig slots (bottom..top as given), script, control [, annex]
struct TSlot { int key; int sigop; uint8_t ht; };
static gen::Spend make_tapscript(const gen::Shape& sh, const std::function<bytes(const std::vector<gen::Key>&)>& leaf, const std::vector<TSlot>& slots, const std::function<std::vector<bytes>(const std::vector<bytes>&)>& stack,
                                 int pathlen, bool annex, const std::vector<bytes>& extra_items = {}) {
    std::vector<gen::Key> keys = {gen::make_key(1), gen::make_key(2), gen::make_key(3), gen::make_key(4)};
    gen::Spend S; S.type = "p2tr-script"; S.nin = sh.pos;
    S.leaf_script = leaf(keys);
    bytes lh = tapleaf_hash(0xc0, S.leaf_script), k = lh;
    std::vector<bytes> path;
    for (int i = 0; i < pathlen; i++) { bytes node = sha256(bytes{'n', uint8_t(i)}); path.push_back(node); k = tapbranch_hash(k, node); }
    bytes q; int par; taproot_output_key(keys[3].xonly, k, q, par);
    S.control = bytes{uint8_t(0xc0 | par)}; S.control.insert(S.control.end(), keys[3].xonly.begin(), keys[3].xonly.end()); for (auto& n : path) S.control.insert(S.control.end(), n.begin(), n.end());
    S.fund = gen::base_fund(sh, p2tr_spk(q)); S.tx = gen::base_spend(sh, S.fund); S.spent = gen::spent_list(sh, S.fund);
    // pass 1: which code-separator position does each signature check see
    std::vector<bytes> ph; for (size_t i = 0; i < slots.size(); i++) ph.push_back(bytes(64, uint8_t(0xa0 + i)));
    TapRecord rc; Machine m; m.sv = SigVer::TAPSCRIPT; m.flags = 0; m.script = S.leaf_script; m.stack = stack(ph); for (auto& e : extra_items) m.stack.push_back(e); m.checker = &rc; m.ed.weight_left = 1000000;
    while (!m.at_end()) if (m.step() != Err::OK) break;
    bytes ann = unhex("50deadbeef");
    std::vector<bytes> sigs;
    for (auto& sl : slots) {
        TapCtx c; c.script_path = true; c.tapleaf_hash = lh; c.codesep_pos = sl.sigop < (int)rc.pos.size() ? rc.pos[sl.sigop] : 0xffffffffu;
        if (annex) { c.annex_present = true; c.annex = ann; }
        bytes d; bool ok = sighash_bip341(S.tx, sh.pos, S.spent, sl.ht, c, d);
        bytes sig = ok ? schnorr_sign(keys[sl.key].priv, d) : bytes(64, 0x22);
        if (sl.ht != 0) sig.push_back(sl.ht);
        sigs.push_back(sig);
    }
    std::vector<bytes> w = stack(sigs); for (auto& e : extra_items) w.push_back(e);
    w.push_back(S.leaf_script); w.push_back(S.control); if (annex) w.push_back(ann);
    S.tx.vin[sh.pos].witness = w;
    return S;
}

static void gen_c02_schnorr(const std::string& tier, std::vector<Work>& W) {
    bool th = tier != "quick";
    auto run_case = [](const gen::Spend& S, const std::string& label, const std::string& klass, uint32_t flags, Violations& V, Stats2& S2) {
        sc::Case c; c.fund = S.fund; c.tx = S.tx; c.select = -1; c.flags = flags; c.label = label; c.klass = klass;
        sc::Stats st; sc::Outcome o = sc::compare_session(c, V, st, "mc_sig", "auto");
        S2.sessions++; S2.steps += st.steps; if (o.valid) S2.sig_accept++; else S2.sig_reject++;
        S2.outcomes[o.refused ? "refused" : o.valid ? "OK" : "invalid"]++;
    };
    // (0) lengths across the one-byte compact-size boundary inside the digests: every leaf length 242..262 (the TapLeaf hash serialises the
    //     script with its length) and annexes of 252..254 / 300 / 65536 bytes (sha_annex serialises the annex with its length), key and script path
    W.push_back({[=](Violations& V, Stats2& S2) {
        for (int pad = 205; pad <= 225; pad++) for (uint8_t ht : {uint8_t(0), uint8_t(0x83)}) {
            gen::Shape sh; sh.nin = 1; sh.nout = 2; sh.pos = 0; sh.fund_vout = 1; sh.amount = 4200000; sh.pad = pad;
            gen::Spend S = gen::make_spend("p2tr-script", sh, ht, 1, false);
            run_case(S, "p2tr-script leaf of " + std::to_string(S.leaf_script.size()) + " bytes hashtype=" + std::to_string(ht), "schnorr-leaf-length", F_STANDARD, V, S2);
        }
        for (int al : {252, 253, 254, 300, 65535, 65536}) for (const char* type : {"p2tr-key", "p2tr-script"}) for (uint8_t ht : {uint8_t(0), uint8_t(0x81)}) {
            gen::Shape sh; sh.nin = 1; sh.nout = 2; sh.pos = 0; sh.fund_vout = 1; sh.amount = 4200000; sh.annex_len = al;
            gen::Spend S = gen::make_spend(type, sh, ht, 1, true);
            run_case(S, std::string(type) + " annex of " + std::to_string(al) + " bytes hashtype=" + std::to_string(ht), std::string("schnorr-annex-length:") + type, F_STANDARD, V, S2);
        }
    }, "schnorr leaf / annex lengths across 253"});
    // (1) all 256 hash types (65-byte signatures) + the 64-byte default, key path and script path, with/without annex, nout 1..3
    for (int nout : {1, 2, 3}) for (bool annex : {false, true}) for (const char* type : {"p2tr-key", "p2tr-script"}) {
        if (!th && nout == 3 && annex) continue;
        W.push_back({[=](Violations& V, Stats2& S2) {
            gen::Shape sh; sh.nin = 1; sh.nout = nout; sh.pos = 0; sh.fund_vout = nout % 3; sh.amount = 4200000 + nout;
            for (int ht = 0; ht < 256; ht++) {
                gen::Spend S = gen::make_spend(type, sh, uint8_t(ht), 1, annex);
                run_case(S, std::string(type) + " hashtype=" + std::to_string(ht) + " nout=" + std::to_string(nout) + (annex ? " annex" : ""), std::string("schnorr-hashtype:") + type + (annex ? ":annex" : ""), F_STANDARD, V, S2);
            }
            // a 65-byte signature with hash type 0x00 is invalid
            { gen::Spend S = gen::make_spend(type, sh, 0, 1, annex); S.tx.vin[0].witness[0].push_back(0x00); run_case(S, std::string(type) + " 65-byte signature with explicit hashtype 00", std::string("schnorr-explicit-zero:") + type, F_STANDARD, V, S2); }
            { gen::Spend S = gen::make_spend(type, sh, 1, 1, annex); S.tx.vin[0].witness[0].pop_back(); S.tx.vin[0].witness[0].pop_back(); run_case(S, std::string(type) + " 63-byte signature", std::string("schnorr-size:") + type, F_STANDARD, V, S2); }
            if (std::string(type) == "p2tr-script") { gen::Spend S = gen::make_spend(type, sh, 1, 1, annex); S.tx.vin[0].witness[0].clear(); run_case(S, "p2tr-script empty signature", "schnorr-empty:p2tr-script", F_STANDARD, V, S2); }
        }, std::string("schnorr hashtypes ") + type});
    }
    // (1b) a transaction without outputs: SIGHASH_SINGLE has no matching output (BIP341: the signature is invalid), the other types are fine
    for (bool annex : {false, true}) for (const char* type : {"p2tr-key", "p2tr-script"}) {
        W.push_back({[=](Violations& V, Stats2& S2) {
            gen::Shape sh; sh.nin = 1; sh.nout = 0; sh.pos = 0; sh.fund_vout = 1; sh.amount = 4200000;
            for (int ht : {0, 1, 2, 3, 0x81, 0x82, 0x83, 4, 0x80}) {
                gen::Spend S = gen::make_spend(type, sh, uint8_t(ht), 1, annex);
                run_case(S, std::string(type) + " hashtype=" + std::to_string(ht) + " nout=0" + (annex ? " annex" : ""), std::string("schnorr-hashtype-no-outputs:") + type + (annex ? ":annex" : ""), F_STANDARD, V, S2);
            }
        }, std::string("schnorr hashtypes, no outputs ") + type});
    }
    // (2) tapscript templates: code separator placement, CHECKSIGVERIFY, two signatures, CHECKSIGADD
    struct TT { std::string name; std::function<bytes(const std::vector<gen::Key>&)> leaf; std::vector<TSlot> slots; std::function<std::vector<bytes>(const std::vector<bytes>&)> stack; };
    auto one = [](const std::vector<bytes>& s) { return std::vector<bytes>{s[0]}; };
    std::vector<TT> TTs;
    TTs.push_back({"CHECKSIG", [](auto& k) { return C({P(k[0].xonly), O(0xac)}); }, {{0, 0, 0}}, one});
    TTs.push_back({"CHECKSIGVERIFY 1", [](auto& k) { return C({P(k[0].xonly), O(0xad), O(0x51)}); }, {{0, 0, 1}}, one});
    TTs.push_back({"CODESEP CHECKSIG (separator at 0)", [](auto& k) { return C({O(0xab), P(k[0].xonly), O(0xac)}); }, {{0, 0, 0}}, one});
    TTs.push_back({"NOP CODESEP CHECKSIG (separator at 1)", [](auto& k) { return C({O(0x61), O(0xab), P(k[0].xonly), O(0xac)}); }, {{0, 0, 0}}, one});
    TTs.push_back({"NOP NOP CODESEP CHECKSIG (separator at 2)", [](auto& k) { return C({O(0x61), O(0x61), O(0xab), P(k[0].xonly), O(0xac)}); }, {{0, 0, 0x81}}, one});
    TTs.push_back({"0 IF CODESEP ENDIF CHECKSIG (unexecuted separator)", [](auto& k) { return C({O(0x00), O(0x63), O(0xab), O(0x68), P(k[0].xonly), O(0xac)}); }, {{0, 0, 0}}, one});
    TTs.push_back({"1 IF CODESEP ENDIF CHECKSIG (separator at 2)", [](auto& k) { return C({O(0x51), O(0x63), O(0xab), O(0x68), P(k[0].xonly), O(0xac)}); }, {{0, 0, 0}}, one});
    TTs.push_back({"CODESEP NOP CODESEP CHECKSIG (last separator at 2)", [](auto& k) { return C({O(0xab), O(0x61), O(0xab), P(k[0].xonly), O(0xac)}); }, {{0, 0, 3}}, one});
    TTs.push_back({"CHECKSIGVERIFY CODESEP CHECKSIG (two digests)", [](auto& k) { return C({P(k[0].xonly), O(0xad), O(0xab), P(k[1].xonly), O(0xac)}); }, {{0, 0, 0}, {1, 1, 0}}, [](auto& s) { return std::vector<bytes>{s[1], s[0]}; }});
    TTs.push_back({"push520 DROP CODESEP CHECKSIG (separator index counts opcodes, not bytes)", [](auto& k) { return C({P(alpha::filler(300)), O(0x75), O(0xab), P(k[0].xonly), O(0xac)}); }, {{0, 0, 0}}, one});
    TTs.push_back({"CHECKSIGADD 1-of-1", [](auto& k) { return C({O(0x00), P(k[0].xonly), O(0xba), O(0x51), O(0x87)}); }, {{0, 0, 0}}, one});
    TTs.push_back({"CHECKSIGADD 2-of-3 (keys 1,3 sign)", [](auto& k) { return C({P(k[0].xonly), O(0xac), P(k[1].xonly), O(0xba), P(k[2].xonly), O(0xba), O(0x52), O(0x87)}); }, {{0, 0, 0}, {2, 2, 0}}, [](auto& s) { return std::vector<bytes>{s[1], {}, s[0]}; }});
    TTs.push_back({"unknown 33-byte key type with non-empty signature", [](auto& k) { return C({P(k[0].pub), O(0xac)}); }, {{0, 0, 0}}, one});
    for (size_t ti = 0; ti < TTs.size(); ti++) for (bool annex : {false, true}) for (int pathlen : {0, 2}) {
        if (!th && annex && pathlen == 2) continue;
        W.push_back({[=](Violations& V, Stats2& S2) {
            gen::Shape sh; sh.nin = 1; sh.nout = 2; sh.pos = 0; sh.fund_vout = 0; sh.amount = 990000;
            gen::Spend S = make_tapscript(sh, TTs[ti].leaf, TTs[ti].slots, TTs[ti].stack, pathlen, annex);
            for (uint32_t fl : std::vector<uint32_t>{F_STANDARD, F_STANDARD & ~F_DISCOURAGE_UPGRADABLE_PUBKEYTYPE})
                run_case(S, "tapscript " + TTs[ti].name + (annex ? " annex" : "") + " path=" + std::to_string(pathlen), "tapscript:" + TTs[ti].name, fl, V, S2);
        }, "tapscript template " + TTs[ti].name});
    }
    // (2b) two signature checks in one leaf, every ordered pair of hash types (00 = the 64-byte form), with and without a code separator between
    //      them, by two keys and by one key twice: each check has its own digest - the hash-type byte itself is part of the message, so 00 and 01
    //      differ although they sign the same fields. Then the second signature replaced by one made for the OTHER of 00/01 and relabelled.
    {
        static const uint8_t HT[] = {0, 1, 2, 3, 0x81, 0x82, 0x83};
        for (int a = 0; a < 7; a++) for (int b = 0; b < 7; b++) for (int sep = 0; sep < 2; sep++) for (int samekey = 0; samekey < 2; samekey++) {
            if (!th && samekey && !(HT[a] <= 1 && HT[b] <= 1)) continue;
            W.push_back({[=](Violations& V, Stats2& S2) {
                gen::Shape sh; sh.nin = 1; sh.nout = 2; sh.pos = 0; sh.fund_vout = 0; sh.amount = 990000;
                auto leaf = [=](const std::vector<gen::Key>& k) { bytes r = C({P(k[0].xonly), O(0xad)}); if (sep) r.push_back(0xab); bytes t = C({P(k[samekey ? 0 : 1].xonly), O(0xac)}); r.insert(r.end(), t.begin(), t.end()); return r; };
                std::vector<TSlot> slots = {{0, 0, HT[a]}, {samekey ? 0 : 1, 1, HT[b]}};
                auto stk = [](const std::vector<bytes>& sg) { return std::vector<bytes>{sg[1], sg[0]}; };
                char nm[96]; snprintf(nm, 96, "two checks, hash types %02x then %02x%s%s", HT[a], HT[b], sep ? ", code separator between" : "", samekey ? ", one key" : "");
                for (bool annex : {false, true}) {
                    if (annex && !th && !(HT[a] <= 1 && HT[b] <= 1)) continue;
                    gen::Spend S = make_tapscript(sh, leaf, slots, stk, 1, annex);
                    run_case(S, std::string("tapscript ") + nm + (annex ? " annex" : ""), "tapscript:two-checks-hashtype-pair", F_STANDARD, V, S2);
                    if (HT[b] <= 1) {
                        // second signature made for the other of 00/01, relabelled as HT[b]: invalid
                        std::vector<TSlot> sl2 = slots; sl2[1].ht = uint8_t(1 - HT[b]);
                        gen::Spend R = make_tapscript(sh, leaf, sl2, stk, 1, annex);
                        bytes& sg = R.tx.vin[0].witness[0];
                        if (HT[b] == 0) sg.pop_back(); else sg.push_back(0x01);
                        run_case(R, std::string("tapscript ") + nm + ", second signature made for the other of 00/01 and relabelled" + (annex ? " annex" : ""), "tapscript:two-checks-relabelled", F_STANDARD, V, S2);
                    }
                }
            }, "tapscript two checks"});
        }
    }
    // (3) validation weight: k checks of one signature; a padding item tunes the budget to land at -50, -1, 0, +49 after the last check
    for (int kchecks : {1, 2, 5}) for (int target : {-50, -1, 0, 49}) {
        W.push_back({[=](Violations& V, Stats2& S2) {
            gen::Shape sh; sh.nin = 1; sh.nout = 1; sh.pos = 0; sh.fund_vout = 0; sh.amount = 5000;
            auto leaf = [=](const std::vector<gen::Key>& k) { bytes s = C({O(0x75), P(k[0].xonly)}); for (int i = 0; i < kchecks - 1; i++) { s.push_back(0x6e); s.push_back(0xad); } s.push_back(0xac); return s; };
            for (int pad = 0; pad < 400; pad++) {
                gen::Spend S = make_tapscript(sh, leaf, {{0, 0, 0}}, [](const std::vector<bytes>& s) { return std::vector<bytes>{s[0]}; }, 0, false, {bytes(pad, 0x00)});
                int64_t left = int64_t(witness_serialized_size(S.tx.vin[0].witness)) + 50 - 50 * kchecks;
                if (left != target) continue;
                run_case(S, "validation weight: " + std::to_string(kchecks) + " checks, budget after the last check " + std::to_string(target), "weight:" + std::to_string(target < 0 ? -1 : 1), F_STANDARD, V, S2);
                return;
            }
        }, "weight"});
    }
    // (4) every single-bit flip of the signature, the public key (in the leaf script: commitment breaks -> invalid either way) and the signed transaction
    for (const char* type : {"p2tr-key", "p2tr-script"}) {
        gen::Shape sh; sh.nin = 1; sh.nout = 2; sh.pos = 0; sh.fund_vout = 1; sh.amount = 31337;
        gen::Spend S0 = gen::make_spend(type, sh, 0, 1, false);
        size_t nsig = S0.tx.vin[0].witness[0].size() * 8;
        bytes raw = ser_tx(S0.tx, false); size_t ntx = raw.size() * 8;
        int chunk = 64;
        for (size_t b0 = 0; b0 < nsig; b0 += chunk) W.push_back({[=](Violations& V, Stats2& S2) { for (size_t b = b0; b < std::min(nsig, b0 + chunk); b++) { gen::Spend S = S0; S.tx.vin[0].witness[0][b / 8] ^= uint8_t(1 << (b % 8)); run_case(S, std::string(type) + " signature bit " + std::to_string(b) + " flipped", std::string("bitflip:schnorr-signature:") + type, F_STANDARD, V, S2); } }, "schnorr sig bitflips"});
        for (size_t b0 = 0; b0 < ntx; b0 += chunk) W.push_back({[=](Violations& V, Stats2& S2) {
            for (size_t b = b0; b < std::min(ntx, b0 + chunk); b++) {
                bytes r2 = raw; r2[b / 8] ^= uint8_t(1 << (b % 8));
                Tx t2; if (!parse_tx(r2, t2) || t2.vin.size() != 1 || t2.vin[0].prev_hash != S0.tx.vin[0].prev_hash) continue;
                if (t2.vin[0].prev_n != S0.tx.vin[0].prev_n) continue;   // another output of the funding tx: not this spend any more
                gen::Spend S = S0; t2.vin[0].witness = S0.tx.vin[0].witness; S.tx = t2;
                run_case(S, std::string(type) + " transaction bit " + std::to_string(b) + " flipped after signing", std::string("bitflip:transaction:") + type, F_STANDARD, V, S2);
            }
        }, "schnorr tx bitflips"});
        // amount / scriptPubKey of the spent output are signed too: a funding tx with another amount (same txid cannot be kept) is covered by C03
    }
}

// ------------------------------------------------------------------------------------------- C11
// C11, auto-configured session (--tx/--txin without script) under a pair list: true iff the session runs to the end without error
static bool run_auto_mock(const std::string& txs, const std::string& fins, const std::string& expr, std::string& stage) {
    impl::quiet_globals(); Instance inst; bool ok = true;
    try {
        if (!expr.empty() && !inst.parse_pretend_valid_expr(expr.c_str())) { ok = false; stage = "parse_pretend_valid_expr"; }
        if (ok && !inst.parse_transaction(txs.c_str(), true)) { ok = false; stage = "parse_transaction"; }
        if (ok && !inst.parse_input_transaction(fins.c_str(), -1)) { ok = false; stage = "parse_input_transaction"; }
        if (ok && !inst.configure_tx_txin()) { ok = false; stage = "configure_tx_txin"; }
        if (ok && !inst.setup_environment(F_STANDARD)) { ok = false; stage = "setup_environment"; }
        int guard = 0;
        while (ok && !inst.at_end() && guard++ < 1000) if (!inst.step()) { ok = false; stage = "step: " + inst.error_string(); }
    } catch (const std::exception& e) { ok = false; stage = std::string("exception: ") + e.what(); }
    return ok;
}

static void gen_c11(const std::string& tier, std::vector<Work>& W) {
    bool th = tier != "quick";
    std::vector<gen::Key> keys = {gen::make_key(1), gen::make_key(2), gen::make_key(3)};
    auto T = ecdsa_templates();
    // values used as mock signatures / keys
    bytes s1 = unhex("aa01"), s2 = unhex("bb02bb"), s3 = unhex("cc");
    // pair lists: every ordered list of 1..3 pairs over {s1,s2} x {p1,p2}
    std::vector<std::pair<bytes, bytes>> base = {{s1, keys[0].pub}, {s1, keys[1].pub}, {s2, keys[0].pub}, {s2, keys[1].pub}};
    std::vector<std::vector<std::pair<bytes, bytes>>> lists;
    for (size_t a = 0; a < 4; a++) { lists.push_back({base[a]}); for (size_t b = 0; b < 4; b++) { lists.push_back({base[a], base[b]}); if (th) for (size_t c = 0; c < 4; c++) lists.push_back({base[a], base[b], base[c]}); } }
    for (size_t li = 0; li < lists.size(); li++) for (SigVer sv : {SigVer::BASE, SigVer::WITNESS_V0}) for (bool with_tx : {true, false}) {
        W.push_back({[=](Violations& V, Stats2& S) {
            const auto& L = lists[li];
            Ctx c = make_ctx(2, 2, 1, 1000, sv);
            std::string ldesc; for (auto& p : L) ldesc += hex(p.first) + ":" + hex(p.second).substr(0, 8) + ".. ";
            // the model: a pair is mocked iff it is in the list
            for (uint32_t fl : {0u, F_STANDARD}) {
                // (1) every listed pair succeeds in CHECKSIG / CHECKSIGVERIFY / 1-of-1 and 1-of-2 multisig
                for (size_t pi = 0; pi < L.size(); pi++) {
                    const auto& p = L[pi];
                    // a pair whose signature is listed again later for a different key (the tool keys its table by signature only)
                    bool shadowed = false; for (size_t qi = pi + 1; qi < L.size(); qi++) if (L[qi].first == p.first && L[qi].second != p.second) shadowed = true;
                    // is the last pair with this signature this very pair? (an earlier duplicate of the same pair is fine)
                    for (size_t qi = pi + 1; qi < L.size(); qi++) if (L[qi].first == p.first && L[qi].second == p.second) { bool later_other = false; for (size_t ri = qi + 1; ri < L.size(); ri++) if (L[ri].first == p.first && L[ri].second != p.second) later_other = true; if (!later_other) shadowed = false; }
                    std::string sh = shadowed ? ":same-signature-listed-later-for-another-key" : "";
                    for (uint8_t opc : {uint8_t(0xac), uint8_t(0xad)}) { bytes sc = C({P(p.second), O(opc)}); if (opc == 0xad) sc.push_back(0x51); compare_explicit(c, sc, {p.first}, fl, "listed pair in " + std::string(opc == 0xac ? "CHECKSIG" : "CHECKSIGVERIFY") + " list=" + ldesc, "mock:listed-pair" + sh, V, S, L, with_tx, false, "c11"); }
                    { bytes sc = C({O(0x51), P(p.second), O(0x51), O(0xae)}); compare_explicit(c, sc, {{}, p.first}, fl, "listed pair in 1-of-1 multisig list=" + ldesc, "mock:listed-pair-multisig" + sh, V, S, L, with_tx, false, "c11"); }
                    { bytes sc = C({O(0x51), P(keys[2].pub), P(p.second), O(0x52), O(0xae)}); compare_explicit(c, sc, {{}, p.first}, fl & ~(F_STRICTENC | F_DERSIG | F_LOW_S | F_NULLFAIL), "listed pair as second key of 1-of-2 multisig list=" + ldesc, "mock:listed-pair-multisig2" + sh, V, S, L, with_tx, false, "c11"); }
                }
                // (1b) the listed signature written into the script itself (a push in front of the check): the pair is accepted in every
                //      signature opcode regardless of the rules about signatures inside the script code
                for (auto& p : L) {
                    { bytes sc = C({P(p.first), P(p.second), O(0xac)}); compare_explicit(c, sc, {}, fl, "listed pair, signature pushed by the script, CHECKSIG list=" + ldesc, "mock:listed-pair-in-script", V, S, L, with_tx, false, "c11"); }
                    { bytes sc = C({O(0x00), P(p.first), O(0x51), P(p.second), O(0x51), O(0xae)}); compare_explicit(c, sc, {}, fl, "listed pair, signature pushed by the script, 1-of-1 multisig list=" + ldesc, "mock:listed-pair-in-script-multisig", V, S, L, with_tx, false, "c11"); }
                }
                // (1c) non-interference: the listed signature written into a script that involves none of the listed keys - the rules about
                //      signatures inside the script code apply as without the option
                for (auto& p : L) for (uint32_t fl2 : {fl, fl & ~(F_STRICTENC | F_DERSIG | F_LOW_S | F_NULLFAIL)}) {
                    { bytes sc = C({O(0x00), P(p.first), O(0x51), P(keys[2].pub), O(0x51), O(0xae)}); compare_explicit(c, sc, {}, fl2, "listed signature pushed by a script that does not involve the listed key, 1-of-1 multisig list=" + ldesc, "mock:non-interference:listed-signature-in-script-multisig", V, S, L, with_tx, false, "c11"); }
                    { bytes sc = C({P(p.first), P(keys[2].pub), O(0xac)}); compare_explicit(c, sc, {}, fl2, "listed signature pushed by a script that does not involve the listed key, CHECKSIG list=" + ldesc, "mock:non-interference:listed-signature-in-script", V, S, L, with_tx, false, "c11"); }
                }
                // (2) a signature other than the listed one offered for a mocked key is not accepted on the strength of the option
                for (auto& p : L) { bytes sc = C({P(p.second), O(0xac)}); bool listed = false; for (auto& q : L) if (q.first == s3 && q.second == p.second) listed = true; if (!listed) compare_explicit(c, sc, {s3}, fl & ~(F_STRICTENC | F_DERSIG | F_LOW_S | F_NULLFAIL), "unlisted signature for a mocked key list=" + ldesc, "mock:other-signature", V, S, L, with_tx, false, "c11"); }
            }
            // (2c) two checks in one script: what an earlier lookup found must not decide a later one. For every listed pair (S, P) and every
            //      other listed key P2 (P itself included): S for P first, then an unlisted signature for P2 - and the other way round -, as two
            //      CHECKSIGs and as a 2-of-2 multisig; the unlisted signature is rejected exactly as in a script of its own
            for (uint32_t fl : {0u}) for (auto& pa : L) for (auto& pb : L) {
                bool listed = false; for (auto& q : L) if (q.first == s3 && q.second == pb.second) listed = true;
                if (listed) continue;
                { bytes sc = C({P(pa.second), O(0xad), P(pb.second), O(0xac)}); compare_explicit(c, sc, {s3, pa.first}, fl, "listed pair checked first, then an unlisted signature for a listed key, list=" + ldesc, "mock:two-checks:listed-then-unlisted", V, S, L, with_tx, false, "c11"); }
                { bytes sc = C({P(pb.second), O(0xac), O(0x91), O(0x69), P(pa.second), O(0xac)}); compare_explicit(c, sc, {pa.first, s3}, fl, "unlisted signature for a listed key checked first, then a listed pair, list=" + ldesc, "mock:two-checks:unlisted-then-listed", V, S, L, with_tx, false, "c11"); }
                if (pa.second != pb.second) { bytes sc = C({O(0x52), P(pb.second), P(pa.second), O(0x52), O(0xae)}); compare_explicit(c, sc, {{}, s3, pa.first}, fl, "2-of-2 multisig: listed pair matched first, then an unlisted signature for the other listed key, list=" + ldesc, "mock:two-checks:multisig", V, S, L, with_tx, false, "c11"); }
            }
            // (2b) a signature listed for one key offered to another mocked key it is not listed with
            for (uint32_t fl : {0u}) for (auto& pa : L) for (auto& pb : L) {
                if (pa.second == pb.second) continue;
                bool listed = false; for (auto& q : L) if (q.first == pa.first && q.second == pb.second) listed = true;
                if (listed) continue;
                bytes sc = C({P(pb.second), O(0xac)});
                compare_explicit(c, sc, {pa.first}, fl, "signature listed for another key offered to a mocked key list=" + ldesc, "mock:cross-pair", V, S, L, with_tx, false, "c11");
                bytes sc2 = C({O(0x51), P(pb.second), O(0x51), O(0xae)});
                compare_explicit(c, sc2, {{}, pa.first}, fl, "signature listed for another key offered to a mocked key in multisig list=" + ldesc, "mock:cross-pair-multisig", V, S, L, with_tx, false, "c11");
            }
            // (3) non-interference: scripts that do not involve a mocked key run exactly as without the option (really valid signature by an unlisted key; garbage by an unlisted key)
            if (with_tx) for (size_t ti : {size_t(0), size_t(2), size_t(8), size_t(12)}) for (uint32_t fl : {0u, F_STANDARD}) {
                std::vector<gen::Key> k3 = {keys[2], gen::make_key(5), gen::make_key(6)};
                Inst I = instantiate(T[ti], c, k3, {1});
                compare_explicit(c, I.script, I.stack, fl, T[ti].name + " with unlisted keys, list=" + ldesc, "mock:non-interference", V, S, L, true, false, "c11");
                // a well-encoded signature by an unlisted key that does not verify: NULLFAIL (and every other rule) applies as without the option
                { auto sb = I.stack; if (sb.back().size() > 10) { sb.back()[sb.back().size() - 2] ^= 0x01; compare_explicit(c, I.script, sb, fl, T[ti].name + " well-encoded invalid signature for an unlisted key, list=" + ldesc, "mock:non-interference:invalid-signature", V, S, L, true, false, "c11"); } }
                auto st = I.stack; st.back() = s1;   // a listed *signature* offered to an unlisted key must not be accepted either
                compare_explicit(c, I.script, st, fl & ~(F_STRICTENC | F_DERSIG | F_LOW_S | F_NULLFAIL), T[ti].name + " listed signature for an unlisted key, list=" + ldesc, "mock:listed-sig-unlisted-key", V, S, L, true, false, "c11");
            }
        }, "mock list"});
    }
    // the EMPTY signature as the listed one (--pretend-valid=0x:P): the pair is honoured by every signature opcode like any other, on the
    // stack and pushed by the script (OP_0); an unlisted key sees an ordinary empty signature
    for (SigVer sv : {SigVer::BASE, SigVer::WITNESS_V0}) for (bool with_tx : {true, false}) {
        W.push_back({[=](Violations& V, Stats2& S) {
            std::vector<gen::Key> keys = {gen::make_key(1), gen::make_key(2), gen::make_key(3)};
            Ctx c = make_ctx(2, 2, 1, 1000, sv);
            std::vector<std::vector<std::pair<bytes, bytes>>> Ls = {{{bytes{}, keys[0].pub}}, {{bytes{}, keys[0].pub}, {unhex("bb02bb"), keys[1].pub}}, {{unhex("aa01"), keys[1].pub}, {bytes{}, keys[0].pub}}};
            for (auto& L : Ls) for (uint32_t fl : {0u, F_STANDARD}) {
                std::string ldesc = "list of " + std::to_string(L.size()) + " with the empty signature for key 1";
                for (uint8_t opc : {uint8_t(0xac), uint8_t(0xad)}) { bytes sc = C({P(keys[0].pub), O(opc)}); if (opc == 0xad) sc.push_back(0x51); compare_explicit(c, sc, {bytes{}}, fl, std::string("empty listed signature in ") + (opc == 0xac ? "CHECKSIG" : "CHECKSIGVERIFY") + ", " + ldesc, "mock:empty-signature", V, S, L, with_tx, false, "c11"); }
                { bytes sc = C({O(0x00), P(keys[0].pub), O(0xac)}); compare_explicit(c, sc, {}, fl, "empty listed signature pushed by the script (OP_0), CHECKSIG, " + ldesc, "mock:empty-signature-in-script", V, S, L, with_tx, false, "c11"); }
                { bytes sc = C({O(0x51), P(keys[0].pub), O(0x51), O(0xae)}); compare_explicit(c, sc, {{}, bytes{}}, fl, "empty listed signature in 1-of-1 multisig, " + ldesc, "mock:empty-signature-multisig", V, S, L, with_tx, false, "c11"); }
                { bytes sc = C({P(keys[2].pub), O(0xac)}); compare_explicit(c, sc, {bytes{}}, fl, "empty signature for an unlisted key, " + ldesc, "mock:empty-signature-unlisted-key", V, S, L, with_tx, false, "c11"); }
            }
        }, "empty listed signature"});
    }
    // a listed signature that is REALLY valid for another, unlisted key of the same multisig and is consumed by that real check; the mocked key
    // then meets an unlisted signature, which must fail (state of the mock lookup must not survive from one signature to the next)
    for (SigVer sv : {SigVer::BASE, SigVer::WITNESS_V0}) {
        W.push_back({[=](Violations& V, Stats2& S) {
            Ctx c = make_ctx(2, 2, 1, 1000, sv);
            for (size_t ti = 0; ti < T.size(); ti++) {
                if (T[ti].name != "2-of-2 multisig" && T[ti].name != "2-of-3 multisig keys 1,3" && T[ti].name != "2-of-3 multisig keys 2,3") continue;
                Inst I = instantiate(T[ti], c, keys, {1});
                if (I.stack.size() != 3) continue;
                bytes s_first = I.stack[1], s_second = I.stack[2];   // s_second is checked first (against the later keys)
                int k_first = T[ti].slots[0].key, k_second = T[ti].slots[1].key;
                bytes X = s_first; X[X.size() - 3] ^= 0x01;
                uint32_t relaxed = F_STANDARD & ~(F_NULLFAIL | F_LOW_S);
                for (uint32_t fl : {0u, relaxed}) {
                    // the really valid second signature is ALSO listed for the first signature's key; the first signature is replaced by X
                    { std::vector<std::pair<bytes, bytes>> L = {{s_second, keys[k_first].pub}};
                      compare_explicit(c, I.script, {{}, X, s_second}, fl, T[ti].name + ": listed signature consumed by a real check of another key, then an unlisted signature for the mocked key", "mock:real-then-unlisted", V, S, L, true, false, "c11");
 }
                    // the mocked key is the later one: the listed signature passes for it, the earlier key's real signature is checked for real
                    { std::vector<std::pair<bytes, bytes>> L = {{X, keys[k_second].pub}};
                      // (a REALLY valid signature that is not listed for a mocked key is not offered: whether the real check still counts for a mocked
                      //  key is not fixed by the property - the tool rejects it, a fallback to the real check would be as defensible)
                      compare_explicit(c, I.script, {{}, s_first, X}, fl, T[ti].name + ": listed signature for the later key, real signature for the earlier key", "mock:listed-then-real", V, S, L, true, false, "c11"); }
                    (void)k_second;
                }
            }
        }, "mock and real checks in one multisig"});
    }
    // wide multisig and long pair lists: 1-of-n with the one listed key at EVERY script position for n up to the 20-key limit (a per-operation
    // cache or mask of mocked keys narrower than 20 entries loses the far ones), n-of-n with every pair listed (lists of up to 20 pairs, in
    // script order and reversed), and the same scripts with one pair missing from the list (that signature must then fail)
    for (SigVer sv : {SigVer::BASE, SigVer::WITNESS_V0}) for (int n : {3, 8, 9, 15, 16, 17, 18, 19, 20}) {
        if (!th && sv == SigVer::WITNESS_V0 && n != 17 && n != 20) continue;
        for (int part = 0; part < 5; part++)
        W.push_back({[=](Violations& V, Stats2& S) {
            std::vector<gen::Key> ks; for (int i = 0; i < n; i++) ks.push_back(gen::make_key(1 + i));
            Ctx c = make_ctx(2, 2, 1, 1000, sv);
            auto msig = [&](int m) { std::vector<bytes> parts; parts.push_back(m <= 16 ? O(uint8_t(0x50 + m)) : P(bytes{uint8_t(m)})); for (auto& k : ks) parts.push_back(P(k.pub)); parts.push_back(n <= 16 ? O(uint8_t(0x50 + n)) : P(bytes{uint8_t(n)})); parts.push_back(O(0xae)); bytes r; for (auto& x : parts) r.insert(r.end(), x.begin(), x.end()); return r; };
            uint32_t relaxed = F_STANDARD & ~(F_STRICTENC | F_DERSIG | F_LOW_S | F_NULLFAIL);
            bytes sg = unhex("aa01");
            for (uint32_t fl : {0u, relaxed}) {
                for (int j = 0; j < n; j++) {
                    if (j % 4 != part) continue;
                    std::vector<std::pair<bytes, bytes>> L = {{sg, ks[j].pub}};
                    compare_explicit(c, msig(1), {{}, sg}, fl, "1-of-" + std::to_string(n) + " multisig, the listed key at script position " + std::to_string(j), "mock:wide-multisig:listed-key", V, S, L, true, false, "c11");
                    if (j + 1 < n) { std::vector<std::pair<bytes, bytes>> L2 = {{sg, ks[j].pub}, {unhex("bb02bb"), ks[j + 1].pub}};
                        compare_explicit(c, msig(2), {{}, sg, unhex("bb02bb")}, fl, "2-of-" + std::to_string(n) + " multisig, the listed keys at script positions " + std::to_string(j) + "," + std::to_string(j + 1), "mock:wide-multisig:two-listed-keys", V, S, L2, true, false, "c11");
                        compare_explicit(c, msig(2), {{}, unhex("bb02bb"), sg}, fl, "2-of-" + std::to_string(n) + " multisig, listed signatures in the wrong order, keys at " + std::to_string(j) + "," + std::to_string(j + 1), "mock:wide-multisig:wrong-order", V, S, L2, true, false, "c11"); }
                }
                if (part != 4) continue;
                std::vector<std::pair<bytes, bytes>> all; std::vector<bytes> st{{}};
                for (int i = 0; i < n; i++) { bytes sgi{0xa0, uint8_t(i), 0x01}; all.push_back({sgi, ks[i].pub}); st.push_back(sgi); }
                compare_explicit(c, msig(n), st, fl, std::to_string(n) + "-of-" + std::to_string(n) + " multisig, every pair listed (" + std::to_string(n) + " pairs)", "mock:wide-multisig:all-listed", V, S, all, true, false, "c11");
                { auto rev = all; std::reverse(rev.begin(), rev.end()); compare_explicit(c, msig(n), st, fl, std::to_string(n) + "-of-" + std::to_string(n) + " multisig, every pair listed, list reversed", "mock:wide-multisig:all-listed", V, S, rev, true, false, "c11"); }
                for (int miss : {0, n / 2, n - 1}) { auto L = all; L.erase(L.begin() + miss); compare_explicit(c, msig(n), st, fl, std::to_string(n) + "-of-" + std::to_string(n) + " multisig, the pair of key " + std::to_string(miss) + " missing from the list", "mock:wide-multisig:one-unlisted", V, S, L, true, false, "c11"); }
            }
        }, "wide multisig n=" + std::to_string(n)});
    }
    // short values whose concatenations coincide (aa||bbcc == aabb||cc): every list of one or two pairs over 3 signatures x 3 keys of different
    // lengths, and against each list every (signature, key) of the alphabet in CHECKSIG and in a 1-of-1 multisig, without encoding rules
    // (flags 0: an unlisted pair is checked for real and fails, nothing is refused on its encoding): accepted exactly when that very pair is listed
    {
        std::vector<bytes> sigs = {unhex("aa"), unhex("aabb"), unhex("dd")}, pks = {unhex("cc"), unhex("bbcc"), unhex("bb")};
        std::vector<std::pair<bytes, bytes>> alpha2; for (auto& sg : sigs) for (auto& pk : pks) alpha2.push_back({sg, pk});
        std::vector<std::vector<std::pair<bytes, bytes>>> lists2;
        for (auto& a : alpha2) { lists2.push_back({a}); for (auto& b : alpha2) if (a != b) lists2.push_back({a, b}); }
        for (size_t li = 0; li < lists2.size(); li++) for (SigVer sv : {SigVer::BASE, SigVer::WITNESS_V0}) {
            if (!th && sv == SigVer::WITNESS_V0 && li % 3) continue;
            W.push_back({[=](Violations& V, Stats2& S) {
                const auto& L = lists2[li];
                Ctx c = make_ctx(2, 2, 1, 1000, sv);
                std::string ldesc; for (auto& p : L) ldesc += hex(p.first) + ":" + hex(p.second) + " ";
                for (auto& q : alpha2) {
                    { bytes sc = C({P(q.second), O(0xac)}); compare_explicit(c, sc, {q.first}, 0, "short values: " + hex(q.first) + " for " + hex(q.second) + " in CHECKSIG, list=" + ldesc, "mock:short-values", V, S, L, true, false, "c11"); }
                    { bytes sc = C({O(0x51), P(q.second), O(0x51), O(0xae)}); compare_explicit(c, sc, {{}, q.first}, 0, "short values: " + hex(q.first) + " for " + hex(q.second) + " in 1-of-1 multisig, list=" + ldesc, "mock:short-values-multisig", V, S, L, true, false, "c11"); }
                }
            }, "short-value lists"});
        }
    }
    // taproot key path, tapscript and P2WPKH through the auto-configuration path (--tx/--txin, no script): the signature in the witness is
    // made invalid by one flipped bit; the pair (that signature, the key it is checked against) is listed / not listed / listed with
    // another signature / listed with another key. Expected outcome of the whole session: success iff the signature really verifies
    // or the exact pair is listed.
    for (std::string type : {"p2tr-key", "p2tr-script", "p2wpkh"}) for (bool annex : {false, true}) {
        if (annex && type == "p2wpkh") continue;
        W.push_back({[=](Violations& V, Stats2& S) {
            gen::Shape sh; sh.nin = gen::is_taproot_type(type) ? 1 : 2; sh.pos = sh.nin - 1; sh.fund_vout = 1; sh.nout = 2;
            for (uint8_t ht : {uint8_t(gen::is_taproot_type(type) ? 0 : 1), uint8_t(0x81)}) {
                gen::Spend G = gen::make_spend(type, sh, ht, 1, annex);
                bytes good = G.tx.vin[sh.pos].witness[0];
                bytes bad = good; bad[bad.size() / 2] ^= 0x04;
                bytes key;
                if (type == "p2tr-key") { const bytes& spk = G.fund.vout[1].spk; key = bytes(spk.begin() + 2, spk.end()); }
                else if (type == "p2tr-script") key = bytes(G.leaf_script.end() - 33, G.leaf_script.end() - 1);
                else key = G.tx.vin[sh.pos].witness[1];
                bytes other_sig = bad; other_sig[1] ^= 0x40;
                bytes other_key = key; other_key[5] ^= 0x01;
                struct MC { const char* name; bool use_bad; std::vector<std::pair<bytes, bytes>> list; bool expect_ok; };
                std::vector<MC> cases = {
                    {"genuine signature, no list", false, {}, true},
                    {"invalid signature, no list", true, {}, false},
                    {"invalid signature, exact pair listed", true, {{bad, key}}, true},
                    {"invalid signature, exact pair listed second", true, {{other_sig, other_key}, {bad, key}}, true},
                    {"invalid signature, another signature listed for the key", true, {{other_sig, key}}, false},
                    {"invalid signature, listed for another key", true, {{bad, other_key}}, false},
                    {"genuine signature, another signature listed for the key", false, {{other_sig, key}}, true},
                };
                for (auto& mc : cases) {
                    Tx tx = G.tx; if (mc.use_bad) tx.vin[sh.pos].witness[0] = bad;
                    std::string expr; for (size_t i = 0; i < mc.list.size(); i++) { if (i) expr += ","; expr += "0x" + hex(mc.list[i].first) + ":0x" + hex(mc.list[i].second); }
                    std::string label = type + (annex ? " annex" : "") + " hashtype=" + std::to_string(ht) + ": " + mc.name;
                    J rj = JObj().put("engine", "mc_sig").put("mode", "c11-auto").put("tx", hex(ser_tx(tx))).put("txin", hex(ser_tx(G.fund))).put("list", expr).put("expect_ok", mc.expect_ok).put("label", label).j();
                    note(rj.s);
                    std::string stage; bool ok = run_auto_mock(hex(ser_tx(tx)), hex(ser_tx(G.fund)), expr, stage);
                    S.sessions++; S.outcomes[ok ? "OK" : "invalid"]++;
                    if (ok != mc.expect_ok)
                        V.add(std::string("c11:auto:") + type + ":" + mc.name + ":" + (ok ? "accepted" : "rejected"),
                              label + ": the session must " + (mc.expect_ok ? "succeed" : "fail") + " but " + (ok ? "succeeds" : "fails at " + stage), rj);
                }
            }
        }, "mock pairs in auto-configured sessions " + type});
    }
    // a mocked check succeeds regardless of the transaction context: that includes the tapscript signature budget, which real checks draw on -
    // a one-byte mock signature checked 1..6 times by one leaf (the budget derived from this small witness pays for two real checks)
    for (int checks : {1, 2, 3, 4, 6}) for (bool annex : {false, true}) {
        W.push_back({[=](Violations& V, Stats2& S) {
            gen::Shape sh; sh.nin = 1; sh.pos = 0; sh.fund_vout = 1; sh.nout = 2; sh.tap_checks = checks;
            gen::Spend G = gen::make_spend("p2tr-script", sh, 0, 1, annex);
            bytes key(G.leaf_script.begin() + 1, G.leaf_script.begin() + 33);
            bytes mock{0x5a};
            for (int listed = 0; listed < 2; listed++) {
                Tx tx = G.tx; tx.vin[0].witness[0] = mock;
                std::string expr = listed ? "0x" + hex(mock) + ":0x" + hex(key) : std::string();
                std::string label = "p2tr-script" + std::string(annex ? " annex" : "") + ": one-byte signature checked " + std::to_string(checks) + " time(s), pair " + (listed ? "listed" : "not listed");
                J rj = JObj().put("engine", "mc_sig").put("mode", "c11-auto").put("tx", hex(ser_tx(tx))).put("txin", hex(ser_tx(G.fund))).put("list", expr).put("expect_ok", listed == 1).put("label", label).j();
                note(rj.s);
                std::string stage; bool ok = run_auto_mock(hex(ser_tx(tx)), hex(ser_tx(G.fund)), expr, stage);
                S.sessions++; S.outcomes[ok ? "OK" : "invalid"]++;
                if (ok != (listed == 1)) V.add(std::string("c11:auto:p2tr-script:repeated-mocked-checks:") + (ok ? "accepted" : "rejected"), label + ": the session must " + (listed ? "succeed" : "fail") + " but " + (ok ? "succeeds" : "fails at " + stage), rj);
            }
        }, "mocked checks vs the signature budget, " + std::to_string(checks) + " checks"});
    }
    // malformed lists
    W.push_back({[=](Violations& V, Stats2& S) {
        for (const char* e : {"aa", "aa:", ":bb", "aa::bb", "aa:bb,", ",aa:bb", "aa:bb,,cc:dd", "aa:bb:cc", "", ",", "aa:bb,cc:", "aa:,bb:cc", ":aa,bb:cc", "aa:bb,:cc", ":", "aa:bb,cc", "aa:bb,cc:dd", "aa:bb,cc:dd,ee:ff", "aa:bb,aa:cc", "aa:bb,cc:dd,"}) {
            impl::quiet_globals(); Instance inst; bool ok;
            try { ok = inst.parse_pretend_valid_expr(e); } catch (const std::exception&) { ok = false; }
            S.sessions++;
            // which lists are well-formed: non-empty comma-separated items, each exactly SIG ':' KEY with both parts non-empty
            // malformed: an item without a colon or with more than one colon, or with an empty signature or key part - a signature without
            // key (aa:) would otherwise be dropped without a word (an empty list and a trailing comma are tolerated: the property does not
            // call them malformed; they are counted as observations)
            std::string s = e; bool wf = true; bool arguable = s.empty(); size_t p = 0;
            while (!s.empty() && p <= s.size()) { size_t q = s.find(',', p); std::string it = s.substr(p, q == std::string::npos ? std::string::npos : q - p); size_t col = it.find(':');
                if (it.empty() && q == std::string::npos && p > 0) { arguable = true; break; }
                if (col == std::string::npos || it.find(':', col + 1) != std::string::npos) wf = false;
                else if (col == 0 || col + 1 >= it.size()) wf = false;
                if (q == std::string::npos) break; p = q + 1; }
            if (arguable && wf) { S.outcomes[std::string("arguable-list-") + (ok ? "accepted" : "rejected")]++; continue; }
            S.outcomes[ok ? "list-accepted" : "list-rejected"]++;
            if (ok && !wf) V.add(std::string("c11:malformed-list-accepted:") + (s.empty() ? "empty" : s), std::string("malformed pair list '") + e + "' is accepted", JObj().put("engine", "mc_sig").put("mode", "c11-list").put("expr", e).j());
            if (!ok && wf) V.add(std::string("c11:wellformed-list-rejected:") + s, std::string("well-formed pair list '") + e + "' is rejected", JObj().put("engine", "mc_sig").put("mode", "c11-list").put("expr", e).j());
        }
    }, "malformed lists"});
}

// ------------------------------------------------------------------------------------------- C01: lock-time opcodes under transaction environments T
static void gen_locktime(const std::string& tier, std::vector<Work>& W) {
    std::vector<uint32_t> lts = {0, 100, 499999999, 500000000, 0xffffffffu};
    std::vector<uint32_t> seqs = {0, 10, 0x0040000a, 0x80000000u, 0xffffffffu, 0xfffffffeu};
    std::vector<int64_t> ns = {0, 1, 10, 11, 100, 101, 499999999, 500000000, 500000001, 0x0040000a, 0x00400009, 0x0040000b, 0x00400000, 65535, 65536 + 10, 0x7fffffff, 0x80000000LL, 0x8000000aLL, 0xffffffffLL, 0x100000000LL, -1, 0x7fffffffffLL};
    for (uint32_t lt : lts) for (uint32_t seq : seqs) for (int32_t ver : {1, 2}) for (SigVer sv : {SigVer::BASE, SigVer::WITNESS_V0}) {
        W.push_back({[=](Violations& V, Stats2& S) {
            Ctx c = make_ctx(2, 1, 1, 5000, sv, ver, lt, seq);
            for (int64_t n : ns) for (uint8_t opc : {uint8_t(0xb1), uint8_t(0xb2)}) for (uint32_t fl : std::vector<uint32_t>{F_CLTV | F_CSV, F_CLTV | F_CSV | F_MINIMALDATA, 0u, F_STANDARD}) {
                bytes sc = C({push_num(n), O(opc)});
                compare_explicit(c, sc, {}, fl, std::string(opc == 0xb1 ? "CHECKLOCKTIMEVERIFY" : "CHECKSEQUENCEVERIFY") + " operand " + std::to_string(n), std::string("locktime:") + (opc == 0xb1 ? "CLTV" : "CSV"), V, S, {}, true, false, "c01");
                // non-minimal and over-long operands
                bytes raw = num_encode(n); raw.push_back(0x00);
                if (raw.size() <= 7) { bytes sc2 = C({push_raw(raw), O(opc)}); compare_explicit(c, sc2, {}, fl, "padded operand " + hex(raw), std::string("locktime-padded:") + (opc == 0xb1 ? "CLTV" : "CSV"), V, S, {}, true, false, "c01"); }
            }
        }, "locktime env"});
    }
}

int main(int argc, char** argv) {
    Args a(argc, argv);
    ECCVerifyHandle ecc;
    impl::quiet_globals();
    std::string out = a.get("out", "/dev/stdout"), tier = a.get("tier", "quick"), mode = a.get("mode", "c02");
    double t0 = now_s();
    Violations V; JObj res; res.put("engine", "mc_sig").put("mode", mode).put("tier", tier);
    if (a.has("replay")) {
        JParser p(read_file(a.get("replay"))); JVal v = p.parse(); const JVal& r = v.has("replay") ? v["replay"] : v;
        Violations V1, V2;
        for (Violations* vv : {&V1, &V2}) {
            if (r["mode"].s == "explicit") {
                Ctx c; parse_tx(unhex(r["tx"].s), c.tx); parse_tx(unhex(r["txin"].s), c.fund); c.k = int(r["k"].i()); c.amount = r["amount"].i(); c.sv = SigVer(r["sv"].i()); c.label = "replay";
                std::vector<std::pair<bytes, bytes>> mocks; for (auto& m : r["mocks"].a) mocks.push_back({unhex(m.a[0].s), unhex(m.a[1].s)});
                Stats2 s; compare_explicit(c, unhex(r["script"].s), impl::stack_from_json(r["stack"]), uint32_t(r["flags"].i()), r["label"].s, "replay", *vv, s, mocks, true, vv == &V1);
            } else if (r["mode"].s == "c04sig") {
                Ctx c; parse_tx(unhex(r["tx"].s), c.tx); parse_tx(unhex(r["txin"].s), c.fund); c.k = int(r["k"].i()); c.amount = r["amount"].i(); c.sv = SigVer(r["sv"].i()); c.label = "replay";
                Stats2 s; rewind_roundtrip(c, unhex(r["script"].s), impl::stack_from_json(r["stack"]), uint32_t(r["flags"].i()), r["label"].s, "replay", *vv, s);
            } else if (r["mode"].s == "c11-auto") {
                std::string stage; bool ok = run_auto_mock(r["tx"].s, r["txin"].s, r["list"].s, stage);
                if (ok != r["expect_ok"].b) vv->add("c11:auto:replay", r["label"].s + ": expected " + (r["expect_ok"].b ? "success" : "failure") + ", got " + (ok ? "success" : "failure at " + stage), J::raw("{}"));
            } else if (r["mode"].s == "auto") {
                sc::Case c; parse_tx(unhex(r["tx"].s), c.tx); parse_tx(unhex(r["txin"].s), c.fund); c.select = int(r["select"].i()); c.flags = uint32_t(r["flags"].i()); c.label = r["label"].s; c.klass = r["klass"].s; c.amount_prefix = r["amount_prefix"].s; sc::Stats s; sc::compare_session(c, *vv, s, "mc_sig", "auto", vv == &V1);
            }
        }
        if (V1.j().s != V2.j().s) { fprintf(stderr, "NONDETERMINISTIC replay\n"); return 2; }
        for (auto& kv : V1.by_key) printf("DIVERGENCE %s: %s\n", kv.first.c_str(), kv.second.first.what.c_str());
        if (V1.by_key.empty()) printf("no divergence\n");
        return V1.by_key.empty() ? 0 : 1;
    }
    std::vector<Work> W;
    if (mode == "c02") { gen_c02_ecdsa(tier, W); gen_c02_schnorr(tier, W); }
    else if (mode == "locktime") gen_locktime(tier, W);
    else if (mode == "c04sig") gen_c04sig(tier, W);
    else gen_c11(tier, W);
    Stats2 S;
    std::string tmp = make_tmpdir();
    parallel_for(W.size(), default_workers(), tmp, mode,
        [&](size_t i, FILE* o) { Violations v; Stats2 s; double t1 = now_s(); W[i].run(v, s); if (getenv("VERIF_TIMING")) { FILE* tf = fopen(getenv("VERIF_TIMING"), "a"); if (tf) { fprintf(tf, "%.2f\t%s\n", now_s() - t1, W[i].label.c_str()); fclose(tf); } } s.dump(o); v.dump(o); },
        [&](size_t i, int st, const std::string& nt) { V.add(mode + ":crash:" + crash_desc(st), "worker died (" + crash_desc(st) + ") in work item " + W[i].label, J::raw(nt.empty() ? "{}" : nt)); },
        [&](const std::string& l) { if (l.empty()) return; if (l[0] == 'V') V.merge_line(l); else S.merge_line(l); });
    rm_rf(tmp);
    res.put("work_items", W.size()).put("sessions", S.sessions).put("steps", S.steps).put("signature_checks_accepting", S.sig_accept).put("signature_checks_rejecting", S.sig_reject);
    { JObj o; for (auto& kv : S.outcomes) o.put(kv.first, kv.second); res.put("outcomes", o.j()); }
    std::vector<std::string> smp; for (size_t i = 0; i < W.size() && smp.size() < 8; i += W.size() / 8 + 1) smp.push_back(W[i].label);
    res.put("samples", J::strs(smp));
    res.put("violations", V.j());
    res.put("wall_s", now_s() - t0);
    write_result(out, res);
    return 0;
}
