/* kerlhist — C15, the history file read at start-up (kerl_set_history_file, readline build of kerl).
 *
 * The tools' REPL is driven by the checks through the kerl build WITHOUT readline (deterministic over a pty); the code that loads
 * ./.btcdeb_history into readline's history exists only in the readline build, which is what ./configure produces. This harness
 * links the real kerl/kerl.c compiled with readline (sanitizer flavour) and enumerates history files exhaustively within a bound:
 * every sequence of up to MAXLINES lines over an alphabet of line shapes (empty, one character, NUL first, NUL inside, escapes,
 * a trailing backslash, 1022/1023/1024/1025/2100 characters), with and without a final newline. Each file is loaded in a forked
 * child; a child that dies (signal, sanitizer report) is a violation. The entries readline holds afterwards are compared with the
 * lines of the file as an observation only (C15 does not define them).
 *
 * usage: kerlhist <scratch-dir> [maxlines]      output: one line per file class that kills the loader, then a summary line
 */
#include <stdio.h>
#include <stdlib.h>
#include <string.h>
#include <unistd.h>
#include <sys/wait.h>
#include <fcntl.h>

void kerl_set_history_file(const char *path);

#define NSHAPES 14
static size_t shape(int k, char *out) {
    /* writes the line (without newline) into out, returns its length */
    switch (k) {
    case 0: return 0;
    case 1: out[0] = 's'; return 1;
    case 2: memcpy(out, "step", 4); return 4;
    case 3: out[0] = 0; memcpy(out + 1, "hidden", 6); return 7;          /* NUL first */
    case 4: memcpy(out, "st", 2); out[2] = 0; memcpy(out + 3, "ep", 2); return 5;   /* NUL inside */
    case 5: memcpy(out, "tf echo a\\nb", 12); return 12;                  /* escaped newline */
    case 6: memcpy(out, "exec 1\\", 7); return 7;                         /* trailing backslash */
    case 7: memcpy(out, "\\\\\\\\", 4); return 4;                         /* escaped backslashes */
    case 8: memset(out, 'a', 1022); return 1022;
    case 9: memset(out, 'a', 1023); return 1023;
    case 10: memset(out, 'a', 1024); return 1024;
    case 11: memset(out, 'a', 1025); return 1025;
    case 12: memset(out, '\\', 2100); return 2100;
    case 13: out[0] = 0; return 1;                                        /* a lone NUL */
    }
    return 0;
}
static const char *shape_name[NSHAPES] = {"empty", "one-char", "word", "nul-first", "nul-inside", "escaped-newline", "trailing-backslash", "escaped-backslashes",
                                          "1022-chars", "1023-chars", "1024-chars", "1025-chars", "2100-backslashes", "lone-nul"};

int main(int argc, char **argv) {
    if (argc < 2) { fprintf(stderr, "usage: kerlhist <scratch-dir> [maxlines]\n"); return 2; }
    int maxlines = argc > 2 ? atoi(argv[2]) : 2;
    char path[4096]; snprintf(path, sizeof path, "%s/.btcdeb_history", argv[1]);
    char errpath[4096]; snprintf(errpath, sizeof errpath, "%s/kerlhist.err", argv[1]);
    static char line[4096];
    long files = 0, deaths = 0;
    int idx[4] = {0, 0, 0, 0};
    for (int n = 0; n <= maxlines && n <= 4; n++) {
        long total = 1; for (int i = 0; i < n; i++) total *= NSHAPES;
        for (long code = 0; code < total; code++) {
            long c = code; for (int i = 0; i < n; i++) { idx[i] = (int)(c % NSHAPES); c /= NSHAPES; }
            for (int final_newline = 0; final_newline < 2; final_newline++) {
                if (n == 0 && final_newline) continue;
                FILE *f = fopen(path, "wb"); if (!f) { perror("fopen"); return 2; }
                for (int i = 0; i < n; i++) { size_t l = shape(idx[i], line); fwrite(line, 1, l, f); if (i + 1 < n || final_newline) fputc('\n', f); }
                fclose(f);
                files++;
                fflush(stdout);
                pid_t pid = fork();
                if (pid == 0) {
                    int dn = open(errpath, O_WRONLY | O_CREAT | O_TRUNC, 0600); if (dn >= 0) { dup2(dn, 2); }
                    kerl_set_history_file(path);
                    _exit(0);
                }
                int st = 0; waitpid(pid, &st, 0);
                if (!(WIFEXITED(st) && WEXITSTATUS(st) == 0)) {
                    deaths++;
                    printf("DEATH\t%s\t", WIFSIGNALED(st) ? "signal" : "exit");
                    printf("%d\t", WIFSIGNALED(st) ? WTERMSIG(st) : WEXITSTATUS(st));
                    for (int i = 0; i < n; i++) printf("%s%s", i ? "," : "", shape_name[idx[i]]);
                    printf("\t%s\t", final_newline ? "final-newline" : "no-final-newline");
                    {   /* the sanitizer's headline, if any */
                        FILE *e = fopen(errpath, "r"); char l[512]; int shown = 0;
                        while (e && fgets(l, sizeof l, e)) if (!shown && (strstr(l, "ERROR: ") || strstr(l, "runtime error"))) { l[strcspn(l, "\n")] = 0; printf("%s", l); shown = 1; }
                        if (e) fclose(e);
                    }
                    printf("\n");
                }
            }
        }
    }
    unlink(path); unlink(errpath);
    printf("SUMMARY\t%ld\t%ld\t%d\t%d\n", files, deaths, NSHAPES, maxlines);
    return 0;
}
