// mc_script — C01 (stepping follows the script rules) and C09b (flags only restrict).
// Shape S: breadth-first exploration of the real Instance::step() over a complete opcode alphabet,
// from many initial stacks, under bounded flag-set deviations, with the reference interpreter as
// oracle after every step, and ContinueScript compared with stepping on every explored script.
#include "impl.hpp"
#include "alphabet.hpp"
#include "ref/refsigenc.hpp"
#include <unordered_set>
#include <algorithm>

using namespace mc;
using ref::bytes;

struct Cfg { ref::SigVer sv; uint32_t flags; std::vector<bytes> init; };

static std::string cfg_str(const Cfg& c) { return std::string(impl::sv_name(c.sv)) + "/" + alpha::flags_str(c.flags) + "/" + impl::stack_str(c.init); }

static J replay_json(const Cfg& c, const bytes& script) {
    return JObj().put("engine", "mc_script").put("sv", int(c.sv)).put("flags", (long long)c.flags).put("init", impl::stack_json(c.init)).put("script", ref::hex(script)).j();
}

struct Stats {
    long long transitions = 0, states = 0, sessions = 0, refused = 0, failing = 0;
    std::map<std::string, long long> outcomes;      // error name -> count ("OK" for success)
    std::map<int, std::pair<long long, long long>> opstat;  // opcode -> (ok, fail) of last-symbol transitions
    void merge(const Stats& o) {
        transitions += o.transitions; states += o.states; sessions += o.sessions; refused += o.refused; failing += o.failing;
        for (auto& kv : o.outcomes) outcomes[kv.first] += kv.second;
        for (auto& kv : o.opstat) { opstat[kv.first].first += kv.second.first; opstat[kv.first].second += kv.second.second; }
    }
    void dump(FILE* f) const {
        fprintf(f, "T\t%lld\t%lld\t%lld\t%lld\t%lld\n", transitions, states, sessions, refused, failing);
        for (auto& kv : outcomes) fprintf(f, "O\t%s\t%lld\n", kv.first.c_str(), kv.second);
        for (auto& kv : opstat) fprintf(f, "P\t%d\t%lld\t%lld\n", kv.first, kv.second.first, kv.second.second);
    }
    void merge_line(const std::string& l) {
        if (l[0] == 'T') { long long a, b, c, d, e; sscanf(l.c_str() + 2, "%lld\t%lld\t%lld\t%lld\t%lld", &a, &b, &c, &d, &e); transitions += a; states += b; sessions += c; refused += d; failing += e; }
        else if (l[0] == 'O') { char n[128]; long long c; sscanf(l.c_str() + 2, "%127s\t%lld", n, &c); outcomes[n] += c; }
        else if (l[0] == 'P') { int op; long long a, b; sscanf(l.c_str() + 2, "%d\t%lld\t%lld", &op, &a, &b); opstat[op].first += a; opstat[op].second += b; }
    }
};

struct CmpResult {
    bool live = false;         // script ran to its end without error in both; may be extended
    ref::Machine m;            // reference state after the script
    std::string outcome;       // reference outcome of the last op ("OK" or error name or "REFUSED"/"OP_SUCCESS")
    int last_opcode = -1;
};

// schnorr checks without a transaction leave the error unspecified in the reference checker; C01 has no tx
static bool err_matches(ref::Err e, const std::string& impl_err, bool sigop) {
    if (impl_err == ref::err_name(e)) return true;
    if (sigop && e == ref::Err::SCHNORR_SIG) return impl_err != "";  // any failure
    return false;
}

static CmpResult compare_script(const Cfg& c, const bytes& script, Violations& V, Stats& S, bool verbose = false) {
    CmpResult R;
    // ---- domain
    std::vector<ref::Op> ops;
    bool decodable = true, in_domain = true, has_success = false;
    for (size_t pc = 0; pc < script.size();) {
        ref::Op o = ref::decode_op(script, pc);
        if (!o.ok) { decodable = false; in_domain = false; break; }
        if (o.code > 0xba || o.data.size() > ref::MAX_ELEM) in_domain = false;
        if (c.sv == ref::SigVer::TAPSCRIPT && ref::is_op_success(o.code)) has_success = true;
        ops.push_back(o);
        pc = o.end;
    }
    if (!ops.empty()) R.last_opcode = ops.back().code;
    note(replay_json(c, script).s);
    S.sessions++;
    impl::Session sess;
    bool opened = sess.open(script, c.init, c.flags, c.sv, false);
    if (!in_domain) {
        R.outcome = "REFUSED";
        S.refused++;
        if (sess.parse_ok) {
            char k[96]; snprintf(k, 96, "accepted-out-of-domain:%s:last=0x%02x", decodable ? "opcode-or-push" : "undecodable", R.last_opcode);
            V.add(k, "script outside the domain was not refused at parse time: " + ref::hex(script) + " cfg=" + cfg_str(c), replay_json(c, script));
        }
        return R;
    }
    if (!sess.parse_ok) {
        char k[64]; snprintf(k, 64, "refused-in-domain:op=0x%02x", R.last_opcode);
        V.add(k, "in-domain script refused by parse_script: " + ref::hex(script) + " cfg=" + cfg_str(c), replay_json(c, script));
        R.outcome = "REFUSED";
        return R;
    }
    if (!opened) {
        V.add("setup-failed", "setup_environment failed for in-domain script " + ref::hex(script) + " cfg=" + cfg_str(c), replay_json(c, script));
        return R;
    }
    // ---- reference machine
    ref::Machine m;
    m.sv = c.sv; m.flags = c.flags; m.script = script; m.stack = c.init;
    m.ed.weight_init = true; m.ed.weight_left = 1000000;
    if (has_success) {
        // BIP342: a tapscript containing OP_SUCCESSx succeeds without being executed (or fails with
        // DISCOURAGE_OP_SUCCESS when that flag is set). The debugger has no such pre-scan.
        R.outcome = "OP_SUCCESS";
        bool expect_ok = !(c.flags & ref::F_DISCOURAGE_OP_SUCCESS);
        std::string e; size_t i = 0;
        for (; i < ops.size(); i++) { e = sess.step(); if (e != "") break; }
        bool impl_ok = e == "";
        int first_succ = -1; for (auto& o : ops) if (ref::is_op_success(o.code)) { first_succ = o.code; break; }
        if (impl_ok != expect_ok || (!expect_ok && e != "DISCOURAGE_OP_SUCCESS")) {
            char k[96]; snprintf(k, 96, "tapscript-op-success:0x%02x:%s", first_succ, expect_ok ? "must-succeed" : "must-fail-discouraged");
            V.add(k, std::string("tapscript containing OP_SUCCESSx is executed with legacy semantics; impl=") + (impl_ok ? "ok" : e) + " script=" + ref::hex(script) + " cfg=" + cfg_str(c), replay_json(c, script));
        }
        return R;
    }
    // ---- step by step
    std::string stepped_err; int stepped_fail_index = -1;
    bool diverged = false;
    for (size_t i = 0; i < ops.size(); i++) {
        uint8_t opc = ops[i].code;
        bool sigop = opc >= ref::OP_CHECKSIG && opc <= ref::OP_CHECKSIGADD && opc != ref::OP_NOP1;
        ref::Err er = m.step();
        std::string ei = sess.step();
        if (verbose) fprintf(stderr, "  op#%zu 0x%02x ref=%s impl=%s stack ref=%s impl=%s\n", i, opc, ref::err_name(er), ei == "" ? "OK" : ei.c_str(), impl::stack_str(m.stack).c_str(), impl::stack_str(sess.stack()).c_str());
        char opk[48]; snprintf(opk, 48, "sv=%s;op=0x%02x", impl::sv_name(c.sv), opc);
        if (er != ref::Err::OK) {
            if (i + 1 == ops.size()) R.outcome = ref::err_name(er);
            if (!err_matches(er, ei, sigop)) {
                V.add(std::string("step-outcome:") + opk + ";ref=" + ref::err_name(er) + ";impl=" + (ei == "" ? "OK" : ei),
                      "op #" + std::to_string(i) + " must fail with " + ref::err_name(er) + " but the debugger reports " + (ei == "" ? "success" : ei) + "; script=" + ref::hex(script) + " cfg=" + cfg_str(c), replay_json(c, script));
                diverged = true;
            }
            stepped_err = ei; stepped_fail_index = int(i);
            break;
        }
        if (ei != "") {
            V.add(std::string("step-outcome:") + opk + ";ref=OK;impl=" + ei,
                  "op #" + std::to_string(i) + " must succeed but the debugger reports " + ei + "; script=" + ref::hex(script) + " cfg=" + cfg_str(c), replay_json(c, script));
            stepped_err = ei; stepped_fail_index = int(i); diverged = true;
            break;
        }
        const char* kind = nullptr;
        if (sess.stack() != m.stack) kind = "stack";
        else if (sess.alt() != m.alt) kind = "altstack";
        else if (sess.cond_size() != m.cond_size() || sess.cond_first_false() != m.cond_first_false()) kind = "cond";
        else if (sess.env().nOpCount != m.opcount) kind = "opcount";
        else if (sess.pc_off() != m.pc) kind = "pc";
        if (kind) {
            V.add(std::string("step-state:") + opk + ";" + kind,
                  "after op #" + std::to_string(i) + " the " + kind + " differs: ref stack=" + impl::stack_str(m.stack) + " alt=" + impl::stack_str(m.alt) + " impl stack=" + impl::stack_str(sess.stack()) + " alt=" + impl::stack_str(sess.alt()) + "; script=" + ref::hex(script) + " cfg=" + cfg_str(c), replay_json(c, script));
            diverged = true;
            break;
        }
    }
    if (diverged) return R;
    bool ref_failed = stepped_fail_index >= 0;
    std::string final_err;  // outcome of the whole session when stepped
    std::vector<bytes> final_stack;
    if (!ref_failed) {
        R.outcome = "OK";
        // end-of-script verdict
        ref::Err ef = m.finish();
        std::string ei = ops.empty() ? (ef == ref::Err::OK ? "" : "x") : sess.step();
        if (!ops.empty()) {
            if ((ef == ref::Err::OK) != (ei == "") || (ef != ref::Err::OK && ei != ref::err_name(ef))) {
                V.add(std::string("final-verdict:sv=") + impl::sv_name(c.sv) + ";ref=" + ref::err_name(ef) + ";impl=" + (ei == "" ? "OK" : ei),
                      "end-of-script verdict differs; script=" + ref::hex(script) + " cfg=" + cfg_str(c), replay_json(c, script));
                return R;
            }
            if (!sess.inst.at_end()) {
                V.add("final-verdict:not-done", "session not done after the final step; script=" + ref::hex(script), replay_json(c, script));
                return R;
            }
        }
        final_err = ef == ref::Err::OK ? "" : ref::err_name(ef);
        final_stack = m.stack;
        R.live = true;
        R.m = m;
    } else {
        final_err = stepped_err;
    }
    // ---- run-to-completion equals stepping
    if (!ops.empty()) {
        impl::Session s2;
        s2.open(script, c.init, c.flags, c.sv, false);
        std::string ce;
        try {
            if (!ContinueScript(*s2.inst.env)) ce = impl::err_name(*s2.inst.env->serror);
        } catch (const std::exception&) { ce = "UNKNOWN_ERROR"; }
        bool same = (ce == final_err) || (ref_failed && ce != "" && final_err != "" && err_matches(ref::Err::SCHNORR_SIG, ce, true) && R.outcome == "SCHNORR_SIG");
        if (same && ce == "" && s2.stack() != final_stack) same = false;
        if (!same) {
            V.add(std::string("continue-vs-step:sv=") + impl::sv_name(c.sv) + ";step=" + (final_err == "" ? "OK" : final_err) + ";continue=" + (ce == "" ? "OK" : ce),
                  "ContinueScript result differs from stepping; script=" + ref::hex(script) + " cfg=" + cfg_str(c), replay_json(c, script));
            R.live = false;
        }
    }
    return R;
}

static std::string state_key(const ref::Machine& m) {
    std::string k;
    auto put = [&](const std::vector<bytes>& s) { k += char(s.size() & 0xff); k += char(s.size() >> 8); for (auto& b : s) { k += char(b.size() & 0xff); k += char(b.size() >> 8); k.append((const char*)b.data(), b.size()); } };
    put(m.stack); k += '|'; put(m.alt); k += '|';
    for (bool b : m.cond) k += b ? 'T' : 'F';
    k += '|'; k += std::to_string(m.opcount);
    if (m.sv == ref::SigVer::TAPSCRIPT) { k += '|'; k += std::to_string(m.ed.weight_left); }
    return k;
}

struct Item { Cfg cfg; std::vector<int> prefix; int depth; };

// exhaustive BFS below `prefix` to `depth` symbols in total
static void explore(const Item& it, const std::vector<alpha::Sym>& sigma, Violations& V, Stats& S, std::vector<std::string>* samples = nullptr) {
    bytes base;
    for (int s : it.prefix) base.insert(base.end(), sigma[s].enc.begin(), sigma[s].enc.end());
    std::vector<ref::Machine> frontier;
    std::unordered_set<H128, H128Hash> seen;
    if (it.prefix.empty()) {
        ref::Machine m; m.sv = it.cfg.sv; m.flags = it.cfg.flags; m.stack = it.cfg.init; m.ed.weight_init = true; m.ed.weight_left = 1000000;
        frontier.push_back(m); seen.insert(hash128(state_key(m))); S.states++;
    } else {
        CmpResult r = compare_script(it.cfg, base, V, S);
        S.transitions++;
        S.outcomes[r.outcome]++;
        if (r.last_opcode >= 0) { auto& p = S.opstat[r.last_opcode]; if (r.outcome == "OK") p.first++; else p.second++; }
        if (r.outcome != "OK") S.failing++;
        if (r.live) { frontier.push_back(r.m); seen.insert(hash128(state_key(r.m))); S.states++; }
    }
    for (int level = int(it.prefix.size()); level < it.depth; level++) {
        std::vector<ref::Machine> next;
        for (auto& st : frontier) {
            for (auto& sym : sigma) {
                bytes script = st.script;
                script.insert(script.end(), sym.enc.begin(), sym.enc.end());
                CmpResult r = compare_script(it.cfg, script, V, S);
                S.transitions++;
                S.outcomes[r.outcome]++;
                if (r.last_opcode >= 0) { auto& p = S.opstat[r.last_opcode]; if (r.outcome == "OK") p.first++; else p.second++; }
                if (r.outcome != "OK") S.failing++;
                if (samples && samples->size() < 6 && r.outcome != "REFUSED" && script.size() >= 3)
                    samples->push_back(cfg_str(it.cfg) + " script=" + ref::hex(script) + " -> " + r.outcome + (r.live ? " stack=" + impl::stack_str(r.m.stack) : ""));
                if (r.live) {
                    H128 h = hash128(state_key(r.m));
                    if (seen.insert(h).second) { S.states++; if (level + 1 < it.depth) next.push_back(r.m); }
                }
            }
        }
        frontier.swap(next);
    }
}

// -------------------------------------------------------------------------------- C09b: monotonicity
// For every script/stack explored at depth<=2 under all 2^8 subsets of R: success(B) => success(B \ {f}).
static void monotonic(ref::SigVer sv, const std::vector<bytes>& init, const std::vector<alpha::Sym>& sigma, int depth, Violations& V, long long& pairs, long long& scripts, long long& strict_edges) {
    std::vector<uint32_t> bits = alpha::R();
    std::vector<uint32_t> sets = alpha::subsets(bits);
    // enumerate all symbol sequences of length 1..depth (no dedup: the relation is per script)
    std::vector<std::vector<int>> seqs;
    std::vector<int> cur;
    std::function<void(int)> rec = [&](int d) {
        if (!cur.empty()) seqs.push_back(cur);
        if (d == depth) return;
        for (size_t i = 0; i < sigma.size(); i++) { if (sigma[i].refuse) continue; cur.push_back(int(i)); rec(d + 1); cur.pop_back(); }
    };
    rec(0);
    for (auto& sq : seqs) {
        bytes script;
        for (int s : sq) script.insert(script.end(), sigma[s].enc.begin(), sigma[s].enc.end());
        std::vector<char> ok(sets.size());
        bool skip = false;
        for (size_t k = 0; k < sets.size(); k++) {
            impl::Session s;
            note(replay_json(Cfg{sv, sets[k], init}, script).s);
            if (!s.open(script, init, sets[k], sv, false)) { skip = true; break; }
            bool r;
            try { r = ContinueScript(*s.inst.env); } catch (const std::exception&) { r = false; }
            ok[k] = r;
        }
        if (skip) continue;
        scripts++;
        for (size_t k = 0; k < sets.size(); k++) {
            for (size_t b = 0; b < bits.size(); b++) {
                if (!(k & (1u << b))) continue;
                size_t sub = k & ~(1u << b);
                pairs++;
                if (ok[k] != ok[sub]) strict_edges++;
                if (ok[k] && !ok[sub]) {
                    V.add(std::string("monotonic:sv=") + impl::sv_name(sv) + ";flag=" + alpha::flags_str(bits[b]),
                          "script succeeds under " + alpha::flags_str(sets[k]) + " but fails with flag " + alpha::flags_str(bits[b]) + " removed; script=" + ref::hex(script) + " init=" + impl::stack_str(init),
                          replay_json(Cfg{sv, sets[k], init}, script));
                }
            }
        }
    }
}

static std::vector<std::vector<bytes>> tuples(const std::vector<bytes>& vals, int maxlen) {
    std::vector<std::vector<bytes>> r{{}};
    size_t lo = 0;
    for (int l = 1; l <= maxlen; l++) {
        size_t hi = r.size();
        for (size_t i = lo; i < hi; i++) for (auto& v : vals) { auto t = r[i]; t.push_back(v); r.push_back(t); }
        lo = hi;
    }
    return r;
}

int main(int argc, char** argv) {
    Args a(argc, argv);
    ECCVerifyHandle ecc;
    impl::quiet_globals();
    std::string out = a.get("out", "/dev/stdout");
    std::string tier = a.get("tier", "quick");
    std::string mode = a.get("mode", "c01");
    auto sigma = alpha::sigma(true);
    double t0 = now_s();

    if (a.has("replay")) {
        JParser p(read_file(a.get("replay")));
        JVal v = p.parse();
        const JVal& r = v.has("replay") ? v["replay"] : v;
        Cfg c{ref::SigVer(r["sv"].i()), uint32_t(r["flags"].i()), impl::stack_from_json(r["init"])};
        bytes script = ref::unhex(r["script"].s);
        fprintf(stderr, "replay: cfg=%s script=%s\n", cfg_str(c).c_str(), ref::hex(script).c_str());
        Violations V1, V2; Stats S;
        compare_script(c, script, V1, S, true);
        compare_script(c, script, V2, S, false);
        if (V1.j().s != V2.j().s) { fprintf(stderr, "NONDETERMINISTIC replay\n"); return 2; }
        for (auto& kv : V1.by_key) printf("DIVERGENCE %s: %s\n", kv.first.c_str(), kv.second.first.what.c_str());
        if (V1.by_key.empty()) printf("no divergence\n");
        return V1.by_key.empty() ? 0 : 1;
    }

    std::vector<Item> items;
    std::vector<bytes> Vs = alpha::Vs();
    bytes seven[7] = {{0x01}, {0x02}, {0x03}, {0x04}, {0x05}, {0x06}, {0x07}};
    std::vector<bytes> stack7(seven, seven + 7);
    ref::SigVer svs[3] = {ref::SigVer::BASE, ref::SigVer::WITNESS_V0, ref::SigVer::TAPSCRIPT};
    std::vector<std::string> plan;
    auto add = [&](ref::SigVer sv, uint32_t f, const std::vector<bytes>& init, int depth, bool split) {
        if (split && depth >= 2) { for (size_t s = 0; s < sigma.size(); s++) items.push_back(Item{Cfg{sv, f, init}, {int(s)}, depth}); }
        else items.push_back(Item{Cfg{sv, f, init}, {}, depth});
    };
    Violations V; Stats S;
    long long mono_pairs = 0, mono_scripts = 0, mono_strict = 0;
    std::vector<std::string> samples;

    if (mode == "c01") {
        int dA = tier == "quick" ? 2 : 3;   // all 2^8 subsets of R x 3 sigversions from []
        int dB = tier == "quick" ? 3 : 4;   // deviation<=1 flag sets from [] and from the 7-item stack
        int dC = tier == "quick" ? 0 : 5;   // {none, standard} from []
        int lenI = tier == "quick" ? 1 : 2; // initial stacks: tuples over Vs up to this length, depth 2
        dA = int(a.geti("dA", dA)); dB = int(a.geti("dB", dB)); dC = int(a.geti("dC", dC)); lenI = int(a.geti("lenI", lenI));
        for (auto sv : svs) for (uint32_t f : alpha::subsets(alpha::R())) add(sv, f, {}, dA, false);
        plan.push_back("A: depth " + std::to_string(dA) + " from [] under all 256 subsets of R x 3 sigversions");
        for (auto sv : svs) for (uint32_t f : alpha::deviation1()) { add(sv, f, {}, dB, true); add(sv, f, stack7, std::max(1, dB - 1), true); }
        plan.push_back("B: depth " + std::to_string(dB) + " from [] and depth " + std::to_string(std::max(1, dB - 1)) + " from a 7-item stack under the 44 flag sets within one deviation of NONE/STANDARD x 3 sigversions");
        if (dC > 0) { for (auto sv : svs) for (uint32_t f : {0u, ref::F_STANDARD}) add(sv, f, {}, dC, true); plan.push_back("C: depth " + std::to_string(dC) + " from [] under {NONE, STANDARD} x 3 sigversions"); }
        for (auto sv : svs) for (uint32_t f : {0u, ref::F_STANDARD}) for (auto& init : tuples(Vs, lenI)) if (!init.empty()) add(sv, f, init, 2, false);
        plan.push_back("D: depth 2 from every initial stack over Vs of length 1.." + std::to_string(lenI) + " under {NONE, STANDARD} x 3 sigversions");
        // E: depth 1 from every triple over V (operand order / off-by-one / sign handling)
        { auto Vv = alpha::V(); int n = tier == "quick" ? 12 : int(Vv.size()); std::vector<bytes> sub(Vv.begin(), Vv.begin() + std::min<size_t>(n, Vv.size()));
          for (auto sv : svs) for (uint32_t f : {0u, ref::F_STANDARD}) for (auto& init : tuples(sub, 3)) if (init.size() >= 2) add(sv, f, init, 1, false);
          plan.push_back("E: depth 1 (every symbol) from every pair and triple over the first " + std::to_string(sub.size()) + " values of V under {NONE, STANDARD} x 3 sigversions"); }
    }

    std::string tmp = make_tmpdir();
    double deadline = a.geti("deadline", tier == "quick" ? 600 : 3000);
    bool complete = true;
    if (mode == "c01") {
        // deterministic order; VERIF_SEED only rotates the order in which items are handed out
        long long seed = a.geti("seed", 0);
        if (seed && !items.empty()) std::rotate(items.begin(), items.begin() + (size_t(seed) % items.size()), items.end());
        parallel_for(items.size(), default_workers(), tmp, "c01",
            [&](size_t i, FILE* o) {
                Violations v; Stats s; std::vector<std::string> smp;
                explore(items[i], sigma, v, s, (i % 97 == 0) ? &smp : nullptr);
                s.dump(o); v.dump(o);
                for (auto& x : smp) fprintf(o, "M\t%s\n", x.c_str());
            },
            [&](size_t i, int st, const std::string& nt) {
                V.add("crash:" + crash_desc(st), "worker died (" + crash_desc(st) + ") while executing a case of item " + cfg_str(items[i].cfg), J::raw(nt.empty() ? "{}" : nt));
            },
            [&](const std::string& l) {
                if (l.empty()) return;
                if (l[0] == 'V') V.merge_line(l); else if (l[0] == 'M') { if (samples.size() < 12) samples.push_back(l.substr(2)); } else S.merge_line(l);
            });
    } else if (mode == "c09b") {
        int depth = tier == "quick" ? 2 : 2;
        int lenI = tier == "quick" ? 1 : 2;
        depth = int(a.geti("depth", depth)); lenI = int(a.geti("lenI", lenI));
        struct MI { ref::SigVer sv; std::vector<bytes> init; };
        std::vector<MI> mis;
        std::vector<bytes> small(Vs.begin(), Vs.begin() + 6);
        for (auto sv : svs) for (auto& init : tuples(small, lenI)) mis.push_back(MI{sv, init});
        plan.push_back("all symbol sequences of length 1.." + std::to_string(depth) + " from every initial stack over 6 small values of length 0.." + std::to_string(lenI) + " x 3 sigversions, each run under all 256 subsets of R; every cover edge of the subset lattice checked");
        parallel_for(mis.size(), default_workers(), tmp, "c09",
            [&](size_t i, FILE* o) {
                Violations v; long long p = 0, s = 0, se = 0;
                monotonic(mis[i].sv, mis[i].init, sigma, depth, v, p, s, se);
                fprintf(o, "N\t%lld\t%lld\t%lld\n", p, s, se); v.dump(o);
            },
            [&](size_t i, int st, const std::string& nt) { V.add("crash:" + crash_desc(st), "worker died (" + crash_desc(st) + ")", J::raw(nt.empty() ? "{}" : nt)); },
            [&](const std::string& l) {
                if (l.empty()) return;
                if (l[0] == 'V') V.merge_line(l);
                else if (l[0] == 'N') { long long p, s, se; sscanf(l.c_str() + 2, "%lld\t%lld\t%lld", &p, &s, &se); mono_pairs += p; mono_scripts += s; mono_strict += se; }
            });
    }
    rm_rf(tmp);
    (void)deadline; (void)complete;

    JObj res;
    res.put("engine", "mc_script").put("mode", mode).put("tier", tier);
    res.put("plan", J::strs(plan));
    res.put("items", items.size());
    res.put("states", S.states).put("transitions", S.transitions).put("sessions", S.sessions).put("refused", S.refused).put("failing", S.failing);
    { JObj o; for (auto& kv : S.outcomes) o.put(kv.first, kv.second); res.put("outcomes", o.j()); }
    { long long both = 0, never_ok = 0; std::vector<std::string> nok;
      for (auto& kv : S.opstat) { if (kv.second.first > 0 && kv.second.second > 0) both++; if (kv.second.first == 0) { never_ok++; nok.push_back(alpha::opname(uint8_t(kv.first))); } }
      res.put("opcodes_seen", S.opstat.size()).put("opcodes_ok_and_fail", both).put("opcodes_never_ok", J::strs(nok)); }
    res.put("mono_pairs", mono_pairs).put("mono_scripts", mono_scripts).put("mono_outcome_changing_edges", mono_strict);
    res.put("samples", J::strs(samples));
    res.put("violations", V.j());
    res.put("wall_s", now_s() - t0);
    write_result(out, res);
    return 0;
}
