// mc_script — C01 (stepping follows the script rules) and C09b (flags only restrict).
// Shape S: breadth-first exploration of the real Instance::step() over a complete opcode alphabet,
// from many initial stacks, under bounded flag-set deviations, with the reference interpreter as
// oracle after every step, and ContinueScript compared with stepping on every explored script.
#include "scriptcmp.hpp"

struct Item { Cfg cfg; std::vector<int> prefix; int depth; bool cond_alphabet = false; };

// exhaustive BFS below `prefix` to `depth` symbols in total
static void explore(const Item& it, const std::vector<alpha::Sym>& sigma_full, Violations& V, Stats& S, std::vector<std::string>* samples = nullptr) {
    // conditional-nesting alphabet: {0, 1, IF, NOTIF, ELSE, ENDIF, DROP}: deep nesting / ELSE patterns at small branching factor
    std::vector<alpha::Sym> sigma_cond;
    if (it.cond_alphabet) for (auto& s : sigma_full) if (s.enc.size() == 1 && (s.enc[0] == 0x00 || s.enc[0] == 0x51 || s.enc[0] == 0x63 || s.enc[0] == 0x64 || s.enc[0] == 0x67 || s.enc[0] == 0x68 || s.enc[0] == 0x75)) sigma_cond.push_back(s);
    const std::vector<alpha::Sym>& sigma = it.cond_alphabet ? sigma_cond : sigma_full;
    bytes base;
    for (int s : it.prefix) base.insert(base.end(), sigma[s].enc.begin(), sigma[s].enc.end());
    std::vector<ref::Machine> frontier;
    std::unordered_set<H128, H128Hash> seen;
    if (it.prefix.empty()) {
        ref::Machine m; m.sv = it.cfg.sv; m.flags = it.cfg.flags; m.stack = it.cfg.init; m.ed.weight_init = true; m.ed.weight_left = 1000000;
        frontier.push_back(m); seen.insert(hash128(state_key(m))); S.states++;
    } else {
        CmpResult r = compare_script(it.cfg, base, V, S);
        S.transitions++;
        S.outcomes[r.outcome]++;
        if (r.last_opcode >= 0) { auto& p = S.opstat[r.last_opcode]; if (r.outcome == "OK") p.first++; else p.second++; }
        if (r.outcome != "OK") S.failing++;
        if (r.live) { frontier.push_back(r.m); seen.insert(hash128(state_key(r.m))); S.states++; }
    }
    for (int level = int(it.prefix.size()); level < it.depth; level++) {
        std::vector<ref::Machine> next;
        for (auto& st : frontier) {
            for (auto& sym : sigma) {
                bytes script = st.script;
                script.insert(script.end(), sym.enc.begin(), sym.enc.end());
                CmpResult r = compare_script(it.cfg, script, V, S);
                S.transitions++;
                S.outcomes[r.outcome]++;
                if (r.last_opcode >= 0) { auto& p = S.opstat[r.last_opcode]; if (r.outcome == "OK") p.first++; else p.second++; }
                if (r.outcome != "OK") S.failing++;
                if (samples && samples->size() < 6 && r.outcome != "REFUSED" && script.size() >= 3)
                    samples->push_back(cfg_str(it.cfg) + " script=" + ref::hex(script) + " -> " + r.outcome + (r.live ? " stack=" + impl::stack_str(r.m.stack) : ""));
                if (r.live) {
                    H128 h = hash128(state_key(r.m));
                    if (seen.insert(h).second) { S.states++; if (level + 1 < it.depth) next.push_back(r.m); }
                }
            }
        }
        frontier.swap(next);
    }
}

// -------------------------------------------------------------------------------- C09b: monotonicity
// For every script/stack explored at depth<=2 under all 2^8 subsets of R: success(B) => success(B \ {f}).
static void monotonic_scripts(ref::SigVer sv, const std::vector<bytes>& init, const std::vector<bytes>& scripts_in, const std::vector<uint32_t>& bits, Violations& V, long long& pairs, long long& scripts, long long& strict_edges, bool allow_disabled = false);

static void monotonic(ref::SigVer sv, const std::vector<bytes>& init, const std::vector<alpha::Sym>& sigma, int depth, Violations& V, long long& pairs, long long& scripts, long long& strict_edges) {
    // enumerate all symbol sequences of length 1..depth (no dedup: the relation is per script)
    std::vector<bytes> all;
    std::vector<int> cur;
    std::function<void(int)> rec = [&](int d) {
        if (!cur.empty()) { bytes script; for (int s : cur) script.insert(script.end(), sigma[s].enc.begin(), sigma[s].enc.end()); all.push_back(script); }
        if (d == depth) return;
        for (size_t i = 0; i < sigma.size(); i++) { if (sigma[i].refuse) continue; cur.push_back(int(i)); rec(d + 1); cur.pop_back(); }
    };
    rec(0);
    monotonic_scripts(sv, init, all, alpha::R(), V, pairs, scripts, strict_edges);
}

// signature-encoding lattice: scripts that end in a signature opcode fed with every pair of encoding-shaped operands
static std::vector<bytes> sig_lattice_scripts() {
    std::vector<bytes> P;
    auto push = [&](const bytes& d) { P.push_back(d.empty() ? bytes{0x00} : ref::push_raw(d)); };
    push({}); push({0x01}); push({0x7f});
    { bytes k(33, 0x11); k[0] = 0x02; push(k); } { bytes k(65, 0x22); k[0] = 0x04; push(k); } { bytes k(65, 0x22); k[0] = 0x06; push(k); }
    push(ref::unhex("300602010102010101")); push(ref::unhex("300602010102010105"));
    push(ref::unhex("3026020101022100ffffffffffffffffffffffffffffffffbaaedce6af48a03bbfd25e8cd036414001"));   // S = n-1: high S
    std::vector<bytes> out;
    for (auto& a : P) for (auto& b : P) for (uint8_t op : {uint8_t(0xac), uint8_t(0xad)}) for (int tail = 0; tail < 2; tail++) {
        bytes s = a; s.insert(s.end(), b.begin(), b.end()); s.push_back(op); if (op == 0xad) s.push_back(0x51); if (tail) s.push_back(0x91); out.push_back(s);
    }
    for (uint8_t dummy : {uint8_t(0x00), uint8_t(0x51)}) for (auto& a : P) for (auto& b : P) for (int tail = 0; tail < 2; tail++) {
        bytes s{dummy}; s.insert(s.end(), a.begin(), a.end()); s.push_back(0x51); s.insert(s.end(), b.begin(), b.end()); s.push_back(0x51); s.push_back(0xae); if (tail) s.push_back(0x91); out.push_back(s);
    }
    return out;
}
static std::vector<uint32_t> sig_lattice_bits() { return {ref::F_STRICTENC, ref::F_NULLFAIL, ref::F_DERSIG, ref::F_LOW_S, ref::F_WITNESS_PUBKEYTYPE, ref::F_NULLDUMMY, ref::F_CONST_SCRIPTCODE, ref::F_DISCOURAGE_UPGRADABLE_PUBKEYTYPE}; }

// re-enabled opcodes (--allow-disabled-opcodes): every operand tuple over a small value set, pushed minimally
static std::vector<bytes> ext_lattice_scripts() {
    std::vector<bytes> vals; for (const char* h : {"", "01", "02", "03", "81", "0100", "6162636465", "ff00"}) vals.push_back(ref::unhex(h));
    auto push = [](const bytes& d) { return d.empty() ? bytes{0x00} : (d.size() == 1 && d[0] >= 1 && d[0] <= 16) ? bytes{uint8_t(0x50 + d[0])} : (d.size() == 1 && d[0] == 0x81) ? bytes{0x4f} : ref::push_raw(d); };
    std::vector<bytes> out;
    for (uint8_t op : {0x7e, 0x7f, 0x80, 0x81, 0x83, 0x84, 0x85, 0x86, 0x8d, 0x8e, 0x95, 0x96, 0x97, 0x98, 0x99}) {
        int ar = op == 0x7f ? 3 : (op == 0x83 || op == 0x8d || op == 0x8e) ? 1 : 2;
        std::vector<size_t> idx(ar, 0);
        while (true) {
            bytes s; for (int i = 0; i < ar; i++) { bytes p = push(vals[idx[i]]); s.insert(s.end(), p.begin(), p.end()); }
            s.push_back(op); out.push_back(s);
            // non-minimal spelling of the last operand where one exists (direct push of a small number)
            if (vals[idx[ar - 1]].size() == 1 && vals[idx[ar - 1]][0] >= 1 && vals[idx[ar - 1]][0] <= 16) { bytes t; for (int i = 0; i + 1 < ar; i++) { bytes p = push(vals[idx[i]]); t.insert(t.end(), p.begin(), p.end()); } bytes p = ref::push_raw(vals[idx[ar - 1]]); t.insert(t.end(), p.begin(), p.end()); t.push_back(op); out.push_back(t); }
            int k = ar - 1; while (k >= 0 && ++idx[k] == vals.size()) { idx[k] = 0; k--; }
            if (k < 0) break;
        }
    }
    return out;
}

static void monotonic_scripts(ref::SigVer sv, const std::vector<bytes>& init, const std::vector<bytes>& scripts_in, const std::vector<uint32_t>& bits, Violations& V, long long& pairs, long long& scripts, long long& strict_edges, bool allow_disabled) {
    std::vector<uint32_t> sets = alpha::subsets(bits);
    for (auto& script : scripts_in) {
        std::vector<char> ok(sets.size());
        bool skip = false;
        for (size_t k = 0; k < sets.size(); k++) {
            impl::Session s;
            note(replay_json(Cfg{sv, sets[k], init}, script).s);
            if (!s.open(script, init, sets[k], sv, allow_disabled)) { skip = true; break; }
            bool r;
            try { r = ContinueScript(*s.inst.env); } catch (const std::exception&) { r = false; }
            ok[k] = r;
        }
        if (skip) continue;
        scripts++;
        for (size_t k = 0; k < sets.size(); k++) {
            for (size_t b = 0; b < bits.size(); b++) {
                if (!(k & (1u << b))) continue;
                size_t sub = k & ~(1u << b);
                pairs++;
                if (ok[k] != ok[sub]) strict_edges++;
                if (ok[k] && !ok[sub]) {
                    V.add(std::string("monotonic:sv=") + impl::sv_name(sv) + ";flag=" + alpha::flags_str(bits[b]) + (allow_disabled ? ";re-enabled-opcodes" : ""),
                          "script succeeds under " + alpha::flags_str(sets[k]) + " but fails with flag " + alpha::flags_str(bits[b]) + " removed; script=" + ref::hex(script) + " init=" + impl::stack_str(init),
                          replay_json(Cfg{sv, sets[k], init}, script));
                }
            }
        }
    }
}

static std::vector<std::vector<bytes>> tuples(const std::vector<bytes>& vals, int maxlen) {
    std::vector<std::vector<bytes>> r{{}};
    size_t lo = 0;
    for (int l = 1; l <= maxlen; l++) {
        size_t hi = r.size();
        for (size_t i = lo; i < hi; i++) for (auto& v : vals) { auto t = r[i]; t.push_back(v); r.push_back(t); }
        lo = hi;
    }
    return r;
}

int main(int argc, char** argv) {
    Args a(argc, argv);
    ECCVerifyHandle ecc;
    impl::quiet_globals();
    std::string out = a.get("out", "/dev/stdout");
    std::string tier = a.get("tier", "quick");
    std::string mode = a.get("mode", "c01");
    auto sigma = alpha::sigma(true);
    double t0 = now_s();

    if (a.has("replay")) {
        JParser p(read_file(a.get("replay")));
        JVal v = p.parse();
        const JVal& r = v.has("replay") ? v["replay"] : v;
        Cfg c{ref::SigVer(r["sv"].i()), uint32_t(r["flags"].i()), impl::stack_from_json(r["init"])};
        bytes script = ref::unhex(r["script"].s);
        fprintf(stderr, "replay: cfg=%s script=%s\n", cfg_str(c).c_str(), ref::hex(script).c_str());
        Violations V1, V2; Stats S;
        compare_script(c, script, V1, S, true);
        compare_script(c, script, V2, S, false);
        if (V1.j().s != V2.j().s) { fprintf(stderr, "NONDETERMINISTIC replay\n"); return 2; }
        for (auto& kv : V1.by_key) printf("DIVERGENCE %s: %s\n", kv.first.c_str(), kv.second.first.what.c_str());
        if (V1.by_key.empty()) printf("no divergence\n");
        return V1.by_key.empty() ? 0 : 1;
    }

    std::vector<Item> items;
    std::vector<bytes> Vs = alpha::Vs();
    bytes seven[7] = {{0x01}, {0x02}, {0x03}, {0x04}, {0x05}, {0x06}, {0x07}};
    std::vector<bytes> stack7(seven, seven + 7);
    ref::SigVer svs[3] = {ref::SigVer::BASE, ref::SigVer::WITNESS_V0, ref::SigVer::TAPSCRIPT};
    std::vector<std::string> plan;
    auto add = [&](ref::SigVer sv, uint32_t f, const std::vector<bytes>& init, int depth, bool split) {
        if (split && depth >= 2) { for (size_t s = 0; s < sigma.size(); s++) items.push_back(Item{Cfg{sv, f, init}, {int(s)}, depth}); }
        else items.push_back(Item{Cfg{sv, f, init}, {}, depth});
    };
    Violations V; Stats S;
    long long mono_pairs = 0, mono_scripts = 0, mono_strict = 0;
    std::vector<std::string> samples;

    if (mode == "c01") {
        int dA = tier == "quick" ? 2 : 3;   // all 2^8 subsets of R x 3 sigversions from []
        int dB = tier == "quick" ? 3 : 4;   // deviation<=1 flag sets from [] and from the 7-item stack
        int dC = tier == "quick" ? 0 : 5;   // {none, standard} from []
        int lenI = tier == "quick" ? 1 : 2; // initial stacks: tuples over Vs up to this length, depth 2
        dA = int(a.geti("dA", dA)); dB = int(a.geti("dB", dB)); dC = int(a.geti("dC", dC)); lenI = int(a.geti("lenI", lenI));
        for (auto sv : svs) for (uint32_t f : alpha::subsets(alpha::R())) add(sv, f, {}, dA, false);
        plan.push_back("A: depth " + std::to_string(dA) + " from [] under all 256 subsets of R x 3 sigversions");
        {
            // one-flag deviations of NONE / STANDARD: over all 21 flags at depth dB (quick) ; in the thorough tier the 18 sets that deviate in an
            // execution-relevant flag go to depth dB and the remaining ones to depth dB-1 (depth 4 under all 44 x 3 does not finish in reasonable time)
            std::set<uint32_t> rdev; rdev.insert(0); rdev.insert(ref::F_STANDARD);
            for (uint32_t b : alpha::R()) { rdev.insert(b); rdev.insert(ref::F_STANDARD ^ b); }
            int ndeep = 0, nshallow = 0;
            for (auto sv : svs) for (uint32_t f : alpha::deviation1()) {
                bool deep = tier == "quick" || rdev.count(f);
                int d = deep ? dB : dB - 1;
                (deep ? ndeep : nshallow)++;
                add(sv, f, {}, d, true); add(sv, f, stack7, std::max(1, d - 1), true);
            }
            plan.push_back("B: depth " + std::to_string(dB) + " from [] and depth " + std::to_string(std::max(1, dB - 1)) + " from a 7-item stack under " + std::to_string(ndeep) + " (sigversion, flag set) configurations within one deviation of NONE/STANDARD" + (nshallow ? "; one level less under the remaining " + std::to_string(nshallow) : ""));
        }
        if (dC > 0) { for (auto sv : svs) for (uint32_t f : {0u, ref::F_STANDARD}) add(sv, f, {}, dC, true); plan.push_back("C: depth " + std::to_string(dC) + " from [] under {NONE, STANDARD} x 3 sigversions"); }
        for (auto sv : svs) for (uint32_t f : {0u, ref::F_STANDARD}) for (auto& init : tuples(Vs, lenI)) if (!init.empty()) add(sv, f, init, 2, false);
        plan.push_back("D: depth 2 from every initial stack over Vs of length 1.." + std::to_string(lenI) + " under {NONE, STANDARD} x 3 sigversions");
        // F: conditional nesting at depth
        { int dF = int(a.geti("dF", tier == "quick" ? 8 : 10));
          for (auto sv : svs) for (uint32_t f : {0u, ref::F_STANDARD}) { Item itF{Cfg{sv, f, {}}, {}, dF, true}; items.push_back(itF); }
          plan.push_back("F: depth " + std::to_string(dF) + " over the conditional alphabet {0, 1, IF, NOTIF, ELSE, ENDIF, DROP} from [] under {NONE, STANDARD} x 3 sigversions (deep nesting and ELSE patterns)"); }
        // G: every symbol once on a single item of every legal length 0..520 (length-dependent behaviour: hash padding, SIZE, numeric limits, truth value)
        { for (auto sv : svs) for (size_t n = 0; n <= 520; n++) add(sv, ref::F_STANDARD, {alpha::filler(n)}, 1, false);
          plan.push_back("G: depth 1 (every symbol) from a one-item stack for every item length 0..520 x 3 sigversions under STANDARD"); }
        // E: depth 1 from every triple over V (operand order / off-by-one / sign handling)
        { auto Vv = alpha::V(); int n = tier == "quick" ? 12 : int(Vv.size()); std::vector<bytes> sub(Vv.begin(), Vv.begin() + std::min<size_t>(n, Vv.size()));
          for (auto sv : svs) for (uint32_t f : {0u, ref::F_STANDARD}) for (auto& init : tuples(sub, 3)) if (init.size() >= 2) add(sv, f, init, 1, false);
          plan.push_back("E: depth 1 (every symbol) from every pair and triple over the first " + std::to_string(sub.size()) + " values of V under {NONE, STANDARD} x 3 sigversions"); }
    }

    std::string tmp = make_tmpdir();
    double deadline = a.geti("deadline", tier == "quick" ? 600 : 3000);
    bool complete = true;
    if (mode == "c01") {
        // deterministic order; VERIF_SEED only rotates the order in which items are handed out
        long long seed = a.geti("seed", 0);
        if (seed && !items.empty()) std::rotate(items.begin(), items.begin() + (size_t(seed) % items.size()), items.end());
        parallel_for(items.size(), default_workers(), tmp, "c01",
            [&](size_t i, FILE* o) {
                Violations v; Stats s; std::vector<std::string> smp;
                explore(items[i], sigma, v, s, (i % 97 == 0) ? &smp : nullptr);
                s.dump(o); v.dump(o);
                for (auto& x : smp) fprintf(o, "M\t%s\n", x.c_str());
            },
            [&](size_t i, int st, const std::string& nt) {
                V.add("crash:" + crash_desc(st), "worker died (" + crash_desc(st) + ") while executing a case of item " + cfg_str(items[i].cfg), J::raw(nt.empty() ? "{}" : nt));
            },
            [&](const std::string& l) {
                if (l.empty()) return;
                if (l[0] == 'V') V.merge_line(l); else if (l[0] == 'M') { if (samples.size() < 12) samples.push_back(l.substr(2)); } else S.merge_line(l);
            });
    } else if (mode == "c09b") {
        int depth = tier == "quick" ? 2 : 2;
        int lenI = tier == "quick" ? 1 : 2;
        depth = int(a.geti("depth", depth)); lenI = int(a.geti("lenI", lenI));
        struct MI { ref::SigVer sv; std::vector<bytes> init; };
        std::vector<MI> mis;
        std::vector<bytes> small(Vs.begin(), Vs.begin() + (tier == "quick" ? 4 : 6));
        for (auto sv : svs) for (auto& init : tuples(small, lenI)) mis.push_back(MI{sv, init});
        plan.push_back("all symbol sequences of length 1.." + std::to_string(depth) + " from every initial stack over " + std::to_string(small.size()) + " small values of length 0.." + std::to_string(lenI) + " x 3 sigversions, each run under all 256 subsets of R; every cover edge of the subset lattice checked");
        plan.push_back("signature-encoding lattice: 972 scripts ending in CHECKSIG / CHECKSIGVERIFY / 1-of-1 CHECKMULTISIG (optionally followed by NOT) fed with every pair of 9 encoding-shaped operands (empty, garbage, compressed / uncompressed / hybrid key shapes, DER shapes with defined and undefined hash type, high S) x 3 sigversions, each run under all 256 subsets of {STRICTENC, NULLFAIL, DERSIG, LOW_S, WITNESS_PUBKEYTYPE, NULLDUMMY, CONST_SCRIPTCODE, DISCOURAGE_UPGRADABLE_PUBKEYTYPE}");
        std::vector<bytes> sigscripts = sig_lattice_scripts();
        plan.push_back("re-enabled opcodes (allow_disabled_opcodes on): the 15 opcodes x every operand tuple over 8 values (empty, 1, 2, 3, -1, non-minimal 1, a 5-byte string, ff00; minimal and direct-push spelling of the last operand) x 3 sigversions, each under all 256 subsets of R");
        std::vector<bytes> extscripts = ext_lattice_scripts();
        size_t nsig_items = 3 * 4;   // 3 sigversions x 4 slices of the script list
        size_t next_items = 3 * 4;
        parallel_for(mis.size() + nsig_items + next_items, default_workers(), tmp, "c09",
            [&](size_t i, FILE* o) {
                Violations v; long long p = 0, s = 0, se = 0;
                if (i >= mis.size() + nsig_items) {
                    size_t j = i - mis.size() - nsig_items; ref::SigVer sv = svs[j / 4]; size_t slice = j % 4;
                    std::vector<bytes> part; for (size_t k = slice; k < extscripts.size(); k += 4) part.push_back(extscripts[k]);
                    monotonic_scripts(sv, {}, part, alpha::R(), v, p, s, se, true);
                } else if (i >= mis.size()) {
                    size_t j = i - mis.size(); ref::SigVer sv = svs[j / 4]; size_t slice = j % 4;
                    std::vector<bytes> part; for (size_t k = slice; k < sigscripts.size(); k += 4) part.push_back(sigscripts[k]);
                    monotonic_scripts(sv, {}, part, sig_lattice_bits(), v, p, s, se);
                } else
                monotonic(mis[i].sv, mis[i].init, sigma, depth, v, p, s, se);
                fprintf(o, "N\t%lld\t%lld\t%lld\n", p, s, se); v.dump(o);
            },
            [&](size_t i, int st, const std::string& nt) { V.add("crash:" + crash_desc(st), "worker died (" + crash_desc(st) + ")", J::raw(nt.empty() ? "{}" : nt)); },
            [&](const std::string& l) {
                if (l.empty()) return;
                if (l[0] == 'V') V.merge_line(l);
                else if (l[0] == 'N') { long long p, s, se; sscanf(l.c_str() + 2, "%lld\t%lld\t%lld", &p, &s, &se); mono_pairs += p; mono_scripts += s; mono_strict += se; }
            });
    }
    rm_rf(tmp);
    (void)deadline; (void)complete;

    JObj res;
    res.put("engine", "mc_script").put("mode", mode).put("tier", tier);
    res.put("plan", J::strs(plan));
    res.put("items", items.size());
    res.put("states", S.states).put("transitions", S.transitions).put("sessions", S.sessions).put("refused", S.refused).put("failing", S.failing);
    { JObj o; for (auto& kv : S.outcomes) o.put(kv.first, kv.second); res.put("outcomes", o.j()); }
    { long long both = 0, never_ok = 0; std::vector<std::string> nok;
      for (auto& kv : S.opstat) { if (kv.second.first > 0 && kv.second.second > 0) both++; if (kv.second.first == 0) { never_ok++; nok.push_back(alpha::opname(uint8_t(kv.first))); } }
      res.put("opcodes_seen", S.opstat.size()).put("opcodes_ok_and_fail", both).put("opcodes_never_ok", J::strs(nok)); }
    res.put("mono_pairs", mono_pairs).put("mono_scripts", mono_scripts).put("mono_outcome_changing_edges", mono_strict);
    res.put("samples", J::strs(samples));
    res.put("violations", V.j());
    res.put("wall_s", now_s() - t0);
    write_result(out, res);
    return 0;
}
