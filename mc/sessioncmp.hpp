// Lock-step comparison of a --tx/--txin debugger session (the real Instance::configure_tx_txin +
// step()) with the reference session plan: which input, amount, scripts per phase, initial stack,
// sigversion, every micro-step state, and the final validity verdict against verify_input().
#pragma once
#include "impl.hpp"
#include "spendgen.hpp"
#include "alphabet.hpp"

namespace sc {
using namespace mc;
using namespace ref;

struct Plan {
    bool refused = false; std::string why;        // the tool must refuse to set the session up
    bool out_of_scope = false;                    // output type the tool does not claim to support
    size_t nin = 0; int64_t amount = 0;
    SigVer sv = SigVer::BASE;
    std::vector<bytes> scripts;                   // executed in order (legacy: scriptSig, scriptPubKey[, redeem script])
    bool p2sh = false;
    std::vector<bytes> stack;                     // initial stack of the first script
    int commit_steps = 0; bool commit_ok = true; TapVerify tv;
    ExecData ed; bool annex_present = false; bytes annex;
    std::string type;
};

// What the debugger is specified to set up for input `sel` (or the first input spending `fund` if sel < 0).
inline Plan make_plan(const Tx& tx, const Tx& fund, int sel, uint32_t flags) {
    Plan P;
    bytes fid = txid(fund);
    int idx = -1;
    if (sel >= 0) {
        if (size_t(sel) >= tx.vin.size()) { P.refused = true; P.why = "selected index out of range"; return P; }
        if (tx.vin[sel].prev_hash != fid) { P.refused = true; P.why = "selected input does not spend the funding transaction"; return P; }
        idx = sel;
    } else {
        for (size_t i = 0; i < tx.vin.size(); i++) if (tx.vin[i].prev_hash == fid) { idx = int(i); break; }
        if (idx < 0) { P.refused = true; P.why = "no input spends the funding transaction"; return P; }
    }
    P.nin = size_t(idx);
    const TxIn& in = tx.vin[idx];
    if (in.prev_n >= fund.vout.size()) { P.refused = true; P.why = "referenced output does not exist"; return P; }
    const TxOut& out = fund.vout[in.prev_n];
    P.amount = out.value;
    int ver; bytes prog;
    bytes spk = out.spk, redeem;
    bool wrapped = false;
    if (in.witness.empty()) {
        P.type = "legacy"; P.sv = SigVer::BASE;
        P.scripts = {in.script_sig, spk};
        if ((flags & F_P2SH) && is_p2sh(spk)) {
            P.p2sh = true;
            // the redeem script is the last push of the scriptSig (known only after executing it; the plan fills it during the run)
        }
        return P;
    }
    // witness present
    bytes wp = spk;
    if (!in.script_sig.empty()) {
        // P2SH-wrapped: scriptSig must be a single push of the witness program and hash to the P2SH output
        Op o = decode_op(in.script_sig, 0);
        if (!o.ok || o.data.empty()) { P.refused = true; P.why = "scriptSig is not a push"; return P; }
        if (!is_p2sh(spk) || hash160(o.data) != bytes(spk.begin() + 2, spk.begin() + 22)) { P.refused = true; P.why = "scriptSig does not hash to the P2SH output"; return P; }
        wp = o.data; wrapped = true;
    }
    if (!is_witness_program(wp, ver, prog)) { P.refused = true; P.why = "not a witness program"; return P; }
    if (ver == 0 && prog.size() == 20) {
        P.type = wrapped ? "p2sh-p2wpkh" : "p2wpkh"; P.sv = SigVer::WITNESS_V0;
        if (hash160(in.witness.back()) != prog) { P.refused = true; P.why = "public key does not hash to the program"; return P; }
        bytes s{0x76, 0xa9, 0x14}; s.insert(s.end(), prog.begin(), prog.end()); s.push_back(0x88); s.push_back(0xac);
        P.scripts = {s}; P.stack = in.witness;
        return P;
    }
    if (ver == 0 && prog.size() == 32) {
        P.type = wrapped ? "p2sh-p2wsh" : "p2wsh"; P.sv = SigVer::WITNESS_V0;
        if (sha256(in.witness.back()) != prog) { P.refused = true; P.why = "witness script does not hash to the program"; return P; }
        P.scripts = {in.witness.back()}; P.stack = std::vector<bytes>(in.witness.begin(), in.witness.end() - 1);
        return P;
    }
    if (ver == 1 && prog.size() == 32 && wrapped) { P.refused = true; P.why = "P2SH-wrapped version-1 program is not taproot"; return P; }   // BIP341 applies to native outputs only
    if (ver == 1 && prog.size() == 32 && !wrapped) {
        std::vector<bytes> st = in.witness;
        if (st.size() >= 2 && !st.back().empty() && st.back()[0] == 0x50) { P.annex_present = true; P.annex = st.back(); st.pop_back(); }
        if (st.size() == 1) {
            P.type = "p2tr-key"; P.sv = SigVer::TAPROOT;
            bytes s = push_raw(prog); s.push_back(0xac);
            P.scripts = {s}; P.stack = st;
            return P;
        }
        bytes control = st.back(); st.pop_back();
        bytes script = st.back(); st.pop_back();
        P.type = "p2tr-script";
        if (control.size() < 33 || control.size() > 33 + 32 * 128 || (control.size() - 33) % 32) { P.refused = true; P.why = "control block size"; return P; }
        if ((control[0] & 0xfe) != 0xc0) { P.out_of_scope = true; return P; }
        P.sv = SigVer::TAPSCRIPT;
        P.tv = taproot_verify(control, script, prog);
        P.commit_steps = int((control.size() - 33) / 32) + 1;
        P.commit_ok = P.tv.ok;
        P.scripts = {script}; P.stack = st;
        P.ed.tapleaf_init = true; P.ed.tapleaf_hash = P.tv.leaf; P.ed.weight_init = true;
        P.ed.weight_left = int64_t(witness_serialized_size(in.witness)) + WEIGHT_OFFSET;
        P.ed.annex_present = P.annex_present;
        return P;
    }
    P.out_of_scope = true;
    return P;
}

inline bool is_taproot_plan(const Plan& P) { return P.sv == SigVer::TAPROOT || P.sv == SigVer::TAPSCRIPT; }

struct Stats {
    long long sessions = 0, refused = 0, valid = 0, invalid = 0, steps = 0, out_of_scope = 0;
    std::map<std::string, long long> by_type, outcomes;
    void dump(FILE* f) const {
        fprintf(f, "T\t%lld\t%lld\t%lld\t%lld\t%lld\t%lld\n", sessions, refused, valid, invalid, steps, out_of_scope);
        for (auto& kv : by_type) fprintf(f, "Y\t%s\t%lld\n", kv.first.c_str(), kv.second);
        for (auto& kv : outcomes) fprintf(f, "O\t%s\t%lld\n", kv.first.c_str(), kv.second);
    }
    void merge_line(const std::string& l) {
        if (l[0] == 'T') { long long a[6]; sscanf(l.c_str() + 2, "%lld\t%lld\t%lld\t%lld\t%lld\t%lld", a, a + 1, a + 2, a + 3, a + 4, a + 5); sessions += a[0]; refused += a[1]; valid += a[2]; invalid += a[3]; steps += a[4]; out_of_scope += a[5]; }
        else { char n[200]; long long c; if (sscanf(l.c_str() + 2, "%199[^\t]\t%lld", n, &c) == 2) (l[0] == 'Y' ? by_type : outcomes)[n] += c; }
    }
};

struct Case { Tx fund, tx; int select = -1; uint32_t flags = F_STANDARD; std::string label; std::string klass; /* satisfaction class for keys */ bool must_refuse_selection = false; std::string amount_prefix; /* "a1,a2" given in front of the --tx hex (the referenced output decides, whatever it says) */ };

inline J case_json(const Case& c, const char* engine, const char* mode) {
    return JObj().put("engine", engine).put("mode", mode).put("tx", hex(ser_tx(c.tx))).put("txin", hex(ser_tx(c.fund))).put("select", c.select).put("flags", (long long)c.flags).put("label", c.label).put("klass", c.klass).put("amount_prefix", c.amount_prefix).j();
}

struct Outcome { bool refused = false; bool ran = false; bool all_steps_ok = false; bool valid = false; std::string err; int fail_step = -1; };

// Runs the case on the implementation and on the reference plan in lock-step.
// `compare_steps`: also compare every micro-step state (C03); otherwise only outcome (C02 uses both).
inline Outcome compare_session(const Case& c, Violations& V, Stats& S, const char* engine, const char* mode, bool verbose = false) {
    Outcome O;
    J rj = case_json(c, engine, mode);
    note(rj.s);
    S.sessions++;
    auto rep = [&](const std::string& key, const std::string& what) { V.add(key, what + " [" + c.label + "]", rj); };
    Plan P = make_plan(c.tx, c.fund, c.select, c.flags);
    // outside the supported output types (other witness versions / program lengths, unknown leaf versions): nothing is compared, but the
    // implementation is still driven through set-up and stepping - it must refuse or run without crashing (the worker's death is reported)
    const bool oos = P.out_of_scope;
    if (oos) S.out_of_scope++;
    else S.by_type[P.refused ? "refused" : P.type]++;
    // ---- reference verdict (only meaningful when the plan is not a refusal for selection reasons)
    Err rv = Err::UNKNOWN_ERROR;
    bool have_rv = false;
    if (!P.refused || P.why.find("select") == std::string::npos) {
        // identify the input like the plan did; the other prevouts are unknown to the tool (single funding tx)
        int idx = -1; bytes fid = txid(c.fund);
        if (c.select >= 0 && size_t(c.select) < c.tx.vin.size() && c.tx.vin[c.select].prev_hash == fid) idx = c.select;
        else if (c.select < 0) for (size_t i = 0; i < c.tx.vin.size(); i++) if (c.tx.vin[i].prev_hash == fid) { idx = int(i); break; }
        if (idx >= 0 && c.tx.vin[idx].prev_n < c.fund.vout.size()) {
            std::vector<TxOut> spent(c.tx.vin.size());
            spent[idx] = c.fund.vout[c.tx.vin[idx].prev_n];
            rv = verify_input(c.tx, size_t(idx), spent, c.flags);
            have_rv = true;
        }
    }
    // ---- implementation: mirror of main()'s auto-configuration path
    impl::quiet_globals();
    Instance inst;
    std::string txs = (c.amount_prefix.empty() ? std::string() : c.amount_prefix + ":") + hex(ser_tx(c.tx)), fins = hex(ser_tx(c.fund));
    bool ok = true; std::string stage;
    try {
        if (!inst.parse_transaction(txs.c_str(), true)) { ok = false; stage = "parse_transaction"; }
        if (ok && !inst.parse_input_transaction(fins.c_str(), c.select)) { ok = false; stage = "parse_input_transaction"; }
        if (ok && P.refused && P.why == "referenced output does not exist") { ok = false; stage = "skipped: out-of-range prevout index is C15's finding"; }
        if (ok && !inst.configure_tx_txin()) { ok = false; stage = "configure_tx_txin"; }
        if (ok && !inst.setup_environment(c.flags)) { ok = false; stage = "setup_environment"; }
    } catch (const std::exception& e) { ok = false; stage = std::string("exception: ") + e.what(); }
    if (oos) {
        S.outcomes[ok ? "out-of-scope:set-up" : "out-of-scope:refused"]++;
        int guard = 0;
        try { while (ok && !inst.at_end() && guard++ < 10000) if (!inst.step()) break; } catch (const std::exception&) {}
        return O;
    }
    if (!ok) {
        O.refused = true; S.refused++;
        S.outcomes["refused:" + stage.substr(0, 40)]++;
        if (!P.refused && have_rv && rv == Err::OK) rep("refuses-valid-spend:" + P.type + ":" + c.klass, "a valid " + P.type + " spend is refused at " + stage);
        // an invalid spend may be refused; nothing else to compare
        return O;
    }
    if (P.refused) {
        // the property demands a refusal here (selection not referencing the funding tx; revealed script/key hash mismatch)
        rep("not-refused:" + P.why, "the session must be refused (" + P.why + ") but was set up");
        return O;
    }
    InterpreterEnv& env = *inst.env;
    O.ran = true;
    char tk[64]; snprintf(tk, 64, "%s", P.type.c_str());
    // ---- static set-up
    if (inst.txin_index != (int64_t)P.nin) { rep(std::string("setup:input-index:") + tk, "selected input " + std::to_string(inst.txin_index) + ", expected " + std::to_string(P.nin)); return O; }
    if (inst.amounts[P.nin] != P.amount) { rep(std::string("setup:amount:") + tk, "amount " + std::to_string(inst.amounts[P.nin]) + ", expected " + std::to_string(P.amount)); return O; }
    if (impl::to_impl(P.sv) != env.sigversion) { rep(std::string("setup:sigversion:") + tk, "sigversion differs"); return O; }
    if (bytes(env.script.begin(), env.script.end()) != P.scripts[0]) { rep(std::string("setup:script:") + tk, "first script " + hex(bytes(env.script.begin(), env.script.end())) + ", expected " + hex(P.scripts[0])); return O; }
    if (env.stack != P.stack) { rep(std::string("setup:stack:") + tk + (P.annex_present ? ":annex-present" : ""), "initial stack " + impl::stack_str(env.stack) + ", expected " + impl::stack_str(P.stack)); return O; }
    if (P.scripts.size() > 1 && bytes(env.successor_script.begin(), env.successor_script.end()) != P.scripts[1]) { rep(std::string("setup:successor:") + tk, "scriptPubKey phase differs"); return O; }
    // ---- lock-step run
    TxChecker ck(c.tx, P.nin, P.amount, [&] { std::vector<TxOut> sp(c.tx.vin.size()); sp[P.nin] = c.fund.vout[c.tx.vin[P.nin].prev_n]; return sp; }());
    ck.annex_present = P.annex_present; ck.annex = P.annex; ck.script_path = P.sv == SigVer::TAPSCRIPT;
    bool can_check_taproot = c.tx.vin.size() == 1;   // the tool gets one funding tx: BIP341 digests need all prevouts
    auto step_impl = [&]() -> std::string { S.steps++; if (inst.step()) return ""; if (inst.exception_string != "") return "UNKNOWN_ERROR"; return impl::err_name(*env.serror); };
    int stepno = 0;
    // a step that has failed is attempted again: it must fail again (the session stays where it was - a refusal that lets the NEXT step
    // through, e.g. because the failing step released or advanced something, turns an invalid spend into a valid-looking session)
    auto refails = [&](const std::string& where, const std::string& first) {
        std::string again = step_impl();
        if (again == "") { rep("failed-step-then-step-succeeds:" + where, "a step failed (" + first + "); attempted again it succeeds - the session walks past its own refusal"); return false; }
        return true;
    };
    // commitment micro-steps
    for (int i = 0; i < P.commit_steps; i++, stepno++) {
        bool last = i == P.commit_steps - 1;
        std::string e = step_impl();
        bool expect_ok = !last || P.commit_ok;
        if (e != "" && i == 0 && P.scripts[0].empty() && !(last && !P.commit_ok)) { rep("commitment:skipped-for-empty-script", "the session is 'done' before the commitment check because the committed script is empty; the commitment is never verified"); return O; }
        if (e != "" && !last) { rep("commitment:path-step-fails", "a path-folding micro-step failed (" + e + ") at micro-step " + std::to_string(i)); return O; }
        if (last && (e == "") != expect_ok) { rep(std::string("commitment:verdict:") + (P.commit_ok ? "valid-rejected" : "invalid-accepted"), "taproot commitment " + std::string(P.commit_ok ? "is valid but the check failed" : "is invalid but the check succeeded")); return O; }
        if (e != "") { if (!refails("commitment", e)) return O; O.err = "commitment"; O.fail_step = stepno; S.invalid++; S.outcomes["commitment-failed"]++; if (have_rv && rv == Err::OK) rep("invalid-verdict-for-valid-spend:" + P.type, "commitment failed on a valid spend"); return O; }
        if (!last) {
            if (!env.tce) { rep("commitment:ended-early", "commitment phase ended before the path was consumed"); return O; }
            bytes k(env.tce->m_k.begin(), env.tce->m_k.end());
            if (k != P.tv.k[i]) { rep("commitment:intermediate-hash", "running hash after node " + std::to_string(i) + " differs from BIP341"); return O; }
        } else {
            if (env.tce) { rep("commitment:not-finished", "commitment environment still active after the final check"); return O; }
            bytes lh(env.execdata.m_tapleaf_hash.begin(), env.execdata.m_tapleaf_hash.end());
            if (lh != P.tv.leaf) { rep("commitment:leaf-hash-not-handed-over", "execdata.m_tapleaf_hash is not the TapLeaf hash"); return O; }
        }
    }
    // script phases
    std::vector<bytes> stack = P.stack, copy;
    Err re = Err::OK;
    bool impl_failed = false;
    bytes last_script; bool redeem_ran = false; Err empty_spk_err = Err::OK;
    for (size_t ph = 0; ph < P.scripts.size() + (P.p2sh ? 1 : 0); ph++) {
        bytes script;
        if (ph < P.scripts.size()) script = P.scripts[ph];
        if (ph == 1 && P.type == "legacy" && !P.p2sh && P.scripts.size() == 2 && P.scripts[1].empty()) {
            // an EMPTY scriptPubKey: there is nothing to hand over to and the tool makes no hand-over step; the rule the hand-over applies to a
            // scriptSig (SIGPUSHONLY) is due with the verdict
            if ((c.flags & F_SIGPUSHONLY) && !is_push_only(P.scripts[0])) empty_spk_err = Err::SIG_PUSHONLY;
            continue;
        }
        if (ph >= 1) {
            // switch micro-step
            if (ph == 1) copy = stack;
            if (ph == 1 && P.type == "legacy" && (c.flags & F_SIGPUSHONLY) && !is_push_only(P.scripts[0])) re = Err::SIG_PUSHONLY;   // consensus rejects up front; the session shows it where the scriptSig ends
            if (ph == 2) {
                if (stack.empty() || !cast_to_bool(stack.back())) re = Err::EVAL_FALSE;
                else if (!is_push_only(P.scripts[0])) re = Err::SIG_PUSHONLY;   // BIP16: scriptSig of a P2SH spend must be push-only
                else { stack = copy; script = stack.back(); stack.pop_back(); }
            }
            std::string e = step_impl(); stepno++;
            if (re != Err::OK) {
                if (e == "") { rep(std::string("step-outcome:switch;ref=") + err_name(re) + ";impl=OK;" + c.klass, "script switch must fail with " + std::string(err_name(re))); return O; }
                if (!refails("switch", e)) return O;
                impl_failed = true;
                break;
            }
            if (e != "") { rep("step-outcome:switch;ref=OK;impl=" + e, "script switch failed"); O.err = e; return O; }
            if (bytes(env.script.begin(), env.script.end()) != script) { rep(std::string("switch:script:") + tk, "script after the switch differs: " + hex(bytes(env.script.begin(), env.script.end()))); return O; }
            if (env.stack != stack) { rep(std::string("switch:stack:") + tk, "stack after the switch differs: impl " + impl::stack_str(env.stack) + " ref " + impl::stack_str(stack)); return O; }
        }
        last_script = script; redeem_ran = ph == 2;
        if (P.sv == SigVer::TAPSCRIPT) {
            // BIP342: a leaf that contains an OP_SUCCESSx opcode succeeds without being executed (fails when that is discouraged);
            // the session walks over its operations without effect
            bool succ = false; size_t nops = 0, upto = 0;
            for (size_t q = 0; q < script.size();) { Op o = decode_op(script, q); if (!o.ok) break; if (!succ && is_op_success(o.code)) succ = true; q = o.end; nops++; upto = q; }
            if (succ && upto == script.size()) {
                char sk[64]; snprintf(sk, 64, "tapscript-op-success:%s", c.klass.c_str());
                if (c.flags & F_DISCOURAGE_OP_SUCCESS) {
                    std::string e = step_impl();
                    if (e != "DISCOURAGE_OP_SUCCESS") { rep(std::string(sk) + ":must-fail-discouraged", "a leaf containing OP_SUCCESSx must fail with DISCOURAGE_OP_SUCCESS before anything runs; first step reports " + (e == "" ? std::string("success") : e)); return O; }
                    S.invalid++; S.outcomes["invalid:tapscript-op-success-discouraged"]++;
                    if (have_rv && rv == Err::OK) rep("invalid-verdict-for-valid-spend:" + P.type + ":" + c.klass, "validation accepts but the session fails");
                    return O;
                }
                for (size_t i = 0; i < nops; i++) {
                    std::string e = step_impl();
                    if (e != "") { rep(std::string(sk) + ":must-succeed", "a leaf containing OP_SUCCESSx succeeds unconditionally; step " + std::to_string(i) + " reports " + e); return O; }
                    if (env.stack != stack) { rep(std::string(sk) + ":operation-had-effect", "step " + std::to_string(i) + " over a leaf containing OP_SUCCESSx changed the stack"); return O; }
                }
                std::string fe2 = step_impl();
                if (fe2 != "" || !inst.at_end()) { rep(std::string(sk) + ":verdict", "verdict step over a leaf containing OP_SUCCESSx reports " + (fe2 == "" ? std::string("not done") : fe2)); return O; }
                O.all_steps_ok = true; O.valid = true; S.valid++; S.outcomes["valid:tapscript-op-success"]++;
                if (have_rv && rv != Err::OK && !(is_taproot_plan(P) && !can_check_taproot)) rep("valid-verdict-for-invalid-spend:" + P.type + ":" + c.klass + ":" + err_name(rv), "validation says " + std::string(err_name(rv)) + " but the session ends valid");
                return O;
            }
        }
        if ((P.sv == SigVer::BASE || P.sv == SigVer::WITNESS_V0) && script.size() > MAX_SCRIPT) { re = Err::SCRIPT_SIZE; break; }
        Machine m; m.sv = P.sv; m.flags = c.flags; m.script = script; m.stack = stack; m.checker = &ck; m.ed = P.ed;
        size_t opi = 0;
        while (!m.at_end()) {
            Op o = decode_op(script, m.pc);
            bool sigop = o.ok && o.code >= 0xac && o.code <= 0xba && o.code != 0xb0;
            re = m.step();
            std::string e = step_impl(); stepno++;
            if (verbose) fprintf(stderr, "  phase %zu op#%zu 0x%02x ref=%s impl=%s\n", ph, opi, o.code, err_name(re), e == "" ? "OK" : e.c_str());
            char opk[80]; snprintf(opk, 80, "%s;op=0x%02x", tk, o.code);
            bool tap_unknowable = (P.sv == SigVer::TAPROOT || P.sv == SigVer::TAPSCRIPT) && sigop && !can_check_taproot;
            if (tap_unknowable) { S.outcomes["taproot-multi-input-skipped"]++; return O; }
            if (re != Err::OK) {
                bool same = e == err_name(re);
                if (P.sv == SigVer::TAPROOT && sigop && e != "") same = true;  // key path: the tool has no error sink (accept/reject only)
                if (!same) { rep(std::string("step-outcome:") + opk + ";ref=" + err_name(re) + ";impl=" + (e == "" ? "OK" : e) + ";" + c.klass, "op #" + std::to_string(opi) + " of phase " + std::to_string(ph) + ": reference " + err_name(re) + ", debugger " + (e == "" ? "OK" : e)); return O; }
                if (!refails("operation", e)) return O;
                impl_failed = true;
                break;
            }
            if (e != "") { rep(std::string("step-outcome:") + opk + ";ref=OK;impl=" + e + ";" + c.klass, "op #" + std::to_string(opi) + " of phase " + std::to_string(ph) + " must succeed, debugger reports " + e); O.err = e; return O; }
            const char* kind = nullptr;
            if (env.stack != m.stack) kind = "stack"; else if (env.altstack != m.alt && ph == 0) kind = "altstack";
            else if (env.nOpCount != m.opcount) kind = "opcount";
            if (kind) { rep(std::string("step-state:") + opk + ";" + kind, std::string("state after op #") + std::to_string(opi) + " of phase " + std::to_string(ph) + " differs in " + kind + ": impl " + impl::stack_str(env.stack) + " ref " + impl::stack_str(m.stack)); return O; }
            opi++;
        }
        if (re != Err::OK) break;
        re = m.finish();
        if (re != Err::OK) break;   // unbalanced conditional inside one script: the tool only notices at the very end
        stack = m.stack;
        if (ph + 1 == P.scripts.size() && P.p2sh) { /* fallthrough to the redeem phase */ }
    }
    // end of session: final verdict step
    bool impl_ok = false; std::string fe;
    // a legacy evaluation (the input has no witness) that ends on a witness program - the output itself or the redeem script of a
    // P2SH output: validation applies the witness rules to the empty witness, and bypasses the clean-stack rule when they pass
    Err wpe = Err::OK; bool ends_on_program = false;
    if (re == Err::OK && P.type == "legacy" && P.scripts.size() > 1 && (c.flags & F_WITNESS)) {
        int ver; bytes prog;
        if (is_witness_program(last_script, ver, prog)) {
            ends_on_program = true;
            if (!redeem_ran && !P.scripts[0].empty()) wpe = Err::WITNESS_MALLEATED;
            else if (redeem_ran && P.scripts[0] != push_raw(last_script)) wpe = Err::WITNESS_MALLEATED_P2SH;
            else wpe = verify_witness_program({}, ver, prog, c.flags, ck, redeem_ran);
        }
    }
    if (re == Err::OK && empty_spk_err != Err::OK) {
        fe = step_impl();
        if (fe != err_name(empty_spk_err)) { rep(std::string("final-verdict:empty-scriptpubkey;ref=") + err_name(empty_spk_err) + ";impl=" + (fe == "" ? "OK" : fe), "the output's scriptPubKey is empty and the scriptSig is not push-only under SIGPUSHONLY: validation reports " + std::string(err_name(empty_spk_err)) + ", the final step reports " + (fe == "" ? "success" : fe)); return O; }
        S.invalid++; S.outcomes["invalid:legacy:empty-scriptpubkey"]++;
        if (have_rv && rv == Err::OK) rep("invalid-verdict-for-valid-spend:legacy:" + c.klass, "the reference model of the session and validation disagree");
        return O;
    }
    if (re == Err::OK && inst.at_end() && P.type == "legacy" && P.scripts.size() == 2 && P.scripts[0].empty() && P.scripts[1].empty()) {
        // empty scriptSig and empty scriptPubKey: a session without a single step; the (empty) final stack is the verdict
        O.all_steps_ok = true;
        bool v = false; S.invalid++; S.outcomes["invalid:legacy:no-steps"]++;
        if (have_rv && rv == Err::OK) rep("invalid-verdict-for-valid-spend:legacy:" + c.klass, "validation accepts a spend with an empty final stack?");
        (void)v; return O;
    }
    if (re == Err::OK && wpe != Err::OK) {
        fe = step_impl();
        if (fe != err_name(wpe)) { rep(std::string("final-verdict:witness-program-without-witness;ref=") + err_name(wpe) + ";impl=" + (fe == "" ? "OK" : fe), "the evaluation ends on a witness program and the input has no witness: validation reports " + std::string(err_name(wpe)) + ", the final step reports " + (fe == "" ? "success" : fe)); return O; }
        S.invalid++; S.outcomes["invalid:legacy:witness-program-without-witness"]++;
        if (have_rv && rv == Err::OK) rep("invalid-verdict-for-valid-spend:legacy:" + c.klass, "the reference model of the session and validation disagree");
        return O;
    }
    if (re == Err::OK && stepno == 0 && inst.at_end()) {
        // a session without a single step (its only script is empty): it is done from the start, there is no verdict step to take
        impl_ok = true; O.all_steps_ok = true;
    } else if (re == Err::OK) {
        fe = step_impl();
        impl_ok = fe == "" && inst.at_end();
        if (!impl_ok) { rep(std::string("final-verdict:") + tk + ";impl=" + fe, "all scripts ran without error but the final step reports " + fe); return O; }
        O.all_steps_ok = true;
    } else {
        // the reference failed at some step and the implementation failed at the same step (checked above), or at a phase boundary
        // (unbalanced conditional / script size) that the tool evaluates later: run the tool to the end to get its verdict
        int guard = 0; bool ended_ok = !impl_failed;
        while (ended_ok && !inst.at_end() && guard++ < 100000) { if (step_impl() != "") { ended_ok = false; break; } }
        if (ended_ok) O.all_steps_ok = true;
    }
    // validity: "finishes without error and with the final stack validation requires"
    bool witness_type = P.sv != SigVer::BASE;
    const auto& fs = env.stack;
    O.valid = O.all_steps_ok && !fs.empty() && cast_to_bool(fs.back()) && ((!witness_type && !(c.flags & F_CLEANSTACK)) || fs.size() == 1 || ends_on_program);
    (O.valid ? S.valid : S.invalid)++;
    S.outcomes[std::string(O.valid ? "valid:" : "invalid:") + P.type]++;
    if (have_rv && !(is_taproot_plan(P) && !can_check_taproot)) {
        bool ref_valid = rv == Err::OK;
        if (ref_valid != O.valid) rep(std::string(ref_valid ? "invalid-verdict-for-valid-spend:" : "valid-verdict-for-invalid-spend:") + P.type + ":" + c.klass + ":" + err_name(rv),
                                      std::string("validation says ") + err_name(rv) + " but the session " + (O.valid ? "ends valid" : "ends invalid") + " (final stack " + impl::stack_str(fs) + ")");
    }
    return O;
}

}  // namespace sc
