// Synthesis of funding/spending transaction pairs for every supported output type, signed by the
// reference signer (refec/reftx) — independent of the tree under test.
#pragma once
#include "ref/refsession.hpp"
#include <string>
#include <vector>

namespace gen {
using namespace ref;

struct Key { bytes priv, pub, pubu, pubh, xonly; };
inline Key make_key(int i, uint64_t seed = 0) {
    bytes s{'k', 'e', 'y', uint8_t(i), uint8_t(i >> 8)};
    for (int k = 0; k < 8; k++) s.push_back(uint8_t(seed >> (8 * k)));
    Key k; k.priv = sha256(s);
    Pt P = pub_of(k.priv);
    k.pub = ser_pub(P, 2); k.pubu = ser_pub(P, 4); k.pubh = ser_pub(P, 6); k.xonly = xonly_of(P);
    return k;
}

inline bytes script_cat(std::initializer_list<bytes> parts) { bytes r; for (auto& p : parts) r.insert(r.end(), p.begin(), p.end()); return r; }
inline bytes op(uint8_t c) { return bytes{c}; }
inline bytes p2pkh_spk(const bytes& pk) { return script_cat({ref::unhex("76a914"), hash160(pk), ref::unhex("88ac")}); }
inline bytes p2sh_spk(const bytes& redeem) { return script_cat({ref::unhex("a914"), hash160(redeem), ref::unhex("87")}); }
inline bytes p2wpkh_spk(const bytes& pk) { return script_cat({ref::unhex("0014"), hash160(pk)}); }
inline bytes p2wsh_spk(const bytes& ws) { return script_cat({ref::unhex("0020"), sha256(ws)}); }

struct Shape {
    int nin = 1, nout = 1, pos = 0;       // pos: index of the input that spends the funding output
    int fund_nout = 3, fund_vout = 1;     // the funding transaction's output count and which one is spent
    int32_t version = 2; uint32_t locktime = 0;
    std::vector<uint32_t> sequences;      // per input (default 0xfffffffe)
    int64_t amount = 100000000;
    std::string leaf_kind;                // p2wsh-checksig / p2tr-script: "" = the signature script; "data" = a signature-free script over two small witness items
                                          // whose hex spelling is digits only (51, 1234); "p2sh-shaped" = OP_HASH160 <20 bytes> OP_EQUAL as witness script / leaf
    int ht2 = -1;                         // hash type of the second and later signatures of a multi-signature spend (-1: the same as the first)
    bytes raw_script; std::vector<bytes> raw_items;   // leaf_kind "raw": this script over these witness items (bottom first)
    int annex_len = 4;                    // length of the annex (first byte 0x50) when one is attached
    int tap_checks = 1;                   // p2tr-script: the leaf checks its one signature this many times (<P> [2DUP CHECKSIGVERIFY]* CHECKSIG): BIP342 budget vs whole-witness size
    int pad = 0, pad2 = 0;                // p2wsh-checksig / p2tr-script: the script starts with <pad bytes> DROP [<pad2 bytes> DROP] (scripts larger than one stack element)
};
inline bytes annex_bytes(const Shape& sh) { bytes a{0x50}; for (int i = 1; i < sh.annex_len; i++) a.push_back(uint8_t(0xa0 + i % 16)); return a; }
inline bytes pad_prefix(const Shape& sh) {
    bytes r;
    for (int n : {sh.pad, sh.pad2}) if (n > 0) { bytes d(n, 0x5a); bytes p = push_raw(d); r.insert(r.end(), p.begin(), p.end()); r.push_back(0x75); }
    return r;
}

struct Spend {
    std::string type;
    Tx fund, tx;
    size_t nin = 0;
    std::vector<TxOut> spent;     // prevouts of all inputs (only [nin] is real unless nin==1)
    // for taproot script path
    bytes leaf_script, control, internal_key;
};

inline Tx base_fund(const Shape& sh, const bytes& spk) {
    Tx f; f.version = 1; f.locktime = 0;
    TxIn in; in.prev_hash = sha256(bytes{'f', 'u', 'n', 'd'}); in.prev_n = 0; in.script_sig = ref::unhex("51"); f.vin.push_back(in);
    for (int j = 0; j < sh.fund_nout; j++) { TxOut o; o.value = j == sh.fund_vout ? sh.amount : 1000 + j; o.spk = j == sh.fund_vout ? spk : p2pkh_spk(make_key(90 + j).pub); f.vout.push_back(o); }
    return f;
}
inline Tx base_spend(const Shape& sh, const Tx& fund) {
    Tx t; t.version = sh.version; t.locktime = sh.locktime;
    for (int i = 0; i < sh.nin; i++) {
        TxIn in;
        if (i == sh.pos) { in.prev_hash = txid(fund); in.prev_n = uint32_t(sh.fund_vout); }
        else { in.prev_hash = sha256(bytes{'o', 't', 'h', uint8_t(i)}); in.prev_n = uint32_t(i); }
        in.sequence = i < (int)sh.sequences.size() ? sh.sequences[i] : 0xfffffffe;
        t.vin.push_back(in);
    }
    for (int j = 0; j < sh.nout; j++) { TxOut o; o.value = 5000 * (j + 1); o.spk = p2wpkh_spk(make_key(80 + j).pub); t.vout.push_back(o); }
    return t;
}
inline std::vector<TxOut> spent_list(const Shape& sh, const Tx& fund) {
    std::vector<TxOut> s(sh.nin);
    for (int i = 0; i < sh.nin; i++) { s[i].value = 777 + i; s[i].spk = p2wpkh_spk(make_key(70 + i).pub); }
    s[sh.pos] = fund.vout[sh.fund_vout];
    return s;
}

inline bytes sign_ecdsa(const Key& k, const bytes& digest, uint8_t ht, bool low_s = true) { bytes s = ecdsa_sign_der(k.priv, digest, low_s); s.push_back(ht); return s; }

inline bytes data_leaf() { return script_cat({push_raw(bytes{0x51}), op(0x88), push_raw(bytes{0x12, 0x34}), op(0x87)}); }   // <51> EQUALVERIFY <1234> EQUAL
inline std::vector<bytes> data_items() { return {bytes{0x12, 0x34}, bytes{0x51}}; }
inline bytes p2sh_shaped_preimage() { return bytes{0xaa, 0xbb, 0xcc}; }
inline bytes p2sh_shaped_leaf() { bytes h = hash160(p2sh_shaped_preimage()); return script_cat({op(0xa9), push_raw(h), op(0x87)}); }
// ---- the output types. `ht` is the hash type used for every signature.
inline Spend make_spend(const std::string& type, const Shape& sh, uint8_t ht = 1, int pathlen = 1, bool annex = false, uint64_t seed = 0) {
    Spend S; S.type = type; S.nin = sh.pos;
    Key k1 = make_key(1, seed), k2 = make_key(2, seed), k3 = make_key(3, seed);
    auto finish_legacy = [&](const bytes& spk, const bytes& script_code, std::function<bytes(const std::vector<bytes>&)> build_sig_script, std::vector<const Key*> signers) {
        S.fund = base_fund(sh, spk); S.tx = base_spend(sh, S.fund); S.spent = spent_list(sh, S.fund);
        std::vector<bytes> sigs;
        for (auto* k : signers) { uint8_t h = (!sigs.empty() && sh.ht2 >= 0) ? uint8_t(sh.ht2) : ht; sigs.push_back(sign_ecdsa(*k, sighash_legacy(S.tx, sh.pos, script_code, h), h)); }
        S.tx.vin[sh.pos].script_sig = build_sig_script(sigs);
    };
    auto finish_v0 = [&](const bytes& spk, const bytes& script_sig, const bytes& script_code, std::function<std::vector<bytes>(const std::vector<bytes>&)> build_wit, std::vector<const Key*> signers) {
        S.fund = base_fund(sh, spk); S.tx = base_spend(sh, S.fund); S.spent = spent_list(sh, S.fund);
        S.tx.vin[sh.pos].script_sig = script_sig;
        std::vector<bytes> sigs;
        for (auto* k : signers) { uint8_t h = (!sigs.empty() && sh.ht2 >= 0) ? uint8_t(sh.ht2) : ht; sigs.push_back(sign_ecdsa(*k, sighash_bip143(S.tx, sh.pos, script_code, sh.amount, h), h)); }
        S.tx.vin[sh.pos].witness = build_wit(sigs);
    };
    if (type == "p2pk") {
        bytes spk = script_cat({push_raw(k1.pub), op(0xac)});
        finish_legacy(spk, spk, [&](const std::vector<bytes>& s) { return push_raw(s[0]); }, {&k1});
    } else if (type == "multisig") {
        bytes spk = script_cat({op(0x51), push_raw(k1.pub), push_raw(k2.pub), op(0x52), op(0xae)});
        finish_legacy(spk, spk, [&](const std::vector<bytes>& s) { return script_cat({op(0x00), push_raw(s[0])}); }, {&k1});
    } else if (type == "p2pkh") {
        bytes spk = p2pkh_spk(k1.pub);
        finish_legacy(spk, spk, [&](const std::vector<bytes>& s) { return script_cat({push_raw(s[0]), push_raw(k1.pub)}); }, {&k1});
    } else if (type == "p2pkh-uncompressed") {
        bytes spk = p2pkh_spk(k1.pubu);
        finish_legacy(spk, spk, [&](const std::vector<bytes>& s) { return script_cat({push_raw(s[0]), push_raw(k1.pubu)}); }, {&k1});
    } else if (type == "p2sh-multisig") {
        bytes redeem = script_cat({op(0x52), push_raw(k1.pub), push_raw(k2.pub), push_raw(k3.pub), op(0x53), op(0xae)});
        finish_legacy(p2sh_spk(redeem), redeem, [&](const std::vector<bytes>& s) { return script_cat({op(0x00), push_raw(s[0]), push_raw(s[1]), push_raw(redeem)}); }, {&k1, &k3});
    } else if (type == "p2wpkh") {
        bytes code = p2pkh_spk(k1.pub);
        finish_v0(p2wpkh_spk(k1.pub), {}, code, [&](const std::vector<bytes>& s) { return std::vector<bytes>{s[0], k1.pub}; }, {&k1});
    } else if (type == "p2wsh") {
        bytes ws = script_cat({op(0x52), push_raw(k1.pub), push_raw(k2.pub), push_raw(k3.pub), op(0x53), op(0xae)});
        finish_v0(p2wsh_spk(ws), {}, ws, [&](const std::vector<bytes>& s) { return std::vector<bytes>{{}, s[0], s[1], ws}; }, {&k1, &k2});
    } else if (type == "p2wsh-checksig") {
        bytes ws = script_cat({pad_prefix(sh), push_raw(k1.pub), op(0xac)});
        if (sh.leaf_kind == "data") { ws = data_leaf(); finish_v0(p2wsh_spk(ws), {}, ws, [&](const std::vector<bytes>&) { auto w = data_items(); w.push_back(ws); return w; }, {}); }
        else if (sh.leaf_kind == "raw") { ws = sh.raw_script; finish_v0(p2wsh_spk(ws), {}, ws, [&](const std::vector<bytes>&) { auto w = sh.raw_items; w.push_back(ws); return w; }, {}); }
        else if (sh.leaf_kind == "p2sh-shaped") { ws = p2sh_shaped_leaf(); finish_v0(p2wsh_spk(ws), {}, ws, [&](const std::vector<bytes>&) { return std::vector<bytes>{p2sh_shaped_preimage(), ws}; }, {}); }
        else
        finish_v0(p2wsh_spk(ws), {}, ws, [&](const std::vector<bytes>& s) { return std::vector<bytes>{s[0], ws}; }, {&k1});
    } else if (type == "p2sh-p2wpkh") {
        bytes redeem = p2wpkh_spk(k1.pub);
        finish_v0(p2sh_spk(redeem), push_raw(redeem), p2pkh_spk(k1.pub), [&](const std::vector<bytes>& s) { return std::vector<bytes>{s[0], k1.pub}; }, {&k1});
    } else if (type == "p2sh-p2wsh") {
        bytes ws = script_cat({op(0x51), push_raw(k1.pub), push_raw(k2.pub), op(0x52), op(0xae)});
        bytes redeem = p2wsh_spk(ws);
        finish_v0(p2sh_spk(redeem), push_raw(redeem), ws, [&](const std::vector<bytes>& s) { return std::vector<bytes>{{}, s[0], ws}; }, {&k2});
    } else if (type == "p2tr-key") {
        bytes q; int par; taproot_output_key(k1.xonly, {}, q, par);
        S.fund = base_fund(sh, p2tr_spk(q)); S.tx = base_spend(sh, S.fund); S.spent = spent_list(sh, S.fund);
        S.internal_key = k1.xonly;
        TapCtx c; c.script_path = false; bytes ann;
        if (annex) { ann = annex_bytes(sh); c.annex_present = true; c.annex = ann; }
        bytes digest; bool ok = sighash_bip341(S.tx, sh.pos, S.spent, ht, c, digest);
        bytes tw = priv_tweak_add(k1.priv, taptweak_hash(k1.xonly, {}));
        bytes sig = ok ? schnorr_sign(tw, digest) : bytes(64, 0x11);
        if (ht != 0) sig.push_back(ht);
        S.tx.vin[sh.pos].witness = {sig};
        if (annex) S.tx.vin[sh.pos].witness.push_back(ann);
    } else if (type == "p2tr-script") {
        // leaf: <xonly k2> CHECKSIG ; path of `pathlen` sibling hashes
        S.leaf_script = script_cat({pad_prefix(sh), push_raw(k2.xonly)});
        for (int i = 1; i < sh.tap_checks; i++) { S.leaf_script.push_back(0x6e); S.leaf_script.push_back(0xad); }
        S.leaf_script.push_back(0xac);
        if (sh.leaf_kind == "data") S.leaf_script = data_leaf();
        if (sh.leaf_kind == "p2sh-shaped") S.leaf_script = p2sh_shaped_leaf();
        if (sh.leaf_kind == "raw") S.leaf_script = sh.raw_script;
        bytes k = tapleaf_hash(0xc0, S.leaf_script);
        std::vector<bytes> path;
        for (int i = 0; i < pathlen; i++) { bytes node = sha256(bytes{'n', 'o', 'd', 'e', uint8_t(i), uint8_t(seed)}); if (i % 2) node[0] = 0x00; else node[0] = 0xff; path.push_back(node); k = tapbranch_hash(k, node); }
        bytes q; int par; taproot_output_key(k1.xonly, k, q, par);
        S.internal_key = k1.xonly;
        S.control = bytes{uint8_t(0xc0 | par)}; S.control.insert(S.control.end(), k1.xonly.begin(), k1.xonly.end()); for (auto& n : path) S.control.insert(S.control.end(), n.begin(), n.end());
        S.fund = base_fund(sh, p2tr_spk(q)); S.tx = base_spend(sh, S.fund); S.spent = spent_list(sh, S.fund);
        TapCtx c; c.script_path = true; c.tapleaf_hash = tapleaf_hash(0xc0, S.leaf_script); c.codesep_pos = 0xffffffffu; bytes ann;
        if (annex) { ann = annex_bytes(sh); c.annex_present = true; c.annex = ann; }
        bytes digest; bool ok = sighash_bip341(S.tx, sh.pos, S.spent, ht, c, digest);
        bytes sig = ok ? schnorr_sign(k2.priv, digest) : bytes(64, 0x11);
        if (ht != 0) sig.push_back(ht);
        S.tx.vin[sh.pos].witness = {sig, S.leaf_script, S.control};
        if (sh.leaf_kind == "data") { auto w = data_items(); w.push_back(S.leaf_script); w.push_back(S.control); S.tx.vin[sh.pos].witness = w; }
        if (sh.leaf_kind == "p2sh-shaped") S.tx.vin[sh.pos].witness = {p2sh_shaped_preimage(), S.leaf_script, S.control};
        if (sh.leaf_kind == "raw") { auto w = sh.raw_items; w.push_back(S.leaf_script); w.push_back(S.control); S.tx.vin[sh.pos].witness = w; }
        if (annex) S.tx.vin[sh.pos].witness.push_back(ann);
    } else throw std::runtime_error("unknown spend type " + type);
    return S;
}

inline std::vector<std::string> all_types() { return {"p2pk", "multisig", "p2pkh", "p2pkh-uncompressed", "p2sh-multisig", "p2wpkh", "p2wsh", "p2wsh-checksig", "p2sh-p2wpkh", "p2sh-p2wsh", "p2tr-key", "p2tr-script"}; }
inline bool is_taproot_type(const std::string& t) { return t.rfind("p2tr", 0) == 0; }

}  // namespace gen
