// mc_tx — C13 (transaction decoding is lossless and identifiers are correct).
// Shape I: exhaustive enumeration of a structure alphabet (input/output counts, witness mixes, script and
// witness-item lengths across compact-size boundaries, extreme field values), every proper prefix and every
// marker/flag byte value of a representative subset, hex spelling variants, and a closed set of decimal
// amount strings; each element parsed by the real Instance::parse_transaction and compared field by field,
// byte by byte and id by id with the reference codec.
#include "impl.hpp"
#include "ref/reftx.hpp"
#include <streams.h>
#include <primitives/transaction.h>

using namespace mc;
using namespace ref;

static bytes fill(size_t n, uint8_t s) { bytes b(n); for (size_t i = 0; i < n; i++) b[i] = uint8_t(s + i * 13); return b; }

struct Res { bool ok = false; bool threw = false; std::string what; };

static J tx_json(const std::string& hexs, const std::string& label) { return JObj().put("engine", "mc_tx").put("mode", "tx").put("hex", hexs.size() > 6000 ? hexs.substr(0, 6000) : hexs).put("hexlen", hexs.size()).put("label", label).j(); }

// parse `input` (the --tx argument without amounts) with the implementation and compare with the reference verdict
static void check_tx_string(const std::string& input, const bytes& raw_expected_or_empty, const std::string& label, const std::string& klass, Violations& V, std::map<std::string, long long>& hist) {
    note(tx_json(input, label).s);
    auto rep = [&](const std::string& key, const std::string& what) { V.add(key, what + " [" + label + "]", tx_json(input, label)); };
    // reference: hex decoding as the property describes it (hex digits, embedded whitespace allowed), then strict parse
    bytes raw; bool hex_ok = true;
    {
        std::string digits; for (char c : input) { if (c == ' ' || c == '\t' || c == '\n' || c == '\r' || c == '\f' || c == '\v') continue; digits += c; }
        if (digits.size() % 2) hex_ok = false; else { try { raw = unhex(digits); } catch (...) { hex_ok = false; } }
    }
    Tx want; size_t consumed = 0;
    bool ref_ok = hex_ok && parse_tx(raw, want, &consumed);
    bool trailing = ref_ok && consumed != raw.size();
    impl::quiet_globals();
    Instance inst; bool ok = false, threw = false;
    try { ok = inst.parse_transaction(input.c_str(), false); } catch (const std::exception&) { threw = true; }
    hist[klass + (ref_ok ? (trailing ? ":trailing" : ":valid") : ":invalid")]++;
    if (!ref_ok) {
        if (ok) rep("c13:accepts-invalid:" + klass, "an encoding the reference rejects is accepted");
        return;
    }
    // bytes after a complete transaction: the string as a whole is not a transaction encoding - it must be rejected, not accepted in part
    if (trailing) { hist["trailing-bytes-" + std::string(ok ? "accepted" : "rejected")]++; if (ok) rep("c13:accepts-invalid:trailing-bytes:" + klass, "bytes follow a complete transaction and the encoding is accepted (the rest is silently dropped)"); return; }
    if (!ok) { rep(std::string("c13:rejects-valid:") + klass + (threw ? ":exception" : ""), "a well-formed encoding is rejected"); return; }
    const CTransaction& t = *inst.tx;
    std::string diff;
    if (t.nVersion != want.version) diff = "version";
    else if (t.nLockTime != want.locktime) diff = "locktime";
    else if (t.vin.size() != want.vin.size()) diff = "input-count";
    else if (t.vout.size() != want.vout.size()) diff = "output-count";
    for (size_t i = 0; diff.empty() && i < want.vin.size(); i++) {
        const CTxIn& a = t.vin[i]; const TxIn& b = want.vin[i];
        if (bytes(a.prevout.hash.begin(), a.prevout.hash.end()) != b.prev_hash || a.prevout.n != b.prev_n) diff = "prevout";
        else if (bytes(a.scriptSig.begin(), a.scriptSig.end()) != b.script_sig) diff = "scriptSig";
        else if (a.nSequence != b.sequence) diff = "sequence";
        else if (a.scriptWitness.stack != b.witness) diff = "witness";
    }
    for (size_t i = 0; diff.empty() && i < want.vout.size(); i++) {
        if (t.vout[i].nValue != want.vout[i].value) diff = "amount";
        else if (bytes(t.vout[i].scriptPubKey.begin(), t.vout[i].scriptPubKey.end()) != want.vout[i].spk) diff = "scriptPubKey";
    }
    if (!diff.empty()) { rep("c13:field:" + diff + ":" + klass, "decoded field differs: " + diff); return; }
    CDataStream ss(SER_NETWORK, PROTOCOL_VERSION);
    ss << t;
    bytes re((const uint8_t*)ss.data(), (const uint8_t*)ss.data() + ss.size());
    if (re != raw) { rep("c13:reserialise:" + klass, "re-serialisation differs from the input bytes"); return; }
    bytes id = txid(want), wid = wtxid(want);
    if (bytes(t.GetHash().begin(), t.GetHash().end()) != id) { rep("c13:txid:" + klass, "txid is not the double-SHA256 of the witness-stripped encoding"); return; }
    if (bytes(t.GetWitnessHash().begin(), t.GetWitnessHash().end()) != wid) { rep("c13:wtxid:" + klass, "wtxid differs"); return; }
    std::string shown = t.GetHash().ToString(); bytes rid = id; std::reverse(rid.begin(), rid.end());
    if (shown != hex(rid)) { rep("c13:txid-display:" + klass, "displayed txid is not the byte-reversed hash"); return; }
    if ((inst.sigver == SigVersion::WITNESS_V0) != has_witness(want)) { rep("c13:segwit-detection:" + klass, "segwit detection differs"); return; }
    (void)raw_expected_or_empty;
}

static Tx make_tx(int nin, int nout, const std::vector<int>& wit /*per input: 0 none, 1 one item, 3 three items*/, size_t sslen, size_t spklen, size_t witlen, int32_t ver, uint32_t seq, uint32_t lt, int64_t amt) {
    Tx t; t.version = ver; t.locktime = lt;
    for (int i = 0; i < nin; i++) { TxIn in; in.prev_hash = sha256(bytes{uint8_t(i), 7}); in.prev_n = i == 0 ? 0 : (i == 1 ? 0xffffffffu : 5); in.script_sig = fill(sslen, uint8_t(i)); in.sequence = seq + i; for (int k = 0; k < wit[i]; k++) in.witness.push_back(fill(k == 0 ? witlen : size_t(k), uint8_t(40 + k))); t.vin.push_back(in); }
    for (int j = 0; j < nout; j++) { TxOut o; o.value = j == 0 ? amt : 1000 + j; o.spk = fill(spklen, uint8_t(90 + j)); t.vout.push_back(o); }
    return t;
}

struct Item { std::function<void(Violations&, std::map<std::string, long long>&)> run; };

// exact decimal -> satoshis; false if not representable (more than 8 fractional digits with a non-zero tail, overflow, syntax)
static bool ref_amount(const std::string& s, __int128& out) {
    size_t p = 0; bool neg = false;
    if (p < s.size() && s[p] == '-') { neg = true; p++; }
    if (p >= s.size()) return false;
    std::string ip, fp; long long ex = 0;
    if (s[p] == '0') { ip = "0"; p++; } else if (s[p] >= '1' && s[p] <= '9') { while (p < s.size() && isdigit((unsigned char)s[p])) ip += s[p++]; } else return false;
    if (p < s.size() && s[p] == '.') { p++; if (p >= s.size() || !isdigit((unsigned char)s[p])) return false; while (p < s.size() && isdigit((unsigned char)s[p])) fp += s[p++]; }
    if (p < s.size() && (s[p] == 'e' || s[p] == 'E')) { p++; bool en = false; if (p < s.size() && s[p] == '+') p++; else if (p < s.size() && s[p] == '-') { en = true; p++; } if (p >= s.size() || !isdigit((unsigned char)s[p])) return false; std::string es; while (p < s.size() && isdigit((unsigned char)s[p])) es += s[p++]; if (es.size() > 6) return false; ex = atoll(es.c_str()); if (en) ex = -ex; }
    if (p != s.size()) return false;
    // value = (ip.fp) * 10^(ex+8)
    std::string digits = ip + fp; long long scale = ex + 8 - (long long)fp.size();
    while (scale < 0) { if (digits.empty() || digits.back() != '0') { bool allzero = true; for (char c : digits) if (c != '0') allzero = false; if (!allzero) return false; } if (!digits.empty()) digits.pop_back(); scale++; if (digits.empty()) { digits = "0"; scale = std::max(scale, 0LL); break; } }
    __int128 v = 0; for (char c : digits) { v = v * 10 + (c - '0'); if (v > (__int128)4000000000000000000LL * 1000) return false; }
    for (long long i = 0; i < scale; i++) { v *= 10; if (v > (__int128)4000000000000000000LL * 1000) return false; }
    out = neg ? -v : v;
    return true;
}

int main(int argc, char** argv) {
    Args a(argc, argv);
    ECCVerifyHandle ecc;
    impl::quiet_globals();
    std::string out = a.get("out", "/dev/stdout"), tier = a.get("tier", "quick");
    bool th = tier != "quick";
    double t0 = now_s();
    Violations V; JObj res; res.put("engine", "mc_tx").put("tier", tier);
    if (a.has("replay")) {
        JParser p(read_file(a.get("replay"))); JVal v = p.parse(); const JVal& r = v.has("replay") ? v["replay"] : v;
        Violations V1, V2; std::map<std::string, long long> h;
        if (r["mode"].s == "tx") { check_tx_string(r["hex"].s, {}, r["label"].s, "replay", V1, h); check_tx_string(r["hex"].s, {}, r["label"].s, "replay", V2, h); }
        if (V1.j().s != V2.j().s) { fprintf(stderr, "NONDETERMINISTIC replay\n"); return 2; }
        for (auto& kv : V1.by_key) printf("DIVERGENCE %s: %s\n", kv.first.c_str(), kv.second.first.what.c_str());
        if (V1.by_key.empty()) printf("no divergence\n");
        return V1.by_key.empty() ? 0 : 1;
    }
    std::vector<Item> items;
    std::vector<std::string> samples;
    // ---- (1) structure product with small scripts: nin x nout x every witness mix x version x extreme values
    std::vector<Tx> reps;   // representative subset for truncations / flag bytes
    for (int nin = 1; nin <= 3; nin++) for (int nout = 0; nout <= 3; nout++) {
        std::vector<std::vector<int>> mixes; int opts[3] = {0, 1, 3};
        std::vector<int> cur(nin, 0);
        std::function<void(int)> rec = [&](int i) { if (i == nin) { mixes.push_back(cur); return; } for (int o : opts) { cur[i] = o; rec(i + 1); } };
        rec(0);
        for (auto& mx : mixes) for (int32_t ver : {1, 2, -1, 2147483647}) for (uint32_t seq : {0u, 1u, 0xfffffffdu}) for (int64_t amt : std::vector<int64_t>{0, 1, 2100000000000000LL, -1, INT64_MAX, INT64_MIN}) {
            if (!th && (ver == 2147483647 || amt == INT64_MIN) && nin == 3) continue;
            Tx t = make_tx(nin, nout, mx, nin == 2 ? 1 : 3, 22, 2, ver, seq, seq == 0 ? 0xffffffffu : 499999999u, amt);
            if (reps.size() < 60 && (reps.size() % 2 == 0 ? ver == 2 : ver == 1) && amt == 1 && seq == 1) reps.push_back(t);
            std::string label = "nin=" + std::to_string(nin) + " nout=" + std::to_string(nout) + " ver=" + std::to_string(ver) + " amt=" + std::to_string(amt);
            items.push_back({[=](Violations& V, auto& h) { check_tx_string(hex(ser_tx(t)), {}, label, "structure", V, h); }});
        }
    }
    // ---- (1b) the transaction without inputs and without outputs (<version> 00 00 <lock time>, 10 bytes) and its neighbours: the empty vin is
    //      what the segwit marker looks like, so this is where the two formats are told apart
    for (const char* ver : {"01000000", "02000000", "ffffffff", "00000080"}) for (const char* lt : {"00000000", "ffffffff", "07000000"}) {
        for (const char* mid : {"0000", "00000000", "00010000", "0001000000", "000100", "0002", "000001", "00000100", "0000015100", "00000151", "0001"}) {
            std::string hx = std::string(ver) + mid + lt;
            items.push_back({[=](Violations& V, auto& h) { check_tx_string(hx, {}, "no-input forms: version " + std::string(ver) + " then " + mid + " then lock time " + lt, "empty-vin", V, h);
                                                            check_tx_string(hx + "5151", {}, "no-input forms with two more bytes: " + hx, "empty-vin", V, h); }});
        }
    }
    // ---- (2) lengths across compact-size boundaries, one position at a time and in pairs
    std::vector<size_t> lens = {0, 1, 75, 76, 252, 253, 254, 255, 256, 65535, 65536};
    for (size_t l1 : lens) for (size_t l2 : lens) for (size_t l3 : (th ? lens : std::vector<size_t>{0, 253, 65536})) {
        if (!th && l1 > 256 && l2 > 256) continue;
        Tx t = make_tx(2, 2, {1, 0}, l1, l2, l3, 2, 5, 0, 1234);
        std::string label = "scriptSig=" + std::to_string(l1) + " scriptPubKey=" + std::to_string(l2) + " witness item=" + std::to_string(l3);
        items.push_back({[=](Violations& V, auto& h) { check_tx_string(hex(ser_tx(t)), {}, label, "lengths", V, h); }});
    }
    // many inputs / outputs / witness items: across the 252/253 count boundary, and counts that are no classic boundary at all (a reader that
    // pre-allocates a capped number of elements, a 16-bit counter, a table of N entries go wrong somewhere in between)
    for (int n : {252, 253, 254, 300, 316, 400, 820, 1000, 1366, 1500, 4097, 32769, 65535, 65536, 70000}) {
        if (!th && n > 1500 && n != 65536) continue;
        { Tx t = make_tx(1, 1, {0}, 0, 1, 0, 2, 0, 0, 1); for (int i = 1; i < n; i++) t.vin.push_back(t.vin[0]); items.push_back({[=](Violations& V, auto& h) { check_tx_string(hex(ser_tx(t)), {}, std::to_string(n) + " inputs", "counts", V, h); }}); }
        { Tx t = make_tx(1, 1, {0}, 0, 1, 0, 2, 0, 0, 1); for (int i = 1; i < n; i++) t.vout.push_back(t.vout[0]); items.push_back({[=](Violations& V, auto& h) { check_tx_string(hex(ser_tx(t)), {}, std::to_string(n) + " outputs", "counts", V, h); }}); }
        { Tx t = make_tx(1, 1, {1}, 0, 1, 1, 2, 0, 0, 1); for (int i = 1; i < n; i++) t.vin[0].witness.push_back(bytes{uint8_t(i)}); items.push_back({[=](Violations& V, auto& h) { check_tx_string(hex(ser_tx(t)), {}, std::to_string(n) + " witness items", "counts", V, h); }}); }
    }
    // ---- (3) every proper prefix, every marker / flag byte value, non-canonical compact sizes, spelling variants of the representative subset
    size_t nrep = th ? reps.size() : std::min<size_t>(reps.size(), 24);
    for (size_t ri = 0; ri < nrep; ri++) {
        Tx t = reps[ri];
        items.push_back({[=](Violations& V, auto& h) {
            bytes raw = ser_tx(t); std::string hx = hex(raw);
            for (size_t n = 0; n < raw.size(); n++) check_tx_string(hx.substr(0, 2 * n), {}, "truncated to " + std::to_string(n) + " of " + std::to_string(raw.size()) + " bytes", "truncation", V, h);
            for (size_t n = 1; n < hx.size(); n += 2) if (n < 40 || n + 40 > hx.size()) check_tx_string(hx.substr(0, n), {}, "odd-length hex (" + std::to_string(n) + " digits)", "odd-hex", V, h);
            // a complete encoding followed (or preceded, or interrupted) by text that is not hex: the string is not a transaction encoding
            for (const char* tail : {"zz", "g", "!", " 0g", "0g", "xx00", "\n#comment", "0x", "-"}) check_tx_string(hx + tail, {}, std::string("complete encoding followed by '") + tail + "'", "non-hex-tail", V, h);
            for (const char* head : {"zz", "0x", "g0"}) check_tx_string(head + hx, {}, std::string("complete encoding preceded by '") + head + "'", "non-hex-head", V, h);
            check_tx_string(hx.substr(0, hx.size() / 2) + "zz" + hx.substr(hx.size() / 2), {}, "complete encoding with 'zz' in the middle", "non-hex-middle", V, h);
            if (has_witness(t)) for (int fb = 0; fb < 256; fb++) { bytes r2 = raw; r2[5] = uint8_t(fb); check_tx_string(hex(r2), {}, "flag byte " + std::to_string(fb), "flag-byte", V, h); }
            if (has_witness(t)) for (int mb = 0; mb < 256; mb++) { bytes r2 = raw; r2[4] = uint8_t(mb); check_tx_string(hex(r2), {}, "marker byte " + std::to_string(mb), "marker-byte", V, h); }
            // witness flag set but every stack empty ("superfluous witness record")
            { Tx u = t; for (auto& in : u.vin) in.witness.clear(); bytes b; put_le(b, uint32_t(u.version), 4); b.push_back(0); b.push_back(1); put_compact(b, u.vin.size()); for (auto& in : u.vin) { put_outpoint(b, in); put_var(b, in.script_sig); put_le(b, in.sequence, 4); } put_compact(b, u.vout.size()); for (auto& o : u.vout) put_txout(b, o); for (size_t i = 0; i < u.vin.size(); i++) b.push_back(0); put_le(b, u.locktime, 4); check_tx_string(hex(b), {}, "witness flag with all-empty stacks", "superfluous-witness", V, h); }
            // non-canonical compact size for the input count and for a script length
            if (!has_witness(t)) { bytes r2(raw.begin(), raw.begin() + 4); r2.push_back(0xfd); r2.push_back(raw[4]); r2.push_back(0); r2.insert(r2.end(), raw.begin() + 5, raw.end()); check_tx_string(hex(r2), {}, "non-canonical compact size for the input count", "noncanonical-size", V, h); }
            // bytes after the complete transaction
            for (const char* tail : {"00", "ff", "0000000000", "01000000"}) check_tx_string(hx + tail, {}, std::string("trailing bytes ") + tail, "trailing", V, h);
            check_tx_string(hx + hx, {}, "the transaction twice", "trailing", V, h);
            // spelling variants
            { std::string sp; for (size_t i = 0; i < hx.size(); i += 2) { sp += hx.substr(i, 2); if (i % 6 == 0) sp += ' '; } check_tx_string(sp, {}, "hex with embedded spaces", "spaces", V, h); }
            { std::string up = hx; for (auto& c : up) c = char(toupper(c)); check_tx_string(up, {}, "upper-case hex", "uppercase", V, h); }
            { std::string bad = hx; bad[bad.size() / 2] = 'g'; check_tx_string(bad, {}, "non-hex character in the middle", "non-hex", V, h); }
            check_tx_string("0x" + hx, {}, "0x prefix", "0x-prefix", V, h);
        }});
    }
    // ---- (4) amount prefixes
    struct AmtCase { std::string s; };
    std::vector<std::string> amts;
    for (const char* ip : {"0", "1", "20999999", "21000000", "92233720368", "9223372036"}) {
        amts.push_back(ip);
        // fractional digit patterns over {0,1,9}, 1..8 digits (thorough: exhaustive; quick: up to 5 digits + all 8-digit patterns over {0,9})
        for (int nd = 1; nd <= 8; nd++) {
            int total = 1; for (int i = 0; i < nd; i++) total *= 3;
            if (!th && nd > 5) { for (int m = 0; m < (1 << nd); m++) { std::string f; for (int i = 0; i < nd; i++) f += (m >> i) & 1 ? '9' : '0'; amts.push_back(std::string(ip) + "." + f); } continue; }
            for (int m = 0; m < total; m++) { std::string f; int x = m; for (int i = 0; i < nd; i++) { f += "019"[x % 3]; x /= 3; } amts.push_back(std::string(ip) + "." + f); }
        }
    }
    for (const char* s : {"-1", "-0.5", "1e8", "1E-8", "1.5e3", "1e-9", "0.000000001", "0.123456789", "00.1", "01", ".5", "5.", "1,5", "+1", "1 ", " 1", "", "abc", "0x10", "1e", "1e+", "92233720369", "1e11", "9999999999.99999999", "10000000000", "1.0000000000000000", "1.00000000000000001"}) amts.push_back(s);
    size_t chunk = 500;
    for (size_t i0 = 0; i0 < amts.size(); i0 += chunk) items.push_back({[=](Violations& V, auto& h) {
        Tx t = make_tx(1, 1, {0}, 1, 5, 0, 2, 0, 0, 1); std::string hx = hex(ser_tx(t));
        for (size_t i = i0; i < std::min(amts.size(), i0 + chunk); i++) {
            const std::string& s = amts[i];
            if (s.find(',') != std::string::npos || s.find(':') != std::string::npos) continue;
            J rj = JObj().put("engine", "mc_tx").put("mode", "amount").put("amount", s).j(); note(rj.s);
            __int128 want; bool wok = ref_amount(s, want) && want > -(__int128)1000000000000000000LL && want < (__int128)1000000000000000000LL;
            size_t dot = s.find('.'); size_t e = s.find_first_of("eE");
            bool in_domain = dot == std::string::npos ? true : ((e == std::string::npos ? s.size() : e) - dot - 1 <= 8);   // the property quantifies over <= 8 fractional digits
            impl::quiet_globals(); Instance inst; bool ok = false;
            if (s.empty()) continue;   // an empty amount list means "no amounts", not an amount
            try { ok = inst.parse_transaction((s + ":" + hx).c_str(), true); } catch (const std::exception&) {}
            h[std::string("amount:") + (wok ? "valid" : "invalid") + (in_domain ? "" : ":out-of-domain")]++;
            if (!in_domain) continue;
            if (wok && !ok) V.add("c13:amount:rejects-valid", "amount '" + s + "' is rejected", rj);
            else if (!wok && ok) V.add("c13:amount:accepts-invalid", "amount '" + s + "' is accepted as " + std::to_string(inst.amounts[0]), rj);
            else if (wok && inst.amounts[0] != (int64_t)want) V.add("c13:amount:wrong-value", "amount '" + s + "' gives " + std::to_string(inst.amounts[0]) + " satoshis, expected " + std::to_string((long long)want), rj);
        }
    }});
    // amount lists for a 3-input transaction
    items.push_back({[=](Violations& V, auto& h) {
        Tx t = make_tx(3, 1, {0, 0, 0}, 1, 5, 0, 2, 0, 0, 1); std::string hx = hex(ser_tx(t));
        struct L { std::string s; std::vector<int64_t> want; bool ok; };
        for (auto& l : std::vector<L>{{"1,2,3", {100000000, 200000000, 300000000}, true}, {"0.1,0.002", {10000000, 200000, 0}, true}, {"5", {500000000, 0, 0}, true}, {"1,,3", {}, false}, {"1,x,3", {}, false}}) {
            impl::quiet_globals(); Instance inst; bool ok = false; try { ok = inst.parse_transaction((l.s + ":" + hx).c_str(), true); } catch (const std::exception&) {}
            J rj = JObj().put("engine", "mc_tx").put("mode", "amount-list").put("amounts", l.s).j();
            h["amount-list"]++;
            if (ok != l.ok) V.add(std::string("c13:amount-list:") + (l.ok ? "rejects-valid" : "accepts-invalid"), "amount list '" + l.s + "'", rj);
            else if (ok && inst.amounts != l.want) V.add("c13:amount-list:wrong-values", "amount list '" + l.s + "' gives other values", rj);
        }
    }});

    std::map<std::string, long long> hist;
    std::string tmp = make_tmpdir();
    parallel_for(items.size(), default_workers(), tmp, "c13",
        [&](size_t i, FILE* o) { Violations v; std::map<std::string, long long> h; items[i].run(v, h); v.dump(o); for (auto& kv : h) fprintf(o, "H\t%s\t%lld\n", kv.first.c_str(), kv.second); },
        [&](size_t i, int st, const std::string& nt) { V.add("c13:crash:" + crash_desc(st), "worker died (" + crash_desc(st) + ")", J::raw(nt.empty() ? "{}" : nt)); },
        [&](const std::string& l) { if (l.empty()) return; if (l[0] == 'V') V.merge_line(l); else if (l[0] == 'H') { char n[200]; long long c; if (sscanf(l.c_str() + 2, "%199[^\t]\t%lld", n, &c) == 2) hist[n] += c; } });
    rm_rf(tmp);
    long long total = 0; for (auto& kv : hist) total += kv.second;
    res.put("items", items.size()).put("cases", total).put("representatives", nrep).put("amount_strings", amts.size());
    { JObj o; for (auto& kv : hist) o.put(kv.first, kv.second); res.put("classes", o.j()); }
    { Tx t = make_tx(2, 2, {1, 0}, 3, 22, 2, 2, 5, 0, 1234); samples.push_back(hex(ser_tx(t))); samples.push_back("amount 20999999.99999999"); samples.push_back("prefix of 17 bytes of a 2-input segwit transaction"); }
    res.put("samples", J::strs(samples));
    res.put("violations", V.j());
    res.put("wall_s", now_s() - t0);
    write_result(out, res);
    return 0;
}
