// Shared harness code for the mc_* engines: JSON output, forked parallel-for with crash
// containment, violation collection, and adaptors that drive the implementation's public
// surface (Instance, InterpreterEnv) exactly as test/ does.
#pragma once
#include <cstdio>
#include <cstdlib>
#include <cstring>
#include <cstdint>
#include <string>
#include <vector>
#include <map>
#include <set>
#include <functional>
#include <sstream>
#include <chrono>
#include <unistd.h>
#include <fcntl.h>
#include <sys/mman.h>
#include <sys/wait.h>
#include <sys/stat.h>

#include "ref/refnum.hpp"

#ifdef VERIF_COVERAGE
extern "C" void __gcov_dump(void);
#endif
namespace mc {

using ref::bytes;

inline double now_s() {
    using namespace std::chrono;
    return duration_cast<duration<double>>(steady_clock::now().time_since_epoch()).count();
}

// ---------------------------------------------------------------- JSON (emit only)
struct J {
    std::string s;
    static std::string esc(const std::string& in) {
        std::string o = "\"";
        for (unsigned char c : in) {
            if (c == '"') o += "\\\""; else if (c == '\\') o += "\\\\"; else if (c == '\n') o += "\\n";
            else if (c == '\t') o += "\\t"; else if (c < 0x20 || c >= 0x7f) { char b[8]; snprintf(b, 8, "\\u%04x", c); o += b; }
            else o += c;
        }
        return o + "\"";
    }
    static J str(const std::string& v) { J j; j.s = esc(v); return j; }
    static J num(long long v) { J j; j.s = std::to_string(v); return j; }
    static J dbl(double v) { J j; char b[64]; snprintf(b, 64, "%.3f", v); j.s = b; return j; }
    static J boolean(bool v) { J j; j.s = v ? "true" : "false"; return j; }
    static J raw(const std::string& v) { J j; j.s = v; return j; }
    static J arr(const std::vector<J>& v) { J j; j.s = "["; for (size_t i = 0; i < v.size(); i++) { if (i) j.s += ","; j.s += v[i].s; } j.s += "]"; return j; }
    static J strs(const std::vector<std::string>& v) { std::vector<J> a; for (auto& x : v) a.push_back(str(x)); return arr(a); }
};
struct JObj {
    std::vector<std::pair<std::string, std::string>> kv;
    JObj& put(const std::string& k, const J& v) { kv.emplace_back(k, v.s); return *this; }
    JObj& put(const std::string& k, const std::string& v) { return put(k, J::str(v)); }
    JObj& put(const std::string& k, const char* v) { return put(k, J::str(v)); }
    JObj& put(const std::string& k, long long v) { return put(k, J::num(v)); }
    JObj& put(const std::string& k, size_t v) { return put(k, J::num((long long)v)); }
    JObj& put(const std::string& k, int v) { return put(k, J::num(v)); }
    JObj& put(const std::string& k, unsigned v) { return put(k, J::num(v)); }
    JObj& put(const std::string& k, bool v) { return put(k, J::boolean(v)); }
    JObj& put(const std::string& k, double v) { return put(k, J::dbl(v)); }
    J j() const { J r; r.s = "{"; for (size_t i = 0; i < kv.size(); i++) { if (i) r.s += ","; r.s += J::esc(kv[i].first) + ":" + kv[i].second; } r.s += "}"; return r; }
};

// ---------------------------------------------------------------- tiny JSON reader (for --replay files)
// Only what replay files need: objects of strings / numbers / arrays of strings / nested objects.
struct JVal {
    enum T { NUL, STR, NUM, ARR, OBJ, BOOL } t = NUL;
    std::string s; double n = 0; bool b = false;
    std::vector<JVal> a; std::map<std::string, JVal> o;
    const JVal& operator[](const std::string& k) const { static JVal nul; auto it = o.find(k); return it == o.end() ? nul : it->second; }
    long long i() const { return (long long)n; }
    bool has(const std::string& k) const { return o.count(k) > 0; }
};
struct JParser {
    const std::string& t; size_t p = 0;
    explicit JParser(const std::string& s) : t(s) {}
    void ws() { while (p < t.size() && isspace((unsigned char)t[p])) p++; }
    JVal parse() {
        ws(); JVal v;
        if (p >= t.size()) return v;
        char c = t[p];
        if (c == '{') { v.t = JVal::OBJ; p++; ws(); if (t[p] == '}') { p++; return v; }
            while (true) { ws(); JVal k = parse(); ws(); p++; /* : */ JVal x = parse(); v.o[k.s] = x; ws(); if (t[p] == ',') { p++; continue; } p++; break; } }
        else if (c == '[') { v.t = JVal::ARR; p++; ws(); if (t[p] == ']') { p++; return v; }
            while (true) { v.a.push_back(parse()); ws(); if (t[p] == ',') { p++; continue; } p++; break; } }
        else if (c == '"') { v.t = JVal::STR; p++; while (t[p] != '"') { if (t[p] == '\\') { p++; char e = t[p]; if (e == 'n') v.s += '\n'; else if (e == 't') v.s += '\t'; else if (e == 'u') { v.s += char(strtol(t.substr(p + 1, 4).c_str(), nullptr, 16)); p += 4; } else v.s += e; p++; } else v.s += t[p++]; } p++; }
        else if (!strncmp(&t[p], "true", 4)) { v.t = JVal::BOOL; v.b = true; p += 4; }
        else if (!strncmp(&t[p], "false", 5)) { v.t = JVal::BOOL; p += 5; }
        else if (!strncmp(&t[p], "null", 4)) { p += 4; }
        else { v.t = JVal::NUM; char* e; v.n = strtod(&t[p], &e); p = e - t.data(); }
        return v;
    }
};
inline std::string read_file(const std::string& path) {
    FILE* f = fopen(path.c_str(), "rb"); if (!f) return "";
    std::string s; char buf[65536]; size_t n;
    while ((n = fread(buf, 1, sizeof buf, f)) > 0) s.append(buf, n);
    fclose(f); return s;
}

// ---------------------------------------------------------------- violations
// A violation carries a narrow class key (the failing input class / call site) that the
// known-findings gate in vcheck matches on, a human-readable description, and a replay object.
struct Violation { std::string key, what; std::string replay_json; };
struct Violations {
    std::map<std::string, std::pair<Violation, long long>> by_key;  // first example + count
    void add(const std::string& key, const std::string& what, const J& replay) {
        auto it = by_key.find(key);
        if (it == by_key.end()) by_key[key] = {Violation{key, what, replay.s}, 1};
        else it->second.second++;
    }
    J j() const {
        std::vector<J> a;
        for (auto& kv : by_key)
            a.push_back(JObj().put("key", kv.first).put("what", kv.second.first.what).put("count", kv.second.second).put("replay", J::raw(kv.second.first.replay_json)).j());
        return J::arr(a);
    }
    // text transport between forked workers and master (one line per record)
    void dump(FILE* f) const {
        for (auto& kv : by_key)
            fprintf(f, "V\t%lld\t%s\t%s\t%s\n", kv.second.second, J::esc(kv.first).c_str(), J::esc(kv.second.first.what).c_str(), kv.second.first.replay_json.c_str());
    }
    void merge_line(const std::string& line) {
        // V \t count \t "key" \t "what" \t replay
        std::vector<std::string> f; size_t p = 0;
        for (int i = 0; i < 4; i++) { size_t q = line.find('\t', p); f.push_back(line.substr(p, q - p)); p = q + 1; }
        std::string replay = line.substr(p);
        long long cnt = atoll(f[1].c_str());
        JParser pk(f[2]); std::string key = pk.parse().s;
        JParser pw(f[3]); std::string what = pw.parse().s;
        auto it = by_key.find(key);
        if (it == by_key.end()) by_key[key] = {Violation{key, what, replay}, cnt};
        else it->second.second += cnt;
    }
};

// ---------------------------------------------------------------- forked parallel-for with crash containment
// fn(idx, out) is run for every idx in [0,n) in one of `workers` forked children (idx % workers == w);
// children append text lines to their own file. If a child dies, on_crash(idx, status) is called in the
// master for the case it was executing and the child is restarted after that case.
struct ParallelResult { std::vector<std::string> files; std::string dir; };

inline std::string make_tmpdir() {
    const char* base = getenv("VERIF_TMP");
    std::string b = base ? base : "/verif/build/tmp";
    mkdir("/verif/build", 0755);
    mkdir(b.c_str(), 0755);
    std::string t = b + "/mcXXXXXX";
    std::vector<char> buf(t.begin(), t.end()); buf.push_back(0);
    if (!mkdtemp(buf.data())) { perror("mkdtemp"); exit(2); }
    return buf.data();
}
inline void rm_rf(const std::string& d) { std::string c = "rm -rf '" + d + "'"; if (system(c.c_str())) {} }

inline int default_workers() {
    const char* e = getenv("VERIF_JOBS");
    if (e) return std::max(1, atoi(e));
    long n = sysconf(_SC_NPROCESSORS_ONLN);
    return n > 0 ? int(n) : 4;
}

inline void silence_stdio() {
    int fd = open("/dev/null", O_WRONLY);
    if (fd >= 0) { dup2(fd, 1); dup2(fd, 2); close(fd); }
}

// the case a worker is about to execute, readable by the master if the worker dies
static const size_t NOTE_SZ = 16384;
inline char*& note_buf() { static char* p = nullptr; return p; }
inline void note(const std::string& s) { char* p = note_buf(); if (!p) return; size_t n = std::min(s.size(), NOTE_SZ - 1); memcpy(p, s.data(), n); p[n] = 0; }

template <class Fn, class CrashFn>
void parallel_for(size_t n, int workers, const std::string& dir, const std::string& tag, Fn fn, CrashFn on_crash,
                  const std::function<void(const std::string& line)>& on_line) {
    if (workers < 1) workers = 1;
    if ((size_t)workers > n && n > 0) workers = int(n);
    if (n == 0) return;
    // shared progress slots: [w] = index being executed (+1), 0 = none
    size_t* slots = (size_t*)mmap(nullptr, sizeof(size_t) * workers, PROT_READ | PROT_WRITE, MAP_SHARED | MAP_ANONYMOUS, -1, 0);
    memset(slots, 0, sizeof(size_t) * workers);
    char* notes = (char*)mmap(nullptr, NOTE_SZ * workers, PROT_READ | PROT_WRITE, MAP_SHARED | MAP_ANONYMOUS, -1, 0);
    memset(notes, 0, NOTE_SZ * workers);
    std::vector<pid_t> pids(workers, -1);
    std::vector<std::string> files(workers);
    auto spawn = [&](int w, size_t start) {
        fflush(nullptr);
        pid_t p = fork();
        if (p < 0) { perror("fork"); exit(2); }
        if (p == 0) {
            FILE* out = fopen(files[w].c_str(), "a");
            silence_stdio();
            note_buf() = notes + NOTE_SZ * w;
            for (size_t i = start; i < n; i += workers) {
                slots[w] = i + 1;
                note("");
                // an item's output reaches the file only when the item has completed, so a crash never leaves a torn line
                char* mbuf = nullptr; size_t mlen = 0;
                FILE* mem = open_memstream(&mbuf, &mlen);
                fn(i, mem);
                fclose(mem);
                if (mlen) fwrite(mbuf, 1, mlen, out);
                fflush(out);
                free(mbuf);
            }
            slots[w] = 0;
            fclose(out);
#ifdef VERIF_COVERAGE
            __gcov_dump();
#endif
            _exit(0);
        }
        pids[w] = p;
    };
    for (int w = 0; w < workers; w++) {
        files[w] = dir + "/" + tag + "." + std::to_string(w) + ".out";
        unlink(files[w].c_str());
        spawn(w, w);
    }
    int live = workers;
    while (live > 0) {
        int st = 0;
        pid_t p = wait(&st);
        if (p < 0) break;
        int w = -1;
        for (int i = 0; i < workers; i++) if (pids[i] == p) w = i;
        if (w < 0) continue;
        if (WIFEXITED(st) && WEXITSTATUS(st) == 0) { live--; pids[w] = -1; continue; }
        size_t cur = slots[w];
        if (cur == 0) { live--; pids[w] = -1; continue; }
        on_crash(cur - 1, st, std::string(notes + NOTE_SZ * w));
        size_t next = cur - 1 + workers;
        if (next < n) spawn(w, next); else { live--; pids[w] = -1; }
    }
    munmap(slots, sizeof(size_t) * workers);
    munmap(notes, NOTE_SZ * workers);
    for (int w = 0; w < workers; w++) {
        FILE* f = fopen(files[w].c_str(), "r");
        if (!f) continue;
        std::string line; int c;
        while ((c = fgetc(f)) != EOF) { if (c == '\n') { on_line(line); line.clear(); } else line.push_back(char(c)); }
        fclose(f);
        unlink(files[w].c_str());
    }
}

inline std::string crash_desc(int st) {
    if (WIFSIGNALED(st)) return std::string("signal ") + std::to_string(WTERMSIG(st)) + " (" + strsignal(WTERMSIG(st)) + ")";
    if (WIFEXITED(st)) return "exit " + std::to_string(WEXITSTATUS(st));
    return "status " + std::to_string(st);
}

// ---------------------------------------------------------------- command line
struct Args {
    std::map<std::string, std::string> kv;
    Args(int argc, char** argv) {
        for (int i = 1; i < argc; i++) {
            std::string a = argv[i];
            if (a.rfind("--", 0) == 0) {
                size_t eq = a.find('=');
                if (eq != std::string::npos) kv[a.substr(2, eq - 2)] = a.substr(eq + 1);
                else if (i + 1 < argc && strncmp(argv[i + 1], "--", 2)) { kv[a.substr(2)] = argv[i + 1]; i++; }
                else kv[a.substr(2)] = "1";
            }
        }
    }
    std::string get(const std::string& k, const std::string& d = "") const { auto it = kv.find(k); return it == kv.end() ? d : it->second; }
    long long geti(const std::string& k, long long d) const { auto it = kv.find(k); return it == kv.end() ? d : atoll(it->second.c_str()); }
    bool has(const std::string& k) const { return kv.count(k) > 0; }
};

inline void write_result(const std::string& path, const JObj& o) {
    FILE* f = fopen(path.c_str(), "w");
    if (!f) { perror(path.c_str()); exit(2); }
    fputs(o.j().s.c_str(), f); fputc('\n', f);
    fclose(f);
}

// 128-bit state hash (two independent 64-bit mixes); exploration dedup only
struct H128 { uint64_t a, b; bool operator<(const H128& o) const { return a != o.a ? a < o.a : b < o.b; } bool operator==(const H128& o) const { return a == o.a && b == o.b; } };
struct H128Hash { size_t operator()(const H128& h) const { return size_t(h.a ^ (h.b * 0x9e3779b97f4a7c15ULL)); } };
inline H128 hash128(const std::string& s) {
    uint64_t a = 0xcbf29ce484222325ULL, b = 0x84222325cbf29ce4ULL;
    for (unsigned char c : s) { a ^= c; a *= 0x100000001b3ULL; b = (b ^ c) * 0xff51afd7ed558ccdULL; b ^= b >> 29; }
    a ^= a >> 32; a *= 0xd6e8feb86659fd93ULL; a ^= a >> 32;
    return H128{a, b};
}

}  // namespace mc
