// mc_spend — C03 (--tx/--txin session reproduces validation of that input) and C05 (stepwise taproot
// commitment equals the BIP341 rule). Shape I: deviation-bounded exhaustive enumeration of spends:
// every supported output type x input position x referenced output x selection x every single-item /
// single-field deviation of a valid satisfaction x flag modifications, each executed on the real
// Instance in lock-step with the reference session plan; verdict compared with verify_input().
#include <array>
#include "sessioncmp.hpp"
#include "ref/vectors.hpp"

using namespace mc;
using namespace ref;
using sc::Case;

static std::vector<std::pair<int, int>> shapes_for(const std::string& type, bool thorough) {
    std::vector<std::pair<int, int>> r;   // (position of the spending input among 3 inputs [1 for taproot], referenced output)
    if (gen::is_taproot_type(type)) { for (int v = 0; v < 3; v++) r.push_back({0, v}); return r; }
    if (thorough) { for (int p = 0; p < 3; p++) for (int v = 0; v < 3; v++) r.push_back({p, v}); }
    else r = {{0, 0}, {1, 2}, {2, 1}};
    return r;
}
static gen::Shape shape_of(const std::string& type, int pos, int vout) {
    gen::Shape sh; sh.nin = gen::is_taproot_type(type) ? 1 : 3; sh.pos = pos; sh.fund_vout = vout; sh.nout = 2; sh.amount = 100000000 + 1000 * vout;
    return sh;
}

// all single deviations of the satisfaction of `base` (scriptSig pushes / witness items), labelled
static void deviations(const gen::Spend& S, bool all_bits, std::vector<std::pair<std::string, Tx>>& out) {
    const TxIn& in = S.tx.vin[S.nin];
    auto emit = [&](const std::string& label, std::function<void(TxIn&)> f) { Tx t = S.tx; f(t.vin[S.nin]); out.push_back({label, t}); };
    // witness items
    for (size_t i = 0; i < in.witness.size(); i++) {
        const bytes& it = in.witness[i];
        std::vector<size_t> positions;
        if (all_bits) for (size_t b = 0; b < it.size() * 8; b++) positions.push_back(b);
        else if (!it.empty()) { for (size_t byte : {size_t(0), it.size() / 2, it.size() - 1}) { positions.push_back(byte * 8); positions.push_back(byte * 8 + 7); } if (it.size() > 41) { positions.push_back(5 * 8 + 2); positions.push_back(40 * 8 + 1); } }
        for (size_t b : positions) emit("witness[" + std::to_string(i) + "] bit " + std::to_string(b) + " flipped", [=](TxIn& x) { x.witness[i][b / 8] ^= uint8_t(1 << (b % 8)); });
        // length changes: one byte more / less, and - for items of a whole number of 32-byte words after a 33-byte head (control blocks) - 31 bytes more
        emit("witness[" + std::to_string(i) + "] one byte 00 appended", [=](TxIn& x) { x.witness[i].push_back(0x00); });
        if (!it.empty()) emit("witness[" + std::to_string(i) + "] last byte dropped", [=](TxIn& x) { x.witness[i].pop_back(); });
        if (it.size() >= 33 && (it.size() - 33) % 32 == 0) {
            emit("witness[" + std::to_string(i) + "] 31 bytes appended", [=](TxIn& x) { x.witness[i].insert(x.witness[i].end(), 31, 0x77); });
            emit("witness[" + std::to_string(i) + "] 16 bytes appended", [=](TxIn& x) { x.witness[i].insert(x.witness[i].end(), 16, 0x77); });
        }
        emit("witness[" + std::to_string(i) + "] removed", [=](TxIn& x) { x.witness.erase(x.witness.begin() + i); });
        emit("extra empty item before witness[" + std::to_string(i) + "]", [=](TxIn& x) { x.witness.insert(x.witness.begin() + i, bytes{}); });
        emit("witness[" + std::to_string(i) + "] duplicated", [=](TxIn& x) { x.witness.insert(x.witness.begin() + i, x.witness[i]); });
    }
    if (!in.witness.empty()) emit("extra item 01 on top of the witness", [=](TxIn& x) { x.witness.push_back(bytes{1}); });
    // scriptSig pushes
    std::vector<Op> ops; for (size_t pc = 0; pc < in.script_sig.size();) { Op o = decode_op(in.script_sig, pc); if (!o.ok) break; ops.push_back(o); pc = o.end; }
    auto rebuild = [](const std::vector<bytes>& parts) { bytes r; for (auto& p : parts) r.insert(r.end(), p.begin(), p.end()); return r; };
    std::vector<bytes> enc; for (auto& o : ops) enc.push_back(bytes(in.script_sig.begin() + o.start, in.script_sig.begin() + o.end));
    for (size_t i = 0; i < ops.size(); i++) {
        const bytes& d = ops[i].data;
        std::vector<size_t> positions;
        if (all_bits) for (size_t b = 0; b < d.size() * 8; b++) positions.push_back(b);
        else if (!d.empty()) for (size_t byte : {size_t(0), d.size() / 2, d.size() - 1}) { positions.push_back(byte * 8); positions.push_back(byte * 8 + 7); }
        for (size_t b : positions) { auto e2 = enc; bytes dd = d; dd[b / 8] ^= uint8_t(1 << (b % 8)); e2[i] = push_raw(dd); Tx t = S.tx; t.vin[S.nin].script_sig = rebuild(e2); out.push_back({"scriptSig push " + std::to_string(i) + " bit " + std::to_string(b) + " flipped", t}); }
        { auto e2 = enc; e2.erase(e2.begin() + i); Tx t = S.tx; t.vin[S.nin].script_sig = rebuild(e2); out.push_back({"scriptSig push " + std::to_string(i) + " removed", t}); }
        { auto e2 = enc; e2.insert(e2.begin() + i, bytes{0x00}); Tx t = S.tx; t.vin[S.nin].script_sig = rebuild(e2); out.push_back({"extra OP_0 before scriptSig push " + std::to_string(i), t}); }
    }
    if (!ops.empty() && in.witness.empty()) { auto e2 = enc; e2.push_back(bytes{0x51}); Tx t = S.tx; t.vin[S.nin].script_sig = rebuild(e2); out.push_back({"extra OP_1 at the end of scriptSig", t}); }
    // P2SH-wrapped witness programs: the scriptSig must be exactly the canonical push of the redeem script (BIP141)
    if (!ops.empty() && !in.witness.empty()) {
        { auto e2 = enc; e2.push_back(bytes{0x51}); Tx t = S.tx; t.vin[S.nin].script_sig = rebuild(e2); out.push_back({"wrapped: extra OP_1 after the redeem-script push", t}); }
        { auto e2 = enc; e2.push_back(bytes{0x61}); Tx t = S.tx; t.vin[S.nin].script_sig = rebuild(e2); out.push_back({"wrapped: OP_NOP after the redeem-script push", t}); }
        { auto e2 = enc; e2.insert(e2.begin(), bytes{0x51}); Tx t = S.tx; t.vin[S.nin].script_sig = rebuild(e2); out.push_back({"wrapped: extra OP_1 before the redeem-script push", t}); }
        if (ops.back().data.size() <= 75 && !ops.back().data.empty()) { auto e2 = enc; bytes nm{0x4c, uint8_t(ops.back().data.size())}; nm.insert(nm.end(), ops.back().data.begin(), ops.back().data.end()); e2.back() = nm; Tx t = S.tx; t.vin[S.nin].script_sig = rebuild(e2); out.push_back({"wrapped: redeem script pushed with OP_PUSHDATA1", t}); }
    }
    // the whole witness taken away (a native witness program must not be spent with an empty witness; a wrapped one becomes a plain P2SH spend of the program)
    if (!in.witness.empty()) { Tx t = S.tx; t.vin[S.nin].witness.clear(); out.push_back({"whole witness removed", t}); }
    // signed fields altered after signing
    { Tx t = S.tx; t.vout[0].value ^= 1; out.push_back({"output amount altered after signing", t}); }
    { Tx t = S.tx; t.vout.back().spk[3] ^= 1; out.push_back({"output script altered after signing", t}); }
    { Tx t = S.tx; t.vin[S.nin].sequence ^= 2; out.push_back({"sequence altered after signing", t}); }
    { Tx t = S.tx; t.locktime ^= 1; out.push_back({"lock time altered after signing", t}); }
    { Tx t = S.tx; t.version ^= 3; out.push_back({"version altered after signing", t}); }
    if (S.tx.vin.size() > 1) { Tx t = S.tx; size_t other = (S.nin + 1) % t.vin.size(); t.vin[other].prev_n ^= 1; out.push_back({"another input's outpoint altered after signing", t}); }
}
static std::string klass_of(const std::string& label) {
    // satisfaction class used in violation keys: strip indices
    std::string k;
    for (char c : label) if (!isdigit((unsigned char)c)) k += c == ' ' ? '-' : c;
    return k;
}

static void gen_c03(const std::string& tier, std::vector<Case>& cases) {
    bool th = tier != "quick";
    for (auto& type : gen::all_types()) {
        bool first_shape = true;
        for (auto pv : shapes_for(type, th)) {
            gen::Shape sh = shape_of(type, pv.first, pv.second);
            for (int pathlen : (type == "p2tr-script" ? std::vector<int>{0, 1, 2, 3} : std::vector<int>{1})) for (bool annex : (gen::is_taproot_type(type) ? std::vector<bool>{false, true} : std::vector<bool>{false})) {
                gen::Spend S = gen::make_spend(type, sh, 1, pathlen, annex);
                std::string base = type + " pos=" + std::to_string(sh.pos) + " vout=" + std::to_string(sh.fund_vout) + (type == "p2tr-script" ? " path=" + std::to_string(pathlen) : "") + (annex ? " annex" : "");
                // selection
                for (int sel : {-1, sh.pos, (sh.pos + 1) % sh.nin, sh.nin, sh.nin + 5}) {
                    if (sel == sh.pos && sel == (sh.pos + 1) % sh.nin) {}
                    Case c; c.fund = S.fund; c.tx = S.tx; c.select = sel; c.label = base + " select=" + std::to_string(sel) + " valid"; c.klass = "valid";
                    if (sh.nin == 1 && sel == (sh.pos + 1) % sh.nin && sel == sh.pos) { if (sel != -1) { /* same as sel=pos */ } }
                    cases.push_back(c);
                }
                // the other inputs of the transaction carry witnesses of their own (mixed legacy/segwit transaction): neither the
                // legacy nor the BIP143 digest commits to witnesses, so the spend stays valid and must be set up identically
                if (sh.nin > 1) {
                    Case c; c.fund = S.fund; c.tx = S.tx; c.select = -1; c.label = base + " other inputs carry witnesses"; c.klass = "valid-mixed-witness";
                    for (int i = 0; i < sh.nin; i++) if (i != sh.pos) c.tx.vin[i].witness = {bytes{0x30, 0x01}, bytes(33, 0x02)};
                    cases.push_back(c);
                    Case c2 = c; c2.select = sh.pos; c2.label += " select=" + std::to_string(sh.pos); cases.push_back(c2);
                    Case c3 = c; c3.tx.vout[0].value ^= 1; c3.label = base + " other inputs carry witnesses, output amount altered after signing"; c3.klass = "mixed-witness-output-altered"; cases.push_back(c3);
                }
                // deviations
                bool all_bits = th && first_shape && pathlen <= 1 && !annex;
                std::vector<std::pair<std::string, Tx>> devs; deviations(S, all_bits, devs);
                for (auto& d : devs) { Case c; c.fund = S.fund; c.tx = d.second; c.select = -1; c.label = base + " " + d.first; c.klass = klass_of(d.first); cases.push_back(c); }
                // flag modifications on the valid spend and on two invalid ones
                if (pathlen <= 1) for (int bit = 0; bit <= 20; bit++) {
                    // P2SH / WITNESS / TAPROOT are not removed: without its activation flag consensus executes nothing for the
                    // output type (and CLEANSTACK without P2SH+WITNESS is not a legal flag combination), so there is no session to compare
                    if (bit == 0 || bit == 11 || bit == 17) continue;
                    uint32_t f = F_STANDARD ^ (1u << bit);
                    Case c; c.fund = S.fund; c.tx = S.tx; c.flags = f; c.label = base + " valid flags=STANDARD^" + alpha::flag_name(bit); c.klass = std::string("valid-flags^") + alpha::flag_name(bit); cases.push_back(c);
                    // ... and on the spend whose whole witness is taken away: without CLEANSTACK the program left on the stack by the
                    // legacy evaluation of a witness-program output must not pass for a valid final stack
                    size_t wr = devs.size(); for (size_t k = 0; k < devs.size(); k++) if (devs[k].first == "whole witness removed") wr = k;
                    if (wr < devs.size() && !annex) { Case c2; c2.fund = S.fund; c2.tx = devs[wr].second; c2.flags = f; c2.label = base + " " + devs[wr].first + " flags=STANDARD^" + alpha::flag_name(bit); c2.klass = klass_of(devs[wr].first) + "-flags^" + alpha::flag_name(bit); cases.push_back(c2); }
                    if (first_shape) for (size_t di : {size_t(0), devs.size() - 5}) { Case c2; c2.fund = S.fund; c2.tx = devs[di].second; c2.flags = f; c2.label = base + " " + devs[di].first + " flags=STANDARD^" + alpha::flag_name(bit); c2.klass = klass_of(devs[di].first) + "-flags^" + alpha::flag_name(bit); cases.push_back(c2); }
                }
                // thorough: every pair of non-activation flag toggles on the valid spend of the first shape
                if (th && first_shape && pathlen <= 1 && !annex) for (int b1 = 1; b1 <= 20; b1++) for (int b2 = b1 + 1; b2 <= 20; b2++) {
                    if (b1 == 11 || b1 == 17 || b2 == 11 || b2 == 17) continue;
                    uint32_t f = F_STANDARD ^ (1u << b1) ^ (1u << b2);
                    Case c; c.fund = S.fund; c.tx = S.tx; c.flags = f; c.label = base + " valid flags=STANDARD^" + alpha::flag_name(b1) + "^" + alpha::flag_name(b2); c.klass = std::string("valid-flags^") + alpha::flag_name(b1) + "^" + alpha::flag_name(b2); cases.push_back(c);
                }
                if (first_shape && pathlen <= 1 && !annex) { Case c; c.fund = S.fund; c.tx = S.tx; c.flags = F_P2SH | F_WITNESS | F_TAPROOT; c.label = base + " valid flags=P2SH,WITNESS,TAPROOT only"; c.klass = "valid-flags-activation-only"; cases.push_back(c); }
                first_shape = false;
            }
        }
        // other hash types on the base shape
        for (uint8_t ht : {uint8_t(2), uint8_t(3), uint8_t(0x81), uint8_t(0x82), uint8_t(0x83), uint8_t(0)}) {
            if (ht == 0 && !gen::is_taproot_type(type)) continue;
            auto pv = shapes_for(type, false)[1 % shapes_for(type, false).size()];
            gen::Spend S = gen::make_spend(type, shape_of(type, pv.first, pv.second), ht, 1, false);
            Case c; c.fund = S.fund; c.tx = S.tx; c.label = type + " hashtype=" + std::to_string(ht) + " valid"; c.klass = "valid-hashtype"; c.flags = F_STANDARD; cases.push_back(c);
        }
    }
    // an amount prefix in front of the --tx hex together with --txin: the referenced output decides the amount (and with it the BIP143 / BIP341
    // digest), whatever the prefix says - wrong amounts in every slot, in the spending input's slot only, the right amount, a short list
    for (std::string type : {"p2pkh", "p2wpkh", "p2sh-p2wpkh", "p2wsh", "p2tr-key", "p2tr-script"}) {
        auto pv = shapes_for(type, false)[1 % shapes_for(type, false).size()];
        gen::Shape sh = shape_of(type, pv.first, pv.second);
        gen::Spend S = gen::make_spend(type, sh, 1, 1, false);
        auto btc = [](int64_t v) { char b[64]; snprintf(b, 64, "%lld.%08lld", (long long)(v / 100000000), (long long)(v % 100000000)); return std::string(b); };
        auto join = [&](const std::vector<int64_t>& v) { std::string r; for (size_t i = 0; i < v.size(); i++) { if (i) r += ","; r += btc(v[i]); } return r; };
        std::vector<std::pair<std::string, std::string>> prefixes;
        { std::vector<int64_t> v(sh.nin, 12345678); prefixes.push_back({"a wrong amount in every slot", join(v)}); }
        { std::vector<int64_t> v(sh.nin, 0); v[sh.pos] = 150000000; prefixes.push_back({"a wrong amount in the spending input's slot only", join(v)}); }
        { std::vector<int64_t> v(sh.nin, 0); v[sh.pos] = sh.amount; prefixes.push_back({"the right amount", join(v)}); }
        { std::vector<int64_t> v(sh.nin, 0); prefixes.push_back({"zero in every slot", join(v)}); }
        { std::vector<int64_t> v(1, 99999999); prefixes.push_back({"a one-entry list", join(v)}); }
        for (auto& pf : prefixes) for (int sel : {-1, sh.pos}) {
            Case c; c.fund = S.fund; c.tx = S.tx; c.select = sel; c.amount_prefix = pf.second; c.label = type + " amount prefix with " + pf.first + " (" + pf.second + ") select=" + std::to_string(sel); c.klass = "valid-amount-prefix"; cases.push_back(c);
        }
    }
    // wide transactions: the spending input at positions around 127/128, 255/256 and at the end of a 300-input transaction, the spent
    // output at positions around 255/256 and at the end of a 300-output funding transaction (an index kept in a narrow type selects
    // another input's signature data, sequence or amount); legacy, P2SH, BIP143 and wrapped forms, hash types ALL and SINGLE|ANYONECANPAY
    for (std::string type : {"p2pkh", "p2sh-multisig", "p2wpkh", "p2wsh-checksig", "p2sh-p2wpkh"}) {
        std::vector<std::array<int, 4>> wide = {{300, 127, 3, 1}, {300, 128, 3, 2}, {300, 255, 3, 0}, {300, 256, 3, 1}, {300, 260, 3, 1}, {300, 299, 3, 2}, {3, 1, 300, 255}, {3, 1, 300, 256}, {3, 2, 300, 299}, {300, 257, 300, 258}};
        if (th) for (int p : {129, 254, 258, 280}) wide.push_back({300, p, 3, 1});
        for (auto& w : wide) for (uint8_t ht : {uint8_t(1), uint8_t(0x83)}) {
            if (ht != 1 && !(type == "p2pkh" || type == "p2wpkh")) continue;
            gen::Shape sh; sh.nin = w[0]; sh.pos = w[1]; sh.fund_nout = w[2]; sh.fund_vout = w[3]; sh.nout = (ht == 0x83 ? w[0] : 2); sh.amount = 100000000 + 1000 * w[3];
            gen::Spend S = gen::make_spend(type, sh, ht, 1, false);
            std::string base = type + " wide: " + std::to_string(w[0]) + " inputs, pos=" + std::to_string(w[1]) + ", " + std::to_string(w[2]) + " funding outputs, vout=" + std::to_string(w[3]) + " hashtype=" + std::to_string(ht);
            for (int sel : {-1, w[1]}) { Case c; c.fund = S.fund; c.tx = S.tx; c.select = sel; c.label = base + " select=" + std::to_string(sel) + " valid"; c.klass = "valid-wide"; cases.push_back(c); }
            if (w[0] > 256) { Case c; c.fund = S.fund; c.tx = S.tx; c.select = w[1] - 256; c.label = base + " select=" + std::to_string(w[1] - 256) + " (pos - 256: does not reference the funding transaction)"; c.klass = "wide-wrong-selection"; cases.push_back(c); }
            // the sequence of the input 256 places before differs: a legacy / BIP143 SIGHASH_ALL signature commits to it, so altering it after signing invalidates the spend
            if (ht == 1 && w[1] >= 256) { Case c; c.fund = S.fund; c.tx = S.tx; c.tx.vin[w[1] - 256].sequence ^= 1; c.label = base + " sequence of input pos-256 altered after signing"; c.klass = "wide-other-sequence-altered"; cases.push_back(c); }
        }
    }
    // witness scripts, tapscript leaves and control blocks larger than one stack element (520 bytes): the element size limit
    // applies to the initial stack only (BIP141 / BIP342), never to the script or the control block
    for (std::string type : {"p2wsh-checksig", "p2tr-script"}) {
        std::vector<std::array<int, 3>> v;   // pad, pad2, pathlen
        for (int t : {177, 178, 179, 180, 181}) v.push_back({300, t, 1});
        v.push_back({520, 520, 1}); v.push_back({300, 0, 1});
        if (type == "p2tr-script") for (int pl : (th ? std::vector<int>{14, 15, 16, 17, 64, 127, 128} : std::vector<int>{15, 16, 128})) v.push_back({0, 0, pl});
        for (auto& x : v) {
            gen::Shape sh = shape_of(type, gen::is_taproot_type(type) ? 0 : 1, 1); sh.pad = x[0]; sh.pad2 = x[1];
            gen::Spend S = gen::make_spend(type, sh, 1, x[2], false);
            size_t script_size = type == "p2tr-script" ? S.leaf_script.size() : S.tx.vin[sh.pos].witness.back().size();
            std::string base = type + " script=" + std::to_string(script_size) + "B" + (type == "p2tr-script" ? " control=" + std::to_string(S.control.size()) + "B" : "");
            { Case c; c.fund = S.fund; c.tx = S.tx; c.label = base + " valid"; c.klass = "valid-large-script-or-control"; cases.push_back(c); }
            std::vector<std::pair<std::string, Tx>> devs; deviations(S, false, devs);
            for (auto& d : devs) { Case c; c.fund = S.fund; c.tx = d.second; c.select = -1; c.label = base + " " + d.first; c.klass = "large:" + klass_of(d.first); cases.push_back(c); }
        }
    }
    // extreme amounts of the spent output: 0, 1 and 21e14 satoshi (BIP143 / BIP341 digests commit to the amount; zero is a legal amount, not
    // a missing one), every output type
    for (auto& type : gen::all_types()) for (int64_t amt : {int64_t(0), int64_t(1), int64_t(2100000000000000LL)}) {
        gen::Shape sh = shape_of(type, gen::is_taproot_type(type) ? 0 : 1, 1); sh.amount = amt;
        gen::Spend S = gen::make_spend(type, sh, 1, 1, false);
        Case c; c.fund = S.fund; c.tx = S.tx; c.label = type + " spending an output of " + std::to_string(amt) + " satoshi"; c.klass = "valid-extreme-amount"; cases.push_back(c);
    }
    // the EMPTY script as witness script / tapscript leaf (witness <01> <> [control]): a legal script that leaves the item below it as the result
    for (std::string type : {"p2wsh-checksig", "p2tr-script"}) for (int items = 0; items < 3; items++) {
        gen::Shape sh = shape_of(type, gen::is_taproot_type(type) ? 0 : 1, 1); sh.leaf_kind = "raw"; sh.raw_script = bytes{};
        if (items >= 1) sh.raw_items.push_back(bytes{1}); if (items == 2) sh.raw_items.insert(sh.raw_items.begin(), bytes{});
        gen::Spend S = gen::make_spend(type, sh, 1, type == "p2tr-script" ? items % 2 : 1, false);
        Case c; c.fund = S.fund; c.tx = S.tx; c.label = type + " empty script over " + std::to_string(items) + " witness item(s)"; c.klass = "empty-witness-script"; cases.push_back(c);
    }
    // multi-signature spends whose signatures use different hash types (every ordered pair), one-input and three-input transactions: each
    // check derives its own digest; the spend is valid
    for (std::string type : {"p2wsh", "p2sh-multisig", "p2sh-p2wsh"}) for (int h1 : {1, 2, 3, 0x81, 0x82, 0x83}) for (int h2 : {1, 2, 3, 0x81, 0x82, 0x83}) for (int nin : {1, 3}) {
        if (!th && nin == 1 && !(h1 == 1 || h2 == 1)) continue;
        gen::Shape sh = shape_of(type, nin == 1 ? 0 : 1, 1); sh.nin = nin; sh.pos = nin == 1 ? 0 : 1; sh.ht2 = h2;
        gen::Spend S = gen::make_spend(type, sh, uint8_t(h1), 1, false);
        char nm[96]; snprintf(nm, 96, "%s %d inputs, signatures with hash types %02x,%02x", type.c_str(), nin, h1, h2);
        Case c; c.fund = S.fund; c.tx = S.tx; c.label = nm; c.klass = "valid-mixed-hashtypes"; cases.push_back(c);
    }
    // signature-free witness scripts / leaves: small witness items whose hex spelling is all digits, and a script of the P2SH shape
    // (P2SH evaluation applies to a scriptPubKey only, never to a witness script or a tapscript leaf)
    for (std::string type : {"p2wsh-checksig", "p2tr-script"}) for (std::string kind : {"data", "p2sh-shaped"}) for (bool annex : {false, true}) {
        if (annex && type != "p2tr-script") continue;
        gen::Shape sh = shape_of(type, gen::is_taproot_type(type) ? 0 : 1, 1); sh.leaf_kind = kind;
        gen::Spend S = gen::make_spend(type, sh, 1, 1, annex);
        std::string base = type + " " + kind + " script" + (annex ? " annex" : "");
        { Case c; c.fund = S.fund; c.tx = S.tx; c.label = base + " valid"; c.klass = "valid-signature-free-" + kind; cases.push_back(c); }
        std::vector<std::pair<std::string, Tx>> devs; deviations(S, false, devs);
        for (auto& d : devs) { Case c; c.fund = S.fund; c.tx = d.second; c.select = -1; c.label = base + " " + d.first; c.klass = "signature-free-" + kind + ":" + klass_of(d.first); cases.push_back(c); }
    }
    // every opcode byte, in a branch that is not executed and in one that is, as witness script, tapscript leaf and P2SH redeem script:
    // validation fails on an unknown opcode only when it executes (disabled opcodes and OP_VERIF/OP_VERNOTIF fail wherever they stand, and
    // in a tapscript 0x50, 0x62, 0x7e.. and 0xbb..0xfe are OP_SUCCESSx); the session must not refuse what validation accepts
    for (int opb = 0x4f; opb <= 0xff; opb++) for (int executed = 0; executed < 2; executed++) {
        if (!th && !(opb == 0x50 || opb == 0x62 || opb == 0x65 || opb == 0x7e || opb == 0x89 || opb == 0xb0 || opb >= 0xb9 || opb == 0x61) ) continue;
        if (!th && opb > 0xbc && opb < 0xfd && opb != 0xd0) continue;
        if (opb == 0x63 || opb == 0x64 || opb == 0x67 || opb == 0x68) continue;   // the conditionals themselves would change the frame
        bytes body{uint8_t(executed ? 0x51 : 0x00), 0x63, uint8_t(opb), 0x68, 0x51};
        char ob[8]; snprintf(ob, 8, "0x%02x", opb);
        for (std::string type : {"p2wsh-checksig", "p2tr-script"}) {
            gen::Shape sh = shape_of(type, gen::is_taproot_type(type) ? 0 : 1, 1); sh.leaf_kind = "raw"; sh.raw_script = body;
            gen::Spend S = gen::make_spend(type, sh, 1, 1, false);
            Case c; c.fund = S.fund; c.tx = S.tx; c.label = type + " script with opcode byte " + ob + (executed ? " in an executed branch" : " in a branch that is not executed"); c.klass = std::string("opcode-byte-") + (executed ? "executed" : "unexecuted"); cases.push_back(c);
        }
        { gen::Spend S = gen::make_spend("p2pk", shape_of("p2pk", 1, 1));
          Case c; c.fund = S.fund; c.tx = S.tx; bytes h = hash160(body); bytes spk{0xa9, 0x14}; spk.insert(spk.end(), h.begin(), h.end()); spk.push_back(0x87);
          c.fund.vout[1].spk = spk; c.tx.vin[1].prev_hash = txid(c.fund); c.tx.vin[1].script_sig = push_raw(body);
          c.label = std::string("p2sh redeem script with opcode byte ") + ob + (executed ? " in an executed branch" : " in a branch that is not executed"); c.klass = std::string("opcode-byte-") + (executed ? "executed" : "unexecuted"); cases.push_back(c); }
    }
    // tapscript leaves that check their signature several times: the BIP342 budget is 50 + the size of the WHOLE witness (script and
    // control block included), so the same leaf is valid or invalid depending on the path length and the annex
    for (int checks : {2, 3, 4, 5, 6}) for (int pl : {0, 1, 2, 5}) for (bool annex : {false, true}) {
        if (!th && (pl == 5 || (annex && checks > 4))) continue;
        gen::Shape sh = shape_of("p2tr-script", 0, 1); sh.tap_checks = checks;
        gen::Spend S = gen::make_spend("p2tr-script", sh, 1, pl, annex);
        Case c; c.fund = S.fund; c.tx = S.tx; c.label = "p2tr-script " + std::to_string(checks) + " checks of one signature path=" + std::to_string(pl) + (annex ? " annex" : ""); c.klass = "tapscript-repeated-checks"; cases.push_back(c);
    }
    // ... the annex counts towards the budget: annex lengths around the point where it decides (4 checks need 200; the witness without annex gives 191 at path length 0)
    for (int checks : {3, 4, 5, 6}) for (int pl : {0, 1}) for (int al : {1, 2, 7, 8, 9, 30, 57, 58, 120, 250}) {
        if (!th && (checks == 3 || (pl == 1 && al > 30))) continue;
        gen::Shape sh = shape_of("p2tr-script", 0, 1); sh.tap_checks = checks; sh.annex_len = al;
        gen::Spend S = gen::make_spend("p2tr-script", sh, 1, pl, true);
        Case c; c.fund = S.fund; c.tx = S.tx; c.label = "p2tr-script " + std::to_string(checks) + " checks of one signature path=" + std::to_string(pl) + " annex of " + std::to_string(al) + " bytes"; c.klass = "tapscript-repeated-checks-annex-size"; cases.push_back(c);
    }
    // the six real-chain pairs
    for (auto& v : CHAIN_VECTORS) { Case c; parse_tx(unhex(v.txin), c.fund); parse_tx(unhex(v.tx), c.tx); c.label = std::string("chain:") + v.name; c.klass = "chain"; cases.push_back(c); }
    // funding tx not referenced at all
    { gen::Spend A = gen::make_spend("p2pkh", shape_of("p2pkh", 1, 1)); gen::Shape s2 = shape_of("p2pkh", 1, 1); s2.amount += 7; gen::Spend B = gen::make_spend("p2pkh", s2);
      Case c; c.fund = B.fund; c.tx = A.tx; c.label = "unrelated funding transaction"; c.klass = "unrelated"; cases.push_back(c); c.select = 1; c.label += " select=1"; cases.push_back(c); }
}

// extended invalid satisfactions (consensus rejects for reasons a naive session cannot show); reported under their own keys
static void gen_c03_extended(std::vector<Case>& cases) {
    auto mk = [&](const std::string& label, const gen::Spend& S, std::function<void(Tx&, Tx&)> f) { Case c; c.fund = S.fund; c.tx = S.tx; f(c.fund, c.tx); c.label = "extended: " + label; c.klass = "extended:" + klass_of(label); cases.push_back(c); };
    gen::Shape sh = shape_of("p2pkh", 1, 1);
    // non-push-only scriptSig with a P2SH output
    { gen::Spend S = gen::make_spend("p2sh-multisig", sh); mk("non-push-only scriptSig with P2SH", S, [&](Tx&, Tx& t) { bytes& ss = t.vin[1].script_sig; ss.insert(ss.begin(), 0x61); }); }
    // non-empty scriptSig with a native witness program
    { gen::Spend S = gen::make_spend("p2wpkh", sh); mk("non-empty scriptSig with native witness program", S, [&](Tx&, Tx& t) { t.vin[1].script_sig = unhex("00"); }); }
    // witness attached to a legacy output
    { gen::Spend S = gen::make_spend("p2pkh", sh); mk("witness on a non-witness output", S, [&](Tx&, Tx& t) { t.vin[1].witness = {bytes{1}}; }); }
    // conditional opened in scriptSig and closed in scriptPubKey; altstack carried across scripts
    { gen::Spend S = gen::make_spend("p2pk", sh);
      mk("conditional spanning scriptSig and scriptPubKey", S, [&](Tx& f, Tx& t) { f.vout[1].spk = unhex("6851"); t.vin[1].prev_hash = txid(f); t.vin[1].script_sig = unhex("5163"); });
      mk("altstack carried from scriptSig to scriptPubKey", S, [&](Tx& f, Tx& t) { f.vout[1].spk = unhex("6c"); t.vin[1].prev_hash = txid(f); t.vin[1].script_sig = unhex("516b"); }); }
    // P2SH-shaped funding output whose hash push is 19 / 21 bytes, spent as if it were a wrapped witness program
    for (int hl : {19, 21}) { gen::Spend S = gen::make_spend("p2sh-p2wpkh", sh);
      mk("P2SH-shaped output with a " + std::to_string(hl) + "-byte hash under a wrapped witness program", S, [&](Tx& f, Tx& t) { bytes spk{0xa9, uint8_t(hl)}; spk.insert(spk.end(), size_t(hl), 0x33); spk.push_back(0x87); f.vout[1].spk = spk; t.vin[1].prev_hash = txid(f); }); }
    // witness programs of other versions and lengths under the witnesses of the four native witness spend shapes: nothing to compare for the
    // unsupported combinations (out of scope), but set-up must refuse them or cope - it must not abort
    for (std::string type : {"p2wpkh", "p2wsh", "p2tr-key", "p2tr-script"}) {
        gen::Shape s2 = shape_of(type, gen::is_taproot_type(type) ? 0 : 1, 1);
        gen::Spend S = gen::make_spend(type, s2);
        for (int ver : {0, 1, 2, 16}) for (int plen : {2, 20, 31, 32, 33, 40}) {
            mk("witness program v" + std::to_string(ver) + " of " + std::to_string(plen) + " bytes under a " + type + " witness", S, [&](Tx& f, Tx& t) {
                bytes spk{uint8_t(ver == 0 ? 0x00 : 0x50 + ver), uint8_t(plen)}; bytes old = f.vout[1].spk; for (int i = 0; i < plen; i++) spk.push_back(old.size() > size_t(2 + i) ? old[2 + i] : uint8_t(0x42));
                f.vout[1].spk = spk; t.vin[s2.pos].prev_hash = txid(f); });
        }
    }
    // witness programs of every version and length spent WITHOUT a witness, native (scriptSig empty or not) and P2SH-wrapped (scriptSig the
    // canonical push of the program, or that push with one more push in front): validation applies the witness rules to the empty witness -
    // known programs fail, unknown ones are anyone-can-spend unless discouraged - and waives the clean-stack rule where they pass
    { gen::Spend S = gen::make_spend("p2pk", sh);
      for (int ver : {0, 1, 2, 16}) for (int plen : {2, 20, 31, 32, 33, 40}) for (int form = 0; form < 4; form++)
        for (uint32_t fl : {F_STANDARD, F_STANDARD ^ F_CLEANSTACK, F_STANDARD ^ F_DISCOURAGE_UPGRADABLE_WITNESS_PROGRAM, F_STANDARD ^ F_CLEANSTACK ^ F_DISCOURAGE_UPGRADABLE_WITNESS_PROGRAM}) {
          bytes prog{uint8_t(ver == 0 ? 0x00 : 0x50 + ver), uint8_t(plen)}; for (int i = 0; i < plen; i++) prog.push_back(uint8_t(0x42 + i));
          static const char* forms[] = {"native, empty scriptSig", "native, scriptSig OP_1", "wrapped, canonical push", "wrapped, OP_1 before the push"};
          mk("witness program v" + std::to_string(ver) + " of " + std::to_string(plen) + " bytes spent without witness (" + forms[form] + ") under " + alpha::flags_str(fl & (F_CLEANSTACK | F_DISCOURAGE_UPGRADABLE_WITNESS_PROGRAM)), S, [&](Tx& f, Tx& t) {
              bytes ss;
              if (form < 2) { f.vout[1].spk = prog; if (form == 1) ss = unhex("51"); }
              else { bytes h = hash160(prog); bytes spk{0xa9, 0x14}; spk.insert(spk.end(), h.begin(), h.end()); spk.push_back(0x87); f.vout[1].spk = spk; if (form == 3) ss = unhex("51"); bytes p = push_raw(prog); ss.insert(ss.end(), p.begin(), p.end()); }
              t.vin[1].prev_hash = txid(f); t.vin[1].script_sig = ss; });
          cases.back().flags = fl; cases.back().klass = std::string("extended:program-without-witness:") + forms[form];
      } }
    // two inputs of the spending transaction spend DIFFERENT outputs of the same funding transaction: --select=k (and the automatic choice of
    // the first spender) must take the locking script and amount of the output that very input references
    { gen::Spend S = gen::make_spend("p2pk", sh);
      for (int sel : {-1, 1, 2}) for (int swap = 0; swap < 2; swap++) {
          mk(std::string("two spenders of different outputs, ") + (swap ? "outputs swapped, " : "") + "select=" + std::to_string(sel), S, [&](Tx& f, Tx& t) {
              f.vout[1].spk = unhex(swap ? "5387" : "5287"); f.vout[2].spk = unhex(swap ? "5287" : "5387");
              t.vin[1].prev_hash = txid(f); t.vin[1].prev_n = 1; t.vin[1].script_sig = unhex(swap ? "53" : "52");
              t.vin[2].prev_hash = txid(f); t.vin[2].prev_n = 2; t.vin[2].script_sig = unhex(swap ? "52" : "53"); });
          cases.back().select = sel;
          // ... and the input that reveals the OTHER output's satisfaction is invalid
          mk(std::string("two spenders of different outputs, satisfactions exchanged, ") + (swap ? "outputs swapped, " : "") + "select=" + std::to_string(sel), S, [&](Tx& f, Tx& t) {
              f.vout[1].spk = unhex(swap ? "5387" : "5287"); f.vout[2].spk = unhex(swap ? "5287" : "5387");
              t.vin[1].prev_hash = txid(f); t.vin[1].prev_n = 1; t.vin[1].script_sig = unhex(swap ? "52" : "53");
              t.vin[2].prev_hash = txid(f); t.vin[2].prev_n = 2; t.vin[2].script_sig = unhex(swap ? "53" : "52"); });
          cases.back().select = sel;
      } }
    // a funding script that only BEGINS like P2SH (OP_HASH160 <20> OP_EQUAL followed by more, or EQUALVERIFY instead of EQUAL) is not P2SH:
    // a wrapped witness spend of it is not a witness spend at all
    for (std::string type : {"p2sh-p2wpkh", "p2sh-p2wsh"}) { gen::Spend S = gen::make_spend(type, sh);
      mk(type + " spend of OP_HASH160 <h> OP_EQUAL OP_NOP (24 bytes, not the P2SH template)", S, [&](Tx& f, Tx& t) { f.vout[1].spk.push_back(0x61); t.vin[1].prev_hash = txid(f); });
      mk(type + " spend of OP_HASH160 <h> OP_EQUALVERIFY OP_1 (not the P2SH template)", S, [&](Tx& f, Tx& t) { f.vout[1].spk.back() = 0x88; f.vout[1].spk.push_back(0x51); t.vin[1].prev_hash = txid(f); });
      mk(type + " spend of OP_NOP OP_HASH160 <h> OP_EQUAL (not the P2SH template)", S, [&](Tx& f, Tx& t) { f.vout[1].spk.insert(f.vout[1].spk.begin(), 0x61); t.vin[1].prev_hash = txid(f); }); }
    // a version-1 program wrapped in P2SH is not a taproot output (BIP341): the taproot rules must not be applied to it
    for (std::string type : {"p2tr-key", "p2tr-script"}) { gen::Shape s1 = shape_of(type, 0, 1); gen::Spend S = gen::make_spend(type, s1);
      mk("P2SH-wrapped version-1 program under a " + type + " witness", S, [&](Tx& f, Tx& t) { bytes prog = f.vout[1].spk; bytes h = hash160(prog); bytes spk{0xa9, 0x14}; spk.insert(spk.end(), h.begin(), h.end()); spk.push_back(0x87);
          f.vout[1].spk = spk; t.vin[0].prev_hash = txid(f); t.vin[0].script_sig = push_raw(prog); }); }
    // SIGPUSHONLY (not a standard flag): a scriptSig that is not push-only fails the spend whatever the output type
    { gen::Spend S = gen::make_spend("p2pk", sh);
      for (uint32_t fl : {F_STANDARD | F_SIGPUSHONLY, F_SIGPUSHONLY | F_P2SH, F_STANDARD}) {
          // an output whose scriptPubKey is EMPTY (anyone can spend with a true item): the script of the session is a scriptSig all the same
          for (const char* ss : {"51", "5161", "517675", "00", ""}) {
              mk(std::string("empty scriptPubKey spent with scriptSig ") + (ss[0] ? ss : "(empty)") + " under " + alpha::flags_str(fl & (F_SIGPUSHONLY | F_CLEANSTACK)), S, [&](Tx& f, Tx& t) { f.vout[1].spk = bytes{}; t.vin[1].prev_hash = txid(f); t.vin[1].script_sig = unhex(ss); });
              cases.back().flags = fl;
          }
          mk("bare output OP_1 spent with scriptSig OP_NOP under " + alpha::flags_str(fl & (F_SIGPUSHONLY | F_CLEANSTACK)), S, [&](Tx& f, Tx& t) { f.vout[1].spk = unhex("51"); t.vin[1].prev_hash = txid(f); t.vin[1].script_sig = unhex("61"); });
          cases.back().flags = fl;
          mk("bare output OP_1 spent with scriptSig OP_1 OP_DROP under " + alpha::flags_str(fl & (F_SIGPUSHONLY | F_CLEANSTACK)), S, [&](Tx& f, Tx& t) { f.vout[1].spk = unhex("51"); t.vin[1].prev_hash = txid(f); t.vin[1].script_sig = unhex("5175"); });
          cases.back().flags = fl;
      } }
    // 521-byte witness item for a P2WSH script that drops it
    { gen::Spend S = gen::make_spend("p2wsh-checksig", sh);
      mk("521-byte witness stack item", S, [&](Tx& f, Tx& t) { bytes ws = unhex("7551"); f.vout[1].spk = gen::p2wsh_spk(ws); t.vin[1].prev_hash = txid(f); t.vin[1].witness = {bytes(521, 7), ws}; }); }
}

// =========================================================================================== C05
struct TapCase { bytes control, script, program; std::string label, klass; };
static void gen_c05(const std::string& tier, std::vector<TapCase>& out) {
    bool th = tier != "quick";
    std::vector<int> ms; if (th) for (int m = 0; m <= 128; m++) ms.push_back(m); else for (int m = 0; m <= 128; m++) ms.push_back(m);   // every path length in both tiers; the corruption families of the lengths outside {0..3, 64, 127, 128} are thorough-only
    gen::Key ik = gen::make_key(1);
    std::vector<bytes> scripts = {bytes{}, bytes{0x51}, bytes(252, 0x61), bytes(253, 0x61), bytes(254, 0x61), bytes(255, 0x61), bytes(256, 0x61), bytes(65535, 0x61), bytes(65536, 0x61), bytes(65537, 0x61), bytes(100000, 0x61)};
    auto small_m = [](int m) { return m <= 3 || m == 64 || m == 127 || m == 128; };
    for (int m : ms) for (size_t si = 0; si < scripts.size(); si++) {
        if (si >= 2 && m > 3 && !(th && si < 4)) continue;
        for (int lv : {0xc0, 0xc2, 0x00, 0xfe, 0x50}) {
            if (lv != 0xc0 && (m > 2 || si > 1)) continue;
            const bytes& script = scripts[si];
            bytes k = tapleaf_hash(uint8_t(lv), script);
            std::vector<bytes> path;
            for (int i = 0; i < m; i++) {
                bytes node;
                int mode = i % 3;   // below / above / equal to the running hash
                if (mode == 0) { node = k; node[0] = 0x00; if (node >= k) node = bytes(32, 0); }
                else if (mode == 1) { node = k; node[0] = 0xff; if (node <= k) node = bytes(32, 0xff); }
                else node = k;
                path.push_back(node); k = tapbranch_hash(k, node);
            }
            bytes q; int par; if (!taproot_output_key(ik.xonly, k, q, par)) continue;
            bytes control{uint8_t(lv | par)}; control.insert(control.end(), ik.xonly.begin(), ik.xonly.end()); for (auto& n : path) control.insert(control.end(), n.begin(), n.end());
            std::string base = "m=" + std::to_string(m) + " script#" + std::to_string(si) + " leaf=" + std::to_string(lv);
            out.push_back({control, script, q, base + " valid", "valid"});
            // single-field corruptions
            { bytes c = control; c[0] ^= 1; out.push_back({c, script, q, base + " parity flipped", "parity"}); }
            if (!th && !small_m(m)) { if (m >= 1) { bytes c = control; c[33 + 32 * (m / 2) + 7] ^= 1; out.push_back({c, script, q, base + " node " + std::to_string(m / 2), "node"}); } continue; }
            if (m <= 3 || th) {
                for (int bit = 1; bit < 8; bit++) { bytes c = control; c[0] ^= uint8_t(1 << bit); out.push_back({c, script, q, base + " control byte bit " + std::to_string(bit), "leaf-version"}); }
                for (size_t by = 1; by < 33; by += (th ? 1 : 8)) { bytes c = control; c[by] ^= 0x10; out.push_back({c, script, q, base + " internal key byte " + std::to_string(by), "internal-key"}); }
                for (int i = 0; i < m; i += (th ? 1 : std::max(1, m / 4))) { bytes c = control; c[33 + 32 * i + 7] ^= 1; out.push_back({c, script, q, base + " node " + std::to_string(i), "node"}); }
                if (!script.empty()) { bytes s2 = script; s2[0] ^= 1; out.push_back({control, s2, q, base + " script", "script"}); } else out.push_back({control, bytes{0x00}, q, base + " script", "script"});
                for (size_t by = 0; by < 32; by += (th ? 1 : 8)) { bytes p = q; p[by] ^= 0x04; out.push_back({control, script, p, base + " program byte " + std::to_string(by), "program"}); }
                if (m >= 1) { bytes c(control.begin(), control.end() - 32); out.push_back({c, script, q, base + " last node dropped", "path-short"}); bytes c2 = control; c2.insert(c2.end(), 32, 0x33); if (m < 128) out.push_back({c2, script, q, base + " extra node", "path-long"}); }
                if (m >= 2) { bytes c = control; for (int b = 0; b < 32; b++) std::swap(c[33 + b], c[65 + b]); out.push_back({c, script, q, base + " first two nodes swapped", "node-order"}); }
            }
        }
    }
    // nodes that differ from the running hash in ONE byte, by +1 or -1, at every byte position: the ordering of the pair is decided by exactly
    // that byte (a comparison that looks at a prefix only, stops at a zero byte or treats bytes as signed goes wrong for some position), on
    // the first and on the second level of the path; and the same commitment with the pair hashed in the wrong order, which must fail
    for (const bytes& script : {bytes{0x51}, bytes{}}) for (int level : {0, 1, 2, 9, 33, 100}) for (int pos = 0; pos < 32; pos++) for (int delta : {-1, 1})
      for (int force : {-1}) {
        bytes k = tapleaf_hash(0xc0, script);
        std::vector<bytes> path;
        for (int l = 0; l < level; l++) { bytes n0 = sha256(bytes{'n', uint8_t('0' + l)}); path.push_back(n0); k = tapbranch_hash(k, n0); }
        // `force`: the deciding byte of the running hash is first set to a given value in the NODE only when that keeps the one-byte difference
        bytes node = k; int v = k[pos] + delta; if (v < 0 || v > 255) continue;
        if (force >= 0 && !(v == force || k[pos] == force)) continue;
        node[pos] = uint8_t(v);
        path.push_back(node);
        bytes kk = tapbranch_hash(k, node);
        bytes q; int par; if (!taproot_output_key(ik.xonly, kk, q, par)) continue;
        bytes control{uint8_t(0xc0 | par)}; control.insert(control.end(), ik.xonly.begin(), ik.xonly.end()); for (auto& n : path) control.insert(control.end(), n.begin(), n.end());
        std::string base = "near-equal node: level " + std::to_string(level) + " byte " + std::to_string(pos) + (delta > 0 ? " +1" : " -1");
        out.push_back({control, script, q, base + " valid", "near-equal-node"});
        // the pair in the wrong order: hash it by hand the other way round and commit to that
        bytes lo = std::min(k, node), hi = std::max(k, node);
        bytes wrong = ref::tagged_hash("TapBranch", [&] { bytes b = hi; b.insert(b.end(), lo.begin(), lo.end()); return b; }());
        bytes q2; int par2; if (taproot_output_key(ik.xonly, wrong, q2, par2)) { bytes c2 = control; c2[0] = uint8_t(0xc0 | par2); out.push_back({c2, script, q2, base + " committed with the pair in the wrong order", "near-equal-node-wrong-order"}); }
      }
    // internal keys off the curve / >= p (commitment must fail, not crash)
    for (const char* x : {"EEFDEA4CDB677750A420FEE807EACF21EB9898AE79B9768766E4FAA04A2D4A34", "FFFFFFFFFFFFFFFFFFFFFFFFFFFFFFFFFFFFFFFFFFFFFFFFFFFFFFFEFFFFFC30", "0000000000000000000000000000000000000000000000000000000000000000"}) {
        bytes control{0xc0}; bytes xk = unhex(x); control.insert(control.end(), xk.begin(), xk.end());
        out.push_back({control, bytes{0x51}, gen::make_key(2).xonly, std::string("internal key ") + x, "bad-internal-key"});
    }
}

static void run_tap(const TapCase& t, Violations& V, std::map<std::string, long long>& hist) {
    J rj = JObj().put("engine", "mc_spend").put("mode", "c05").put("control", hex(t.control)).put("script", hex(t.script)).put("program", hex(t.program)).put("label", t.label).j();
    note(rj.s);
    TapVerify tv = taproot_verify(t.control, t.script, t.program);
    impl::quiet_globals();
    uint256 leaf;
    CScript sc(t.script.begin(), t.script.end());
    TaprootCommitmentEnv env(t.control, t.program, sc, &leaf);
    auto rep = [&](const std::string& key, const std::string& what) { V.add(key, what + " [" + t.label + "]", rj); };
    if (bytes(env.m_k.begin(), env.m_k.end()) != tv.leaf) { rep("c05:leaf-hash:" + t.klass, "initial hash is not the TapLeaf hash"); return; }
    if (bytes(leaf.begin(), leaf.end()) != tv.leaf) { rep("c05:leaf-hash-out:" + t.klass, "tapleaf hash output parameter differs"); return; }
    size_t m = (t.control.size() - 33) / 32;
    for (size_t i = 0; i < m; i++) {
        auto st = env.Iterate();
        if (st != TaprootCommitmentEnv::State::Processing) { rep("c05:state-during-path:" + t.klass, "state after node " + std::to_string(i) + " is not Processing"); return; }
        if (bytes(env.m_k.begin(), env.m_k.end()) != tv.k[i]) { rep(std::string("c05:branch-hash:") + t.klass, "hash after node " + std::to_string(i) + " differs from BIP341"); return; }
    }
    auto st = env.Iterate();
    bool ok = st == TaprootCommitmentEnv::State::Done;
    if (st != TaprootCommitmentEnv::State::Done && st != TaprootCommitmentEnv::State::Failed) { rep("c05:final-state:" + t.klass, "final state is neither Done nor Failed"); return; }
    hist[std::string(tv.ok ? "valid:" : "invalid:") + t.klass]++;
    if (ok != tv.ok) rep(std::string("c05:verdict:") + (tv.ok ? "valid-rejected:" : "invalid-accepted:") + t.klass, std::string("BIP341 says ") + (tv.ok ? "valid" : "invalid") + ", the stepwise check says " + (ok ? "Done" : "Failed"));
}

// the debugger's own verdict for an auto-configured --tx/--txin session under `flags`: 1 success, 0 failure or refusal (C09, spend level)
static int impl_verdict(const Case& c, uint32_t flags) {
    impl::quiet_globals();
    Instance inst;
    std::string txs = hex(ser_tx(c.tx)), fins = hex(ser_tx(c.fund));
    try {
        if (!inst.parse_transaction(txs.c_str(), true)) return 0;
        if (!inst.parse_input_transaction(fins.c_str(), c.select)) return 0;
        if (!inst.configure_tx_txin()) return 0;
        if (!inst.setup_environment(flags)) return 0;
        int guard = 0;
        while (!inst.at_end() && guard++ < 100000) if (!inst.step()) return 0;
        return inst.at_end() ? 1 : 0;
    } catch (const std::exception&) { return 0; }
}

int main(int argc, char** argv) {
    Args a(argc, argv);
    ECCVerifyHandle ecc;
    impl::quiet_globals();
    std::string out = a.get("out", "/dev/stdout"), tier = a.get("tier", "quick"), mode = a.get("mode", "c03");
    double t0 = now_s();
    Violations V; JObj res; res.put("engine", "mc_spend").put("mode", mode).put("tier", tier);
    if (a.has("replay")) {
        JParser p(read_file(a.get("replay"))); JVal v = p.parse(); const JVal& r = v.has("replay") ? v["replay"] : v;
        Violations V1, V2;
        for (Violations* vv : {&V1, &V2}) {
            if (r["mode"].s == "c09s") { Case c; parse_tx(unhex(r["tx"].s), c.tx); parse_tx(unhex(r["txin"].s), c.fund); c.select = int(r["select"].i()); int b = int(r["bit"].i());
                if (impl_verdict(c, F_STANDARD | (1u << b)) == 1 && impl_verdict(c, F_STANDARD & ~(1u << b)) == 0) vv->add(std::string("c09:spend-monotonicity:+") + alpha::flag_name(b), r["label"].s + ": succeeds with the flag set and fails without it", J::raw("{}")); }
            else if (r["mode"].s == "c05") { TapCase t{unhex(r["control"].s), unhex(r["script"].s), unhex(r["program"].s), r["label"].s, "replay"}; std::map<std::string, long long> h; run_tap(t, *vv, h); }
            else { Case c; parse_tx(unhex(r["tx"].s), c.tx); parse_tx(unhex(r["txin"].s), c.fund); c.select = int(r["select"].i()); c.flags = uint32_t(r["flags"].i()); c.label = r["label"].s; c.klass = r["klass"].s; c.amount_prefix = r["amount_prefix"].s; sc::Stats s; sc::compare_session(c, *vv, s, "mc_spend", "c03", vv == &V1); }
        }
        if (V1.j().s != V2.j().s) { fprintf(stderr, "NONDETERMINISTIC replay\n"); return 2; }
        for (auto& kv : V1.by_key) printf("DIVERGENCE %s: %s\n", kv.first.c_str(), kv.second.first.what.c_str());
        if (V1.by_key.empty()) printf("no divergence\n");
        return V1.by_key.empty() ? 0 : 1;
    }
    std::string tmp = make_tmpdir();
    if (mode == "c03") {
        std::vector<Case> cases; gen_c03(tier, cases); size_t core = cases.size(); gen_c03_extended(cases);
        sc::Stats S; std::vector<std::string> samples;
        parallel_for(cases.size(), default_workers(), tmp, "c03",
            [&](size_t i, FILE* o) { Violations v; sc::Stats s; sc::Outcome oc = sc::compare_session(cases[i], v, s, "mc_spend", "c03"); s.dump(o); v.dump(o); if (i % 401 == 0) fprintf(o, "M\t%s -> %s\n", cases[i].label.c_str(), oc.refused ? "refused" : oc.valid ? "valid" : "invalid"); },
            [&](size_t i, int st, const std::string& nt) { V.add("crash:" + crash_desc(st) + ":" + cases[i].klass, "worker died (" + crash_desc(st) + ") on " + cases[i].label, J::raw(nt.empty() ? "{}" : nt)); },
            [&](const std::string& l) { if (l.empty()) return; if (l[0] == 'V') V.merge_line(l); else if (l[0] == 'M') { if (samples.size() < 12) samples.push_back(l.substr(2)); } else S.merge_line(l); });
        res.put("cases", cases.size()).put("core_cases", core).put("sessions", S.sessions).put("refused", S.refused).put("valid", S.valid).put("invalid", S.invalid).put("steps", S.steps).put("out_of_scope", S.out_of_scope);
        { JObj o; for (auto& kv : S.by_type) o.put(kv.first, kv.second); res.put("by_type", o.j()); }
        { JObj o; for (auto& kv : S.outcomes) o.put(kv.first, kv.second); res.put("outcomes", o.j()); }
        res.put("samples", J::strs(samples));
    } else if (mode == "c09s") {
        // C09, spend level: for --tx/--txin sessions (valid spends of every output type and their hand-made invalid relatives: non-push-only
        // scriptSigs, conditionals spanning scripts, witness removed ...) the DEBUGGER's own verdict is monotone in the flag set: for every
        // non-activation flag f, success under (STANDARD with f) implies success under (STANDARD without f). No reference is involved.
        std::vector<Case> cases; gen_c03(tier, cases); gen_c03_extended(cases);
        std::vector<Case> base;
        { std::set<std::string> seen; for (auto& c : cases) { if (c.flags != F_STANDARD || !c.amount_prefix.empty() || c.tx.vin.size() > 8) continue; std::string k = hex(ser_tx(c.tx)) + hex(ser_tx(c.fund)) + std::to_string(c.select); if (seen.insert(k).second) base.push_back(c); } }
        // hand-made relatives that only matter under non-standard flags
        { gen::Shape sh = shape_of("p2pkh", 1, 1);
          auto add = [&](const std::string& label, const gen::Spend& S, std::function<void(Tx&, Tx&)> f) { Case c; c.fund = S.fund; c.tx = S.tx; f(c.fund, c.tx); c.label = "c09s: " + label; c.klass = "c09s"; base.push_back(c); };
          { gen::Spend S = gen::make_spend("p2sh-multisig", sh); add("P2SH spend, OP_NOP in front of the scriptSig", S, [&](Tx&, Tx& t) { bytes& ss = t.vin[1].script_sig; ss.insert(ss.begin(), 0x61); });
            add("P2SH spend, OP_DUP OP_DROP after the redeem script push", S, [&](Tx&, Tx& t) { bytes& ss = t.vin[1].script_sig; ss.push_back(0x76); ss.push_back(0x75); }); }
          { gen::Spend S = gen::make_spend("p2pk", sh);
            add("P2SH output with redeem script OP_1, scriptSig OP_NOP <redeem>", S, [&](Tx& f, Tx& t) { bytes h = hash160(bytes{0x51}); bytes spk{0xa9, 0x14}; spk.insert(spk.end(), h.begin(), h.end()); spk.push_back(0x87); f.vout[1].spk = spk; t.vin[1].prev_hash = txid(f); t.vin[1].script_sig = unhex("610151"); });
            add("P2SH output with redeem script OP_1, scriptSig <redeem> OP_DUP OP_DROP", S, [&](Tx& f, Tx& t) { bytes h = hash160(bytes{0x51}); bytes spk{0xa9, 0x14}; spk.insert(spk.end(), h.begin(), h.end()); spk.push_back(0x87); f.vout[1].spk = spk; t.vin[1].prev_hash = txid(f); t.vin[1].script_sig = unhex("01517675"); });
            add("P2SH output with redeem script OP_1, push-only scriptSig", S, [&](Tx& f, Tx& t) { bytes h = hash160(bytes{0x51}); bytes spk{0xa9, 0x14}; spk.insert(spk.end(), h.begin(), h.end()); spk.push_back(0x87); f.vout[1].spk = spk; t.vin[1].prev_hash = txid(f); t.vin[1].script_sig = unhex("0151"); });
            add("bare OP_1 output, scriptSig OP_NOP", S, [&](Tx& f, Tx& t) { f.vout[1].spk = unhex("51"); t.vin[1].prev_hash = txid(f); t.vin[1].script_sig = unhex("61"); }); } }
        std::vector<int> bits; for (int b = 1; b <= 20; b++) if (b != 11 && b != 17) bits.push_back(b);   // every flag but the activation flags P2SH / WITNESS / TAPROOT (bit 5 = SIGPUSHONLY is not in STANDARD: added instead of removed)
        long long edges = 0, changing = 0;
        parallel_for(base.size(), default_workers(), tmp, "c09s",
            [&](size_t i, FILE* o) {
                Violations v; const Case& c = base[i];
                sc::Plan P = sc::make_plan(c.tx, c.fund, c.select, F_STANDARD);
                long long e = 0, ch = 0;
                if (!P.refused && !P.out_of_scope) for (int b : bits) {
                    uint32_t with = F_STANDARD | (1u << b), without = F_STANDARD & ~(1u << b);
                    note(JObj().put("engine", "mc_spend").put("mode", "c09s").put("tx", hex(ser_tx(c.tx))).put("txin", hex(ser_tx(c.fund))).put("select", c.select).put("bit", b).put("label", c.label).j().s);
                    int vw = impl_verdict(c, with), vo = impl_verdict(c, without); e++;
                    if (vw != vo) ch++;
                    if (vw == 1 && vo == 0) v.add(std::string("c09:spend-monotonicity:+") + alpha::flag_name(b), c.label + ": succeeds with " + alpha::flag_name(b) + " set and fails without it",
                                                  JObj().put("engine", "mc_spend").put("mode", "c09s").put("tx", hex(ser_tx(c.tx))).put("txin", hex(ser_tx(c.fund))).put("select", c.select).put("bit", b).put("label", c.label).j());
                }
                v.dump(o); fprintf(o, "E\t%lld\t%lld\n", e, ch);
            },
            [&](size_t i, int st, const std::string& nt) { V.add("c09:spend-monotonicity:crash:" + crash_desc(st), "worker died (" + crash_desc(st) + ") on " + base[i].label, J::raw(nt.empty() ? "{}" : nt)); },
            [&](const std::string& l) { if (l.empty()) return; if (l[0] == 'V') V.merge_line(l); else if (l[0] == 'E') { long long a, b; if (sscanf(l.c_str() + 2, "%lld\t%lld", &a, &b) == 2) { edges += a; changing += b; } } });
        res.put("spends", base.size()).put("edges", edges).put("outcome_changing_edges", changing);
    } else if (mode == "c05") {
        std::vector<TapCase> cases; gen_c05(tier, cases);
        std::map<std::string, long long> hist; long long steps = 0;
        for (auto& c : cases) steps += (c.control.size() - 33) / 32 + 1;
        parallel_for(cases.size(), default_workers(), tmp, "c05",
            [&](size_t i, FILE* o) { Violations v; std::map<std::string, long long> h; run_tap(cases[i], v, h); v.dump(o); for (auto& kv : h) fprintf(o, "H\t%s\t%lld\n", kv.first.c_str(), kv.second); },
            [&](size_t i, int st, const std::string& nt) { V.add("c05:crash:" + crash_desc(st) + ":" + cases[i].klass, "worker died (" + crash_desc(st) + ") on " + cases[i].label, J::raw(nt.empty() ? "{}" : nt)); },
            [&](const std::string& l) { if (l.empty()) return; if (l[0] == 'V') V.merge_line(l); else if (l[0] == 'H') { char n[100]; long long c; if (sscanf(l.c_str() + 2, "%99[^\t]\t%lld", n, &c) == 2) hist[n] += c; } });
        res.put("cases", cases.size()).put("iterate_steps", steps);
        { JObj o; for (auto& kv : hist) o.put(kv.first, kv.second); res.put("classes", o.j()); }
        std::vector<std::string> smp; for (size_t i = 0; i < cases.size() && smp.size() < 8; i += cases.size() / 8 + 1) smp.push_back(cases[i].label + " control=" + hex(cases[i].control).substr(0, 70) + "...");
        res.put("samples", J::strs(smp));
    }
    rm_rf(tmp);
    res.put("violations", V.j());
    res.put("wall_s", now_s() - t0);
    write_result(out, res);
    return 0;
}
