// Alphabets shared by the script-machine engines (DESIGN.md §3: V, Vs, Σ, R).
#pragma once
#include "ref/refscript.hpp"
#include <string>
#include <vector>

namespace alpha {
using ref::bytes;

struct Sym {
    bytes enc;          // encoded bytes of the operation
    std::string name;   // printable
    bool refuse;        // symbol that puts a script outside the domain (must be refused at parse time)
};

inline bytes filler(size_t n, uint8_t seed = 0xa5) { bytes b(n); for (size_t i = 0; i < n; i++) b[i] = uint8_t(seed + i * 7); return b; }

// Vs: the ten small values (simplest first)
inline std::vector<bytes> Vs() {
    return {bytes{}, bytes{0x01}, bytes{0x02}, bytes{0x03}, bytes{0x00}, bytes{0x80}, bytes{0x81}, bytes{0x7f}, bytes{0xff}, bytes{0x10}};
}
// V: Vs plus multi-byte boundary values
inline std::vector<bytes> V() {
    std::vector<bytes> v = Vs();
    const char* more[] = {"11", "0100", "0080", "8000", "ff7f", "ff00", "ff80", "ffffff7f", "ffffffff", "00000080", "0000008000", "ffffffff7f", "000000000080"};
    for (auto m : more) v.push_back(ref::unhex(m));
    return v;
}

inline std::string opname(uint8_t c) {
    char b[16]; snprintf(b, 16, "0x%02x", c); return b;
}

// Σ: every opcode byte 0x4f..0xba, pushes of small values in minimal and non-minimal forms,
// boundary pushes, and (refuse=true) symbols that make a script undecodable / out of domain.
inline std::vector<Sym> sigma(bool with_refusals = true) {
    std::vector<Sym> s;
    s.push_back({bytes{0x00}, "OP_0", false});
    for (int c = 0x4f; c <= 0xba; c++) s.push_back({bytes{uint8_t(c)}, opname(uint8_t(c)), false});
    auto push = [&](const char* hexdata, const char* nm) { bytes d = ref::unhex(hexdata); s.push_back({ref::push_raw(d), nm, false}); };
    push("00", "push(00)"); push("80", "push(80)"); push("7f", "push(7f)"); push("ff", "push(ff)");
    push("0100", "push(0100)"); push("0080", "push(0080)"); push("ff7f", "push(ff7f)"); push("ffffff7f", "push(ffffff7f)");
    push("ffffffff7f", "push(ffffffff7f)"); push("00000080", "push(00000080)");
    // non-minimal push forms
    push("05", "push(05)!min"); push("81", "push(81)!min");
    s.push_back({ref::unhex("4c0107"), "PUSHDATA1(07)!min", false});
    s.push_back({ref::unhex("4d010007"), "PUSHDATA2(07)!min", false});
    s.push_back({ref::unhex("4e0100000007"), "PUSHDATA4(07)!min", false});
    s.push_back({ref::unhex("4c00"), "PUSHDATA1()!min", false});
    // boundary pushes
    s.push_back({ref::push_raw(filler(75)), "push75", false});
    s.push_back({ref::push_raw(filler(76)), "push76", false});
    s.push_back({ref::push_raw(filler(520)), "push520", false});
    if (with_refusals) {
        s.push_back({bytes{0xbb}, "0xbb", true});
        s.push_back({bytes{0xfe}, "0xfe", true});
        s.push_back({bytes{0xff}, "0xff", true});
        s.push_back({ref::push_raw(filler(521)), "push521", true});
        s.push_back({ref::unhex("01"), "trunc(01)", true});
        s.push_back({ref::unhex("4c"), "trunc(4c)", true});
        s.push_back({ref::unhex("4c0500"), "trunc(4c05..)", true});
        s.push_back({ref::unhex("4d01"), "trunc(4d01)", true});
        s.push_back({ref::unhex("4d05000000"), "trunc(4d0500..)", true});
        s.push_back({ref::unhex("4e010000"), "trunc(4e0100)", true});
        s.push_back({ref::unhex("4e0500000000"), "trunc(4e05000000..)", true});
    }
    return s;
}

// R: execution-relevant flags for signature-free scripts
inline std::vector<uint32_t> R() {
    return {ref::F_P2SH, ref::F_MINIMALDATA, ref::F_MINIMALIF, ref::F_DISCOURAGE_UPGRADABLE_NOPS, ref::F_CLTV, ref::F_CSV,
            ref::F_CONST_SCRIPTCODE, ref::F_NULLDUMMY};
}
inline std::vector<uint32_t> subsets(const std::vector<uint32_t>& bits) {
    std::vector<uint32_t> r;
    for (uint32_t m = 0; m < (1u << bits.size()); m++) { uint32_t f = 0; for (size_t i = 0; i < bits.size(); i++) if (m & (1u << i)) f |= bits[i]; r.push_back(f); }
    return r;
}
// flag sets within one deviation of the empty set and of the standard set, over all 21 flags
inline std::vector<uint32_t> deviation1() {
    std::set<uint32_t> s;
    s.insert(0); s.insert(ref::F_STANDARD);
    for (int i = 0; i <= 20; i++) { s.insert(1u << i); s.insert(ref::F_STANDARD ^ (1u << i)); }
    return std::vector<uint32_t>(s.begin(), s.end());
}

inline const char* flag_name(int bit) {
    static const char* n[] = {"P2SH", "STRICTENC", "DERSIG", "LOW_S", "NULLDUMMY", "SIGPUSHONLY", "MINIMALDATA", "DISCOURAGE_UPGRADABLE_NOPS",
        "CLEANSTACK", "CHECKLOCKTIMEVERIFY", "CHECKSEQUENCEVERIFY", "WITNESS", "DISCOURAGE_UPGRADABLE_WITNESS_PROGRAM", "MINIMALIF",
        "NULLFAIL", "WITNESS_PUBKEYTYPE", "CONST_SCRIPTCODE", "TAPROOT", "DISCOURAGE_UPGRADABLE_TAPROOT_VERSION", "DISCOURAGE_OP_SUCCESS",
        "DISCOURAGE_UPGRADABLE_PUBKEYTYPE"};
    return n[bit];
}
inline std::string flags_str(uint32_t f) {
    if (f == ref::F_STANDARD) return "STANDARD";
    std::string s;
    for (int i = 0; i <= 20; i++) if (f & (1u << i)) { if (!s.empty()) s += ","; s += flag_name(i); }
    return s.empty() ? "NONE" : s;
}

}  // namespace alpha
