// mc_hist — C04 (rewind exactly undoes steps) and C16 (exec applies operations as the script would).
// Shape H: command-history graph of a debugger session explored to a fixpoint with deduplication on the
// full canonical session state, plus the complete (non-deduplicated) history tree to a depth L.
// Oracle: differential — the state after a history equals the state of a fresh session advanced by the
// net number of steps; for exec additionally the reference interpreter on the spliced script.
#include "impl.hpp"
#include "alphabet.hpp"
#include "ref/refsession.hpp"
#include <unordered_set>
#include <algorithm>
#include <deque>

using namespace mc;
using ref::bytes;

struct Spec {
    ref::SigVer sv = ref::SigVer::BASE; uint32_t flags = 0; bytes script; std::vector<bytes> stack; bytes successor; int64_t weight = 1000000;
    std::string name;
};
static J spec_json(const Spec& s) {
    return JObj().put("sv", int(s.sv)).put("flags", (long long)s.flags).put("script", ref::hex(s.script)).put("stack", impl::stack_json(s.stack)).put("successor", ref::hex(s.successor)).put("weight", (long long)s.weight).j();
}
static Spec spec_from(const JVal& v) {
    Spec s; s.sv = ref::SigVer(v["sv"].i()); s.flags = uint32_t(v["flags"].i()); s.script = ref::unhex(v["script"].s); s.stack = impl::stack_from_json(v["stack"]); s.successor = ref::unhex(v["successor"].s); s.weight = v["weight"].i();
    return s;
}
static std::string spec_str(const Spec& s) { return std::string(impl::sv_name(s.sv)) + "/" + alpha::flags_str(s.flags) + " script=" + ref::hex(s.script) + (s.successor.empty() ? "" : " spk=" + ref::hex(s.successor)) + " stack=" + impl::stack_str(s.stack); }

struct Sess {
    impl::Session s;
    bool open(const Spec& sp) {
        impl::quiet_globals();
        if (!sp.successor.empty()) s.inst.successor_script = CScript(sp.successor.begin(), sp.successor.end());
        return s.open(sp.script, sp.stack, sp.flags, sp.sv, false, nullptr, sp.weight);
    }
};

// full canonical dump: one "name=value" field per component
typedef std::vector<std::pair<std::string, std::string>> Dump;
static std::string stk(const std::vector<bytes>& v) { std::string r; for (auto& b : v) { r += ref::hex(b); r += ','; } return r; }
static Dump dump(Sess& S) {
    InterpreterEnv& e = *S.s.inst.env;
    Dump d;
    d.push_back({"stack", stk(e.stack)});
    d.push_back({"altstack", stk(e.altstack)});
    d.push_back({"cond", std::to_string(S.s.cond_size()) + "/" + std::to_string(S.s.cond_first_false())});
    d.push_back({"script", ref::hex(bytes(e.script.begin(), e.script.end()))});
    d.push_back({"pc", std::to_string(e.pc - e.script.begin())});
    d.push_back({"pend", std::to_string(e.pend - e.script.begin())});
    d.push_back({"codesep(pbegincodehash)", std::to_string(e.pbegincodehash - e.script.begin())});
    d.push_back({"codesep(m_codeseparator_pos)", std::to_string(e.execdata.m_codeseparator_pos)});
    // only meaningful (and only initialised) in tapscript sessions
    d.push_back({"sigbudget(m_validation_weight_left)", e.execdata.m_validation_weight_left_init ? std::to_string(e.execdata.m_validation_weight_left) : std::string("-")});
    d.push_back({"opcode_pos", std::to_string(e.opcode_pos)});
    d.push_back({"nOpCount", std::to_string(e.nOpCount)});
    d.push_back({"curr_op_seq", std::to_string(e.curr_op_seq)});
    d.push_back({"done", e.done ? "1" : "0"});
    d.push_back({"is_p2sh", e.is_p2sh ? "1" : "0"});
    d.push_back({"successor", ref::hex(bytes(e.successor_script.begin(), e.successor_script.end()))});
    std::string h;
    h += std::to_string(e.stack_history.size()) + ":" + std::to_string(e.altstack_history.size()) + ":" + std::to_string(e.pc_history.size()) + ":" + std::to_string(e.nOpCount_history.size());
    d.push_back({"history_sizes", h});
    std::string hc;
    for (auto& s : e.stack_history) hc += stk(s) + ";";
    hc += "|"; for (auto& s : e.altstack_history) hc += stk(s) + ";";
    hc += "|"; for (auto& n : e.nOpCount_history) hc += std::to_string(n) + ";";
    d.push_back({"history_contents", hc});
    return d;
}
static std::string flat(const Dump& d) { std::string r; for (auto& kv : d) { r += kv.first; r += '='; r += kv.second; r += '\n'; } return r; }
static std::string first_diff(const Dump& a, const Dump& b) { for (size_t i = 0; i < a.size() && i < b.size(); i++) if (a[i].second != b[i].second) return a[i].first; return a.size() != b.size() ? "size" : ""; }

struct Stats { long long sessions = 0, states = 0, transitions = 0, rewinds_ok = 0, rewinds_refused = 0, nontrivial_rewinds = 0, tree_histories = 0, skipped = 0, evals = 0, eval_fail = 0;
    void dump(FILE* f) { fprintf(f, "T\t%lld\t%lld\t%lld\t%lld\t%lld\t%lld\t%lld\t%lld\t%lld\t%lld\n", sessions, states, transitions, rewinds_ok, rewinds_refused, nontrivial_rewinds, tree_histories, skipped, evals, eval_fail); }
    void merge_line(const std::string& l) { long long a[10]; sscanf(l.c_str() + 2, "%lld\t%lld\t%lld\t%lld\t%lld\t%lld\t%lld\t%lld\t%lld\t%lld", a, a+1, a+2, a+3, a+4, a+5, a+6, a+7, a+8, a+9);
        sessions += a[0]; states += a[1]; transitions += a[2]; rewinds_ok += a[3]; rewinds_refused += a[4]; nontrivial_rewinds += a[5]; tree_histories += a[6]; skipped += a[7]; evals += a[8]; eval_fail += a[9]; }
};

// opcode executed by the k-th step of a fresh session (for violation keys): -1 for non-opcode micro-steps
static std::vector<int> step_opcodes(const Spec& sp) {
    std::vector<int> r;
    for (size_t pc = 0; pc < sp.script.size();) { ref::Op o = ref::decode_op(sp.script, pc); if (!o.ok) break; r.push_back(o.code); pc = o.end; }
    return r;
}

// replays a history (string over 'S','R') on a fresh session; returns false if a step failed
static bool replay_history(const Spec& sp, const std::string& h, Sess& S) {
    if (!S.open(sp)) return false;
    for (char c : h) { if (c == 'S') { if (!S.s.inst.step()) return false; } else S.s.inst.rewind(); }
    return true;
}

static void check_c04(const Spec& sp, int L, Violations& V, Stats& st, bool verbose = false) {
    note(JObj().put("engine", "mc_hist").put("mode", "c04").put("spec", spec_json(sp)).j().s);
    // fresh states F[0..K]
    std::vector<Dump> F; std::vector<std::string> Fflat;
    {
        Sess S;
        if (!S.open(sp)) { st.skipped++; return; }
        F.push_back(dump(S));
        int guard = 0;
        while (!S.s.inst.at_end()) {
            if (!S.s.inst.step()) { st.skipped++; return; }   // a failing step: outside the property's domain
            F.push_back(dump(S));
            if (++guard > 20000) { st.skipped++; return; }
        }
    }
    for (auto& d : F) Fflat.push_back(flat(d));
    int K = int(F.size()) - 1;
    st.sessions++;
    std::vector<int> opc = step_opcodes(sp);
    auto undone_op = [&](int n) -> std::string { // the step that leads from F[n-1] to F[n]
        char b[32];
        if (n - 1 < (int)opc.size() && sp.successor.empty()) { snprintf(b, 32, "0x%02x", opc[n - 1]); return b; }
        if (n == K && F[K].back().second == F[K - 1].back().second) return "final-verdict";
        return "multi-script";
    };
    auto report = [&](const std::string& key, const std::string& what, const std::string& hist) {
        V.add(key, what + "; history=" + hist + " session=" + spec_str(sp), JObj().put("engine", "mc_hist").put("mode", "c04").put("spec", spec_json(sp)).put("history", hist).j());
    };
    // (a) fixpoint BFS over {step, rewind} with dedup on the full canonical state
    struct Node { std::string hist; int net; };
    std::deque<Node> q; std::unordered_set<std::string> seen;
    q.push_back({"", 0}); seen.insert(Fflat[0]); st.states++;
    int cap = 400;
    while (!q.empty() && cap-- > 0) {
        Node nd = q.front(); q.pop_front();
        for (char cmd : {'S', 'R'}) {
            Sess S;
            if (!replay_history(sp, nd.hist, S)) { report("replay-diverged", "replaying a recorded history failed (nondeterminism)", nd.hist); continue; }
            Dump before = dump(S);
            std::string bflat = flat(before);
            // canon-on-replay assertion
            if (bflat != Fflat[nd.net]) { report("replay-diverged", "state reconstructed by replay differs from the recorded one", nd.hist); continue; }
            st.transitions++;
            std::string h2 = nd.hist + cmd;
            if (cmd == 'S') {
                bool ok = S.s.inst.step();
                if (nd.net == K) { // done: step must be refused and change nothing
                    if (ok || flat(dump(S)) != bflat) report("step-at-done-changes-state", "step at the end of the script changed the state", h2);
                    continue;
                }
                if (!ok) { report("step-fails-after-history", "a step that succeeds in a fresh session fails after this history", h2); continue; }
                Dump d = dump(S); std::string f = flat(d);
                if (f != Fflat[nd.net + 1]) { report("step-state:" + first_diff(d, F[nd.net + 1]), "state after step differs from the fresh session in " + first_diff(d, F[nd.net + 1]), h2); continue; }
                if (seen.insert(f).second) { st.states++; q.push_back({h2, nd.net + 1}); }
            } else {
                bool ok = S.s.inst.rewind();
                Dump d = dump(S); std::string f = flat(d);
                if (!ok) {
                    st.rewinds_refused++;
                    if (f != bflat) report("refused-rewind-changes-state:" + first_diff(d, before), "a refused rewind changed " + first_diff(d, before), h2);
                    continue;
                }
                st.rewinds_ok++;
                if (nd.net == 0) { report("rewind-accepted-at-start", "rewind accepted although no step has been made", h2); continue; }
                if (Fflat[nd.net] != Fflat[nd.net - 1]) st.nontrivial_rewinds++;
                if (f != Fflat[nd.net - 1]) {
                    std::string comp = first_diff(d, F[nd.net - 1]);
                    // does it match an earlier fresh state (more than one step undone)?
                    int landed = -1; for (int k = 0; k <= K; k++) if (f == Fflat[k]) landed = k;
                    std::string uo = undone_op(nd.net);
                    if (landed >= 0 && landed < nd.net - 1) report("rewind-undoes-" + std::to_string(nd.net - landed) + "-steps:at=" + uo, "one rewind undid " + std::to_string(nd.net - landed) + " steps", h2);
                    else report("rewind-state:" + comp + ":undone=" + uo, "after rewind the component " + comp + " is not restored (expected " + [&] { for (auto& kv : F[nd.net - 1]) if (kv.first == comp) return kv.second; return std::string("?"); }() + ", got " + [&] { for (auto& kv : d) if (kv.first == comp) return kv.second; return std::string("?"); }() + ")", h2);
                    // also: does continuing to the end still give the fresh outcome?
                    continue;
                }
                if (seen.insert(f).second) { st.states++; q.push_back({h2, nd.net - 1}); }
            }
        }
    }
    // (b) the complete history tree to depth L, no dedup: every command is checked against the fresh-session
    // table with the same classification as in (a), and the outcome of continuing to the end must be the fresh one
    if (L > 0 && K >= 1) {
        std::string fin = Fflat[K];
        for (uint32_t m = 0; m < (1u << L); m++) {
            std::string h; for (int i = 0; i < L; i++) h += (m >> i) & 1 ? 'R' : 'S';
            Sess S;
            if (!S.open(sp)) break;
            int net = 0; bool bad = false; std::string sofar;
            for (char c : h) {
                sofar += c;
                std::string bflat = Fflat[net];
                if (c == 'S') {
                    bool ok = S.s.inst.step();
                    if (net == K) { if (ok) { report("step-at-done-changes-state", "step accepted at the end of the script", sofar); bad = true; break; } continue; }
                    if (!ok) { report("step-fails-after-history", "a step that succeeds in a fresh session fails after this history", sofar); bad = true; break; }
                    net++;
                    Dump d = dump(S);
                    if (flat(d) != Fflat[net]) { report("step-state:" + first_diff(d, F[net]), "state after step differs from the fresh session in " + first_diff(d, F[net]), sofar); bad = true; break; }
                } else {
                    bool ok = S.s.inst.rewind();
                    Dump d = dump(S); std::string f = flat(d);
                    if (!ok) { if (f != bflat) { report("refused-rewind-changes-state:" + first_diff(d, F[net]), "a refused rewind changed the state", sofar); bad = true; break; } continue; }
                    if (net == 0) { report("rewind-accepted-at-start", "rewind accepted although no step has been made", sofar); bad = true; break; }
                    if (f != Fflat[net - 1]) {
                        int landed = -1; for (int k = 0; k <= K; k++) if (f == Fflat[k]) landed = k;
                        std::string uo = undone_op(net), comp = first_diff(d, F[net - 1]);
                        if (landed >= 0 && landed < net - 1) report("rewind-undoes-" + std::to_string(net - landed) + "-steps:at=" + uo, "one rewind undid " + std::to_string(net - landed) + " steps", sofar);
                        else report("rewind-state:" + comp + ":undone=" + uo, "after rewind the component " + comp + " is not restored", sofar);
                        bad = true; break;
                    }
                    net--;
                }
            }
            st.tree_histories++;
            if (bad) continue;
            bool ok = true; int guard = 0;
            while (!S.s.inst.at_end() && guard++ < 20000) { if (!S.s.inst.step()) { ok = false; break; } }
            if (!ok || flat(dump(S)) != fin) { report("tree:continuation-differs", "history tree: continuing to the end gives a different outcome than the fresh session although every intermediate state matched", h); }
        }
    }
}

// ---- deep sessions (C04): every depth M of a session of a few hundred steps, and from each M the whole descent rewind by rewind:
// after R rewinds the state is the one a fresh session has after M-R steps (a history mechanism that forgets or recycles old entries shows
// only beyond its capacity); from the bottom the session is then run to the end again
static void check_c04_deep(const Spec& sp, Violations& V, Stats& st) {
    std::vector<std::string> fwd;   // flat dump after d steps of a fresh session
    std::vector<Dump> fwdd;
    {
        Sess S; if (!S.open(sp)) { st.skipped++; return; }
        fwdd.push_back(dump(S)); fwd.push_back(flat(fwdd.back()));
        while (!S.s.inst.at_end() && fwd.size() < 2000) { if (!S.s.inst.step()) break; fwdd.push_back(dump(S)); fwd.push_back(flat(fwdd.back())); }
    }
    int N = int(fwd.size()) - 1;
    st.sessions++;
    for (int M = 1; M <= N; M++) {
        J rj = JObj().put("engine", "mc_hist").put("mode", "c04-deep").put("spec", spec_json(sp)).put("M", M).j();
        note(rj.s);
        Sess S; if (!S.open(sp)) return;
        for (int i = 0; i < M; i++) S.s.inst.step();
        st.states++;
        bool bad = false;
        for (int R = 1; R <= M && !bad; R++) {
            bool ok = S.s.inst.rewind();
            st.transitions++;
            if (!ok) {
                // a rewind may be refused (the tool does not go back across a script hand-over): it must change nothing, and the descent ends here
                st.rewinds_refused++;
                if (flat(dump(S)) != fwd[M - R + 1]) { V.add("deep-refused-rewind-changes-state", "after " + std::to_string(M) + " steps and " + std::to_string(R - 1) + " rewinds a refused rewind changed the state; " + spec_str(sp), rj); bad = true; }
                break;
            }
            st.rewinds_ok++;
            Dump d = dump(S);
            if (flat(d) != fwd[M - R]) { V.add("deep-rewind-state:" + first_diff(d, fwdd[M - R]), "after " + std::to_string(M) + " steps and " + std::to_string(R) + " rewinds the state differs from a fresh session after " + std::to_string(M - R) + " steps in " + first_diff(d, fwdd[M - R]) + "; " + spec_str(sp), rj); bad = true; }
        }
        if (bad) continue;
        // from the bottom, forward again to the end
        int k = 0; while (!S.s.inst.at_end() && k < N + 5) { if (!S.s.inst.step()) break; k++; }
        if (flat(dump(S)) != fwd[N]) V.add("deep-rewind-then-continue:" + first_diff(dump(S), fwdd[N]), "after " + std::to_string(M) + " steps, " + std::to_string(M) + " rewinds and running to the end, the final state differs from a fresh run in " + first_diff(dump(S), fwdd[N]) + "; " + spec_str(sp), rj);
        st.tree_histories++;
    }
}
static std::vector<Spec> c04_deep_specs(const std::string& tier) {
    std::vector<Spec> out;
    int reps = tier == "quick" ? 45 : 120;
    for (auto sv : {ref::SigVer::BASE, ref::SigVer::WITNESS_V0, ref::SigVer::TAPSCRIPT}) {
        if (tier == "quick" && sv == ref::SigVer::WITNESS_V0) continue;
        // <n> IF 2 TOALTSTACK FROMALTSTACK DROP ELSE 3 ENDIF  (7 or 6 steps per round, alternating branches), then 1
        Spec sp; sp.sv = sv; sp.flags = 0;
        for (int i = 0; i < reps; i++) { for (uint8_t c : {uint8_t(i % 2 ? 0x51 : 0x00), uint8_t(0x63), uint8_t(0x52), uint8_t(0x6b), uint8_t(0x6c), uint8_t(0x75), uint8_t(0x67), uint8_t(0x53), uint8_t(0x68)}) sp.script.push_back(c); if (sv == ref::SigVer::TAPSCRIPT && i % 2) sp.script.push_back(0x75); else if (i % 2 == 0) sp.script.push_back(0x75); }
        sp.script.push_back(0x51);
        out.push_back(sp);
    }
    // a growing stack: 140 one-byte pushes (each snapshot larger than the one before)
    { Spec sp; sp.sv = ref::SigVer::BASE; sp.flags = 0; for (int i = 0; i < (tier == "quick" ? 140 : 400); i++) { sp.script.push_back(0x01); sp.script.push_back(uint8_t(i)); } out.push_back(sp); }
    // a two-script session (scriptSig then scriptPubKey), both long
    { Spec sp; sp.sv = ref::SigVer::BASE; sp.flags = 0; for (int i = 0; i < 150; i++) sp.script.push_back(0x51); for (int i = 0; i < 149; i++) sp.successor.push_back(0x75); out.push_back(sp); }
    return out;
}

// ------------------------------------------------------------------------------------------ C16
struct Tok { std::string text; bytes enc; bool codesep; bool extra = false; };
static std::vector<Tok> exec_tokens(bool thorough) {
    std::vector<Tok> t;
    auto op = [&](const char* name, uint8_t c) { t.push_back({name, bytes{c}, c == 0xab}); };
    op("OP_DUP", 0x76); op("OP_DROP", 0x75); op("OP_SWAP", 0x7c); op("OP_ADD", 0x93); op("OP_SUB", 0x94); op("OP_1ADD", 0x8b); op("OP_NOT", 0x91);
    op("OP_EQUAL", 0x87); op("OP_EQUALVERIFY", 0x88); op("OP_VERIFY", 0x69); op("OP_IF", 0x63); op("OP_NOTIF", 0x64); op("OP_ELSE", 0x67); op("OP_ENDIF", 0x68);
    op("OP_TOALTSTACK", 0x6b); op("OP_FROMALTSTACK", 0x6c); op("OP_DEPTH", 0x74); op("OP_SIZE", 0x82); op("OP_RETURN", 0x6a); op("OP_NOP", 0x61);
    op("OP_0", 0x00); op("OP_1", 0x51); op("OP_16", 0x60); op("OP_1NEGATE", 0x4f); op("OP_SHA256", 0xa8); op("OP_HASH160", 0xa9); op("OP_PICK", 0x79); op("OP_ROLL", 0x7a);
    op("OP_2DUP", 0x6e); op("OP_ROT", 0x7b); op("OP_WITHIN", 0xa5); op("OP_NOP1", 0xb0); op("OP_CHECKLOCKTIMEVERIFY", 0xb1); op("OP_CAT", 0x7e); op("OP_RESERVED", 0x50); op("OP_VERIF", 0x65);
    op("OP_CHECKSIG", 0xac); op("OP_CHECKMULTISIG", 0xae); op("OP_LESSTHAN", 0x9f); op("OP_MIN", 0xa3);
    if (thorough) { op("OP_2DROP", 0x6d); op("OP_OVER", 0x78); op("OP_NIP", 0x77); op("OP_TUCK", 0x7d); op("OP_IFDUP", 0x73); op("OP_ABS", 0x90); op("OP_NEGATE", 0x8f); op("OP_BOOLAND", 0x9a); op("OP_NUMEQUAL", 0x9c); op("OP_RIPEMD160", 0xa6); }
    for (int n : {-1, 1, 2, 5, 16, 17}) t.push_back({std::to_string(n), ref::push_num(n), false});
    for (const char* h : {"0100", "ff7f", "ffffff7f", "0080", "aabbcc"}) { bytes d = ref::unhex(h); t.push_back({h, ref::push_raw(d), false}); }
    // hex with the 0x prefix (the spelling the script parser understands and exec's own ambiguity warning recommends)
    for (const char* h : {"0100", "aabbcc"}) { bytes d = ref::unhex(h); t.push_back({std::string("0x") + h, ref::push_raw(d), false}); }
    // a 10-byte push spelled with decimal digits only: as a number it overflows every integer type, so it is hex; whatever the number test
    // leaves behind (errno, a saturated value) must not change how the tokens after it - on this line or a later one - are read
    { bytes d = ref::unhex("99999999999999999999"); t.push_back({"99999999999999999999", ref::push_raw(d), false}); }
    // without the OP_ prefix
    t.push_back({"DUP", bytes{0x76}, false}); t.push_back({"ADD", bytes{0x93}, false});
    // operands whose numeric decoding throws (too long / non-minimal): used only as first element of the triples <operand> <numeric op> <any token>
    for (const char* h : {"0102030405", "ffffffff7f", "0000"}) { bytes d = ref::unhex(h); Tok k{h, ref::push_raw(d), false}; k.extra = true; t.push_back(k); }
    return t;
}

static void check_c16(const Spec& sp, const std::vector<Tok>& toks, int maxlen, Violations& V, Stats& st) {
    // fresh prefixes
    std::vector<size_t> pcs; // pc offset at each prefix
    int K = 0;
    {
        Sess S; if (!S.open(sp)) { st.skipped++; return; }
        while (!S.s.inst.at_end()) { if (!S.s.inst.step()) { st.skipped++; return; } K++; if (K > 5000) { st.skipped++; return; } }
    }
    st.sessions++;
    std::vector<std::vector<int>> lists;
    for (size_t i = 0; i < toks.size(); i++) if (!toks[i].extra) lists.push_back({int(i)});
    if (maxlen >= 2) for (size_t i = 0; i < toks.size(); i++) for (size_t j = 0; j < toks.size(); j++) if (!toks[i].extra && !toks[j].extra) lists.push_back({int(i), int(j)});
    // triples <operand> <numeric op> <token>: the middle operation fails by throwing (number too long / not minimal) or returns normally,
    // depending on operand and flags; whatever follows a failing operation must not be applied
    if (maxlen >= 2) {
        std::vector<int> operands, numops;
        for (size_t i = 0; i < toks.size(); i++) {
            if (toks[i].extra || toks[i].text == "0100" || toks[i].text == "0080" || toks[i].text == "ffffff7f") operands.push_back(int(i));
            for (const char* n : {"OP_1ADD", "OP_NOT", "OP_ADD", "OP_PICK", "OP_WITHIN", "OP_CHECKLOCKTIMEVERIFY", "OP_VERIFY", "OP_IF"}) if (toks[i].text == n) numops.push_back(int(i));
        }
        for (int a : operands) for (int b : numops) for (size_t c = 0; c < toks.size(); c++) if (!toks[c].extra && !toks[c].codesep) lists.push_back({a, b, int(c)});
    }
    int nops = int(step_opcodes(sp).size());
    for (int k = 0; k <= std::min(K, nops); k++) {   // prefixes inside the (single) script; k == nops: all ops done, verdict pending
        // reference state at prefix k
        ref::Machine M; M.sv = sp.sv; M.flags = sp.flags; M.script = sp.script; M.stack = sp.stack; M.ed.weight_left = sp.weight;
        bool okp = true; for (int i = 0; i < k; i++) if (M.step() != ref::Err::OK) { okp = false; break; }
        if (!okp) break;
        for (auto& l : lists) {
            bool has_codesep = false; bytes opsb; std::vector<std::string> texts;
            for (int ti : l) { has_codesep |= toks[ti].codesep; opsb.insert(opsb.end(), toks[ti].enc.begin(), toks[ti].enc.end()); texts.push_back(toks[ti].text); }
            if (has_codesep) continue;
            J rj = JObj().put("engine", "mc_hist").put("mode", "c16").put("spec", spec_json(sp)).put("prefix", k).put("ops", J::strs(texts)).j();
            note(rj.s);
            Sess S; if (!S.open(sp)) break;
            for (int i = 0; i < k; i++) S.s.inst.step();
            Dump before = dump(S);
            std::vector<char*> argv; for (auto& t : texts) argv.push_back(const_cast<char*>(t.c_str()));
            bool iok; std::string ierr;
            try { iok = S.s.inst.eval(argv.size(), argv.data()); if (!iok) ierr = impl::err_name(*S.s.inst.env->serror); }
            catch (const std::exception& e) { iok = false; ierr = "UNKNOWN_ERROR"; }
            st.evals++;
            // reference: splice
            ref::Machine R = M;
            R.script = bytes(M.script.begin(), M.script.begin() + M.pc); R.script.insert(R.script.end(), opsb.begin(), opsb.end()); size_t resume = R.script.size();
            R.script.insert(R.script.end(), M.script.begin() + M.pc, M.script.end());
            ref::Err re = ref::Err::OK; size_t which = 0;
            while (R.pc < resume) { re = R.step(); if (re != ref::Err::OK) break; which++; }
            std::string opsdesc; for (auto& t : texts) opsdesc += t + " ";
            char pk[200]; snprintf(pk, 200, "sv=%s;ops=%s", impl::sv_name(sp.sv), opsdesc.c_str());
            auto rep = [&](const std::string& key, const std::string& what) { V.add(key, what + "; exec " + opsdesc + "at prefix " + std::to_string(k) + " of " + spec_str(sp), rj); };
            if (re != ref::Err::OK) {
                st.eval_fail++;
                if (iok) { rep(std::string("exec-outcome:sv=") + impl::sv_name(sp.sv) + ";failing-op=" + (which < texts.size() ? texts[which] : std::string("-")) + ";ref=" + ref::err_name(re) + ";impl=OK", std::string("exec must fail with ") + ref::err_name(re) + " but succeeded"); continue; }
                // no transaction in these sessions: the error of a Schnorr check is unspecified (BaseSignatureChecker sets none)
                if (ierr != ref::err_name(re) && re != ref::Err::SCHNORR_SIG) { rep(std::string("exec-outcome:sv=") + impl::sv_name(sp.sv) + ";failing-op=" + (which < texts.size() ? texts[which] : std::string("-")) + ";ref=" + ref::err_name(re) + ";impl=" + ierr, std::string("exec must fail with ") + ref::err_name(re) + " but reports " + ierr); }
                // the operations after the failing one must have no effect (the script would have stopped there): the state must be the
                // one reached by exec of the list cut after the failing operation (differential oracle; independent of how much of the
                // failing operation itself was applied before it failed)
                // ... and the failing operation itself leaves the session where it was, as a failing step does: the state is the one
                // reached by exec of the operations before it (the untouched session when it is the first one)
                if (which < l.size()) {
                    Sess S4; if (!S4.open(sp)) continue;
                    for (int i = 0; i < k; i++) S4.s.inst.step();
                    if (which > 0) { std::vector<char*> argv4(argv.begin(), argv.begin() + which); try { S4.s.inst.eval(argv4.size(), argv4.data()); } catch (const std::exception&) {} st.evals++; }
                    const char* kd = nullptr;
                    if (S.s.stack() != S4.s.stack()) kd = "stack"; else if (S.s.alt() != S4.s.alt()) kd = "altstack";
                    else if (S.s.cond_size() != S4.s.cond_size() || S.s.cond_first_false() != S4.s.cond_first_false()) kd = "cond";
                    else if (S.s.env().nOpCount != S4.s.env().nOpCount) kd = "opcount";
                    else if (S.s.env().execdata.m_validation_weight_left_init && S.s.env().execdata.m_validation_weight_left != S4.s.env().execdata.m_validation_weight_left) kd = "sigbudget";
                    else if (S.s.env().execdata.m_codeseparator_pos != S4.s.env().execdata.m_codeseparator_pos) kd = "codeseparator_pos";
                    if (kd && which + 1 == l.size()) rep(std::string("exec-failed-operation-has-effect:") + impl::sv_name(sp.sv) + ";failed=" + texts[which] + ";" + kd,
                                std::string("the failing operation (") + texts[which] + ") changed the " + kd + " although a failing step of the same operation leaves the session untouched: stack=" + impl::stack_str(S.s.stack()) + " vs " + impl::stack_str(S4.s.stack()));
                }
                if (which + 1 < l.size()) {
                    Sess S3; if (!S3.open(sp)) continue;
                    for (int i = 0; i < k; i++) S3.s.inst.step();
                    std::vector<char*> argv3(argv.begin(), argv.begin() + which + 1);
                    try { S3.s.inst.eval(argv3.size(), argv3.data()); } catch (const std::exception&) {}
                    st.evals++;
                    const char* kd = nullptr;
                    if (S.s.stack() != S3.s.stack()) kd = "stack"; else if (S.s.alt() != S3.s.alt()) kd = "altstack";
                    else if (S.s.cond_size() != S3.s.cond_size() || S.s.cond_first_false() != S3.s.cond_first_false()) kd = "cond";
                    else if (S.s.env().nOpCount != S3.s.env().nOpCount) kd = "opcount";
                    else if (S.s.env().execdata.m_validation_weight_left_init && S.s.env().execdata.m_validation_weight_left != S3.s.env().execdata.m_validation_weight_left) kd = "sigbudget";
                    else if (S.s.env().execdata.m_codeseparator_pos != S3.s.env().execdata.m_codeseparator_pos) kd = "codeseparator_pos";
                    if (kd) rep(std::string("exec-continues-after-failure:") + impl::sv_name(sp.sv) + ";failed=" + texts[which] + ";" + kd,
                                std::string("operations after the failing one (") + texts[which] + ") were still applied: " + kd + " differs from exec of the list cut after it: stack=" + impl::stack_str(S.s.stack()) + " vs " + impl::stack_str(S3.s.stack()));
                }
                continue;
            }
            if (!iok) { rep(std::string("exec-outcome:sv=") + impl::sv_name(sp.sv) + ";failing-op=" + (which < texts.size() ? texts[which] : std::string("-")) + ";ref=OK;impl=" + ierr, "exec must succeed but reports " + ierr); continue; }
            Dump after = dump(S);
            const char* kind = nullptr;
            if (S.s.stack() != R.stack) kind = "stack"; else if (S.s.alt() != R.alt) kind = "altstack";
            else if (S.s.cond_size() != R.cond_size() || S.s.cond_first_false() != R.cond_first_false()) kind = "cond";
            else if (S.s.env().nOpCount != R.opcount) kind = "opcount";
            else if (sp.sv == ref::SigVer::TAPSCRIPT && S.s.env().execdata.m_validation_weight_left != R.ed.weight_left) kind = "sigbudget";
            if (kind) { rep(std::string("exec-state:") + pk + ";" + kind, std::string("state after exec differs in ") + kind + ": ref stack=" + impl::stack_str(R.stack) + " impl stack=" + impl::stack_str(S.s.stack())); continue; }
            // position and remaining script untouched
            for (const char* f : {"script", "pc", "pend", "curr_op_seq", "history_sizes", "history_contents", "done", "successor", "codesep(pbegincodehash)"}) {
                std::string a, b; for (auto& kv : before) if (kv.first == f) a = kv.second; for (auto& kv : after) if (kv.first == f) b = kv.second;
                if (a != b) { rep(std::string("exec-touches:") + f + ";" + pk, std::string("exec changed ") + f + " from " + a + " to " + b); kind = "x"; break; }
            }
            if (kind) continue;
            // a step followed by an accepted rewind must come back to exactly the post-exec state (exec must not disturb the history)
            if (!S.s.inst.at_end() && k < nops) {
                std::string d1 = flat(after);
                Sess S2; S2.open(sp); for (int i = 0; i < k; i++) S2.s.inst.step();
                try { S2.s.inst.eval(argv.size(), argv.data()); } catch (const std::exception&) {}
                if (S2.s.inst.step()) {
                    if (S2.s.inst.rewind() && flat(dump(S2)) != d1) { rep(std::string("exec-then-step-rewind:") + impl::sv_name(sp.sv) + ";" + first_diff(dump(S2), after), "after exec, step + rewind does not return to the post-exec state (" + first_diff(dump(S2), after) + " differs)"); continue; }
                }
            }
            // continuing the session equals continuing the spliced script
            ref::Err ce = ref::Err::OK; while (!R.at_end()) { ce = R.step(); if (ce != ref::Err::OK) break; } if (ce == ref::Err::OK) ce = R.finish();
            std::string ie; int guard = 0; while (!S.s.inst.at_end() && guard++ < 6000) { ie = S.s.step(); if (ie != "") break; }
            bool same = (ce == ref::Err::OK) ? (ie == "" && S.s.stack() == R.stack) : (ie == ref::err_name(ce) || (ce == ref::Err::SCHNORR_SIG && ie != ""));
            if (!same) rep(std::string("exec-continuation:sv=") + impl::sv_name(sp.sv) + ";last=" + texts.back() + ";ref=" + ref::err_name(ce) + ";impl=" + (ie == "" ? "OK" : ie), std::string("continuing after exec: ref ") + ref::err_name(ce) + " impl " + (ie == "" ? "OK" : ie));
        }
    }
}

// ---- the message exec prints for a failing operation does not depend on what failed earlier in the session
#include <fcntl.h>
#include <unistd.h>
static std::string eval_capturing_stderr(Instance& inst, const std::vector<std::string>& toks, const std::string& tmpfile, bool& ok) {
    std::vector<char*> argv; for (auto& t : toks) argv.push_back(const_cast<char*>(t.c_str()));
    fflush(stderr);
    int saved = dup(2), fd = open(tmpfile.c_str(), O_RDWR | O_CREAT | O_TRUNC, 0600);
    dup2(fd, 2);
    try { ok = inst.eval(argv.size(), argv.data()); } catch (const std::exception& e) { ok = false; fprintf(stderr, "ESCAPED: %s\n", e.what()); }
    fflush(stderr);
    dup2(saved, 2); close(saved);
    std::string out; char buf[512]; lseek(fd, 0, SEEK_SET); ssize_t n; while ((n = read(fd, buf, sizeof buf)) > 0) out.append(buf, size_t(n));
    close(fd);
    return out;
}
static void check_c16_messages(const std::string& tmpdir, Violations& V, Stats& st) {
    std::string tf = tmpdir + "/stderr.txt";
    std::vector<std::vector<std::string>> preludes = {{}, {"step3"}, {"step1", "exec:0000000080 OP_1ADD"}, {"step1", "exec:OP_RETURN"}, {"step1", "exec:OP_1 OP_2 OP_EQUALVERIFY"}, {"step1", "exec:OP_1", "exec:0000000080 OP_1ADD", "exec:OP_2"}};
    std::vector<std::vector<std::string>> lists = {{"OP_RETURN"}, {"OP_0", "OP_VERIFY"}, {"OP_1", "OP_2", "OP_EQUALVERIFY"}, {"OP_ENDIF"}, {"OP_RESERVED"}, {"0000000080", "OP_1ADD"}, {"OP_1", "0000000080", "OP_ADD"}, {"OP_2DROP", "OP_2DROP", "OP_2DROP", "OP_2DROP", "OP_DROP"}};
    for (auto sv : {ref::SigVer::BASE, ref::SigVer::WITNESS_V0}) for (uint32_t fl : {0u, ref::F_STANDARD & ~ref::F_CLEANSTACK}) {
        Spec sp; sp.sv = sv; sp.flags = fl; sp.script = ref::unhex("510500000000809351");   // OP_1 <0000000080> OP_ADD OP_1: the third step throws
        std::vector<std::string> base(lists.size());
        for (size_t pi = 0; pi < preludes.size(); pi++) for (size_t li = 0; li < lists.size(); li++) {
            Sess S; if (!S.open(sp)) return;
            for (auto& p : preludes[pi]) {
                if (p == "step3") { S.s.inst.step(); S.s.inst.step(); S.s.inst.step(); }
                else if (p == "step1") S.s.inst.step();
                else { std::vector<std::string> t; std::string cur; for (char ch : p.substr(5)) { if (ch == ' ') { t.push_back(cur); cur.clear(); } else cur += ch; } t.push_back(cur); bool ok; eval_capturing_stderr(S.s.inst, t, tf, ok); }
            }
            bool ok; std::string msg = eval_capturing_stderr(S.s.inst, lists[li], tf, ok);
            st.evals++;
            if (pi == 0) { base[li] = msg; continue; }
            std::string ops; for (auto& t : lists[li]) ops += t + " ";
            std::string pre; for (auto& t : preludes[pi]) pre += t + "; ";
            J rj = JObj().put("engine", "mc_hist").put("mode", "c16-message").put("prelude", pre).put("ops", ops).j();
            // the last list needs more stack than some preludes leave: its message may differ with the stack, skip it unless the stack-independent ones
            if (li + 1 == lists.size()) continue;
            if (msg != base[li]) V.add("exec-message-depends-on-history:" + std::string(impl::sv_name(sv)) + ";ops=" + ops, "exec " + ops + "after [" + pre + "] prints " + msg.substr(0, 120) + " ; in a fresh session it prints " + base[li].substr(0, 120), rj);
        }
    }
}

static std::vector<Spec> c04_specs(const std::string& tier) {
    std::vector<Spec> out;
    // (i) every script of <= maxlen ops over the reduced alphabet, for three sigversions under NONE
    std::vector<bytes> A = {{0x51}, {0x00}, {0x63}, {0x64}, {0x67}, {0x68}, {0x6b}, {0x6c}, {0x76}, {0x75}, {0x93}, {0xab}, {0x61}};
    int maxlen = tier == "quick" ? 4 : 5;
    std::vector<bytes> cur{{}};
    for (int l = 1; l <= maxlen; l++) {
        std::vector<bytes> nxt;
        for (auto& p : cur) for (auto& a : A) { bytes s = p; s.insert(s.end(), a.begin(), a.end()); nxt.push_back(s); }
        for (auto& s : nxt) for (auto sv : {ref::SigVer::BASE, ref::SigVer::WITNESS_V0, ref::SigVer::TAPSCRIPT}) {
            if (l == maxlen && sv != ref::SigVer::WITNESS_V0 && tier == "quick") continue;
            Spec sp; sp.sv = sv; sp.flags = 0; sp.script = s; out.push_back(sp);
        }
        cur = nxt;
    }
    // (i') the empty script, with and without initial stack items: a session that is finished before any step - every rewind is refused
    for (auto sv : {ref::SigVer::BASE, ref::SigVer::WITNESS_V0, ref::SigVer::TAPSCRIPT}) for (int items = 0; items < 2; items++) { Spec sp; sp.sv = sv; sp.flags = 0; if (items) sp.stack = {bytes{1}}; out.push_back(sp); }
    // (ii) hand-shaped sessions
    auto add = [&](ref::SigVer sv, uint32_t f, const std::string& hexs, std::vector<bytes> stack = {}, const std::string& succ = "", int64_t w = 1000000) { Spec sp; sp.sv = sv; sp.flags = f; sp.script = ref::unhex(hexs); sp.stack = stack; sp.successor = ref::unhex(succ); sp.weight = w; out.push_back(sp); };
    for (auto sv : {ref::SigVer::BASE, ref::SigVer::WITNESS_V0, ref::SigVer::TAPSCRIPT}) {
        add(sv, 0, "51635163516352686868");                  // nested IF depth 3
        add(sv, 0, "0063006300635268675168675168");                          // nested with ELSE, outer false
        add(sv, 0, "516b526b6c6c93");                                                            // altstack traffic
        { std::string s; for (int i = 0; i < 200; i++) s += "61"; s += "51"; add(sv, 0, s); }   // op count near 201
        add(sv, ref::F_STANDARD & ~ref::F_CONST_SCRIPTCODE & ~ref::F_CLEANSTACK, "51ab52ab935387");   // code separators
    }
    // tapscript leaves containing OP_SUCCESSx (0x50): walked over without being executed, then the verdict; rewind must work as anywhere else
    for (const char* h : {"51525093", "5051", "50", "5152935087", "51526350686a"}) add(ref::SigVer::TAPSCRIPT, 0, h);
    // tapscript signature budget: unknown key type + non-empty signature charges 50 per check; 110 covers two checks exactly once
    add(ref::SigVer::TAPSCRIPT, 0, "5152ac5152ac93", {}, "", 110);
    add(ref::SigVer::TAPSCRIPT, 0, "5152ac", {}, "", 60);
    // multi-script sessions: scriptSig -> scriptPubKey, and P2SH
    add(ref::SigVer::BASE, 0, "5152", {}, "935387");
    add(ref::SigVer::BASE, ref::F_P2SH, "5152", {}, "935387");
    { bytes redeem = ref::unhex("935387"); bytes h = ref::hash160(redeem); std::string spk = "a914" + ref::hex(h) + "87"; add(ref::SigVer::BASE, ref::F_P2SH, "5152" + ref::hex(ref::push_raw(redeem)), {}, spk); add(ref::SigVer::BASE, 0, "5152" + ref::hex(ref::push_raw(redeem)), {}, spk); }
    return out;
}

int main(int argc, char** argv) {
    Args a(argc, argv);
    ECCVerifyHandle ecc;
    impl::quiet_globals();
    std::string out = a.get("out", "/dev/stdout"), tier = a.get("tier", "quick"), mode = a.get("mode", "c04");
    double t0 = now_s();
    if (a.has("replay")) {
        JParser p(read_file(a.get("replay"))); JVal v = p.parse(); const JVal& r = v.has("replay") ? v["replay"] : v;
        Spec sp = spec_from(r["spec"]);
        Violations V1, V2; Stats s;
        if (r["mode"].s == "c04") { check_c04(sp, 6, V1, s); check_c04(sp, 6, V2, s); }
        else if (r["mode"].s == "c04-deep") { check_c04_deep(sp, V1, s); check_c04_deep(sp, V2, s); }
        else { auto toks = exec_tokens(true); check_c16(sp, toks, 2, V1, s); check_c16(sp, toks, 2, V2, s); }
        if (V1.j().s != V2.j().s) { fprintf(stderr, "NONDETERMINISTIC replay\n"); return 2; }
        for (auto& kv : V1.by_key) printf("DIVERGENCE %s: %s\n", kv.first.c_str(), kv.second.first.what.c_str());
        if (V1.by_key.empty()) printf("no divergence\n");
        return V1.by_key.empty() ? 0 : 1;
    }
    std::vector<Spec> specs = c04_specs(mode == "c16" ? "quick" : tier);
    if (mode == "c16") {
        // sessions for exec: the completing scripts of <= 3 ops (quick) / <= 4 ops (thorough) plus the hand-shaped ones; single-script only
        std::vector<Spec> s2; size_t lim = tier == "quick" ? 3 : 4;
        auto has_success = [](const Spec& s) { if (s.sv != ref::SigVer::TAPSCRIPT) return false; for (size_t pc = 0; pc < s.script.size();) { ref::Op o = ref::decode_op(s.script, pc); if (!o.ok) return false; if (ref::is_op_success(o.code)) return true; pc = o.end; } return false; };
        // (the empty script is left to C04: a session that is over before it starts has no "next operations of the script" for exec to stand in for)
        for (auto& s : specs) if (s.successor.empty() && !s.script.empty() && (s.script.size() <= lim || s.script.size() > 5) && !has_success(s)) s2.push_back(s);
        specs.swap(s2);
        for (auto sv : {ref::SigVer::BASE, ref::SigVer::WITNESS_V0, ref::SigVer::TAPSCRIPT}) { Spec sp; sp.sv = sv; sp.flags = ref::F_STANDARD & ~ref::F_CLEANSTACK; sp.script = ref::unhex("5152935387"); specs.push_back(sp); sp.script = ref::unhex("51635267536851"); specs.push_back(sp); }
        // stacks at the 1000-item limit and one below it (main stack alone, and 900 + 100 on the alt stack after the first two steps): an exec'd
        // push or operation that would exceed the limit fails and leaves the session where it was
        for (auto sv : {ref::SigVer::BASE, ref::SigVer::TAPSCRIPT}) for (int n : {999, 1000}) {
            Spec sp; sp.sv = sv; sp.flags = 0; sp.script = ref::unhex("6161"); sp.stack.assign(size_t(n), bytes{1}); specs.push_back(sp);
        }
    }
    int L = int(a.geti("L", tier == "quick" ? 8 : 13));
    auto toks = exec_tokens(tier != "quick");
    int maxlen = int(a.geti("maxlen", 2));
    Violations V; Stats S; std::vector<std::string> samples;
    std::string tmp = make_tmpdir();
    parallel_for(specs.size(), default_workers(), tmp, mode,
        [&](size_t i, FILE* o) {
            Violations v; Stats s;
            if (mode == "c04") check_c04(specs[i], (specs[i].script.size() <= 4 || specs[i].script.size() > 5) ? L : std::min(L, 6), v, s);
            else check_c16(specs[i], toks, (specs[i].script.size() <= 2 || specs[i].script.size() > 5) ? maxlen : 1, v, s);
            s.dump(o); v.dump(o);
            if (i % 1501 == 0 && s.sessions) fprintf(o, "M\t%s\n", spec_str(specs[i]).c_str());
        },
        [&](size_t i, int stt, const std::string& nt) { V.add("crash:" + crash_desc(stt), "worker died (" + crash_desc(stt) + ") in session " + spec_str(specs[i]), J::raw(nt.empty() ? "{}" : nt)); },
        [&](const std::string& l) { if (l.empty()) return; if (l[0] == 'V') V.merge_line(l); else if (l[0] == 'M') { if (samples.size() < 10) samples.push_back(l.substr(2)); } else if (l[0] == 'T') S.merge_line(l); });
    if (mode == "c16") check_c16_messages(tmp, V, S);
    rm_rf(tmp);
    if (mode == "c04") {
        std::vector<Spec> deep = c04_deep_specs(tier);
        std::string tmp2 = make_tmpdir();
        parallel_for(deep.size(), default_workers(), tmp2, "c04-deep",
            [&](size_t i, FILE* o) { Violations v; Stats s; check_c04_deep(deep[i], v, s); s.dump(o); v.dump(o); },
            [&](size_t i, int stt, const std::string& nt) { V.add("crash:" + crash_desc(stt), "worker died (" + crash_desc(stt) + ") in deep session " + spec_str(deep[i]), J::raw(nt.empty() ? "{}" : nt)); },
            [&](const std::string& l) { if (l.empty()) return; if (l[0] == 'V') V.merge_line(l); else if (l[0] == 'T') S.merge_line(l); });
        rm_rf(tmp2);
    }
    JObj res;
    res.put("engine", "mc_hist").put("mode", mode).put("tier", tier).put("specs", specs.size()).put("L", L).put("exec_tokens", toks.size()).put("exec_maxlen", maxlen);
    res.put("sessions", S.sessions).put("skipped_sessions_with_failing_step", S.skipped).put("states", S.states).put("transitions", S.transitions);
    res.put("rewinds_accepted", S.rewinds_ok).put("rewinds_refused", S.rewinds_refused).put("nontrivial_rewinds", S.nontrivial_rewinds).put("tree_histories", S.tree_histories);
    res.put("evals", S.evals).put("evals_ref_failing", S.eval_fail);
    res.put("samples", J::strs(samples));
    res.put("violations", V.j());
    res.put("wall_s", now_s() - t0);
    write_result(out, res);
    return 0;
}
