#!/usr/bin/env python3
"""Out-of-tree build of the btcdeb working tree plus the /verif harness programs.

usage: build.py [--repo DIR] [--flavor plain|asan|cov] [--quiet] target...
  targets: libs btcdeb btcc tap btcdeb_tty mc_<name> ... | all
Prints the build directory on stdout (last line).

The build directory is keyed by a hash of the repository sources that take part
in the build, so an edited tree (or a scratch copy given with --repo / VERIF_REPO)
is always rebuilt from its current contents; nothing is written into the tree.
"""
import hashlib, os, subprocess, sys, shutil, time

VERIF = os.path.dirname(os.path.dirname(os.path.abspath(__file__)))

LIB_CPP = """arith_uint256 base58 bech32 consensus/merkle crypto/hmac_sha512 crypto/ripemd160
crypto/sha1 crypto/sha256 crypto/sha512 hash primitives/transaction pubkey script/interpreter
script/script script/script_error support/cleanse support/lockedpool uint256 util/spanparsing
util/strencodings value debugger/hash debugger/interpreter debugger/script""".split()
TOOL_CPP = ["instance", "functions", "btcdeb", "btcc", "tap"]
SECP_C = ["secp256k1/src/secp256k1", "secp256k1/src/precomputed_ecmult", "secp256k1/src/precomputed_ecmult_gen"]
SECP_DEFS = "-DECMULT_GEN_PREC_BITS=4 -DECMULT_WINDOW_SIZE=15 -DENABLE_MODULE_EXTRAKEYS -DENABLE_MODULE_SCHNORRSIG -DENABLE_MODULE_RECOVERY"

SRC_DIRS = ["", "compat", "consensus", "crypto", "debugger", "policy", "primitives", "script", "support",
            "support/allocators", "util", "kerl", "secp256k1/include", "secp256k1/src",
            "secp256k1/src/modules/extrakeys", "secp256k1/src/modules/schnorrsig", "secp256k1/src/modules/recovery"]
SRC_EXT = (".cpp", ".h", ".c")


def tree_hash(repo):
    h = hashlib.sha256()
    for d in SRC_DIRS:
        p = os.path.join(repo, d)
        if not os.path.isdir(p):
            continue
        for f in sorted(os.listdir(p)):
            if not f.endswith(SRC_EXT):
                continue
            fp = os.path.join(p, f)
            if not os.path.isfile(fp):
                continue
            h.update(os.path.join(d, f).encode() + b"\0")
            with open(fp, "rb") as fh:
                h.update(hashlib.sha256(fh.read()).digest())
    return h.hexdigest()[:16]


def harness_programs():
    mc = os.path.join(VERIF, "mc")
    return sorted(f[:-4] for f in os.listdir(mc) if f.startswith("mc_") and f.endswith(".cpp"))


def gen_makefile(repo, bdir, flavor):
    if flavor == "asan":
        opt = "-O1 -g -fno-omit-frame-pointer -fsanitize=address,undefined -fno-sanitize-recover=undefined"
        ld = "-fsanitize=address,undefined"
    elif flavor == "cov":
        opt = "-O0 -g --coverage -DVERIF_COVERAGE"
        ld = "--coverage"
    else:
        opt = "-O2"
        ld = ""
    inc = f"-I{repo} -I{repo}/secp256k1/include -I{VERIF}/harness/fallback"
    cxx = f"g++ -std=c++17 {opt} -DHAVE_CONFIG_H {inc} -w -MMD -MP"
    out = []
    out.append(f"CXX={cxx}")
    out.append(f"HCXX=g++ -std=c++17 {opt} -DHAVE_CONFIG_H {inc} -I{VERIF} -w -MMD -MP")
    out.append(f"LD=g++ {ld}")
    libobjs = []
    for s in LIB_CPP:
        o = "lib_" + s.replace("/", "_") + ".o"
        libobjs.append(o)
        out.append(f"{o}: {repo}/{s}.cpp\n\t$(CXX) -c $< -o $@")
    for s in SECP_C:
        o = "secp_" + os.path.basename(s) + ".o"
        libobjs.append(o)
        # secp256k1 is compiled without sanitizers even in the asan flavour: it is
        # constant-time C with deliberate unsigned wrap-arounds and is not in scope of C15's oracle
        out.append(f"{o}: {repo}/{s}.c\n\tgcc -O2 -I{repo}/secp256k1 -I{repo}/secp256k1/src -I{repo}/secp256k1/include {SECP_DEFS} -w -c $< -o $@")
    out.append(f"kerl.o: {repo}/kerl/kerl.c\n\tgcc -std=gnu99 {opt} -I{repo}/kerl -w -c $< -o $@")
    for s in TOOL_CPP:
        out.append(f"tool_{s}.o: {repo}/{s}.cpp\n\t$(CXX) -c $< -o $@")
    out.append(f"isatty_force.o: {VERIF}/harness/isatty_force.c\n\tgcc -O1 -c $< -o $@")
    out.append("LIBOBJS=" + " ".join(libobjs))
    out.append("libs: $(LIBOBJS) tool_instance.o tool_functions.o kerl.o")
    out.append("btcdeb: tool_btcdeb.o tool_instance.o tool_functions.o kerl.o $(LIBOBJS)\n\t$(LD) $^ -o $@")
    out.append("btcdeb_tty: tool_btcdeb.o tool_instance.o tool_functions.o kerl.o isatty_force.o $(LIBOBJS)\n\t$(LD) $^ -o $@")
    out.append("tap: tool_tap.o tool_instance.o tool_functions.o kerl.o $(LIBOBJS)\n\t$(LD) $^ -o $@")
    out.append("btcc: tool_btcc.o $(LIBOBJS)\n\t$(LD) $^ -o $@")
    progs = harness_programs()
    for p in progs:
        out.append(f"{p}.o: {VERIF}/mc/{p}.cpp\n\t$(HCXX) -c $< -o $@")
        out.append(f"{p}: {p}.o tool_instance.o tool_functions.o kerl.o $(LIBOBJS)\n\t$(LD) $^ -lcrypto -o $@")
    # the readline build of kerl (what ./configure produces) for the history-file loader harness
    out.append(f"kerl_rl.o: {repo}/kerl/kerl.c\n\tgcc -std=gnu99 {opt} -DNO_AUTOMAKE -I{repo}/kerl -w -c $< -o $@")
    out.append(f"kerlhist: {VERIF}/mc/kerlhist.c kerl_rl.o\n\tgcc -std=gnu99 {opt} -w {VERIF}/mc/kerlhist.c kerl_rl.o -lreadline -o $@")
    # the interactive front end over the readline build of kerl: continuation lines of an open quote, history - code that exists only there
    out.append("btcdeb_tty_rl: tool_btcdeb.o tool_instance.o tool_functions.o kerl_rl.o isatty_force.o $(LIBOBJS)\n\t$(LD) $^ -lreadline -o $@")
    out.append("all: btcdeb btcdeb_tty btcdeb_tty_rl tap btcc kerlhist " + " ".join(progs))
    out.append("-include *.d")
    out.append(".PHONY: all libs")
    with open(os.path.join(bdir, "Makefile"), "w") as fh:
        fh.write("\n".join(out) + "\n")


def prune(root, keep):
    try:
        ds = [os.path.join(root, d) for d in os.listdir(root)]
    except FileNotFoundError:
        return
    ds = [d for d in ds if os.path.isdir(d)]
    ds = [d for d in ds if os.path.basename(d) != "tmp"]
    ds.sort(key=lambda d: os.path.getmtime(d), reverse=True)
    now = time.time()
    for d in ds[keep:]:
        # never remove a directory that was (re)used within the last 3 hours: a check may still be running in it
        if now - os.path.getmtime(d) > 3 * 3600:
            shutil.rmtree(d, ignore_errors=True)


def build(repo, flavor, targets, quiet=True):
    repo = os.path.abspath(repo)
    # keyed by content *and* location: dependency files record absolute paths of the tree they were built from
    h = hashlib.sha256((tree_hash(repo) + "|" + repo).encode()).hexdigest()[:16]
    root = os.path.join(VERIF, "build")
    bdir = os.path.join(root, f"{h}-{flavor}")
    os.makedirs(bdir, exist_ok=True)
    os.utime(bdir, None)
    gen_makefile(repo, bdir, flavor)
    cmd = ["make", "-C", bdir, "-j", str(os.cpu_count() or 4), "--no-print-directory"] + targets
    # a lock so that concurrent checks do not run two makes in one directory
    import fcntl
    with open(os.path.join(bdir, ".lock"), "w") as lk:
        fcntl.flock(lk, fcntl.LOCK_EX)
        r = subprocess.run(cmd, stdout=subprocess.PIPE, stderr=subprocess.STDOUT, text=True)
    if r.returncode != 0:
        sys.stderr.write(r.stdout)
        raise SystemExit(f"build failed in {bdir}")
    if not quiet:
        sys.stderr.write(r.stdout)
    prune(root, 8)
    return bdir


def main():
    a = sys.argv[1:]
    repo = os.environ.get("VERIF_REPO", "/repo")
    flavor = "plain"
    quiet = True
    targets = []
    i = 0
    while i < len(a):
        if a[i] == "--repo":
            repo = a[i + 1]; i += 2
        elif a[i] == "--flavor":
            flavor = a[i + 1]; i += 2
        elif a[i] == "--verbose":
            quiet = False; i += 1
        else:
            targets.append(a[i]); i += 1
    if not targets:
        targets = ["all"]
    print(build(repo, flavor, targets, quiet))


if __name__ == "__main__":
    main()
