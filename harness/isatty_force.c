/* forced-interactive btcdeb: the tool decides between REPL and batch mode with isatty() */
int isatty(int fd) { (void)fd; return 1; }
