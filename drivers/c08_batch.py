"""C08 — non-interactive btcdeb prints the final stack and never exits abnormally.

Exhaustive over an explicitly bounded space (see coverage.bounds): every script of 1..2 symbols (thorough:
additionally 1..3 over a reduced alphabet) x initial stacks x flag lists, each run through the REAL `btcdeb`
binary in batch mode, through the forced-interactive `btcdeb_tty` (stepping to the end), and through the
independent reference (`mc_refcli run`).  A representative subset covering every outcome class is then run
under the full product {script delivery} x {option variants}; `--verbose` must be refused; a --tx slice puts
signature hashing on the path.
"""
import itertools, json, os, random, shutil, subprocess, sys, tempfile, time
from multiprocessing import Pool

sys.path.insert(0, os.path.dirname(os.path.abspath(__file__)))
import procutil as pu  # noqa: E402

# ------------------------------------------------------------------------------------------- alphabets
OPN = {0x00: "OP_0", 0x4f: "OP_1NEGATE", 0x50: "OP_RESERVED", 0x61: "OP_NOP", 0x62: "OP_VER", 0x63: "OP_IF",
       0x64: "OP_NOTIF", 0x65: "OP_VERIF", 0x66: "OP_VERNOTIF", 0x67: "OP_ELSE", 0x68: "OP_ENDIF", 0x69: "OP_VERIFY",
       0x6a: "OP_RETURN", 0x6b: "OP_TOALTSTACK", 0x6c: "OP_FROMALTSTACK", 0x6d: "OP_2DROP", 0x6e: "OP_2DUP",
       0x6f: "OP_3DUP", 0x70: "OP_2OVER", 0x71: "OP_2ROT", 0x72: "OP_2SWAP", 0x73: "OP_IFDUP", 0x74: "OP_DEPTH",
       0x75: "OP_DROP", 0x76: "OP_DUP", 0x77: "OP_NIP", 0x78: "OP_OVER", 0x79: "OP_PICK", 0x7a: "OP_ROLL",
       0x7b: "OP_ROT", 0x7c: "OP_SWAP", 0x7d: "OP_TUCK", 0x7e: "OP_CAT", 0x7f: "OP_SUBSTR", 0x80: "OP_LEFT",
       0x81: "OP_RIGHT", 0x82: "OP_SIZE", 0x83: "OP_INVERT", 0x84: "OP_AND", 0x85: "OP_OR", 0x86: "OP_XOR",
       0x87: "OP_EQUAL", 0x88: "OP_EQUALVERIFY", 0x89: "OP_RESERVED1", 0x8a: "OP_RESERVED2", 0x8b: "OP_1ADD",
       0x8c: "OP_1SUB", 0x8d: "OP_2MUL", 0x8e: "OP_2DIV", 0x8f: "OP_NEGATE", 0x90: "OP_ABS", 0x91: "OP_NOT",
       0x92: "OP_0NOTEQUAL", 0x93: "OP_ADD", 0x94: "OP_SUB", 0x95: "OP_MUL", 0x96: "OP_DIV", 0x97: "OP_MOD",
       0x98: "OP_LSHIFT", 0x99: "OP_RSHIFT", 0x9a: "OP_BOOLAND", 0x9b: "OP_BOOLOR", 0x9c: "OP_NUMEQUAL",
       0x9d: "OP_NUMEQUALVERIFY", 0x9e: "OP_NUMNOTEQUAL", 0x9f: "OP_LESSTHAN", 0xa0: "OP_GREATERTHAN",
       0xa1: "OP_LESSTHANOREQUAL", 0xa2: "OP_GREATERTHANOREQUAL", 0xa3: "OP_MIN", 0xa4: "OP_MAX", 0xa5: "OP_WITHIN",
       0xa6: "OP_RIPEMD160", 0xa7: "OP_SHA1", 0xa8: "OP_SHA256", 0xa9: "OP_HASH160", 0xaa: "OP_HASH256",
       0xab: "OP_CODESEPARATOR", 0xac: "OP_CHECKSIG", 0xad: "OP_CHECKSIGVERIFY", 0xae: "OP_CHECKMULTISIG",
       0xaf: "OP_CHECKMULTISIGVERIFY", 0xb0: "OP_NOP1", 0xb1: "OP_CLTV", 0xb2: "OP_CSV"}
for _c in range(0x51, 0x61):
    OPN[_c] = "OP_%d" % (_c - 0x50)
for _c in range(0xb3, 0xba):
    OPN[_c] = "OP_NOP%d" % (_c - 0xaf)


def _filler(n):
    return bytes((0xa5 + i * 7) & 0xff for i in range(n)).hex()


def _push(datahex):
    n = len(datahex) // 2
    return ("%02x" % n if n <= 75 else "4c%02x" % n) + datahex


def full_alphabet():
    """modelled on mc/alphabet.hpp sigma(false): OP_0, every opcode 0x4f..0xb9 (0xba is the known C01 finding
    'refused-in-domain:op=0xba' and is excluded), boundary pushes, non-minimal push forms, 75/76-byte pushes.
    The 520-byte push is left out: its hex form does not fit btcdeb's 1024-byte stdin line buffer."""
    s = [("OP_0", "00")]
    for c in range(0x4f, 0xba):
        s.append((OPN[c], "%02x" % c))
    for d in ("00", "80", "7f", "ff", "0100", "0080", "ff7f", "ffffff7f", "ffffffff7f", "00000080"):
        s.append(("push(%s)" % d, _push(d)))
    s += [("push(05)!min", "0105"), ("push(81)!min", "0181"), ("PUSHDATA1(07)!min", "4c0107"),
          ("PUSHDATA2(07)!min", "4d010007"), ("PUSHDATA4(07)!min", "4e0100000007"), ("PUSHDATA1()!min", "4c00")]
    s += [("push75", _push(_filler(75))), ("push76", _push(_filler(76)))]
    return s


QUICK_NAMES = """OP_0 OP_1NEGATE OP_1 OP_2 push(00) push(ffffff7f) push(ffffffff7f) push(0100)
push(05)!min PUSHDATA1(07)!min
OP_RESERVED OP_NOP OP_VER OP_IF OP_NOTIF OP_VERIF OP_ELSE OP_ENDIF OP_VERIFY OP_RETURN
OP_TOALTSTACK OP_FROMALTSTACK OP_2DROP OP_IFDUP OP_DEPTH OP_DROP OP_DUP OP_PICK OP_ROLL OP_SWAP
OP_CAT OP_SIZE OP_EQUAL OP_EQUALVERIFY OP_RESERVED1
OP_1ADD OP_2MUL OP_NEGATE OP_NOT OP_0NOTEQUAL OP_ADD OP_NUMEQUALVERIFY OP_WITHIN
OP_HASH160 OP_CODESEPARATOR OP_CHECKSIG OP_CHECKSIGVERIFY OP_CHECKMULTISIG
OP_NOP1 OP_CLTV OP_CSV OP_NOP10""".split()

DEPTH3_NAMES = """OP_0 OP_1NEGATE OP_1 OP_2 push(ffffffff7f) push(0100) push(05)!min
OP_RESERVED OP_VERIF OP_IF OP_NOTIF OP_ELSE OP_ENDIF OP_VERIFY OP_RETURN
OP_TOALTSTACK OP_FROMALTSTACK OP_DROP OP_DUP OP_PICK OP_ROLL OP_SWAP OP_CAT OP_SIZE OP_EQUALVERIFY
OP_1ADD OP_ADD OP_NOT OP_WITHIN OP_CODESEPARATOR OP_CHECKSIG OP_CHECKMULTISIG OP_NOP1 OP_CLTV""".split()


def sub_alphabet(names):
    f = dict(full_alphabet())
    return [(n, f[n]) for n in names]


# initial stacks (bottom -> top), hex items
STACKS_QUICK = [(), ("",), ("01",), ("81",), ("0100",), ("ffffffff7f",),
                ("01", "01"), ("02", ""), ("", "01"), ("0100", "01")]
STACKS_THOROUGH = [(), ("",), ("01",), ("02",), ("00",), ("81",), ("0100",), ("ffffff7f",),
                   ("ffffffff7f",), ("01", "01"), ("02", ""), ("", "01"), ("0100", "01"), ("01", "0100"),
                   ("81", ""), ("ffffffff7f", "01")]
STACKS_DEPTH3 = [(), ("01",), ("01", "")]
# flag lists: standard, plus modifications of flags that matter to signature-free scripts
FLAGLISTS = ["",
             "-MINIMALDATA",
             "-DISCOURAGE_UPGRADABLE_NOPS,-CHECKLOCKTIMEVERIFY,-CHECKSEQUENCEVERIFY",
             "-STRICTENC,-DERSIG,-LOW_S,-NULLFAIL,-NULLDUMMY,-CONST_SCRIPTCODE"]
STACKS_FLAGS_QUICK = {"-MINIMALDATA": [(), ("0100",)], None: [()]}
STACKS_FLAGS_THOROUGH = {None: [(), ("0100",), ("01", "01")]}

DEBUG_AREAS = ["sighash", "signing", "segwit", "taproot"]
DELIVERIES = ["stdin-line/stdout-pipe", "stdin-line/stdout-pty", "argv/stdin-pty/stdout-pipe",
              # the same line with other terminators: CR LF, none at all (end of input), LF followed by further lines
              "stdin-line-crlf/stdout-pipe", "stdin-line-noeol/stdout-pipe", "stdin-line-more-lines/stdout-pipe"]
LINE_END = {"stdin-line": "\n", "stdin-line-crlf": "\r\n", "stdin-line-noeol": "", "stdin-line-more-lines": "\nOP_RETURN\n\n"}


def option_variants():
    v = [("none", [], {}), ("-q", ["-q"], {})]
    for r in range(1, 5):
        for sub in itertools.combinations(DEBUG_AREAS, r):
            v.append(("--debug=" + ",".join(sub), ["--debug=" + ",".join(sub)], {}))
    for a in DEBUG_AREAS:
        for val in ("1", "0"):
            v.append(("env:DEBUG_%s=%s" % (a.upper(), val), [], {"DEBUG_" + a.upper(): val}))
    return v


# ------------------------------------------------------------------------------------------- running one case
def flag_opts(fl):
    return ["-f" + fl] if fl else []


def first_error_line(err):
    for line in err.split("\n"):
        if line.startswith("error: "):
            return line[7:]
    return None


def slug(s, n=48):
    out = "".join(ch if ch.isalnum() else "-" for ch in (s or "").lower())
    while "--" in out:
        out = out.replace("--", "-")
    return out.strip("-")[:n]


def _arg(s):
    """a stack argument: hex by default; '@text' is passed as written (inline functions, decimal numbers)"""
    return s[1:] if s.startswith("@") else "0x" + s


def run_batch(bdir, cwd, delivery, xargs, xenv, pre, script_hex, stack):
    """pre: option arguments that belong to the case itself (-f…, --tx=…). script_hex None = no script (auto-config)."""
    exe = os.path.join(bdir, "btcdeb")
    sargs = [_arg(s) for s in stack]
    sc = ("0x" + script_hex) if script_hex is not None else None
    if delivery.startswith("stdin-line"):
        line = ((sc or "") + LINE_END[delivery.split("/")[0]]).encode()
        return pu.run_proc([exe] + xargs + pre + sargs, data=line, stdin="pipe",
                           stdout="pty" if delivery.endswith("stdout-pty") else "pipe", env=xenv, cwd=cwd)
    return pu.run_proc([exe] + xargs + pre + ([sc] if sc is not None else []) + sargs, stdin="pty", stdout="pipe",
                       env=xenv, cwd=cwd)


def run_tty(bdir, cwd, pre, script_hex, stack, nsteps):
    """forced-interactive session: nsteps x step, then stack. Returns (proc result, first error text | None,
    stack bottom->top | None)."""
    exe = os.path.join(bdir, "btcdeb_tty")
    argv = [exe] + pre + (["0x" + script_hex] if script_hex is not None else []) + [_arg(s) for s in stack]
    ncmd = nsteps + 1
    # a leading blank keeps kerl from appending the command to .btcdeb_history
    t = pu.run_proc(argv, data=(" step\n" * nsteps + " stack\n").encode(), cwd=cwd)
    terr = first_error_line(t["err"])
    segs = t["out"].split("btcdeb> ")
    tstack = None
    if len(segs) == ncmd + 2:
        body = segs[ncmd]
        if body.strip() == "- empty stack -":
            tstack = []
        else:
            items = []
            good = True
            for ln in body.split("\n"):
                if ln == "":
                    continue
                f = ln.split("\t")
                if len(f) < 2 or not (f[0].startswith("<") and f[0].endswith(">")):
                    good = False
                    break
                items.append(f[1])
            if good:
                tstack = items[::-1]
    return t, terr, tstack


def describe(case):
    script, names, stack, fl = case
    return "script=[%s] (0x%s) stack=[%s] flags=%s" % (" ".join(names), script, " ".join("0x" + s for s in stack),
                                                      ("standard," + fl) if fl else "standard")


def judge_batch(ref_ok, ref_err, exp_stack, b, last_op):
    """Oracle for one batch run. Returns (outcome-class, [(key, what)], errtext)."""
    rows = []
    errtext = None
    if b["hang"]:
        return "hang", [("hang:batch", "no exit within %.0f s" % pu.TIMEOUT)], None
    cc = pu.crash_class(b)
    if cc:
        return "crash:" + cc, [("abnormal-exit:" + cc, "terminated by %s; reference outcome %s; stderr: %s" % (
            b["sig"], "ok" if ref_ok else ref_err, b["err"].strip()[:200]))], None
    if b["rc"] not in (0, 1):
        return "exit:%d" % b["rc"], [("exit-status:%d" % b["rc"], "exit status %d; stderr: %s" % (b["rc"], b["err"][:200]))], None
    errtext = first_error_line(b["err"])
    if ref_ok:
        exp = "".join(h + "\n" for h in exp_stack)
        if b["rc"] != 0:
            rows.append(("outcome-differs:ref=ok:impl=error(%s)" % slug(errtext or b["err"]),
                         "reference succeeds with stack %s; btcdeb exit 1, stderr %r" % (exp_stack, b["err"][:200])))
            oc = "fail-unexpected"
        else:
            oc = "ok:" + ("empty-stack" if not exp_stack else "has-empty-element" if "" in exp_stack else "stack")
            if b["out"] != exp:
                got = b["out"].split("\n")[:-1] if b["out"].endswith("\n") else b["out"].split("\n")
                if got == exp_stack[::-1] and got != exp_stack:
                    cls = "order-reversed"
                elif b["out"].lower() == exp:
                    cls = "not-lowercase"
                elif [g for g in got if g] == [e for e in exp_stack if e]:
                    cls = "empty-element"
                elif sorted(got) == sorted(exp_stack):
                    cls = "order"
                else:
                    cls = "content:last-op=" + last_op
                rows.append(("stdout-differs:" + cls, "expected stdout %r, got %r" % (exp, b["out"][:300])))
    else:
        if b["rc"] == 0:
            if errtext is not None:
                rows.append(("exit-0-despite-error-line", "btcdeb reports 'error: %s' on stderr but exits 0 (reference: %s)" % (errtext, ref_err)))
            else:
                rows.append(("outcome-differs:ref=%s:impl=ok" % ref_err,
                             "reference fails with %s; btcdeb exit 0, stdout %r" % (ref_err, b["out"][:200])))
            oc = "ok-unexpected"
        else:
            oc = "fail:" + ref_err
            if errtext is None:
                rows.append(("no-error-line:ref=" + ref_err, "exit 1 without an 'error: ...' line on stderr: %r" % b["err"][:200]))
    return oc, rows, errtext


def judge_vs_tty(b, errtext, t, terr, tstack):
    rows = []
    if t["hang"]:
        return [("hang:interactive", "forced-interactive session did not end within %.0f s" % pu.TIMEOUT)]
    tcc = pu.crash_class(t)
    if tcc and terr is None:
        return [("interactive-session-died:" + tcc, "btcdeb_tty terminated by %s before reporting an error; stderr %r" % (t["sig"], t["err"][-200:]))]
    if b["hang"] or pu.crash_class(b) or b["rc"] not in (0, 1):
        return rows
    if b["rc"] == 0:
        got = b["out"].split("\n")[:-1]
        if terr is not None and terr == errtext:
            pass    # batch printed the same error line but exited 0: reported by the batch oracle
        elif terr is not None:
            rows.append(("batch-vs-interactive:batch=ok:interactive=error(%s)" % slug(terr),
                         "batch exit 0 stdout %r but stepping reports 'error: %s'" % (b["out"][:200], terr)))
        elif tstack is None:
            rows.append(("batch-vs-interactive:unparsable-session", "could not read the stack from the session: %r" % t["out"][-300:]))
        elif tstack != got:
            rows.append(("batch-vs-interactive:stack", "batch prints %s, stepping reaches %s (bottom->top)" % (got, tstack)))
    else:
        if terr is None:
            rows.append(("batch-vs-interactive:batch=error(%s):interactive=ok" % slug(errtext),
                         "batch reports %r, stepping reports no error" % errtext))
        elif errtext is not None and terr != errtext:
            rows.append(("batch-vs-interactive:error-text:batch=%s" % slug(errtext),
                         "batch 'error: %s' vs stepping 'error: %s'" % (errtext, terr)))
    return rows


def check_case(bdir, cwd, case):
    script, names, stack, fl = case
    mods = fl.split(",") if fl else []
    fint = pu.flags_int(pu.apply_flag_list(mods))
    ref = pu.refcli(bdir).run(0, fint, 0, script, list(stack))
    if ref["refused"]:
        raise RuntimeError("alphabet produced an out-of-domain script: " + script)
    pre = flag_opts(fl)
    b = run_batch(bdir, cwd, DELIVERIES[0], [], {}, pre, script, stack)
    oc, rows, errtext = judge_batch(ref["ok"], ref["err"], ref.get("stack", []), b, names[-1])
    t, terr, tstack = run_tty(bdir, cwd, pre, script, stack, len(names) + 1)
    rows += judge_vs_tty(b, errtext, t, terr, tstack)
    if oc.startswith("crash:") and rows:
        k, w = rows[0]
        rows[0] = (k, w + " | interactive stepping reports: %s" % (("error: " + terr) if terr else "no error"))
    base = {"rc": b["rc"], "sig": b["sig"], "out": b["out"], "errtext": errtext, "cc": pu.crash_class(b)}
    return oc, rows, base, ref["err"] if not ref["ok"] else "OK", terr


def work_chunk(a):
    bdir, scratch, cases = a
    cwd = os.path.join(scratch, "w%d" % os.getpid())
    os.makedirs(cwd, exist_ok=True)
    hist = {}
    vrows = []
    reps = {}
    fmap = {}
    samples = []
    nproc = 0
    tty_post_error_crashes = 0
    for case in cases:
        if pu.hang_abort(scratch):
            hist["skipped-after-hangs"] = hist.get("skipped-after-hangs", 0) + 1
            continue
        oc, rows, base, referr, terr = check_case(bdir, cwd, case)
        nproc += 2
        if any(k.startswith("hang:") for k, _ in rows):
            pu.hang_abort(scratch, True)
        hist[oc] = hist.get(oc, 0) + 1
        order = (len(case[1]), len(case[2]), case[3], case[0], case[2])
        for k, w in rows:
            vrows.append((k, describe(case) + ": " + w, {"kind": "case", "case": case}, repr(order)))
        r = reps.setdefault(oc, [])
        r.append((order, case, base))
        r.sort(key=lambda x: x[0])
        del r[3:]
        if base["errtext"] is not None and referr not in ("OK", "UNKNOWN_ERROR"):
            fmap.setdefault(referr, {}).setdefault(base["errtext"], (order, case))
            if order < fmap[referr][base["errtext"]][0]:
                fmap[referr][base["errtext"]] = (order, case)
        if len(samples) < 2:
            samples.append("%s -> %s exit=%s stdout=%r%s" % (describe(case), oc, base["sig"] or base["rc"], base["out"][:60],
                                                            (" error=%r" % base["errtext"]) if base["errtext"] else ""))
    return hist, vrows, reps, fmap, samples, nproc, len(cases)


# ------------------------------------------------------------------------------------------- variants (delivery x options)
def check_variants(a):
    """one representative case (or tx case) under every delivery x option variant; compared with its baseline"""
    bdir, scratch, rep = a
    cwd = os.path.join(scratch, "w%d" % os.getpid())
    os.makedirs(cwd, exist_ok=True)
    pre, script, stack, base, label = rep["pre"], rep["script"], rep["stack"], rep["base"], rep["label"]
    rows = []
    n = 0
    diffs = {}
    names = {"out": "stdout", "rc": "exit-status", "sig": "signal", "errtext": "error-line", "cc": "crash-class"}
    for d in DELIVERIES:
        for oname, xargs, xenv in option_variants():
            if pu.hang_abort(scratch):
                continue
            b = run_batch(bdir, cwd, d, xargs, xenv, pre, script, stack)
            n += 1
            if b["hang"]:
                pu.hang_abort(scratch, True)
                rows.append(("hang:batch:%s" % d, "%s under %s %s: no exit" % (label, d, oname),
                             {"kind": "variant", "rep": rep, "delivery": d, "option": oname}, label))
                continue
            got = {"rc": b["rc"], "sig": b["sig"], "out": b["out"], "errtext": first_error_line(b["err"]), "cc": pu.crash_class(b)}
            for f in ("sig", "rc", "out", "errtext", "cc"):
                if got[f] != base[f]:
                    diffs[(d, oname)] = (names[f], "%s: %s differs under delivery=%s option=%s: baseline %r, got %r" % (
                        label, names[f], d, oname, base[f], got[f]))
                    break
    for (d, oname), (field, what) in sorted(diffs.items()):
        oclass = oname
        if oname.startswith("--debug=") and "," in oname:
            # a multi-area list is attributed to the single areas that show the same difference on their own
            culprits = [x for x in oname[8:].split(",") if diffs.get((d, "--debug=" + x), (None,))[0] == field]
            if culprits:
                oclass = "--debug=" + "+".join(culprits)
        rows.append(("option-variance:%s:%s:%s" % (d, oclass, field), what,
                     {"kind": "variant", "rep": rep, "delivery": d, "option": oname}, label + oname))
    return rows, n


EMPTY_STDIN_STACKS = [[], ["51"], ["51", "52"], ["00"], ["6a", "01"], ["@2", "@3"], ["69", "@0"], ["0100"], ["aabbcc", "51", "@17"], ["@[OP_VERIFY]", "@0"]]


def check_empty_stdin(bdir, scratch):
    """stdin is a pipe at end of input (</dev/null): there is no script text, exactly as with a blank line - the stack arguments stay stack
    arguments (none of them may be taken for the script). Differential: EOF delivery == blank-line delivery, for every stack list x {-, -q}."""
    cwd = os.path.join(scratch, "e%d" % os.getpid())
    os.makedirs(cwd, exist_ok=True)
    exe = os.path.join(bdir, "btcdeb")
    rows, n = [], 0
    for stack in EMPTY_STDIN_STACKS:
        for opt in ([], ["-q"]):
            argv = [exe] + opt + [_arg(x) for x in stack]
            got = []
            for data in (b"\n", b""):
                b = pu.run_proc(argv, data=data, stdin="pipe", stdout="pipe", cwd=cwd)
                n += 1
                got.append({"hang": b["hang"], "rc": b["rc"], "sig": b["sig"], "out": b["out"], "errtext": first_error_line(b["err"])})
            if got[0] != got[1]:
                f = [k for k in ("hang", "sig", "rc", "out", "errtext") if got[0][k] != got[1][k]][0]
                rows.append(("empty-stdin-differs-from-blank-line:%s" % f, "btcdeb %s with stdin at end of input: %s %r; with a blank line on stdin: %r (no script text in both cases)"
                             % (" ".join(opt + [_arg(x) for x in stack]), f, got[1][f], got[0][f]), {"kind": "empty-stdin", "stack": stack, "opt": opt}, "empty-stdin" + " ".join(stack) + "".join(opt)))
    return rows, n


def check_verbose(a):
    bdir, scratch, rep = a
    cwd = os.path.join(scratch, "w%d" % os.getpid())
    os.makedirs(cwd, exist_ok=True)
    rows = []
    n = 0
    for d in DELIVERIES:
        for opt in ("-v", "--verbose"):
            b = run_batch(bdir, cwd, d, [opt], {}, rep["pre"], rep["script"], rep["stack"])
            n += 1
            rp = {"kind": "verbose", "rep": rep, "delivery": d, "option": opt}
            if b["hang"]:
                rows.append(("hang:batch:verbose", "%s %s %s" % (rep["label"], d, opt), rp, rep["label"]))
            elif b["sig"] or b["rc"] == 0 or b["out"] != "" or b["err"].strip() == "":
                rows.append(("verbose-not-refused:%s" % d, "%s with %s under %s: exit=%s stdout=%r stderr=%r (expected: non-zero exit, a message, nothing executed)" % (
                    rep["label"], opt, d, b["sig"] or b["rc"], b["out"][:100], b["err"][:100]), rp, rep["label"]))
    return rows, n


# ------------------------------------------------------------------------------------------- --tx slice
SEGWIT_TX = "010000000001019086ce64fce1bb086395faf6fac37c73f32ba4ea89330432bf8ee8035e9315aa0100000000ffffffff021353b9030000000017a914c3f413d0918853a8e23766678d2e3c2e5c8138bb8725e4973100000000220020701a8d401c84fb13e6baf169d59684e17abd9fa216c8cc5b9fc63d622ff8c58d040047304402207f874ef00f11dcc9a621acad9354f3fca1bf90c43878f607b7e2d358088487e7022052a01b47b8eef5e1c96a6affdc3dac46fdc11b60612464dc8c5921a852090d2701483045022100c56ab2abb17fdf565417228763bc9f2940a6465042fd62fbd9f4c7406345d7f702201cb1a56b45181f8347713627b325ec5df48fc1aee6bdaf937cbb804d7409b10c016952210375e00eb72e29da82b89367947f29ef34afb75e8654f6ea368e0acdfd92976b7c2103a1b26313f430c4b15bb1fdce663207659d8cac749a0e53d70eff01874496feff2103c96d495bfdd5ba4145e3e046fee45e84a8a48ad05bd8dbb395c011a32cf9f88053ae00000000"
SEGWIT_AMT = "8.947024"
SEGWIT_SCRIPT = "52210375e00eb72e29da82b89367947f29ef34afb75e8654f6ea368e0acdfd92976b7c2103a1b26313f430c4b15bb1fdce663207659d8cac749a0e53d70eff01874496feff2103c96d495bfdd5ba4145e3e046fee45e84a8a48ad05bd8dbb395c011a32cf9f88053ae"
SEGWIT_SIG1 = "304402207f874ef00f11dcc9a621acad9354f3fca1bf90c43878f607b7e2d358088487e7022052a01b47b8eef5e1c96a6affdc3dac46fdc11b60612464dc8c5921a852090d2701"
SEGWIT_SIG1_BAD = "304502207f874ef00f11dcc9a621acad9354f3fca1bf90c43878f607b7e2d358088487e7022052a01b47b8eef5e1c96a6affdc3dac46fdc11b60612464dc8c5921a852090d2701"
SEGWIT_SIG2 = "3045022100c56ab2abb17fdf565417228763bc9f2940a6465042fd62fbd9f4c7406345d7f702201cb1a56b45181f8347713627b325ec5df48fc1aee6bdaf937cbb804d7409b10c01"


def _legacy_first_input(txhex):
    """(scriptSig pushes) of input 0 of a non-witness transaction"""
    b = bytes.fromhex(txhex)
    p = 4
    assert b[p] != 0, "witness serialisation not expected here"
    nin = b[p]; p += 1
    assert nin >= 1
    p += 36
    sl = b[p]; p += 1
    ss = b[p:p + sl]
    items = []
    q = 0
    while q < len(ss):
        n = ss[q]; q += 1
        assert 1 <= n <= 75
        items.append(ss[q:q + n].hex()); q += n
    return items


GEN_TX_LABELS = ["p2wsh-checksig long script", "p2tr-script long script", "p2sh-p2wsh", "p2sh-multisig", "multisig", "p2tr-key annex", "p2tr-script path=2 annex", "p2wpkh",
                 # multi-signature spends with two different hash types in a two-input transaction: several digests are derived in one run
                 "p2wsh signatures with hash types 81,01", "p2wsh signatures with hash types 01,81", "p2wsh signatures with hash types 83,02",
                 "p2sh-multisig signatures with hash types 81,01", "p2sh-p2wsh signatures with hash types 01,03"]


def gen_tx_cases(bdir):
    """valid spends synthesised by mc_gen (reference model), auto-configured: output types doc/txs lacks, scripts longer than 256 bytes"""
    import json
    r = subprocess.run([os.path.join(bdir, "mc_gen"), "plans"], stdout=subprocess.PIPE, stderr=subprocess.DEVNULL, text=True, timeout=120)
    out = []
    for line in r.stdout.splitlines():
        if not line.strip():
            continue
        p = json.loads(line)
        if p["label"] in GEN_TX_LABELS and p["valid"]:
            out.append(dict(label="tx:gen:" + p["label"], pre=["--tx=" + p["tx"], "--txin=" + p["txin"]], script=None, stack=[], expect=("ok", ["01"]), fl=""))
    # spends whose verdict depends on what one script hands over to the next (open conditionals, alt stack): the reference verdict of the
    # input (consensus rules: every script closes its own conditionals, the alt stack does not survive a script) is the expectation
    r = subprocess.run([os.path.join(bdir, "mc_gen"), "plans", "--set", "handover"], stdout=subprocess.PIPE, stderr=subprocess.DEVNULL, text=True, timeout=120)
    n = 0
    for line in r.stdout.splitlines():
        if not line.strip():
            continue
        p = json.loads(line)
        n += 1
        pre = ["--tx=" + p["tx"], "--txin=" + p["txin"]]
        fl = ""
        if not (p["flags"] >> 8) & 1:
            pre, fl = ["-f-CLEANSTACK"] + pre, "-CLEANSTACK"
        if p["valid"] and "without CLEANSTACK" in p["label"]:
            continue      # the final stack of a valid spend that is not clean is not fixed here
        out.append(dict(label="tx:" + p["label"], pre=pre, script=None, stack=[], expect=("fixed", p["valid"], p["err"], ["01"]), fl=fl))
    if n < 10:
        raise RuntimeError("mc_gen plans --set handover produced %d cases" % n)
    return out


def inline_cases():
    """stack arguments written with inline functions / as decimal numbers: what reaches the stack is the function's value, and nothing but
    the final stack goes to stdout"""
    prog = "751e76e8199196d454941c45d1b3a323f1433bd6"
    return [
        dict(label="arg:bech32dec", pre=[], script="51", stack=["@bech32dec(bc1qw508d6qejxtdg4y5r3zarvary0c5xw7kv8f3t4)"], expect=("ok", [prog, "01"]), fl=""),
        dict(label="arg:sha256", pre=[], script="51", stack=["@sha256(0x01)"], expect=("ok", ["4bf5122f344554c53bde2ebb8cd2b7e3d1600ad631c385a5d7cce23c7785459a", "01"]), fl=""),
        dict(label="arg:decimal", pre=[], script="93", stack=["@7", "@300"], expect=("ok", ["3301"]), fl=""),
        # stack items longer than a script may push (arguments are not subject to the 520-byte push limit): printed in full
        dict(label="arg:521-byte-item", pre=[], script="61", stack=["ab" * 521], expect=("ok", ["ab" * 521]), fl=""),
        dict(label="arg:700-byte-item", pre=[], script="82", stack=["cd" * 700], expect=("ok", ["cd" * 700, "bc02"]), fl=""),
        dict(label="arg:5000-byte-item", pre=[], script="61", stack=["01", "ef" * 5000], expect=("ok", ["01", "ef" * 5000]), fl=""),
        dict(label="arg:reverse", pre=[], script="51", stack=["@reverse(0x010203)"], expect=("ok", ["030201", "01"]), fl=""),
        dict(label="arg:base58chkdec", pre=[], script="51", stack=["@base58chkdec(1BgGZ9tcN4rm9KBzDn7KprQz87SZ26SAMH)"], expect=("ok", ["00751e76e8199196d454941c45d1b3a323f1433bd6", "01"]), fl=""),
    ]


def tx_cases(repo):
    tx = open(os.path.join(repo, "doc/txs/p2pkh-tx")).read().strip()
    txin = open(os.path.join(repo, "doc/txs/p2pkh-in")).read().strip()
    sig, pub = _legacy_first_input(tx)
    spk = "76a91443849383122ebb8a28268a89700c9f723663b5b888ac"
    assert spk in txin
    bad = sig[:-4] + ("b9" if sig[-4:-2] != "b9" else "b7") + sig[-2:]   # last byte of S changed: still DER, still low-S
    # expect: ("ok", [stack]) fixed by a confirmed main-chain spend / the repository's own signing test, or
    #         ("ref", sigversion) = ask the reference without a transaction: a signature that is not valid for the
    #         transaction behaves exactly like "no transaction" (every check fails)
    return [
        dict(label="tx:p2pkh-auto", pre=["--tx=" + tx, "--txin=" + txin], script=None, stack=[], expect=("ok", ["01"]), fl=""),
        dict(label="tx:p2pkh-explicit", pre=["--tx=" + tx], script=spk, stack=[sig, pub], expect=("ok", ["01"]), fl=""),
        dict(label="tx:p2pkh-badsig", pre=["--tx=" + tx], script=spk, stack=[bad, pub], expect=("ref", 0), fl=""),
        dict(label="tx:p2pkh-badsig-nullfail-off", pre=["--tx=" + tx, "-f-NULLFAIL"], script=spk, stack=[bad, pub], expect=("ref", 0), fl="-NULLFAIL"),
        dict(label="tx:p2wsh-multisig", pre=["--tx=%s:%s" % (SEGWIT_AMT, SEGWIT_TX)], script=SEGWIT_SCRIPT, stack=["", SEGWIT_SIG1, SEGWIT_SIG2], expect=("ok", ["01"]), fl=""),
        dict(label="tx:p2wsh-multisig-badsig", pre=["--tx=%s:%s" % (SEGWIT_AMT, SEGWIT_TX)], script=SEGWIT_SCRIPT, stack=["", SEGWIT_SIG1_BAD, SEGWIT_SIG2], expect=("ref", 1), fl=""),
    ]


def check_tx_case(a):
    bdir, scratch, tc = a
    cwd = os.path.join(scratch, "w%d" % os.getpid())
    os.makedirs(cwd, exist_ok=True)
    if tc["expect"][0] == "ok":
        ref_ok, ref_err, exp = True, "OK", tc["expect"][1]
    elif tc["expect"][0] == "fixed":
        ref_ok, ref_err, exp = tc["expect"][1], tc["expect"][2], tc["expect"][3]
    else:
        fint = pu.flags_int(pu.apply_flag_list(tc["fl"].split(",") if tc["fl"] else []))
        r = pu.refcli(bdir).run(tc["expect"][1], fint, 0, tc["script"], tc["stack"])
        ref_ok, ref_err, exp = r["ok"], r["err"], r.get("stack", [])
    b = run_batch(bdir, cwd, DELIVERIES[0], [], {}, tc["pre"], tc["script"], tc["stack"])
    oc, rows, errtext = judge_batch(ref_ok, ref_err, exp, b, "tx")
    t, terr, tstack = run_tty(bdir, cwd, tc["pre"], tc["script"], tc["stack"], 30)
    rows += judge_vs_tty(b, errtext, t, terr, tstack)
    base = {"rc": b["rc"], "sig": b["sig"], "out": b["out"], "errtext": errtext, "cc": pu.crash_class(b)}
    rp = {"kind": "tx", "tc": tc}
    return oc, [(k, tc["label"] + ": " + w, rp, tc["label"]) for k, w in rows], base


# ------------------------------------------------------------------------------------------- enumeration
def enumerate_cases(tier):
    cases = []
    seen = set()

    def add(syms, stack, fl):
        script = "".join(h for _, h in syms)
        k = (script, stack, fl)
        if k in seen:
            return
        seen.add(k)
        cases.append((script, tuple(n for n, _ in syms), stack, fl))

    if tier == "quick":
        A = sub_alphabet(QUICK_NAMES)
        std_stacks, fl_stacks = STACKS_QUICK, STACKS_FLAGS_QUICK
    else:
        A = full_alphabet()
        std_stacks, fl_stacks = STACKS_THOROUGH, STACKS_FLAGS_THOROUGH
    scripts = [(s,) for s in A] + [(s, t) for s in A for t in A]
    for sc in scripts:
        for st in std_stacks:
            add(sc, st, "")
        for fl in FLAGLISTS[1:]:
            for st in fl_stacks.get(fl, fl_stacks[None]):
                add(sc, st, fl)
    bounds = {"alphabet_symbols": len(A), "max_script_symbols": 2, "scripts": len(scripts),
              "stacks_standard_flags": len(std_stacks), "flag_lists": FLAGLISTS, "stacks_per_modified_flag_list": {(k or "other"): [list(x) for x in v] for k, v in fl_stacks.items()}}
    if tier != "quick":
        A3 = sub_alphabet(DEPTH3_NAMES)
        n3 = 0
        for sc in itertools.product(A3, repeat=3):
            n3 += 1
            for st in STACKS_DEPTH3:
                add(sc, st, "")
        bounds.update({"depth3_alphabet_symbols": len(A3), "depth3_scripts": n3, "depth3_stacks": len(STACKS_DEPTH3)})
    return cases, bounds


REQUIRED_CLASSES = ["fail:VERIFY", "fail:EQUALVERIFY", "fail:OP_RETURN", "fail:BAD_OPCODE", "fail:DISABLED_OPCODE",
                    "fail:INVALID_STACK_OPERATION", "fail:INVALID_ALTSTACK_OPERATION", "fail:UNBALANCED_CONDITIONAL",
                    "fail:MINIMALDATA", "fail:DISCOURAGE_UPGRADABLE_NOPS", "fail:NEGATIVE_LOCKTIME", "fail:UNSATISFIED_LOCKTIME",
                    "fail:PUBKEY_COUNT", "fail:SIG_COUNT", "ok:stack", "ok:empty-stack", "ok:has-empty-element"]


def run(ctx):
    t0 = time.time()
    bdir = ctx.bdir
    scratch = tempfile.mkdtemp(prefix="c08.", dir=bdir)
    V = pu.Violations()
    try:
        cases, bounds = enumerate_cases(ctx.tier)
        if ctx.seed:
            random.Random(ctx.seed).shuffle(cases)
        CH = 250
        chunks = [(bdir, scratch, cases[i:i + CH]) for i in range(0, len(cases), CH)]
        hist, reps, fmap, samples = {}, {}, {}, []
        nproc = 0
        ncmp = 0
        with Pool(os.cpu_count()) as pool:
            for h, vrows, r, fm, smp, n, nc in pool.imap_unordered(work_chunk, chunks, 1):
                for k, c in h.items():
                    hist[k] = hist.get(k, 0) + c
                V.merge_rows(vrows)
                for oc, lst in r.items():
                    cur = reps.setdefault(oc, [])
                    cur.extend(lst)
                    cur.sort(key=lambda x: x[0])
                    del cur[3:]
                for e, d in fm.items():
                    for txt, (o, c) in d.items():
                        cur = fmap.setdefault(e, {})
                        if txt not in cur or o < cur[txt][0]:
                            cur[txt] = (o, c)
                if len(samples) < 8:
                    samples.extend(smp[:1])
                nproc += n
                ncmp += nc
            t_main = time.time() - t0
            # -- one reference error class must map to one message text
            for e, d in sorted(fmap.items()):
                if len(d) > 1:
                    ex = sorted(d.items(), key=lambda kv: kv[1][0])
                    V.add("error-text-ambiguous:ref=" + e, "failures of reference class %s are reported with %d different texts: %s" % (
                        e, len(d), "; ".join("%r for %s" % (t, describe(c)) for t, (o, c) in ex[:3])), {"kind": "case", "case": ex[-1][1][1]})
            # -- --tx slice
            tcs = tx_cases(ctx.repo) + gen_tx_cases(bdir) + inline_cases()
            txres = pool.map(check_tx_case, [(bdir, scratch, tc) for tc in tcs], 1)
            tx_hist = {}
            rep_list = []
            for tc, (oc, rows, base) in zip(tcs, txres):
                tx_hist[tc["label"]] = oc
                hist["tx:" + oc] = hist.get("tx:" + oc, 0) + 1
                V.merge_rows(rows)
                nproc += 2
                ncmp += 1
                rep_list.append({"label": tc["label"], "pre": tc["pre"], "script": tc["script"], "stack": tc["stack"], "base": base})
            # -- representative subset: up to 2 smallest cases of every outcome class (3 for the big classes), <= ~60
            for oc in sorted(reps):
                take = 3 if oc in ("ok:stack", "ok:empty-stack", "ok:has-empty-element") or oc.startswith("crash:") else 2
                for order, case, base in reps[oc][:take]:
                    rep_list.append({"label": describe(tuple(case)), "pre": flag_opts(case[3]), "script": case[0], "stack": list(case[2]), "base": base})
            n_rep = len(rep_list)
            nvar = 0
            for rows, n in pool.imap_unordered(check_variants, [(bdir, scratch, r) for r in rep_list], 1):
                V.merge_rows(rows)
                nvar += n
            # -- --verbose refused: one representative per coarse class + the tx cases
            vreps = []
            for want in ("ok:stack", "fail:VERIFY", "crash:"):
                for oc in sorted(reps):
                    if oc.startswith(want) and reps[oc]:
                        order, case, base = reps[oc][0]
                        vreps.append({"label": describe(tuple(case)), "pre": flag_opts(case[3]), "script": case[0], "stack": list(case[2])})
                        break
            vreps += [{"label": r["label"], "pre": r["pre"], "script": r["script"], "stack": r["stack"]} for r in rep_list[:2]]
            nverb = 0
            for rows, n in pool.imap_unordered(check_verbose, [(bdir, scratch, r) for r in vreps], 1):
                V.merge_rows(rows)
                nverb += n
            rows, n_empty_stdin = check_empty_stdin(bdir, scratch)
            V.merge_rows(rows)
            nproc += n_empty_stdin
    finally:
        shutil.rmtree(scratch, ignore_errors=True)
    crashes = sum(c for k, c in hist.items() if k.startswith("crash:"))
    missing = [c for c in REQUIRED_CLASSES if c not in hist]
    has_exc_path = any(k.startswith("crash:") or k == "fail:UNKNOWN_ERROR" for k in hist)
    vac = []
    if missing:
        vac.append("outcome classes never reached: " + ",".join(missing))
    if not has_exc_path:
        vac.append("no script reached a C++-exception path (reference UNKNOWN_ERROR)")
    if len(tx_hist) != len(tcs):
        vac.append("tx slice did not run")
    cov = {
        "states": len(cases) + len(tcs),
        "transitions": nproc + nvar + nverb,
        "traces_validated_against_impl": ncmp,
        "samples": samples[:8] or ["(none)"],
        "exhaustive": not hist.get("skipped-after-hangs", 0),
        "skipped_after_hangs": hist.get("skipped-after-hangs", 0),
        "bounds": dict(bounds, **{
            "main_pass": "every (script, stack, flag list) case: batch btcdeb (script on stdin, stdout a pipe, no options) + forced-interactive stepping + reference",
            "variant_pass": "%d representative cases (<=3 smallest of every outcome class + %d --tx cases) x %d deliveries x %d option variants; NOT the full case set" % (n_rep, len(tcs), len(DELIVERIES), len(option_variants())),
            "deliveries": DELIVERIES, "option_variants": [o[0] for o in option_variants()],
            "verbose_refusal_runs": nverb, "tx_slice": [tc["label"] for tc in tcs], "timeout_s": pu.TIMEOUT}),
        "cases_main_pass": len(cases), "process_runs_main_pass": nproc, "process_runs_variants": nvar, "process_runs_verbose": nverb,
        "representatives": n_rep,
        "distinct_outcomes": len(hist), "outcome_histogram": dict(sorted(hist.items())),
        "distinct_error_classes": len([k for k in hist if k.startswith("fail:")]),
        "distinct_error_texts": len({t for d in fmap.values() for t in d}),
        "crashes": crashes, "tx_slice_outcomes": tx_hist,
        "wall_main_pass_s": round(t_main, 1), "wall_s_driver": round(time.time() - t0, 1),
        "explanation": "traces_validated_against_impl counts cases whose batch result was compared with the reference outcome/final stack AND with the forced-interactive session stepped to the same point",
    }
    return dict(level="model_checking", coverage=cov, violations=V.out(),
                assumptions=[
                    "an empty stack element is printed as an empty line (the lowercase hex of zero bytes)",
                    "success means the script ran to its end without a script error; a false top element still exits 0 (the statement does not ask for the final truth test)",
                    "stdout on failure is not constrained (btcdeb prints its stack/script table there); only exit status 1 and the 'error: ' line on stderr are",
                    "the error text is compared with the interactive session's text (implementation vs implementation); the reference decides whether the script fails, and one reference error class must map to one text",
                    "scripts are signature-free except the --tx slice (two real spends from doc/txs and test/signing.cpp, valid and with one corrupted signature); OP_CHECKSIGADD (0xba) is excluded (open C01 finding); 520-byte pushes are excluded (stdin line buffer)",
                    "delivery x option invariance is checked on the representative subset only, not on every case",
                    "empty stdin is never fed (C15)",
                ],
                summary="%d cases, %d process runs, %d outcome classes, %d crashes" % (len(cases) + len(tcs), nproc + nvar + nverb, len(hist), crashes),
                infra_error="; ".join(vac) if (vac and not V.d) else None)


# ------------------------------------------------------------------------------------------- replay
def _replay_once(ctx, scratch, rp):
    a = (ctx.bdir, scratch, None)
    if rp["kind"] == "case":
        c = rp["case"]
        case = (c[0], tuple(c[1]), tuple(c[2]), c[3])
        oc, rows, base, referr, terr = check_case(ctx.bdir, scratch, case)
        return [(k, describe(case) + ": " + w) for k, w in rows], {"outcome": oc, "batch": base, "reference": referr, "interactive_error": terr}
    if rp["kind"] == "tx":
        oc, rows, base = check_tx_case((ctx.bdir, scratch, rp["tc"]))
        return [(k, w) for k, w, _, _ in rows], {"outcome": oc, "batch": base}
    if rp["kind"] == "variant":
        rep = rp["rep"]

        def obs(d, xargs, xenv):
            b = run_batch(ctx.bdir, scratch, d, xargs, xenv, rep["pre"], rep["script"], rep["stack"])
            return {"rc": b["rc"], "sig": b["sig"], "out": b["out"], "errtext": first_error_line(b["err"]), "cc": pu.crash_class(b), "hang": b["hang"]}
        base = obs(DELIVERIES[0], [], {})        # the baseline is re-measured, not taken from the record
        oname, xargs, xenv = next(o for o in option_variants() if o[0] == rp["option"])
        got = obs(rp["delivery"], xargs, xenv)
        nm = {"out": "stdout", "rc": "exit-status", "sig": "signal", "errtext": "error-line", "cc": "crash-class", "hang": "hang"}
        rows = [("option-variance:%s:%s:%s" % (rp["delivery"], oname, nm[f]), "%s: %s differs: baseline %r, under %s %s %r" % (
            rep["label"], nm[f], base[f], rp["delivery"], oname, got[f])) for f in ("hang", "sig", "rc", "out", "errtext", "cc") if got[f] != base[f]][:1]
        return rows, {"baseline": base, "variant": got}
    if rp["kind"] == "verbose":
        rows, n = check_verbose((ctx.bdir, scratch, rp["rep"]))
        return [(k, w) for k, w, r, _ in rows if r["delivery"] == rp["delivery"] and r["option"] == rp["option"]], {}
    if rp["kind"] == "empty-stdin":
        rows, n = check_empty_stdin(ctx.bdir, scratch)
        return [(k, w) for k, w, r, _ in rows if r["stack"] == rp["stack"] and r["opt"] == rp["opt"]], {}
    raise SystemExit("unknown replay kind")


def replay(ctx, path):
    rec = json.load(open(path))
    rp = rec["replay"]
    scratch = tempfile.mkdtemp(prefix="c08r.", dir=ctx.bdir)
    try:
        r1 = _replay_once(ctx, scratch, rp)
        r2 = _replay_once(ctx, scratch, rp)
    finally:
        shutil.rmtree(scratch, ignore_errors=True)
    if r1 != r2:
        print("NONDETERMINISTIC: two runs of the same case differ:\n  %r\n  %r" % (r1, r2))
        return 1
    print("recorded key:", rec.get("key"))
    print("observed:", json.dumps(r1[1], indent=1, default=str))
    for k, w in r1[0]:
        print("DIFF key=%s: %s" % (k, w))
    if not r1[0]:
        print("holds on this case")
    return 1 if r1[0] else 0
