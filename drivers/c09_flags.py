"""C09 part (a) — --modify-flags yields exactly the standard flag set with each +NAME added and each -NAME
removed, --default-flags lists exactly the standard set, unknown names / malformed lists are rejected.

Observation: `btcdeb_tty -f<list> -v` (forced interactive, empty stdin) prints a "resulting flags:" block on
stderr; `btcdeb -d` prints the standard set on stdout.  Oracle: set arithmetic over procutil.FLAG_NAMES (written
from Bitcoin Core's constants).  Behavioural probes need no listing: a script whose batch outcome depends on
exactly one flag, run under …,+X and …,-X, expected outcome from the reference (mc_refcli).
Part (b) (monotonicity) is decided by the native engine and merged by the caller.
"""
import itertools, json, os, random, shutil, sys, tempfile, time
from multiprocessing import Pool

sys.path.insert(0, os.path.dirname(os.path.abspath(__file__)))
import procutil as pu  # noqa: E402

NAMES = pu.FLAG_NAMES
BULLET = "・ "
TRIPLE_SUBSET_QUICK = ["P2SH", "SIGPUSHONLY", "MINIMALDATA", "DISCOURAGE_UPGRADABLE_NOPS", "NULLFAIL", "DISCOURAGE_UPGRADABLE_PUBKEYTYPE"]
TRIPLE_SUBSET_THOROUGH = list(NAMES)   # every ordered triple over all 21 names: 42^3


def u8(s):
    return s.encode("latin-1").decode("utf-8", "replace")


def parse_listing(text, header):
    """names listed under `header` (one '・ NAME' per line); None if the header is absent"""
    lines = u8(text).split("\n")
    for i, ln in enumerate(lines):
        if ln.strip() == header:
            out = []
            for l2 in lines[i + 1:]:
                if l2.startswith(BULLET):
                    out.append(l2[len(BULLET):])
                else:
                    break
            return out
    return None


def shape(mods):
    """'-As,+Bn,-As': letters by first occurrence, s = member of the standard set, n = not"""
    let = {}
    out = []
    for m in mods:
        nm = m[1:]
        if nm not in let:
            let[nm] = chr(ord("A") + len(let))
        out.append("%s%s%s" % (m[0], let[nm], "s" if nm in pu.STANDARD_NAMES else "n"))
    return ",".join(out)


def tty(bdir, cwd, args, exe="btcdeb_tty"):
    return pu.run_proc([os.path.join(bdir, exe)] + args + ["0x51"], data=b"", cwd=cwd)


def diag_lines(err):
    return [l for l in u8(err).split("\n") if l.strip() and not l.startswith(("LOG:", "notice:"))]


# ------------------------------------------------------------------------------------------- well-formed lists
def check_list(bdir, cwd, form, mods):
    lst = ",".join(mods)
    arg = ("-f" + lst) if form == "short" else ("--modify-flags=" + lst)
    r = tty(bdir, cwd, [arg, "-v"])
    rp = {"kind": "list", "form": form, "mods": list(mods)}
    sh = shape(mods)
    if r["hang"]:
        return "hang", [("hang:flag-list", "%s: no exit" % arg, rp)], None
    cc = pu.crash_class(r)
    if cc:
        return "crash", [("crash:svf_parse_flags:list=%s:%s" % (sh, cc), "%s: terminated by %s" % (arg, r["sig"]), rp)], None
    exp = pu.apply_flag_list(mods)
    got = parse_listing(r["err"], "resulting flags:")
    if r["rc"] != 0 or got is None:
        return "rejected", [("flag-list-rejected:list=%s" % sh, "%s: exit %d, stderr %r (expected the session to start with flags %s)" % (
            arg, r["rc"], " | ".join(diag_lines(r["err"]))[:200], sorted(exp)), rp)], None
    rows = []
    if "btcdeb> " not in r["out"]:
        rows.append(("flag-list-no-session:list=%s" % sh, "%s: listing printed but no prompt on stdout" % arg, rp))
    if got == ["(none)"]:
        got = []
    if len(set(got)) != len(got):
        rows.append(("flag-listing-duplicate:list=%s" % sh, "%s: a name is listed twice: %s" % (arg, got), rp))
    unknown = [g for g in got if g not in pu.FLAG_BIT]
    if unknown:
        rows.append(("flag-listing-unknown-name:%s" % unknown[0], "%s: listing contains %r" % (arg, unknown), rp))
    gs = frozenset(got)
    for nm in sorted((exp - gs) | (gs - exp)):
        # the failing class is the history of operations applied to the wrongly listed / wrongly absent name
        ops = [m[0] for m in mods if m[1:] == nm]
        kind = "missing" if nm in exp else "extra"
        std = "std" if nm in pu.STANDARD_NAMES else "nonstd"
        if not ops:
            key = "flag-listing-wrong:%s:untouched:%s" % (nm, kind)
        elif len(ops) == 1:
            key = "flag-listing-wrong:%s:ops=%s:%s" % (nm, ops[0], kind)
        else:
            key = "flag-listing-wrong:%s:ops=%s:%s" % (std, ",".join(ops), kind)
        rows.append((key, "%s: %s is %s; expected exactly %s, listed %s" % (arg, nm, "not listed" if kind == "missing" else "listed but must be absent",
                                                                          ",".join(n for n in NAMES if n in exp), ",".join(got)), rp))
    return "accepted", rows, gs


def work_lists(a):
    bdir, scratch, items = a
    cwd = os.path.join(scratch, "w%d" % os.getpid())
    os.makedirs(cwd, exist_ok=True)
    hist, rows, sets, samples = {}, [], set(), []
    for form, mods in items:
        if pu.hang_abort(scratch):
            hist["skipped-after-hangs"] = hist.get("skipped-after-hangs", 0) + 1
            continue
        oc, rs, gs = check_list(bdir, cwd, form, mods)
        if oc == "hang":
            pu.hang_abort(scratch, True)
        hist[oc] = hist.get(oc, 0) + 1
        for k, w, rp in rs:
            rows.append((k, w, rp, "%04d%s" % (len(",".join(mods)), ",".join(mods))))
        if gs is not None:
            sets.add(gs)
            if len(samples) < 1:
                samples.append("-f%s -> %s" % (",".join(mods), ",".join(n for n in NAMES if n in gs)))
    return hist, rows, sets, samples, len(items)


# ------------------------------------------------------------------------------------------- malformed lists
def malformed_lists():
    out = []
    for n in NAMES:
        out += [("no-sign", n), ("lower-case", "+" + n.lower()), ("lower-case", "-" + n.lower()), ("truncated-name", "+" + n[:-1]),
                ("extended-name", "+" + n + "X"), ("trailing-comma", "+" + n + ","), ("leading-comma", ",-" + n),
                ("double-comma", "+" + n + ",,-" + n), ("trailing-blank", "+" + n + " "), ("leading-blank", " +" + n),
                ("double-sign", "++" + n), ("double-sign", "+-" + n), ("prefixed-name", "+SCRIPT_VERIFY_" + n),
                ("no-sign-second", "+P2SH," + n), ("no-sign-first", n + ",+P2SH")]
    out += [("unknown-name", x) for x in ("+FOO", "-FOO", "+P2SH,+FOO", "+FOO,+P2SH", "-P2SH,-FOO,-DERSIG", "+NONE", "+ALL", "+STANDARD",
                                          "+1", "+0x1", "+DISCOURAGE_UPGRADABLE", "+P2SH+DERSIG", "+P2SH-DERSIG", "+*")]
    out += [("sign-only", x) for x in ("+", "-", "+P2SH,-", "+,+P2SH", "-,-")]
    out += [("empty-element", x) for x in (",", ",,", "+P2SH,,", ",,+P2SH")]
    out += [("wrong-separator", x) for x in ("+P2SH;-DERSIG", "+P2SH -DERSIG", "+P2SH|-DERSIG", "+P2SH, -DERSIG", "+P2SH:-DERSIG", "+P2SH\t-DERSIG")]
    out += [("mixed-case", x) for x in ("+P2sh", "+Minimaldata", "-nullFail")]
    for n in (126, 127, 128, 129, 200):     # 126 is the longest name whose element (+sign, +NUL) still fits 128 bytes
        out += [("long-name", "+" + "A" * n), ("long-name", "-" + "Z" * n), ("long-name", "+P2SH,+" + "A" * n),
                ("long-name", "+P2SH" + "X" * (n - 4)), ("long-name", "+" + "A" * n + ",-P2SH")]
    return out


def check_malformed(bdir, cwd, cls, lst, exe_dir=None, tag=""):
    r = tty(exe_dir or bdir, cwd, ["--modify-flags=" + lst, "-v"])
    rp = {"kind": "malformed", "cls": cls, "list": lst, "asan": bool(exe_dir)}
    shown = lst if len(lst) < 60 else lst[:24] + "…(%d chars)" % len(lst)
    if r["hang"]:
        return "hang", [("hang:malformed-list:" + cls, "--modify-flags=%s: no exit" % shown, rp)]
    san = ("AddressSanitizer" in r["err"]) or ("runtime error:" in r["err"])
    if pu.crash_class(r) or san:
        key = "crash:svf_parse_flags-long-name" if cls == "long-name" else "crash:svf_parse_flags:" + cls
        import re
        rep = [re.sub(r"\x1b\[[0-9;]*m", "", l) for l in r["err"].split("\n") if "ERROR" in l or "runtime error" in l or "terminate" in l]
        return "crash", [(key, "--modify-flags=%s%s: %s %s" % (shown, tag, ("terminated by " + r["sig"]) if r["sig"] else "exit %d" % r["rc"],
                                                                 (rep[0][:200] if rep else "")), rp)]
    listing = parse_listing(r["err"], "resulting flags:")
    diag = diag_lines(r["err"])
    if r["rc"] == 0 or listing is not None or "btcdeb> " in r["out"]:
        return "accepted", [("malformed-list-accepted:" + cls, "--modify-flags=%s: exit %d, %s (expected: rejected)" % (
            shown, r["rc"], ("session started with flags %s" % listing) if listing is not None else "no listing"), rp)]
    if not diag:
        return "rejected-silently", [("malformed-list-no-diagnostic:" + cls, "--modify-flags=%s: exit %d without a message" % (shown, r["rc"]), rp)]
    return "rejected", []


def work_malformed(a):
    bdir, scratch, items, asan_dir = a
    cwd = os.path.join(scratch, "w%d" % os.getpid())
    os.makedirs(cwd, exist_ok=True)
    hist, rows, n = {}, [], 0
    for cls, lst in items:
        if pu.hang_abort(scratch):
            hist["skipped-after-hangs"] = hist.get("skipped-after-hangs", 0) + 1
            continue
        oc, rs = check_malformed(bdir, cwd, cls, lst)
        n += 1
        if oc == "hang":
            pu.hang_abort(scratch, True)
        hist[cls + ":" + oc] = hist.get(cls + ":" + oc, 0) + 1
        if asan_dir and cls == "long-name":
            oc2, rs2 = check_malformed(bdir, cwd, cls, lst, exe_dir=asan_dir, tag=" [ASan build]")
            n += 1
            hist[cls + ":asan:" + oc2] = hist.get(cls + ":asan:" + oc2, 0) + 1
            rs = rs + rs2
        for k, w, rp in rs:
            rows.append((k, w, rp, "%04d%s" % (len(lst), lst)))
    return hist, rows, n


# ------------------------------------------------------------------------------------------- --default-flags
def check_default(bdir, cwd):
    rows = []
    n = 0
    seen = 0
    for exe, opt, sin, sout in (("btcdeb", "-d", "pipe", "pipe"), ("btcdeb", "--default-flags", "pipe", "pipe"), ("btcdeb", "-d", "pty", "pipe"),
                                ("btcdeb", "-d", "pipe", "pty"), ("btcdeb", "-d", "pty", "pty"), ("btcdeb_tty", "-d", "pipe", "pipe")):
        if pu.hang_abort(cwd):
            break
        r = pu.run_proc([os.path.join(bdir, exe), opt], data=b"\n", stdin=sin, stdout=sout, cwd=cwd)
        n += 1
        if r["hang"]:
            pu.hang_abort(cwd, True, limit=1)
        rp = {"kind": "default", "exe": exe, "opt": opt, "stdin": sin, "stdout": sout}
        where = "%s %s (stdin %s, stdout %s)" % (exe, opt, sin, sout)
        if r["hang"] or pu.crash_class(r) or r["rc"] != 0:
            rows.append(("default-flags:abnormal", "%s: exit %s" % (where, r["sig"] or r["rc"]), rp, where))
            continue
        got = parse_listing(r["out"], "The standard (enabled by default) flags are:")
        if got is None:
            rows.append(("default-flags:no-listing", "%s: stdout %r" % (where, r["out"][:200]), rp, where))
            continue
        seen += 1
        gs = frozenset(got)
        if len(gs) != len(got):
            rows.append(("default-flags:duplicate", "%s: %s" % (where, got), rp, where))
        if gs != pu.STANDARD_NAMES:
            rows.append(("default-flags:missing=%s:extra=%s" % ("+".join(sorted(pu.STANDARD_NAMES - gs)) or "-", "+".join(sorted(gs - pu.STANDARD_NAMES)) or "-"),
                         "%s lists %s; the standard set is every name except SIGPUSHONLY" % (where, got), rp, where))
    return rows, n, seen


# ------------------------------------------------------------------------------------------- behavioural probes
def _high_s(sig_hex):
    """same r, s -> n - s (valid DER, high S), hashtype kept"""
    b = bytes.fromhex(sig_hex)
    assert b[0] == 0x30 and b[2] == 0x02
    rl = b[3]; r = b[4:4 + rl]
    assert b[4 + rl] == 0x02
    sl = b[5 + rl]; s = b[6 + rl:6 + rl + sl]
    ht = b[6 + rl + sl:]
    N = 0xFFFFFFFFFFFFFFFFFFFFFFFFFFFFFFFEBAAEDCE6AF48A03BBFD25E8CD0364141
    s2 = (N - int.from_bytes(s, "big")).to_bytes(32, "big")
    if s2[0] & 0x80:
        s2 = b"\0" + s2
    body = b"\x02" + bytes([rl]) + r + b"\x02" + bytes([len(s2)]) + s2
    return (b"\x30" + bytes([len(body)]) + body + ht).hex()


def probes():
    import c08_batch as c8
    segwit = ["--tx=%s:%s" % (c8.SEGWIT_AMT, c8.SEGWIT_TX)]
    sig = c8.SEGWIT_SIG1
    key33 = "0375e00eb72e29da82b89367947f29ef34afb75e8654f6ea368e0acdfd92976b7c"
    key65 = "047146f0e0fcb3139947cf0beb870fe251930ca10d4545793d31033e801b5219abf56c11a3cf3406ca590e4c14b0dab749d20862b3adc4709153c280c2a78be10c"
    P = []

    def p(flag, script, stack, ctxmods=(), pre=(), sv=0):
        P.append(dict(flag=flag, script=script, stack=list(stack), ctx=list(ctxmods), pre=list(pre), sv=sv))
    p("MINIMALDATA", "0105", [])                                     # non-minimal push of 5
    p("MINIMALDATA", "4c0107", [])                                   # PUSHDATA1 where a direct push would do
    p("DISCOURAGE_UPGRADABLE_NOPS", "b0", ["01"])                    # OP_NOP1
    p("DISCOURAGE_UPGRADABLE_NOPS", "b9", ["01"])                    # OP_NOP10
    p("NULLDUMMY", "510000ae", [])                                   # 0-of-0 CHECKMULTISIG with dummy 01
    p("CHECKLOCKTIMEVERIFY", "51b1", [])                             # no transaction: lock-time cannot be satisfied
    p("CHECKSEQUENCEVERIFY", "51b2", [])
    p("CONST_SCRIPTCODE", "ab51", [])                                # OP_CODESEPARATOR in a non-witness script
    p("STRICTENC", "ac", ["", "00"])                                 # empty signature, 1-byte "public key"
    p("NULLFAIL", "ac", [sig, key33])                                # well-formed signature that cannot verify (no tx)
    p("DERSIG", "ac", ["01", key33], ctxmods=["-STRICTENC", "-LOW_S", "-NULLFAIL"])   # non-DER signature; the DER check is shared by three flags
    p("LOW_S", "ac", [_high_s(sig), key33], ctxmods=["-NULLFAIL"])
    p("MINIMALIF", "636851", ["02"], pre=segwit, sv=1)               # witness v0 (segwit --tx): OP_IF argument 02
    p("WITNESS_PUBKEYTYPE", "ac", ["", key65], pre=segwit, sv=1)     # uncompressed key in witness v0
    return P


def check_probe(a):
    bdir, scratch, pr = a
    cwd = os.path.join(scratch, "w%d" % os.getpid())
    os.makedirs(cwd, exist_ok=True)
    rows, outcomes = [], {}
    n = 0
    for sign in "+-":
        mods = pr["ctx"] + [sign + pr["flag"]]
        fl = ",".join(mods)
        ref = pu.refcli(bdir).run(pr["sv"], pu.flags_int(pu.apply_flag_list(mods)), 0, pr["script"], pr["stack"])
        b = pu.run_proc([os.path.join(bdir, "btcdeb"), "-f" + fl] + pr["pre"] + ["0x" + s for s in pr["stack"]],
                        data=("0x%s\n" % pr["script"]).encode(), cwd=cwd)
        n += 1
        rp = {"kind": "probe", "probe": pr}
        tag = "probe:%s:%s" % (pr["flag"], "on" if sign == "+" else "off")
        where = "-f%s script 0x%s stack %s%s" % (fl, pr["script"], pr["stack"], " (witness v0 via --tx)" if pr["pre"] else "")
        outcomes[sign] = "ok" if ref["ok"] else ref["err"]
        cc = pu.crash_class(b)
        if b["hang"]:
            rows.append(("hang:" + tag, where, rp, tag))
        elif cc:
            rows.append((tag + ":abnormal-exit:" + cc, "%s: terminated by %s; reference outcome %s" % (where, b["sig"], outcomes[sign]), rp, tag))
        elif ref["ok"]:
            exp = "".join(h + "\n" for h in ref["stack"])
            if b["rc"] != 0 or b["out"] != exp:
                rows.append((tag + ":expected-success", "%s: reference succeeds with %s; btcdeb exit %d stdout %r stderr %r" % (
                    where, ref["stack"], b["rc"], b["out"][:100], b["err"][:120]), rp, tag))
        else:
            if b["rc"] != 1:
                rows.append((tag + ":expected-failure", "%s: reference fails with %s; btcdeb exit %d stdout %r" % (where, ref["err"], b["rc"], b["out"][:100]), rp, tag))
    return rows, n, pr["flag"], outcomes


# ------------------------------------------------------------------------------------------- driver
def enumerate_lists(tier):
    items = []
    signed = [s + n for n in NAMES for s in "+-"]
    for m in signed:
        items.append(("short", (m,)))
        items.append(("long", (m,)))
    for a in signed:
        for b in signed:
            items.append(("short", (a, b)))
    sub = TRIPLE_SUBSET_QUICK if tier == "quick" else TRIPLE_SUBSET_THOROUGH
    ss = [s + n for n in sub for s in "+-"]
    for t in itertools.product(ss, repeat=3):
        items.append(("short", t))
    # whole-table lists
    items.append(("short", tuple("+" + n for n in NAMES)))
    items.append(("short", tuple("-" + n for n in NAMES)))
    items.append(("short", tuple("-" + n for n in reversed(NAMES))))
    items.append(("long", tuple("-" + n for n in NAMES) + tuple("+" + n for n in NAMES)))
    bounds = {"single": 42, "single_forms": ["-f<list>", "--modify-flags=<list>"], "ordered_pairs": len(signed) ** 2,
              "triple_subset": sub, "ordered_triples": len(ss) ** 3, "whole_table_lists": 4}
    return items, bounds


def run(ctx):
    t0 = time.time()
    bdir = ctx.bdir
    asan_dir = ctx.bdir_asan if (ctx.bdir_asan and os.path.exists(os.path.join(ctx.bdir_asan, "btcdeb_tty"))) else None
    scratch = tempfile.mkdtemp(prefix="c09.", dir=bdir)
    V = pu.Violations()
    try:
        items, bounds = enumerate_lists(ctx.tier)
        if ctx.seed:
            random.Random(ctx.seed).shuffle(items)
        mal = malformed_lists()
        CH = 100
        hist, sets, samples = {}, set(), []
        nproc = nlist = 0
        with Pool(os.cpu_count()) as pool:
            for h, rows, ss, smp, n in pool.imap_unordered(work_lists, [(bdir, scratch, items[i:i + CH]) for i in range(0, len(items), CH)], 1):
                for k, c in h.items():
                    hist[k] = hist.get(k, 0) + c
                V.merge_rows(rows)
                sets |= ss
                if len(samples) < 6:
                    samples += smp
                nproc += n
                nlist += n
            mh = {}
            for h, rows, n in pool.imap_unordered(work_malformed, [(bdir, scratch, mal[i:i + 40], asan_dir) for i in range(0, len(mal), 40)], 1):
                for k, c in h.items():
                    mh[k] = mh.get(k, 0) + c
                V.merge_rows(rows)
                nproc += n
            prs = probes()
            probe_out = {}
            for rows, n, flag, oc in pool.imap_unordered(check_probe, [(bdir, scratch, p) for p in prs], 1):
                V.merge_rows(rows)
                nproc += n
                probe_out.setdefault(flag, []).append("on:%s off:%s" % (oc["+"], oc["-"]))
        rows, n, dseen = check_default(bdir, scratch)
        V.merge_rows(rows)
        nproc += n
    finally:
        shutil.rmtree(scratch, ignore_errors=True)
    vac = []
    nondisc = [f for f, l in probe_out.items() if any(x.split()[0] == "on:ok" or x.split()[1] != "off:ok" for x in l)]
    if nondisc:
        vac.append("probe not discriminating per the reference: " + ",".join(nondisc))
    if hist.get("accepted", 0) == 0 and not V.d:
        vac.append("no list accepted")
    if len(sets) < 100 and not V.d:
        vac.append("only %d distinct resulting flag sets" % len(sets))
    mal_rejected = sum(c for k, c in mh.items() if k.endswith(":rejected"))
    cov = {
        "states": len(items) + len(mal) + 2 * len(prs) + 1,
        "transitions": nproc,
        "traces_validated_against_impl": hist.get("accepted", 0) + mal_rejected + dseen,
        "samples": (samples[:6] + ["--modify-flags=+p2sh -> rejected"]) or ["(none)"],
        "exhaustive": not (hist.get("skipped-after-hangs", 0) or mh.get("skipped-after-hangs", 0)),
        "skipped_after_hangs": hist.get("skipped-after-hangs", 0) + mh.get("skipped-after-hangs", 0),
        "bounds": dict(bounds, malformed_lists=len(mal), malformed_classes=sorted({c for c, _ in mal}),
                       long_name_lengths=[126, 127, 128, 129, 200], asan_long_name_runs=bool(asan_dir),
                       default_flags_runs=n, probes=[p["flag"] for p in prs]),
        "wellformed_lists": len(items), "wellformed_outcomes": hist, "distinct_resulting_flag_sets": len(sets),
        "malformed_outcomes": dict(sorted(mh.items())), "probe_reference_outcomes": probe_out,
        "flags_with_behavioural_probe": sorted(probe_out),
        "distinct_outcomes": len(hist) + len(mh),
        "wall_s_driver": round(time.time() - t0, 1),
        "explanation": "part (a) only: listing of `btcdeb_tty -f<list> -v` / `btcdeb -d` compared with set arithmetic over an independent name table; behavioural probes compared with the reference interpreter",
    }
    return dict(level="model_checking", coverage=cov, violations=V.out(),
                assumptions=[
                    "the 21 names and the standard set (all but SIGPUSHONLY) are taken from Bitcoin Core's interpreter.h / policy.h, not from the tree",
                    "order of the listing is irrelevant; a name must not be listed twice",
                    "the empty list (--modify-flags=) is not classified: the statement does not say whether it is malformed",
                    "a list is malformed when an element lacks a sign, is empty, has blanks, a wrong separator, or a name that is not byte-for-byte one of the 21 (case-sensitive)",
                    "behavioural probes exist for the flags reachable without a full spend (no P2SH/WITNESS/CLEANSTACK/SIGPUSHONLY/taproot-only flags); DERSIG and LOW_S are probed with the sibling encoding flags switched off in the same list",
                    "the 128-byte buffer of svf_parse_flags is exercised with 126/127/128/129/200-character names (126 fits, 127 overflows by the terminator); silent overflow without a crash is only visible to the sanitizer build (C15)",
                ],
                summary="%d well-formed lists (%d distinct sets), %d malformed, %d probes, %d process runs" % (len(items), len(sets), len(mal), 2 * len(prs), nproc),
                infra_error="; ".join(vac) if (vac and not V.d) else None)


def _replay_once(ctx, scratch, rp):
    if rp["kind"] == "list":
        oc, rows, gs = check_list(ctx.bdir, scratch, rp["form"], tuple(rp["mods"]))
        return [(k, w) for k, w, _ in rows], {"outcome": oc, "listing": sorted(gs) if gs is not None else None,
                                               "expected": sorted(pu.apply_flag_list(rp["mods"]))}
    if rp["kind"] == "malformed":
        oc, rows = check_malformed(ctx.bdir, scratch, rp["cls"], rp["list"], exe_dir=(ctx.bdir_asan or None) if rp.get("asan") else None)
        return [(k, w) for k, w, _ in rows], {"outcome": oc}
    if rp["kind"] == "default":
        rows, n, seen = check_default(ctx.bdir, scratch)
        return [(k, w) for k, w, r, _ in rows], {}
    if rp["kind"] == "probe":
        rows, n, flag, oc = check_probe((ctx.bdir, scratch, rp["probe"]))
        return [(k, w) for k, w, _, _ in rows], {"reference": oc}
    raise SystemExit("unknown replay kind")


def replay(ctx, path):
    rec = json.load(open(path))
    scratch = tempfile.mkdtemp(prefix="c09r.", dir=ctx.bdir)
    try:
        r1 = _replay_once(ctx, scratch, rec["replay"])
        r2 = _replay_once(ctx, scratch, rec["replay"])
    finally:
        shutil.rmtree(scratch, ignore_errors=True)
    if r1 != r2:
        print("NONDETERMINISTIC: two runs differ:\n  %r\n  %r" % (r1, r2))
        return 1
    print("recorded key:", rec.get("key"))
    print("observed:", json.dumps(r1[1], indent=1))
    for k, w in r1[0]:
        print("DIFF key=%s: %s" % (k, w))
    if not r1[0]:
        print("holds on this case")
    return 1 if r1[0] else 0
