"""C12 -- the script listing and the position marker show exactly what executes next.

Bounded exhaustive enumeration (no sampling) of interactive sessions of the REAL debugger front end: the binary
`btcdeb_tty` (btcdeb.cpp main() + functions.cpp + kerl, linked with `isatty() == 1`) is driven through its REPL with the
commands `print`, `stack`, `step`, `rewind` on a stdin pipe; the transcript is cut at the prompt `btcdeb> `.

Sessions
  (a) plain scripts: every script of 1..N ops (N = 3 quick, 4 thorough) over the 12-symbol alphabet
        OP_0 OP_1 OP_2 OP_DUP OP_ADD OP_DROP OP_IF OP_ELSE OP_ENDIF  push(1 byte)  push(75 bytes)  PUSHDATA1 push(76 bytes)
      given as `0x<hex>` in argv, each with the initial stacks [] and [01, 02];
  (b) spends: every line of `mc_gen plans --tier <tier>` run as `btcdeb_tty --tx=<tx> --txin=<txin>` (auto-configuration):
      bare P2PK / multisig / P2PKH (scriptPubKey section), P2SH (redeem-script section), P2WPKH, P2WSH, P2SH-wrapped
      witness programs, taproot key path, tapscript with several Merkle path lengths (with/without annex), six real-chain pairs.

Oracle (independent of the tree): the reference session plan = list of micro-steps
      [one per taproot commitment step] + for every phase script: [script switch (header line)] + its decoded ops (mc_refcli decode)
      + final verdict step (no listing line),
the reference stack after every micro-step (mc_refcli run for plain scripts; for spends: pushes literally, non-signature ops
through mc_refcli one op at a time, signature ops by their stack effect on a valid signature), and an opcode-name table written
from Bitcoin's standard names.

Checks at every point (session, k successful steps), k = 0..T:
  * the `print` listing denotes the micro-step list line by line (push = its hex bytes, opcode = its standard name, section
    headers at the script switches, one line per commitment micro-step) and never changes during the session;
  * the ` -> ` line is the micro-step the NEXT step performs: the tool's own `stack` before/after each step is compared with the
    reference stacks (so the k-th step of the tool really is the k-th reference micro-step), and the marked line must be line k;
    from the last operation on nothing is marked;
  * the `#NNNN op` echo printed by step/rewind equals the marked line of the following `print` (no echo when nothing is marked);
  * the left pane of the stack/script view printed by step lists exactly the operations still to be executed.
Rewinds: for the plain sessions without conditionals in which every step succeeds, and for four spends, every history over
{step, rewind} of length <= L (6 quick / 8 thorough) from the initial state with `print` + `stack` after every command; the marked
line must be the micro-step a fresh session advanced by the net number of steps would execute next.
"""
import itertools
import json
import multiprocessing
import os
import random
import re
import shutil
import signal
import subprocess
import sys
import tempfile
import time

PROMPT = "btcdeb> "
TIMEOUT = 60
F_STANDARD = ((1 << 21) - 1) & ~(1 << 5)          # every Core verification flag except SIGPUSHONLY (policy/policy.h)

# ------------------------------------------------------------------------------------------ opcode names (Bitcoin standard)
_NAMES_61 = """NOP VER IF NOTIF VERIF VERNOTIF ELSE ENDIF VERIFY RETURN TOALTSTACK FROMALTSTACK 2DROP 2DUP 3DUP 2OVER 2ROT 2SWAP
IFDUP DEPTH DROP DUP NIP OVER PICK ROLL ROT SWAP TUCK CAT SUBSTR LEFT RIGHT SIZE INVERT AND OR XOR EQUAL EQUALVERIFY RESERVED1
RESERVED2 1ADD 1SUB 2MUL 2DIV NEGATE ABS NOT 0NOTEQUAL ADD SUB MUL DIV MOD LSHIFT RSHIFT BOOLAND BOOLOR NUMEQUAL NUMEQUALVERIFY
NUMNOTEQUAL LESSTHAN GREATERTHAN LESSTHANOREQUAL GREATERTHANOREQUAL MIN MAX WITHIN RIPEMD160 SHA1 SHA256 HASH160 HASH256
CODESEPARATOR CHECKSIG CHECKSIGVERIFY CHECKMULTISIG CHECKMULTISIGVERIFY NOP1 CHECKLOCKTIMEVERIFY CHECKSEQUENCEVERIFY NOP4 NOP5
NOP6 NOP7 NOP8 NOP9 NOP10 CHECKSIGADD""".split()
assert len(_NAMES_61) == 0xba - 0x61 + 1


def op_names(code):
    """acceptable renderings of an opcode that carries no payload (Core prints small integers as bare numbers)"""
    if code == 0x00:
        return {"0", "OP_0", "OP_FALSE"}
    if code in (0x4c, 0x4d, 0x4e):
        return {"OP_PUSHDATA%d" % (1, 2, 4)[code - 0x4c]}
    if code == 0x4f:
        return {"-1", "OP_1NEGATE"}
    if code == 0x50:
        return {"OP_RESERVED"}
    if 0x51 <= code <= 0x60:
        n = code - 0x50
        return {str(n), "OP_%d" % n} | ({"OP_TRUE"} if n == 1 else set())
    if 0x61 <= code <= 0xba:
        s = {"OP_" + _NAMES_61[code - 0x61]}
        if code == 0xb1:
            s.add("OP_NOP2")
        if code == 0xb2:
            s.add("OP_NOP3")
        return s
    if 0x01 <= code <= 0x4b:
        return set()         # a direct push with empty payload cannot exist
    return {"OP_INVALIDOPCODE", "OP_UNKNOWN"}


def std_name(code):
    return sorted(op_names(code), key=lambda s: (not s.startswith("OP_"), s))[0] if op_names(code) else "push"


# ------------------------------------------------------------------------------------------ the bounded space
PUSH75 = bytes(range(1, 76))
PUSH76 = bytes(range(0x80, 0x80 + 76))
ALPHABET = [
    ("OP_0", "00"), ("OP_1", "51"), ("OP_2", "52"), ("OP_DUP", "76"), ("OP_ADD", "93"), ("OP_DROP", "75"),
    ("OP_IF", "63"), ("OP_ELSE", "67"), ("OP_ENDIF", "68"),
    ("push1", "017f"), ("push75", "4b" + PUSH75.hex()), ("push76", "4c4c" + PUSH76.hex()),
]
assert len(ALPHABET) == 12
COND_CODES = {0x63, 0x64, 0x65, 0x66, 0x67, 0x68}
NO_REWIND_CODES = COND_CODES | {0xab}
ALT_CODES = {0x6b, 0x6c}
SIG_CODES = {0xac, 0xad, 0xae, 0xaf, 0xba}
PLAIN_STACKS = ([], ["01", "02"])
HIST_SPENDS = ("p2pkh", "p2sh-multisig", "p2wsh-checksig", "p2tr-script path=0")


def bounds(tier):
    if tier == "thorough":
        return dict(maxlen=4, hist_maxlen=3, L=8)
    return dict(maxlen=3, hist_maxlen=3, L=6)


def plain_sessions(tier):
    b = bounds(tier)
    out = []
    for n in range(1, b["maxlen"] + 1):
        for combo in itertools.product(range(len(ALPHABET)), repeat=n):
            hx = "".join(ALPHABET[i][1] for i in combo)
            for st in PLAIN_STACKS:
                out.append(dict(kind="plain", cls="plain", label="[%s] stack=%s" % (" ".join(ALPHABET[i][0] for i in combo), ",".join(st) or "-"),
                                argv=["0x" + hx] + ["0x" + s for s in st],
                                ref=dict(sv=0, flags=F_STANDARD, scripts=[hx], p2sh=False, commit_steps=0, control="", stack=list(st), valid=None),
                                hist=(n <= b["hist_maxlen"])))
    # a long script (301 operations: 150 x OP_1 OP_DROP, then OP_1 - legal, only 150 of them are counted): positions beyond 256, rewinds from
    # there (a one-byte position or history counter wraps exactly there), forward again, and a long way back
    hx = "5175" * 150 + "51"
    out.append(dict(kind="plain", cls="plain", label="[OP_1 OP_DROP x150 OP_1] stack=-", argv=["0x" + hx],
                    ref=dict(sv=0, flags=F_STANDARD, scripts=[hx], p2sh=False, commit_steps=0, control="", stack=[], valid=None),
                    hist=False, deep_history="s" * 300 + "r" * 4 + "s" * 3 + "r" * 46 + "s" * 2 + "r" * 2))
    return out


def _hash160(b):
    import hashlib
    return hashlib.new("ripemd160", hashlib.sha256(b).digest()).digest()


def explicit_p2sh_sessions(tier):
    """a P2SH scriptPubKey given as the script on the command line, the redeem script as the last stack argument: the listing
    has the scriptPubKey's three operations, the '<<< P2SH script >>>' header and the redeem script's operations"""
    out = []
    cases = [("51", []), ("527551", []), ("935387", ["01", "02"]), ("76a97c87", ["aa"]), ("00", [])]
    # a redeem script above the 10,000-byte script size limit: the hand-over to it fails, and fails again when attempted again
    cases += [("61" * 10000 + "51", [])]
    if tier == "thorough":
        cases += [("5152935387", []), ("61" * 20 + "51", []), ("03aabbcc7551", []), ("7551", ["07"]),
                  # exactly 10,000 bytes (the limit), 41 operations: 19 x (<520 bytes> OP_DROP), <41 bytes> OP_DROP OP_1
                  (("4d0802" + "ab" * 520 + "75") * 19 + "29" + "cd" * 41 + "7551", [])]
    for (redeem, st) in cases:
        spk = "a914" + _hash160(bytes.fromhex(redeem)).hex() + "87"
        stack = list(st) + [redeem]
        out.append(dict(kind="spend", cls="explicit-p2sh", label="explicit P2SH scriptPubKey, redeem %s, stack %s" % (redeem if len(redeem) < 60 else "%s.. (%d bytes)" % (redeem[:16], len(redeem) // 2), ",".join(st) or "-"),
                        argv=["0x" + spk] + ["0x" + x for x in stack],
                        ref=dict(sv=0, flags=F_STANDARD, scripts=[spk, redeem], headers=["", "<<< P2SH script >>>"], explicit_p2sh=True, p2sh=True, commit_steps=0, control="",
                                 stack=stack, valid=None),
                        hist=(redeem in ("51", "527551"))))
    return out


def spend_class(plan):
    t = plan["type"]
    if t == "legacy":
        return "legacy-p2sh" if plan["p2sh"] else "legacy"
    if t == "p2tr-script":
        return "tapscript"
    return t


def spend_sessions(bdir, tier):
    r = subprocess.run([os.path.join(bdir, "mc_gen"), "plans", "--tier", tier], stdout=subprocess.PIPE, stderr=subprocess.PIPE, text=True, timeout=120)
    if r.returncode != 0:
        raise RuntimeError("mc_gen plans exited %d: %s" % (r.returncode, r.stderr[-500:]))
    out = []
    for line in r.stdout.splitlines():
        if not line.strip():
            continue
        p = json.loads(line)
        fl = p.get("flags", F_STANDARD)
        removed = [n for bit, n in ((0, "P2SH"), (8, "CLEANSTACK"), (11, "WITNESS")) if (F_STANDARD >> bit) & 1 and not (fl >> bit) & 1]
        if (fl | sum(1 << b for b in (0, 8, 11))) != (F_STANDARD | sum(1 << b for b in (0, 8, 11))):
            raise RuntimeError("plan with a flag set the driver cannot spell: %x" % fl)
        fopt = ["--modify-flags=" + ",".join("-" + n for n in removed)] if removed else []
        out.append(dict(kind="spend", cls=spend_class(p) + ("-flags" if removed else ""), label=p["label"], argv=fopt + ["--tx=" + p["tx"], "--txin=" + p["txin"]],
                        ref=dict(sv=p["sv"], flags=p.get("flags", F_STANDARD), scripts=p["scripts"], p2sh=p["p2sh"], commit_steps=p["commit_steps"],
                                 control=p.get("control", ""), stack=p["stack"], valid=p["valid"]),
                        hist=p["label"] in HIST_SPENDS))
    return out


# ------------------------------------------------------------------------------------------ reference client / reference plan
class RefCli:
    def __init__(self, bdir):
        self.p = subprocess.Popen([os.path.join(bdir, "mc_refcli")], stdin=subprocess.PIPE, stdout=subprocess.PIPE, text=True, bufsize=1, env=_env())

    def ask(self, line):
        self.p.stdin.write(line + "\n")
        self.p.stdin.flush()
        rep = self.p.stdout.readline()
        if not rep:
            raise RuntimeError("mc_refcli died on: " + line[:200])
        r = json.loads(rep)
        if "error" in r:
            raise RuntimeError("mc_refcli: %s on %s" % (r["error"], line[:200]))
        return r

    def decode(self, hx):
        r = self.ask("decode " + (hx or "-"))
        if not r["ok"]:
            raise RuntimeError("reference cannot decode " + hx[:80])
        return [(o["code"], o["data"]) for o in r["ops"]]

    def run(self, sv, flags, hx, stack):
        return self.ask("run %d %d 0 %s %s" % (sv, flags, hx or "-", ",".join(stack) if stack else "-"))

    def close(self):
        try:
            self.p.stdin.close()
            self.p.wait(timeout=5)
        except Exception:  # noqa: BLE001
            self.p.kill()


def num_decode(hx):
    b = bytes.fromhex(hx)
    if not b:
        return 0
    v = int.from_bytes(b[:-1] + bytes([b[-1] & 0x7f]), "little")
    return -v if b[-1] & 0x80 else v


def num_encode(n):
    if n == 0:
        return ""
    neg, a = n < 0, abs(n)
    out = bytearray()
    while a:
        out.append(a & 0xff)
        a >>= 8
    if out[-1] & 0x80:
        out.append(0x80 if neg else 0)
    elif neg:
        out[-1] |= 0x80
    return bytes(out).hex()


def sig_effect(code, st):
    """stack effect of a signature opcode whose signatures verify; None = cannot tell"""
    try:
        if code in (0xac, 0xad):
            if len(st) < 2:
                return None
            return st[:-2] + (["01"] if code == 0xac else [])
        if code in (0xae, 0xaf):
            n = num_decode(st[-1])
            m = num_decode(st[-2 - n])
            cut = 1 + n + 1 + m + 1
            if n < 0 or m < 0 or cut > len(st):
                return None
            return st[:-cut] + (["01"] if code == 0xae else [])
        if code == 0xba:
            if len(st) < 3:
                return None
            return st[:-3] + [num_encode(num_decode(st[-2]) + (1 if st[-3] else 0))]
    except (IndexError, ValueError):
        return None
    return None


class Plan:
    """reference micro-step list M (kinds commit / switch / op / verdict), expected stacks S[0..T] (None = unknown),
    fail_at = micro-step the reference expects to fail (None = none / unknown)"""

    def __init__(self, sess, ref):
        r = sess["ref"]
        self.cls = sess["cls"]
        self.commit = r["commit_steps"]
        self.control = r["control"]
        headers = r.get("headers") or ["", "<<< scriptPubKey >>>", "<<< P2SH script >>>"]
        self.ops = [ref.decode(s) for s in r["scripts"]]
        if len(self.ops) > 3:
            raise RuntimeError("plan with more than three scripts")
        M = [dict(kind="commit", i=i) for i in range(self.commit)]
        for si, ops in enumerate(self.ops):
            if si:
                M.append(dict(kind="switch", header=headers[si], p2sh=(headers[si] == "<<< P2SH script >>>")))
            for j, (code, data) in enumerate(ops):
                M.append(dict(kind="op", s=si, j=j, code=code, data=data))
        M.append(dict(kind="verdict"))
        self.M = M
        self.T = len(M)
        self.E = M[:-1]
        codes = {c for ops in self.ops for c, _ in ops}
        self.rewindable = not (codes & NO_REWIND_CODES)
        # ---- reference stacks
        S = [list(r["stack"])] + [None] * self.T
        self.fail_at = None
        self.stack_oracle = "full"
        if sess["kind"] == "plain":
            rr = ref.run(r["sv"], r["flags"], r["scripts"][0], r["stack"])
            if rr.get("refused"):
                raise RuntimeError("reference refuses a plain script")
            for k, stp in enumerate(rr["steps"]):
                S[k + 1] = stp["stack"]
            if rr["ok"]:
                S[self.T] = rr["stack"]
            else:
                self.fail_at = rr["fail_index"]
        elif codes & (COND_CODES | ALT_CODES | {0xab}):
            self.stack_oracle = "none"
        else:
            cur = list(r["stack"])
            sigend = list(cur) if r.get("explicit_p2sh") else None   # explicit P2SH session: the stack arguments play the scriptSig's part
            for k, m in enumerate(M):
                if cur is None:
                    break
                if m["kind"] == "commit" or m["kind"] == "verdict":
                    pass
                elif m["kind"] == "switch":
                    if m["p2sh"]:
                        cur = list(sigend[:-1]) if sigend else None
                    else:
                        sigend = list(cur)
                elif m["data"] or m["code"] <= 0x4e:
                    cur = cur + [m["data"]]
                elif m["code"] in SIG_CODES:
                    cur = sig_effect(m["code"], cur)
                else:
                    rr = ref.run(r["sv"], r["flags"], "%02x" % m["code"], cur)
                    cur = rr["stack"] if (not rr.get("refused") and len(rr["steps"]) == 1) else None
                    if cur is None:
                        self.fail_at = k
                S[k + 1] = None if cur is None else list(cur)
            if any(s is None for s in S):
                self.stack_oracle = "partial"
        self.S = S
        self.valid = r["valid"]

    def line_text(self, m):
        if m["kind"] == "commit":
            return "commitment step %d" % m["i"]
        if m["kind"] == "switch":
            return m["header"]
        if m["kind"] == "verdict":
            return "(end)"
        return m["data"] if m["data"] else std_name(m["code"])


# ------------------------------------------------------------------------------------------ running the tool, parsing
def _env():
    e = {k: v for k, v in os.environ.items() if not k.startswith("DEBUG_")}
    e["LC_ALL"] = "C"
    return e


RE_ERR = re.compile(r"^(at end of script|error: .*)$", re.M)
RE_NUM = re.compile(r"^#(\d{4,}) (.*)$")


class Transcript:
    def __init__(self, bdir, cwd, argv, cmds):
        self.cmd = [os.path.join(bdir, "btcdeb_tty")] + argv
        self.cmds = cmds
        self.problem = None
        try:
            p = subprocess.run(self.cmd, input=("\n".join(cmds) + "\n").encode(), stdout=subprocess.PIPE, stderr=subprocess.PIPE, cwd=cwd, env=_env(), timeout=TIMEOUT)
        except subprocess.TimeoutExpired:
            self.problem = "timeout"
            self.segs, self.msgs, self.rc = [], [], None
            return
        finally:
            try:
                os.unlink(os.path.join(cwd, ".btcdeb_history"))
            except OSError:
                pass
        self.rc = p.returncode
        out = p.stdout.decode("latin-1")
        self.err = p.stderr.decode("latin-1")
        parts = out.split(PROMPT)
        self.pre = parts[0]
        self.segs = parts[1:]
        self.msgs = RE_ERR.findall(self.err)
        self.mi = 0
        if p.returncode < 0:
            self.problem = "signal=%d" % -p.returncode
        elif p.returncode != 0:
            self.problem = "exit=%d" % p.returncode
        elif len(self.segs) != len(cmds) + 1 or self.segs[-1] != "":
            self.problem = "transcript has %d prompt-separated parts for %d commands" % (len(self.segs), len(cmds))

    def next_msg(self):
        if self.mi < len(self.msgs):
            self.mi += 1
            return self.msgs[self.mi - 1]
        return None


def parse_print(seg):
    """-> list of (marked, text-without-number, raw) or None"""
    rows = []
    for ln in seg.split("\n")[:-1]:
        if ln.startswith(" -> "):
            mk = True
        elif ln.startswith("    "):
            mk = False
        else:
            return None
        raw = ln[4:]
        m = RE_NUM.match(raw)
        rows.append((mk, m.group(2) if m else raw, raw))
    return rows


def parse_stack(seg):
    """-> list of hex strings bottom .. top, or None"""
    lines = seg.split("\n")[:-1]
    if lines == ["- empty stack -"]:
        return []
    out = []
    for ln in lines:
        m = re.match(r"^<(\d+)>\t([0-9a-f]*)(\t\(top\))?$", ln)
        if not m:
            return None
        out.append(m.group(2))
    return out[::-1]


def parse_view(seg, skip_banner=False):
    """stack/script view printed by step, rewind and at start-up -> (left lines, right lines, echo lines) or None"""
    lines = seg.split("\n")[:-1]
    if skip_banner and lines and lines[0].startswith("btcdeb ") and "-- type" in lines[0]:
        lines = lines[1:]
    if len(lines) < 2 or "| " not in lines[0] or not re.match(r"^-+\+-+$", lines[1]):
        return None
    left, right, i = [], [], 2
    while i < len(lines) and "| " in lines[i]:
        a, b = lines[i].split("| ", 1)
        left.append(a.rstrip())
        right.append(b.strip())
        i += 1
    while left and left[-1] == "":
        left.pop()
    return left, right, lines[i:]


def pane_trunc(s):
    return s if len(s) <= 66 else s[:63] + "..."


def short(s, n=160):
    return s if len(s) <= n else s[:n // 2] + "..[%d chars].." % (len(s) - n) + s[-n // 2:]


def elide(text):
    return re.sub(r"[0-9a-f]{40,}", lambda m: m.group(0)[:12] + "..(%d hex digits).." % len(m.group(0)) + m.group(0)[-6:], text)


# ------------------------------------------------------------------------------------------ one session
class Session:
    def __init__(self, sess, bdir, cwd, ref):
        self.s = sess
        self.bdir, self.cwd = bdir, cwd
        self.cls = sess["cls"]
        self.plan = Plan(sess, ref)
        self.ref = ref
        self.viol = []           # (key, what, replay)
        self.st = dict(points=0, commands=0, processes=0, marker_checks=0, echo_checks=0, stack_checks=0, pane_checks=0, listing_lines=0,
                       traversed=0, reached_end=0, failing_step=0, hist_runs=0, hist_points=0, hist_rewinds_ok=0, hist_rewinds_refused=0,
                       hist_cut_at_end=0, hist_cut_state=0, tool_problem=0, after_failure_checks=0, marker_none_checks=0, marker_header_checks=0, marker_commit_checks=0)
        self.sample = None
        self.listing = None       # texts of the first print
        self.n_commit_lines = None
        self.alignable = False

    # -- reporting
    def v(self, key, what, history=None):
        rep = dict(kind=self.s["kind"], cls=self.cls, label=self.s["label"], argv=self.s["argv"], ref=self.s["ref"], hist=False)
        if history is not None:
            rep["history"] = history
        rep["focus"] = key
        w = "%s session %s: %s | reproduce: cd $(mktemp -d) && printf '%s' | btcdeb_tty %s" % (
            self.cls, self.s["label"], what, "\\n".join(self._repro_cmds(history)) + "\\n", " ".join(short(a, 80) for a in self.s["argv"]))
        self.viol.append((key, w, rep))

    def _repro_cmds(self, history):
        if history is None:
            return ["print"] + ["step", "print"] * self.plan.T
        return ["print"] + [x for c in history for x in (("step" if c == "s" else "rewind"), "print")]

    def run_tool(self, cmds):
        t = Transcript(self.bdir, self.cwd, self.s["argv"], cmds)
        self.st["processes"] += 1
        self.st["commands"] += len(cmds)
        return t

    # -- listing against the reference micro-step list
    def check_listing(self, rows):
        P = self.plan
        texts = [r[1] for r in rows]
        self.listing = texts
        self.st["listing_lines"] += len(texts)
        nscript = len(P.E) - P.commit
        ncl = len(texts) - nscript
        if P.commit and ncl != P.commit:
            if ncl == P.commit + 1:
                self.v("tapscript-listing-has-extra-commitment-line", "the commitment takes %d steps (path length %d, then the tweak check) but the listing shows %d commitment lines: %s"
                       % (P.commit, P.commit - 1, ncl, [short(t, 40) for t in texts[:ncl]]))
            else:
                self.v("listing-line-count:%s" % self.cls, "listing has %d lines, reference micro-step list has %d (+ verdict)" % (len(texts), len(P.E)))
            if ncl < P.commit:
                return
        elif not P.commit and ncl != 0:
            self.v("listing-line-count:%s" % self.cls, "listing has %d lines, the reference micro-step list has %d: listing %s, reference %s"
                   % (len(texts), len(P.E), [short(t, 24) for t in texts], [short(P.line_text(m), 24) for m in P.E]))
            # compare what can be compared (common prefix), no marker checks
            for idx, (t, m) in enumerate(zip(texts, P.E)):
                if not self.line_ok(t, m, idx):
                    break
            return
        self.n_commit_lines = ncl
        self.alignable = True
        off = ncl - P.commit
        for idx, m in enumerate(P.E):
            if m["kind"] == "commit":
                if m["i"] < P.commit - 1:
                    node = P.control[2 * (33 + 32 * m["i"]): 2 * (33 + 32 * (m["i"] + 1))]
                    if not node or node not in texts[idx]:
                        self.v("listing-commitment-line:tapscript", "line %d %r does not name Merkle path node %d (%s)" % (idx, short(texts[idx], 90), m["i"], node))
                continue
            self.line_ok(texts[idx + off], m, idx + off)

    def line_ok(self, text, m, idx=-1):
        if m["kind"] == "switch":
            if text != m["header"]:
                self.v("listing-header:%s" % self.cls, "line %d should be the section header %r, is %r" % (idx, m["header"], short(text, 90)))
                return False
            return True
        if m["kind"] != "op":
            return True
        if m["data"]:
            if text != m["data"]:
                self.v("listing-push-text:%s" % self.cls, "line %d should show the pushed bytes %s, shows %r" % (idx, short(m["data"], 60), short(text, 90)))
                return False
            return True
        if text not in op_names(m["code"]):
            self.v("listing-opcode-name:%s:%s" % (self.cls, std_name(m["code"])), "line %d should name opcode 0x%02x (%s), shows %r" % (idx, m["code"], std_name(m["code"]), short(text, 90)))
            return False
        return True

    # -- which listing line(s) may be marked before micro-step k; index len(listing) stands for "nothing marked"
    def accept(self, k):
        P = self.plan
        n = len(self.listing)
        if k >= P.T - 1:
            return {n}
        m = P.M[k]
        if m["kind"] == "commit":
            if m["i"] < P.commit - 1:
                return {m["i"]}
            return set(range(m["i"], self.n_commit_lines))      # the tweak check may be rendered on one or two lines
        return {k + self.n_commit_lines - P.commit}

    def check_marker(self, rows, k, history=None, after_rewind=False):
        """rows: parsed print; returns marked text or None"""
        n = len(self.listing)
        marked = [i for i, r in enumerate(rows) if r[0]]
        mtext = rows[marked[0]][2] if marked else None
        if [r[1] for r in rows] != self.listing:
            self.v("listing-changes-during-session:%s" % self.cls, "after %s the listing differs from the one printed at the start" % self.where(k, history), history)
            return mtext
        if len(marked) > 1:
            self.v("several-lines-marked:%s" % self.cls, "%d lines carry the marker after %s" % (len(marked), self.where(k, history)), history)
            return mtext
        if not self.alignable:
            return mtext
        got = marked[0] if marked else n
        acc = self.accept(k)
        self.st["marker_checks"] += 1
        mk = self.plan.M[min(k, self.plan.T - 1)]["kind"]
        if mk == "verdict":
            self.st["marker_none_checks"] += 1
        elif mk == "switch":
            self.st["marker_header_checks"] += 1
        elif mk == "commit":
            self.st["marker_commit_checks"] += 1
        if got not in acc:
            near = min(acc, key=lambda a: abs(a - got))
            d = got - near
            if self.cls == "tapscript" and d == -1:
                key = "tapscript-marker-trails-by-one"
            else:
                key = "marker-off-by:%+d:%s%s" % (d, self.cls, ":after-rewind" if after_rewind else "")
            nxt = self.plan.M[min(k, self.plan.T - 1)]
            self.v(key, "after %s the next step performs %s; the marker is on %s, expected on %s"
                   % (self.where(k, history), self.describe(nxt),
                      ("line %d %r" % (got, short(rows[got][2], 60))) if got < n else "no line",
                      ("line %d %r" % (near, short(rows[near][2], 60))) if near < n else "no line (nothing pending)"), history)
        return mtext

    def where(self, k, history):
        if history is None:
            return "%d step(s)" % k
        return "history %s (net %d steps)" % ("".join(history) or "(empty)", k)

    def describe(self, m):
        if m["kind"] == "commit":
            return "taproot commitment micro-step %d of %d" % (m["i"] + 1, self.plan.commit)
        if m["kind"] == "switch":
            return "the switch to the next script (%s)" % m["header"]
        if m["kind"] == "verdict":
            return "the end-of-script check (no operation left)"
        return "op #%d of script %d: %s" % (m["j"], m["s"], short(self.plan.line_text(m), 40))

    def check_echo(self, echo_lines, mtext, k, history=None):
        self.st["echo_checks"] += 1
        e = echo_lines[0] if echo_lines else None
        if len(echo_lines) > 1 or e != mtext:
            self.v("echo-differs-from-marker:%s" % self.cls, "after %s the command echoed %r but the following print marks %r"
                   % (self.where(k, history), [short(x, 60) for x in echo_lines], short(mtext, 60) if mtext else None), history)

    def check_pane(self, left, right, k, history=None):
        """left pane = operations still to be executed (a fresh header line at each later script)"""
        P = self.plan
        if not self.alignable:
            return
        self.st["pane_checks"] += 1
        has_i = [x for x in right if re.match(r"^i: \d+$", x)]
        if k < P.commit:
            if has_i != ["i: %d" % k]:
                self.v("commitment-progress:%s" % self.cls, "after %s the commitment state shows %s, reference is at path index %d" % (self.where(k, history), has_i or "no index", k), history)
            if "<<< committed script >>>" not in left:
                self.v("pane-commitment-layout:%s" % self.cls, "no '<<< committed script >>>' line during the commitment phase", history)
                return
            got = left[left.index("<<< committed script >>>") + 1:]
            exp = [pane_trunc(P.line_text(m)) for m in P.M[P.commit:-1]]
        else:
            if has_i:
                self.v("commitment-progress:%s" % self.cls, "after %s the view still shows the commitment state; the reference commitment has %d steps" % (self.where(k, history), P.commit), history)
                return
            got = left
            exp = [pane_trunc(P.line_text(m)) for m in P.M[k:-1]]
        ok = len(got) == len(exp)
        if ok:
            for g, m, e in zip(got, P.M[max(k, P.commit):-1], exp):
                if m["kind"] == "op" and not m["data"]:
                    ok = ok and g in op_names(m["code"])
                else:
                    ok = ok and g == e
        if not ok:
            self.v("pane-remaining-script:%s" % self.cls, "after %s the script pane lists %s; still to be executed: %s" % (self.where(k, history), [short(x, 24) for x in got], [short(x, 24) for x in exp]), history)

    def check_stack(self, seg, k, history=None):
        """True = tool stack equals the reference stack after k micro-steps (or unknown); False = differs"""
        exp = self.plan.S[k] if k < len(self.plan.S) else None
        got = parse_stack(seg)
        if got is None:
            self.v("stack-output-unparsable:%s" % self.cls, "cannot parse `stack` output %r" % short(seg, 120), history)
            return False
        if exp is None:
            return True
        self.st["stack_checks"] += 1
        return got == exp

    # -- every prefix of steps
    def prefixes(self):
        P = self.plan
        extra = 2
        cmds = ["print", "stack"] + ["step", "print", "stack"] * (P.T + extra)
        t = self.run_tool(cmds)
        if t.problem:
            self.st["tool_problem"] += 1
            self.v("session-aborted:%s:%s" % (self.cls, t.problem.split(" ")[0] if t.problem.startswith(("signal", "exit", "timeout")) else "transcript"),
                   "tool run did not yield a complete transcript: %s; stderr tail %r" % (t.problem, short(getattr(t, "err", "")[-300:], 300)))
            return False
        view = parse_view(t.pre, skip_banner=True)
        rows = parse_print(t.segs[0])
        if view is None or rows is None:
            self.v("transcript-unparsable:%s" % self.cls, "cannot parse start-up view / first print: %r / %r" % (short(t.pre, 200), short(t.segs[0], 200)))
            return False
        self.check_listing(rows)
        k = 0
        in_domain = True

        def point(k, prow, sseg, view):
            self.st["points"] += 1
            mtext = self.check_marker(prow, k)
            if view is not None:
                self.check_echo(view[2], mtext, k)
                self.check_pane(view[0], view[1], k)
            if not self.check_stack(sseg, k):
                self.v("step-differs-from-reference:%s" % self.cls, "after %d step(s) the tool's stack is %s, the reference micro-step list gives %s (micro-step %d = %s)"
                       % (k, [short(x, 20) for x in (parse_stack(sseg) or [])], [short(x, 20) for x in (P.S[k] or [])], k, self.describe(P.M[min(max(k - 1, 0), P.T - 1)])))
                return False
            return True

        if not point(0, rows, t.segs[1], view):
            return False
        i = 2
        ended = False
        while i + 2 < len(t.segs):
            sseg, pseg, kseg = t.segs[i], t.segs[i + 1], t.segs[i + 2]
            i += 3
            prow = parse_print(pseg)
            if prow is None:
                self.v("transcript-unparsable:%s" % self.cls, "cannot parse print output %r" % short(pseg, 200))
                return False
            if sseg == "":
                msg = t.next_msg()
                if msg is None:
                    self.v("transcript-unparsable:%s" % self.cls, "a step printed nothing on stdout and no message on stderr")
                    return False
                if msg == "at end of script":
                    if k < P.T:
                        self.v("session-ends-early:%s" % self.cls, "the tool reports the end of the script after %d steps; the reference session has %d micro-steps" % (k, P.T))
                        in_domain = False
                    else:
                        ended = True
                        self.st["points"] += 1
                        self.check_marker(prow, k)       # still nothing marked after a refused step
                    break
                # a failing step: the marker must keep designating the operation that was attempted
                self.st["failing_step"] += 1
                self.st["points"] += 1
                self.check_marker(prow, k)
                in_domain = False
                mk = P.M[min(k, P.T - 1)]
                expected_fail = (mk["kind"] == "switch" and self.s["ref"].get("explicit_p2sh") and len(self.s["ref"]["scripts"][1]) > 20000) or (P.fail_at == k) or (P.valid is False and mk["kind"] == "op" and mk["code"] in SIG_CODES) or (P.S[min(k + 1, P.T)] is None)
                if not expected_fail:
                    self.v("step-differs-from-reference:%s" % self.cls, "step %d (%s) fails with %r; the reference executes it" % (k + 1, self.describe(mk), msg))
                # the step after a failing one: the marker still designates what failed, so the same micro-step is attempted again - on the
                # state the tool now shows, which a failing step leaves as it was: it fails again with the same message and the same stack
                tool_ok = msg2 = got2 = None
                if i + 2 < len(t.segs) and mk["kind"] != "verdict":   # (the verdict is delivered once: after it the session is over either way)
                    sseg2, kseg2 = t.segs[i], t.segs[i + 2]
                    if sseg2 == "":
                        msg2 = t.next_msg()
                        tool_ok = False
                    else:
                        tool_ok, msg2 = True, None
                    got2 = parse_stack(kseg2)
                    self.st["repeated_failing_steps"] = self.st.get("repeated_failing_steps", 0) + 1
                    if tool_ok or msg2 != msg or got2 != parse_stack(kseg):
                        self.v("failing-step-not-repeatable:%s:%s" % (self.cls, mk["kind"]),
                               "step %d (%s) failed with %r; the marker stays on it, but attempted again it %s (stack before %s, after %s)"
                               % (k + 1, self.describe(mk), msg, "succeeds" if tool_ok else "fails with %r" % msg2, [short(x, 20) for x in (parse_stack(kseg) or [])], [short(x, 20) for x in (got2 or [])]))
                # the marker still designates the failed operation: the NEXT step must then be that operation again, executed on the stack
                # the tool now shows (checked for plain sessions and operations without conditional / alt-stack / signature state)
                if (self.s["kind"] == "plain" and mk["kind"] == "op" and not mk["data"] and mk["code"] > 0x60 and mk["code"] not in (COND_CODES | ALT_CODES | SIG_CODES | {0xab})
                        and tool_ok is not None):
                    cur = parse_stack(kseg)
                    if cur is not None:
                        rr = self.ref.run(self.s["ref"]["sv"], self.s["ref"]["flags"], "%02x" % mk["code"], cur)
                        ref_ok = (not rr.get("refused")) and rr["ok"]
                        self.st["after_failure_checks"] = self.st.get("after_failure_checks", 0) + 1
                        if tool_ok != ref_ok or (tool_ok and got2 != rr["stack"]):
                            self.v("marker-not-next-operation:after-failed-step:%s" % self.cls,
                                   "step %d (%s) failed with %r and the marker stays on it, but the following step %s; executing the marked operation on the shown stack %s %s"
                                   % (k + 1, self.describe(mk), msg, ("succeeds with stack %s" % [short(x, 20) for x in (got2 or [])]) if tool_ok else ("fails with %r" % msg2),
                                      [short(x, 20) for x in cur], ("gives %s" % [short(x, 20) for x in rr["stack"]]) if ref_ok else "fails"))
                break
            view = parse_view(sseg)
            if view is None:
                self.v("transcript-unparsable:%s" % self.cls, "cannot parse the view printed by step: %r" % short(sseg, 200))
                return False
            k += 1
            if k > P.T:
                self.v("session-longer-than-reference:%s" % self.cls, "step %d still succeeds; the reference session has %d micro-steps" % (k, P.T))
                in_domain = False
                break
            if P.fail_at is not None and P.fail_at == k - 1 and self.s["kind"] == "plain":
                self.v("step-differs-from-reference:%s" % self.cls, "step %d (%s) succeeds; the reference fails it" % (k, self.describe(P.M[k - 1])))
                in_domain = False
                break
            if not point(k, prow, kseg, view):
                in_domain = False
                break
            if self.sample is None and self.s["kind"] == "spend" and P.M[min(k, P.T - 1)]["kind"] in ("switch", "op") and k >= max(P.commit, 1) + 1:
                self.sample = dict(session="%s (%s)" % (self.s["label"], self.cls), command="btcdeb_tty " + " ".join(short(a, 60) for a in self.s["argv"]),
                                   after_steps=k, print_output=elide(pseg).split("\n")[:-1], next_micro_step=self.describe(P.M[k]))
            elif self.sample is None and self.s["kind"] == "plain" and k == 2 and self.s["label"] == "[OP_1 OP_2 OP_ADD] stack=-":
                self.sample = dict(session=self.s["label"], command="btcdeb_tty " + " ".join(short(a, 60) for a in self.s["argv"]),
                                   after_steps=k, print_output=elide(pseg).split("\n")[:-1], next_micro_step=self.describe(P.M[k]))
        if in_domain and k == P.T:
            self.st["traversed"] += 1
            if ended:
                self.st["reached_end"] += 1
        return in_domain and k == P.T and ended

    # -- every history over {step, rewind} of length L
    def histories(self, L, only=None):
        P = self.plan
        hs = [only] if only is not None else ["".join(h) for h in itertools.product("sr", repeat=L)]
        for h in hs:
            cmds = ["print", "stack"]
            for c in h:
                cmds += ["step" if c == "s" else "rewind", "print", "stack"]
            t = self.run_tool(cmds)
            self.st["hist_runs"] += 1
            if t.problem:
                self.st["tool_problem"] += 1
                self.v("session-aborted:%s:%s" % (self.cls, t.problem.split(" ")[0] if t.problem.startswith(("signal", "exit", "timeout")) else "transcript"),
                       "tool run did not yield a complete transcript: %s" % t.problem, h)
                continue
            p = 0
            rewound = False
            for j, c in enumerate(h):
                cseg, pseg, kseg = t.segs[2 + 3 * j], t.segs[3 + 3 * j], t.segs[4 + 3 * j]
                first_seen = only is not None or h[j + 1:] == "s" * (len(h) - j - 1)
                view = None
                if c == "s":
                    if cseg == "":
                        msg = t.next_msg()
                        if msg != "at end of script" or p != P.T:
                            self.st["hist_cut_state"] += 1
                            break
                    else:
                        p += 1
                        view = parse_view(cseg)
                else:
                    if p == P.T:
                        self.st["hist_cut_at_end"] += first_seen      # rewinding from the end state: C04's domain
                        break
                    if cseg == "":
                        msg = t.next_msg()
                        if msg != "error: no history to rewind":
                            self.st["hist_cut_state"] += 1
                            break
                        self.st["hist_rewinds_refused"] += first_seen
                    else:
                        p -= 1
                        rewound = True
                        view = parse_view(cseg)
                        self.st["hist_rewinds_ok"] += first_seen
                if p < 0 or p > P.T or (cseg != "" and view is None):
                    self.st["hist_cut_state"] += 1
                    break
                if not self.check_stack(kseg, p, h[:j + 1]):
                    self.st["hist_cut_state"] += 1                     # state not restored: C04's business, position unknown
                    break
                prow = parse_print(pseg)
                if prow is None:
                    self.v("transcript-unparsable:%s" % self.cls, "cannot parse print output %r" % short(pseg, 200), h[:j + 1])
                    break
                if not first_seen:
                    continue                                           # this (session, history prefix) point is checked in another run
                self.st["hist_points"] += 1
                self.st["points"] += 1
                mtext = self.check_marker(prow, p, h[:j + 1], after_rewind=rewound)
                if view is not None:
                    self.check_echo(view[2], mtext, p, h[:j + 1])
                    self.check_pane(view[0], view[1], p, h[:j + 1])


# ------------------------------------------------------------------------------------------ pool plumbing
_W = {}


def _init(bdir, root):
    signal.signal(signal.SIGINT, signal.SIG_IGN)
    _W["bdir"] = bdir
    _W["cwd"] = tempfile.mkdtemp(prefix="w.", dir=root)
    _W["ref"] = None


def _ref():
    if _W.get("ref") is None:
        _W["ref"] = RefCli(_W["bdir"])
    return _W["ref"]


def run_session(sess, bdir, cwd, ref, L, history=None, with_prefixes=True):
    S = Session(sess, bdir, cwd, ref)
    full = S.prefixes() if with_prefixes else False
    did_hist = False
    if history is not None:
        if not with_prefixes:
            t = S.run_tool(["print"])
            rows = parse_print(t.segs[0]) if not t.problem else None
            if rows is not None:
                S.check_listing(rows)
                S.viol = []
        S.histories(len(history), only=history)
        did_hist = True
    elif sess.get("hist") and full is not False and S.plan.rewindable and S.alignable and S.st["traversed"]:
        S.histories(L)
        did_hist = True
    if sess.get("deep_history") and full is not False:
        # one long walk far beyond the exhaustive histories: deep into the script, some rewinds, forward again, a long way back
        S.histories(len(sess["deep_history"]), only=sess["deep_history"])
        did_hist = True
    return dict(cls=S.cls, kind=sess["kind"], label=sess["label"], viol=S.viol, st=S.st, sample=S.sample, hist=did_hist,
                T=S.plan.T, stack_oracle=S.plan.stack_oracle, rewindable=S.plan.rewindable)


def _work(args):
    sess, L = args
    try:
        return run_session(sess, _W["bdir"], _W["cwd"], _ref(), L)
    except Exception as e:  # noqa: BLE001
        import traceback
        return dict(driver_error="%r\n%s" % (e, traceback.format_exc()[-1800:]), label=sess["label"])


def _infra(msg):
    return dict(level="model_checking", coverage={"states": 0, "transitions": 0, "traces_validated_against_impl": 0, "samples": ["-"], "exhaustive": False},
                violations=[], assumptions=[], summary="infrastructure error", infra_error=msg)


# ------------------------------------------------------------------------------------------ entry points
def run(ctx):
    t0 = time.time()
    for t in ("btcdeb_tty", "mc_refcli", "mc_gen"):
        if not os.access(os.path.join(ctx.bdir, t), os.X_OK):
            return _infra("missing binary %s in %s" % (t, ctx.bdir))
    b = bounds(ctx.tier)
    try:
        spends = spend_sessions(ctx.bdir, ctx.tier)
    except Exception as e:  # noqa: BLE001
        return _infra("mc_gen plans failed: %r" % e)
    spends += explicit_p2sh_sessions(ctx.tier)
    plains = plain_sessions(ctx.tier)
    jobs = spends + plains
    random.Random(ctx.seed).shuffle(jobs)                 # the seed only permutes the order
    jobs.sort(key=lambda s: 0 if (s["kind"] == "spend" and s["hist"]) else 1)   # the four long items first
    root = tempfile.mkdtemp(prefix="c12.", dir=ctx.bdir)
    results = []
    try:
        with multiprocessing.Pool(os.cpu_count(), initializer=_init, initargs=(ctx.bdir, root)) as pool:
            for r in pool.imap_unordered(_work, [(j, b["L"]) for j in jobs], chunksize=4):
                results.append(r)
    finally:
        shutil.rmtree(root, ignore_errors=True)
    derr = [r for r in results if "driver_error" in r]
    if derr:
        return _infra("driver exception in session %s: %s" % (derr[0]["label"], derr[0]["driver_error"]))

    viol, order = {}, []
    results.sort(key=lambda r: (r["kind"] != "spend", r["label"].startswith("chain:"), r["T"], r["label"]))
    tot = {}
    by_cls = {}
    samples = []
    hist_sessions = 0
    oracle_hist = {}
    for r in results:
        for k, w, rep in r["viol"]:
            if k not in viol:
                viol[k] = {"key": k, "what": w, "count": 0, "replay": rep}
                order.append(k)
            viol[k]["count"] += 1
        for k, n in r["st"].items():
            tot[k] = tot.get(k, 0) + n
        c = by_cls.setdefault(r["cls"], dict(sessions=0, traversed_to_end=0, with_failing_step=0, rewind_history_sessions=0, points=0))
        c["sessions"] += 1
        c["traversed_to_end"] += r["st"]["reached_end"]
        c["with_failing_step"] += r["st"]["failing_step"]
        c["rewind_history_sessions"] += 1 if r["hist"] else 0
        c["points"] += r["st"]["points"]
        hist_sessions += 1 if r["hist"] else 0
        oracle_hist[r["stack_oracle"]] = oracle_hist.get(r["stack_oracle"], 0) + 1
        if r["sample"] and r["kind"] == "spend" and r["cls"] in ("legacy-p2sh", "tapscript", "legacy") and sum(1 for s in samples if s.get("cls") == r["cls"]) < 1:
            samples.append(dict(r["sample"], cls=r["cls"]))
    for r in results:
        if r["sample"] and r["kind"] == "plain":
            samples.append(dict(r["sample"], cls="plain"))
            break
    violations = [viol[k] for k in order]
    traversed_types = sorted(c for c, d in by_cls.items() if d["traversed_to_end"] > 0)
    # a session type that could not be traversed because the tool misbehaved is explained by a violation, not by the harness
    explaining = ("session-aborted:", "session-ends-early:", "session-longer-than-reference:", "step-differs-from-reference:", "transcript-unparsable:",
                  "stack-output-unparsable:")
    explained = {c for c in by_cls if any(k.startswith(explaining) and k.split(":")[1] == c for k in viol)}
    covered = set(traversed_types) | explained
    vac = []
    if len(covered) < 5:
        vac.append("only %d session types traversed to the end: %s" % (len(traversed_types), traversed_types))
    if "tapscript" not in covered or "legacy-p2sh" not in covered:
        vac.append("no tapscript / P2SH session was traversed to the end")
    if tot.get("hist_rewinds_ok", 0) < 100 and "plain" not in explained:
        vac.append("only %d accepted rewinds in the history exploration" % tot.get("hist_rewinds_ok", 0))
    wall = time.time() - t0
    cov = {
        "states": tot.get("points", 0), "transitions": tot.get("commands", 0), "traces_validated_against_impl": tot.get("reached_end", 0),
        "samples": samples or ["(no session produced a sample)"], "exhaustive": True,
        "bounds": ["plain scripts: every script of 1..%d ops over {%s} x initial stack in {[], [01 02]} (%d sessions)" % (b["maxlen"], " ".join(a[0] for a in ALPHABET), len(plains)),
                   "spends: every line of `mc_gen plans --tier %s` (%d sessions; output types and tapscript path lengths as listed in sessions_by_type), auto-configured with --tx/--txin" % (ctx.tier, len(spends)),
                   "per session: every prefix of k = 0..T steps (T = reference micro-steps incl. the end-of-script check) plus 2 further step commands; print + stack after every command",
                   "rewinds: every history over {step, rewind} of length <= %d from the initial state for the %d-op-or-shorter plain sessions without IF/NOTIF/ELSE/ENDIF/CODESEPARATOR whose steps all succeed and for the spends %s; print + stack after every command"
                   % (b["L"], b["hist_maxlen"], list(HIST_SPENDS))],
        "sessions": len(results), "sessions_by_type": by_cls, "session_types_traversed_to_end": traversed_types,
        "sessions_reaching_the_end": tot.get("reached_end", 0), "sessions_with_a_failing_step": tot.get("failing_step", 0),
        "tool_processes": tot.get("processes", 0), "tool_runs_without_complete_transcript": tot.get("tool_problem", 0),
        "marker_checks": tot.get("marker_checks", 0), "marker_checks_expecting_nothing_marked": tot.get("marker_none_checks", 0),
        "marker_checks_at_script_switch": tot.get("marker_header_checks", 0), "marker_checks_in_commitment_phase": tot.get("marker_commit_checks", 0),
        "echo_checks": tot.get("echo_checks", 0), "stack_comparisons_with_reference": tot.get("stack_checks", 0), "script_pane_checks": tot.get("pane_checks", 0),
        "listing_lines_compared": tot.get("listing_lines", 0),
        "rewind_history_sessions": hist_sessions, "rewind_history_runs": tot.get("hist_runs", 0), "rewind_history_points_checked": tot.get("hist_points", 0),
        "rewinds_accepted": tot.get("hist_rewinds_ok", 0), "rewinds_refused_counted_as_no_op": tot.get("hist_rewinds_refused", 0),
        "histories_cut_at_rewind_from_end_state": tot.get("hist_cut_at_end", 0), "histories_cut_on_state_mismatch": tot.get("hist_cut_state", 0),
        "stack_oracle_by_session": oracle_hist, "distinct_outcomes": len(by_cls),
        "driver_wall_s": round(wall, 2), "workers": os.cpu_count(),
        "explanation": "a state is one (session, number of successful steps) or (session, command history) point at which the full `print` output was compared "
                       "with the reference micro-step list and the marked line with the micro-step the next step performs; a transition is one REPL command; "
                       "a validated trace is a session stepped from start to the tool's own 'at end of script' with the tool's stack equal to the reference stack after every micro-step",
    }
    assumptions = [
        "reference session plan: mc_gen (reference model in /verif/ref, shares no code with the tree): scripts per phase in execution order, commitment micro-steps = path length + 1, initial stack; decoding by mc_refcli decode; per-step stacks by mc_refcli run",
        "micro-step semantics of the debugger are taken as given: a script switch is one step whose listing line is the section header; the end-of-script check is one step without a listing line ('after the last operation nothing is marked' = from that point on)",
        "text oracle: a push is its payload in lower-case hex; an opcode without payload is its standard name, small integers also in Core's bare form (0, -1, 1..16), OP_NOP2/3 aliases accepted; the #NNNN numbering is not compared; the wording of the commitment lines is free except that line i must contain Merkle node i, and the final commitment step may be rendered on one or two lines when deciding which line the marker may be on",
        "spends: signature opcodes are modelled by their stack effect on verifying signatures (the plans are valid spends; the one invalid real-chain pair is followed up to its failing CHECKMULTISIG); plans containing conditionals, altstack ops or OP_CODESEPARATOR would get no stack oracle (none occur)",
        "rewind histories exclude what property C04 tracks separately: scripts with IF/NOTIF/ELSE/ENDIF/CODESEPARATOR, any rewind issued in the end state (history is cut there), a refused rewind ('error: no history to rewind', e.g. right after a script switch or during the commitment) counts as a no-op, and a history is cut (not reported) when the tool's stack differs from the reference stack at the net position",
        "sessions with a failing step are followed up to and including the failing step (the marker must still designate the failing operation); only sessions whose steps all succeed count as traversed",
        "scriptSigs of the spends are push-only; pushes longer than 76 bytes occur only in the generated spends (<= 107 bytes)",
    ]
    return dict(level="model_checking", coverage=cov, violations=violations, assumptions=assumptions,
                summary="%d sessions (%d to the end), %d points, %d marker checks, %d commands, %d violation keys, %.1fs"
                        % (len(results), tot.get("reached_end", 0), tot.get("points", 0), tot.get("marker_checks", 0), tot.get("commands", 0), len(violations), wall),
                infra_error="vacuity guard: " + "; ".join(vac) if vac else None)


def replay(ctx, path):
    with open(path) as fh:
        doc = json.load(fh)
    rep = doc.get("replay") or doc
    sess = dict(kind=rep["kind"], cls=rep["cls"], label=rep["label"], argv=rep["argv"], ref=rep["ref"], hist=False)
    history = rep.get("history")
    root = tempfile.mkdtemp(prefix="c12r.", dir=ctx.bdir)
    ref = RefCli(ctx.bdir)
    runs = []
    try:
        for _ in range(2):
            r = run_session(sess, ctx.bdir, root, ref, 0, history=history, with_prefixes=history is None)
            runs.append(sorted((k, w) for k, w, _ in r["viol"]))
    finally:
        ref.close()
        shutil.rmtree(root, ignore_errors=True)
    print("replay C12: %s session %s%s (recorded key: %s)" % (sess["cls"], sess["label"], (" history " + history) if history else "", doc.get("key")))
    seen = set()
    for k, w in runs[0]:
        if k in seen:
            continue
        seen.add(k)
        print("  VIOLATED %s: %s" % (k, w[:900]))
    if runs[0] != runs[1]:
        print("  NOTE: the two runs differ (nondeterminism):")
        for x in sorted(set(runs[0]) ^ set(runs[1])):
            print("    only in one run:", x[0])
    if not runs[0] and not runs[1]:
        print("  holds on this case (both runs)")
        return 0
    return 1
