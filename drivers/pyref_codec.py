"""Independent Python reference for the C07 / C14 drivers.

Written from the Bitcoin script rules, BIP173/BIP350 (bech32/bech32m), the base58check definition, BIP340
(tagged hashes, Schnorr verification) and SEC1 (secp256k1 arithmetic, ECDSA).  Shares no code with /repo
and none with /verif/ref (the C++ reference); `selftest()` cross-checks the two references where both
exist (through mc_refcli) and checks published vectors.
"""
import hashlib
import re

# --------------------------------------------------------------------------------------------------
# opcode table (name without OP_ prefix -> byte), written from Bitcoin's script.h
# --------------------------------------------------------------------------------------------------
OPCODES = {
    "0": 0x00, "FALSE": 0x00, "PUSHDATA1": 0x4c, "PUSHDATA2": 0x4d, "PUSHDATA4": 0x4e, "1NEGATE": 0x4f,
    "RESERVED": 0x50, "1": 0x51, "TRUE": 0x51,
    "2": 0x52, "3": 0x53, "4": 0x54, "5": 0x55, "6": 0x56, "7": 0x57, "8": 0x58, "9": 0x59, "10": 0x5a,
    "11": 0x5b, "12": 0x5c, "13": 0x5d, "14": 0x5e, "15": 0x5f, "16": 0x60,
    "NOP": 0x61, "VER": 0x62, "IF": 0x63, "NOTIF": 0x64, "VERIF": 0x65, "VERNOTIF": 0x66, "ELSE": 0x67,
    "ENDIF": 0x68, "VERIFY": 0x69, "RETURN": 0x6a,
    "TOALTSTACK": 0x6b, "FROMALTSTACK": 0x6c, "2DROP": 0x6d, "2DUP": 0x6e, "3DUP": 0x6f, "2OVER": 0x70,
    "2ROT": 0x71, "2SWAP": 0x72, "IFDUP": 0x73, "DEPTH": 0x74, "DROP": 0x75, "DUP": 0x76, "NIP": 0x77,
    "OVER": 0x78, "PICK": 0x79, "ROLL": 0x7a, "ROT": 0x7b, "SWAP": 0x7c, "TUCK": 0x7d,
    "CAT": 0x7e, "SUBSTR": 0x7f, "LEFT": 0x80, "RIGHT": 0x81, "SIZE": 0x82,
    "INVERT": 0x83, "AND": 0x84, "OR": 0x85, "XOR": 0x86, "EQUAL": 0x87, "EQUALVERIFY": 0x88,
    "RESERVED1": 0x89, "RESERVED2": 0x8a,
    "1ADD": 0x8b, "1SUB": 0x8c, "2MUL": 0x8d, "2DIV": 0x8e, "NEGATE": 0x8f, "ABS": 0x90, "NOT": 0x91,
    "0NOTEQUAL": 0x92, "ADD": 0x93, "SUB": 0x94, "MUL": 0x95, "DIV": 0x96, "MOD": 0x97, "LSHIFT": 0x98,
    "RSHIFT": 0x99, "BOOLAND": 0x9a, "BOOLOR": 0x9b, "NUMEQUAL": 0x9c, "NUMEQUALVERIFY": 0x9d,
    "NUMNOTEQUAL": 0x9e, "LESSTHAN": 0x9f, "GREATERTHAN": 0xa0, "LESSTHANOREQUAL": 0xa1,
    "GREATERTHANOREQUAL": 0xa2, "MIN": 0xa3, "MAX": 0xa4, "WITHIN": 0xa5,
    "RIPEMD160": 0xa6, "SHA1": 0xa7, "SHA256": 0xa8, "HASH160": 0xa9, "HASH256": 0xaa,
    "CODESEPARATOR": 0xab, "CHECKSIG": 0xac, "CHECKSIGVERIFY": 0xad, "CHECKMULTISIG": 0xae,
    "CHECKMULTISIGVERIFY": 0xaf,
    "NOP1": 0xb0, "CHECKLOCKTIMEVERIFY": 0xb1, "CHECKSEQUENCEVERIFY": 0xb2, "NOP4": 0xb3, "NOP5": 0xb4,
    "NOP6": 0xb5, "NOP7": 0xb6, "NOP8": 0xb7, "NOP9": 0xb8, "NOP10": 0xb9,
    "CHECKSIGADD": 0xba,
}
# Bitcoin Core also defines these two aliases; btcdeb's name table does not know them (DESIGN: outside grammar)
OPCODE_ALIASES_NOT_IN_TOOL = {"NOP2": 0xb1, "NOP3": 0xb2}

INT64_MIN, INT64_MAX = -(1 << 63), (1 << 63) - 1


# --------------------------------------------------------------------------------------------------
# script numbers and pushes
# --------------------------------------------------------------------------------------------------
def scriptnum_encode(n: int) -> bytes:
    """sign-magnitude little-endian, shortest form"""
    if n == 0:
        return b""
    neg, m = n < 0, abs(n)
    out = bytearray()
    while m:
        out.append(m & 0xff)
        m >>= 8
    if out[-1] & 0x80:
        out.append(0x80 if neg else 0x00)
    elif neg:
        out[-1] |= 0x80
    return bytes(out)


def scriptnum_decode(b: bytes) -> int:
    if not b:
        return 0
    m = int.from_bytes(b, "little")
    if b[-1] & 0x80:
        m &= ~(0x80 << (8 * (len(b) - 1)))
        return -m
    return m


def scriptnum_is_minimal(b: bytes) -> bool:
    if not b:
        return True
    if b[-1] & 0x7f == 0:
        if len(b) == 1 or not (b[-2] & 0x80):
            return False
    return True


def push_minimal(data: bytes) -> bytes:
    """the unique push of `data` that satisfies the minimal-push rule"""
    n = len(data)
    if n == 0:
        return b"\x00"
    if n == 1 and 1 <= data[0] <= 16:
        return bytes([0x50 + data[0]])
    if n == 1 and data[0] == 0x81:
        return b"\x4f"
    if n <= 75:
        return bytes([n]) + data
    if n <= 0xff:
        return b"\x4c" + bytes([n]) + data
    if n <= 0xffff:
        return b"\x4d" + n.to_bytes(2, "little") + data
    return b"\x4e" + n.to_bytes(4, "little") + data


def push_number(n: int) -> bytes:
    """minimal push of the number n: OP_0, OP_1NEGATE, OP_1..OP_16, else a direct push of its encoding"""
    if n == 0:
        return b"\x00"
    if n == -1:
        return b"\x4f"
    if 1 <= n <= 16:
        return bytes([0x50 + n])
    e = scriptnum_encode(n)
    return bytes([len(e)]) + e   # at most 9 bytes


def decode_script(s: bytes):
    """-> (ok, [(opcode, data|None)]) ; data is None for non-push opcodes; OP_0 gives data b'' ; OP_1NEGATE/OP_n give
    the value they leave on the stack (so that 'operation sequence' can be compared by stack effect)"""
    ops, i, n = [], 0, len(s)
    while i < n:
        op = s[i]; i += 1
        if op <= 0x4e:
            if op < 0x4c:
                ln = op
            else:
                w = {0x4c: 1, 0x4d: 2, 0x4e: 4}[op]
                if i + w > n:
                    return False, ops
                ln = int.from_bytes(s[i:i + w], "little"); i += w
            if i + ln > n:
                return False, ops
            ops.append((op, s[i:i + ln])); i += ln
        elif op == 0x4f:
            ops.append((op, b"\x81"))
        elif 0x51 <= op <= 0x60:
            ops.append((op, bytes([op - 0x50])))
        else:
            ops.append((op, None))
    return True, ops


def check_minimal_push(op: int, data: bytes) -> bool:
    """Bitcoin's CheckMinimalPush for a push operation (op <= OP_16 except OP_RESERVED)"""
    if op == 0x4f or 0x51 <= op <= 0x60:
        return True
    n = len(data)
    if n == 0:
        return op == 0x00
    if n == 1 and 1 <= data[0] <= 16:
        return False
    if n == 1 and data[0] == 0x81:
        return False
    if n <= 75:
        return op == n
    if n <= 255:
        return op == 0x4c
    if n <= 65535:
        return op == 0x4d
    return True


# --------------------------------------------------------------------------------------------------
# btcc token grammar (documented classification order) and reference assembler
# --------------------------------------------------------------------------------------------------
_DEC = re.compile(r"^(0|-?[1-9][0-9]*)$")
_HEX = re.compile(r"^([0-9a-fA-F]{2})+$")
_FN = re.compile(r"^([A-Za-z0-9_]{1,29})\((.*)\)$", re.S)
_WS = " \t\n\r"


def tokenize_body(s: str):
    """split the inside of a bracket into tokens: whitespace separated, nested [..] kept whole, '#' starts a
    comment that runs to the end of the line.  -> list of token strings, or None when brackets are unbalanced"""
    toks, i, n = [], 0, len(s)
    while i < n:
        c = s[i]
        if c in _WS:
            i += 1
        elif c == "#":
            while i < n and s[i] not in "\n\r":
                i += 1
        elif c == "[":
            d, j = 1, i + 1
            while j < n and d:
                if s[j] == "#":                      # a comment inside the group: brackets in it do not count
                    while j < n and s[j] not in "\n\r":
                        j += 1
                    continue
                d += (s[j] == "[") - (s[j] == "]")
                j += 1
            if d:
                return None
            toks.append(s[i:j]); i = j
        else:
            j = i
            while j < n and s[j] not in _WS and s[j] not in "#[]":
                j += 1
            if j < n and s[j] in "[]":
                return None   # bracket glued to a token: outside the grammar
            toks.append(s[i:j]); i = j
    return toks


def classify(tok: str):
    """-> ('hex', bytes) | ('bracket', body_str) | ('fn', name, arg) | ('int', n) | ('op', byte) | ('string', tok)"""
    if tok == "0x":
        return ("hex", b"")
    if tok.startswith("0x") and _HEX.match(tok[2:]):
        return ("hex", bytes.fromhex(tok[2:]))
    if len(tok) > 1 and tok[0] == "[" and tok[-1] == "]":
        return ("bracket", tok[1:-1])
    m = _FN.match(tok)
    if m and len(tok) > 3:
        return ("fn", m.group(1), m.group(2))
    if _DEC.match(tok):
        v = int(tok)
        if INT64_MIN <= v <= INT64_MAX:
            return ("int", v)
        return ("string", tok)
    name = tok[3:] if tok.startswith("OP_") else tok
    if len(name) == 3 and name[0] == "x" and re.match(r"^[0-9a-fA-F]{2}$", name[1:]):
        return ("op", int(name[1:], 16))
    if name in OPCODES:
        return ("op", OPCODES[name])
    if _HEX.match(tok):
        return ("hex", bytes.fromhex(tok))
    return ("string", tok)


def nonminimal_class(b: bytes):
    """for 1..4 byte strings that are not the minimal encoding of their numeric value: which kind"""
    if not (1 <= len(b) <= 4) or scriptnum_is_minimal(b):
        return None
    v = scriptnum_decode(b)
    if v == 0:
        return "zero" if b[-1] == 0x00 else "negzero"
    return "padded-pos" if b[-1] == 0x00 else "padded-neg"


class OutOfGrammar(Exception):
    pass


def assemble(tokens, notes=None, ops=None):
    """reference assembler for a list of token strings -> bytes.
    notes (list) collects ('hex-literal'|'bracket-body', length, class) for every literal/body whose bytes are a
    1..4-byte string that is not a minimal number encoding (used only to *key* a mismatch, never to decide one).
    ops (list) collects the expected operation sequence [('op', byte) | ('push', bytes)]."""
    out = bytearray()
    for t in tokens:
        c = classify(t)
        if c[0] == "hex":
            out += push_minimal(c[1])
            if ops is not None: ops.append(("push", c[1]))
            k = nonminimal_class(c[1])
            if k and notes is not None:
                notes.append(("hex-literal", len(c[1]), k))
        elif c[0] == "int":
            out += push_number(c[1])
            if ops is not None: ops.append(("push", scriptnum_encode(c[1])))
        elif c[0] == "op":
            out += bytes([c[1]])
            if ops is not None: ops.append(("op", c[1]))
        elif c[0] == "bracket":
            inner = tokenize_body(c[1])
            if inner is None:
                raise OutOfGrammar(t)
            body = assemble(inner, notes, None)
            out += push_minimal(body)
            if ops is not None: ops.append(("push", body))
            k = nonminimal_class(body)
            if k and notes is not None:
                notes.append(("bracket-body", len(body), k))
        else:
            raise OutOfGrammar(t)
    return bytes(out)


# --------------------------------------------------------------------------------------------------
# hashes
# --------------------------------------------------------------------------------------------------
def sha256(b): return hashlib.sha256(b).digest()
def ripemd160(b): return hashlib.new("ripemd160", b).digest()
def hash160(b): return ripemd160(sha256(b))
def hash256(b): return sha256(sha256(b))


def tagged_hash(tag: bytes, msg: bytes) -> bytes:
    t = sha256(tag)
    return sha256(t + t + msg)


def compact_size(n: int) -> bytes:
    if n < 253:
        return bytes([n])
    if n <= 0xffff:
        return b"\xfd" + n.to_bytes(2, "little")
    if n <= 0xffffffff:
        return b"\xfe" + n.to_bytes(4, "little")
    return b"\xff" + n.to_bytes(8, "little")


# --------------------------------------------------------------------------------------------------
# base58 / base58check
# --------------------------------------------------------------------------------------------------
B58 = "123456789ABCDEFGHJKLMNPQRSTUVWXYZabcdefghijkmnopqrstuvwxyz"
_B58IDX = {c: i for i, c in enumerate(B58)}


def b58encode(b: bytes) -> str:
    z = len(b) - len(b.lstrip(b"\x00"))
    n = int.from_bytes(b, "big")
    s = ""
    while n:
        n, r = divmod(n, 58)
        s = B58[r] + s
    return "1" * z + s


def b58decode(s: str):
    n = 0
    for c in s:
        if c not in _B58IDX:
            return None
        n = n * 58 + _B58IDX[c]
    z = len(s) - len(s.lstrip("1"))
    body = n.to_bytes((n.bit_length() + 7) // 8, "big") if n else b""
    return b"\x00" * z + body


def b58check_encode(payload: bytes) -> str:
    return b58encode(payload + hash256(payload)[:4])


def b58check_decode(s: str):
    """-> payload or None"""
    raw = b58decode(s)
    if raw is None or len(raw) < 4:
        return None
    if hash256(raw[:-4])[:4] != raw[-4:]:
        return None
    return raw[:-4]


# --------------------------------------------------------------------------------------------------
# bech32 / bech32m (BIP173 / BIP350)
# --------------------------------------------------------------------------------------------------
B32 = "qpzry9x8gf2tvdw0s3jn54khce6mua7l"
_B32IDX = {c: i for i, c in enumerate(B32)}
BECH32_CONST, BECH32M_CONST = 1, 0x2bc830a3


def _polymod(values):
    gen = (0x3b6a57b2, 0x26508e6d, 0x1ea119fa, 0x3d4233dd, 0x2a1462b3)
    chk = 1
    for v in values:
        top = chk >> 25
        chk = ((chk & 0x1ffffff) << 5) ^ v
        for i in range(5):
            if (top >> i) & 1:
                chk ^= gen[i]
    return chk


def _hrp_expand(hrp):
    return [ord(c) >> 5 for c in hrp] + [0] + [ord(c) & 31 for c in hrp]


def bech32_encode(hrp: str, data5, const: int) -> str:
    vals = _hrp_expand(hrp) + list(data5)
    pm = _polymod(vals + [0] * 6) ^ const
    chk = [(pm >> 5 * (5 - i)) & 31 for i in range(6)]
    return hrp + "1" + "".join(B32[d] for d in list(data5) + chk)


def bech32_decode(s: str):
    """-> (const, hrp, data5 without checksum) or None"""
    if any(ord(c) < 33 or ord(c) > 126 for c in s):
        return None
    if s.lower() != s and s.upper() != s:
        return None
    if len(s) > 90:
        return None
    s = s.lower()
    pos = s.rfind("1")
    if pos < 1 or pos + 7 > len(s):
        return None
    hrp, rest = s[:pos], s[pos + 1:]
    if any(c not in _B32IDX for c in rest):
        return None
    data = [_B32IDX[c] for c in rest]
    pm = _polymod(_hrp_expand(hrp) + data)
    if pm == BECH32_CONST:
        return (BECH32_CONST, hrp, data[:-6])
    if pm == BECH32M_CONST:
        return (BECH32M_CONST, hrp, data[:-6])
    return None


def convertbits(data, frm, to, pad):
    """-> list or None (None: invalid padding when pad is False)"""
    acc = bits = 0
    out = []
    maxv = (1 << to) - 1
    for v in data:
        acc = (acc << frm) | v
        bits += frm
        while bits >= to:
            bits -= to
            out.append((acc >> bits) & maxv)
    if pad:
        if bits:
            out.append((acc << (to - bits)) & maxv)
    elif bits >= frm or ((acc << (to - bits)) & maxv):
        return None
    return out


# --------------------------------------------------------------------------------------------------
# number theory: Jacobi symbol from its definition (product of Legendre symbols, Euler's criterion)
# --------------------------------------------------------------------------------------------------
def _is_prime(n):
    if n < 2:
        return False
    for p in (2, 3, 5, 7, 11, 13, 17, 19, 23, 29, 31, 37):
        if n % p == 0:
            return n == p
    d, r = n - 1, 0
    while d % 2 == 0:
        d //= 2; r += 1
    for a in (2, 3, 5, 7, 11, 13, 17, 19, 23, 29, 31, 37):
        x = pow(a, d, n)
        if x in (1, n - 1):
            continue
        for _ in range(r - 1):
            x = x * x % n
            if x == n - 1:
                break
        else:
            return False
    return True


def legendre(a, p):
    """Euler's criterion, p an odd prime"""
    r = pow(a % p, (p - 1) // 2, p)
    return -1 if r == p - 1 else r


def jacobi_by_definition(a, k):
    """(a/k) for odd k >= 1 as the product of Legendre symbols over the prime factorisation of k.
    Only for k that is prime or has small factors (trial division)."""
    assert k >= 1 and k % 2 == 1
    if k == 1:
        return 1
    if _is_prime(k):
        return legendre(a, k)
    res, m, p = 1, k, 3
    while m > 1:
        if p * p > m or p > 1 << 20:
            assert _is_prime(m), "modulus too hard to factor for the oracle"
            res *= legendre(a, m); break
        while m % p == 0:
            res *= legendre(a, p); m //= p
        p += 2
    return res


# --------------------------------------------------------------------------------------------------
# secp256k1 (affine, plain Python), ECDSA, BIP340
# --------------------------------------------------------------------------------------------------
P = 2**256 - 2**32 - 977
N = 0xFFFFFFFFFFFFFFFFFFFFFFFFFFFFFFFEBAAEDCE6AF48A03BBFD25E8CD0364141
G = (0x79BE667EF9DCBBAC55A06295CE870B07029BFCDB2DCE28D959F2815B16F81798,
     0x483ADA7726A3C4655DA4FBFC0E1108A8FD17B448A68554199C47D08FFB10D4B8)


def pt_add(a, b):
    if a is None: return b
    if b is None: return a
    if a[0] == b[0]:
        if (a[1] + b[1]) % P == 0:
            return None
        l = 3 * a[0] * a[0] * pow(2 * a[1], -1, P) % P
    else:
        l = (b[1] - a[1]) * pow(b[0] - a[0], -1, P) % P
    x = (l * l - a[0] - b[0]) % P
    return (x, (l * (a[0] - x) - a[1]) % P)


def pt_mul(k, a):
    r = None
    while k:
        if k & 1:
            r = pt_add(r, a)
        a = pt_add(a, a)
        k >>= 1
    return r


def lift_x(x, odd=False):
    if x >= P:
        return None
    c = (pow(x, 3, P) + 7) % P
    y = pow(c, (P + 1) // 4, P)
    if y * y % P != c:
        return None
    if (y & 1) != int(odd):
        y = P - y
    return (x, y)


def pt_ser(a):
    return bytes([2 + (a[1] & 1)]) + a[0].to_bytes(32, "big")


def pt_parse(b):
    """compressed / uncompressed SEC1 -> point or None"""
    if len(b) == 33 and b[0] in (2, 3):
        return lift_x(int.from_bytes(b[1:], "big"), b[0] == 3)
    if len(b) == 65 and b[0] == 4:
        x, y = int.from_bytes(b[1:33], "big"), int.from_bytes(b[33:], "big")
        if x < P and y < P and (y * y - x * x * x - 7) % P == 0:
            return (x, y)
    return None


def ecdsa_sign(d, msg32, k):
    R = pt_mul(k, G)
    r = R[0] % N
    s = pow(k, -1, N) * (int.from_bytes(msg32, "big") + r * d) % N
    if s > N // 2:
        s = N - s
    return r, s


def ecdsa_verify(Q, msg32, r, s):
    if not (1 <= r < N and 1 <= s < N):
        return False
    w = pow(s, -1, N)
    X = pt_add(pt_mul(int.from_bytes(msg32, "big") * w % N, G), pt_mul(r * w % N, Q))
    return X is not None and X[0] % N == r


def der_sig(r, s):
    def i(v):
        b = v.to_bytes((v.bit_length() + 8) // 8, "big")
        return b"\x02" + bytes([len(b)]) + b
    body = i(r) + i(s)
    return b"\x30" + bytes([len(body)]) + body


def schnorr_sign(d, msg, aux=b"\x00" * 32):
    Pt = pt_mul(d, G)
    if Pt[1] & 1:
        d = N - d
    t = (d ^ int.from_bytes(tagged_hash(b"BIP0340/aux", aux), "big")).to_bytes(32, "big")
    k = int.from_bytes(tagged_hash(b"BIP0340/nonce", t + Pt[0].to_bytes(32, "big") + msg), "big") % N
    R = pt_mul(k, G)
    if R[1] & 1:
        k = N - k
    e = int.from_bytes(tagged_hash(b"BIP0340/challenge", R[0].to_bytes(32, "big") + Pt[0].to_bytes(32, "big") + msg), "big") % N
    return R[0].to_bytes(32, "big") + ((k + e * d) % N).to_bytes(32, "big")


def schnorr_verify(px32, msg, sig):
    if len(sig) != 64:
        return False
    Pt = lift_x(int.from_bytes(px32, "big"))
    r, s = int.from_bytes(sig[:32], "big"), int.from_bytes(sig[32:], "big")
    if Pt is None or r >= P or s >= N:
        return False
    e = int.from_bytes(tagged_hash(b"BIP0340/challenge", sig[:32] + px32 + msg), "big") % N
    R = pt_add(pt_mul(s, G), pt_mul(N - e, Pt))
    return R is not None and not (R[1] & 1) and R[0] == r


# --------------------------------------------------------------------------------------------------
# self-test: published vectors + cross-check against the C++ reference (mc_refcli) when available
# --------------------------------------------------------------------------------------------------
def selftest(refcli=None):
    """-> list of failure strings (empty = ok)"""
    import json, subprocess
    bad = []

    def ck(c, what):
        if not c:
            bad.append(what)
    ck(sha256(b"abc").hex() == "ba7816bf8f01cfea414140de5dae2223b00361a396177a9cb410ff61f20015ad", "sha256")
    ck(ripemd160(b"abc").hex() == "8eb208f7e05d987a9b044a8e98c6b087f15a0bfc", "ripemd160")
    for n, h in ((0, ""), (1, "01"), (-1, "81"), (127, "7f"), (128, "8000"), (-128, "8080"), (255, "ff00"), (256, "0001"),
                 (32767, "ff7f"), (32768, "008000"), (-32768, "008080"), (2**31 - 1, "ffffff7f"), (2**31, "0000008000"),
                 (-2**63, "000000000000008080"), (2**63 - 1, "ffffffffffffff7f")):
        ck(scriptnum_encode(n).hex() == h, "scriptnum_encode %d" % n)
        ck(scriptnum_decode(bytes.fromhex(h)) == n, "scriptnum_decode %s" % h)
        ck(scriptnum_is_minimal(bytes.fromhex(h)), "minimal %s" % h)
    for h in ("00", "80", "0100", "0180", "000000", "ff0000", "7f80"):
        ck(not scriptnum_is_minimal(bytes.fromhex(h)), "nonminimal %s" % h)
    ck(push_minimal(b"").hex() == "00" and push_minimal(b"\x01").hex() == "51" and push_minimal(b"\x10").hex() == "60"
       and push_minimal(b"\x81").hex() == "4f" and push_minimal(b"\x00").hex() == "0100" and push_minimal(b"\x11").hex() == "0111"
       and push_minimal(b"a" * 75)[:1] == b"\x4b" and push_minimal(b"a" * 76)[:2] == b"\x4c\x4c"
       and push_minimal(b"a" * 255)[:2] == b"\x4c\xff" and push_minimal(b"a" * 256)[:3] == b"\x4d\x00\x01", "push_minimal")
    # assembler on the examples pinned by the repository's own test-suite
    ck(assemble(["[OP_IF 144 OP_CHECKSEQUENCEVERIFY OP_DROP 01 OP_ELSE 02 OP_ENDIF OP_EQUAL]"]).hex() == "0b63029000b2755167526887", "asm LN")
    ck(assemble(["OP_DUP", "OP_HASH160", "[62e907b15cbf27d5425399ebf6f0fb50ebb88f18]", "OP_EQUALVERIFY", "OP_CHECKSIG"]).hex()
       == "76a9151462e907b15cbf27d5425399ebf6f0fb50ebb88f1888ac", "asm p2pkh")
    ck(classify("1234") == ("int", 1234) and classify("123a") == ("hex", b"\x12\x3a") and classify("515293") == ("int", 515293)
       and classify("0x") == ("hex", b"") and classify("01") == ("hex", b"\x01") and classify("hello")[0] == "string"
       and classify("OP_1") == ("op", 0x51) and classify("1") == ("int", 1), "classify")
    # base58check / bech32 published vectors
    ck(b58check_encode(bytes.fromhex("00fa88f020e222264e2cd40083902bffb40205834a")) == "1PqhyaTFgaHeYVmi5qBV9AjjeiyiTV1hpx", "b58 enc")
    ck(b58check_decode("1PqhyaTFgaHeYVmi5qBV9AjjeiyiTV1hpx") == bytes.fromhex("00fa88f020e222264e2cd40083902bffb40205834a"), "b58 dec")
    ck(b58check_decode("1PqhyaTFgaHeYVmi5qBV9AjjeiyiTV1hpy") is None, "b58 bad")
    for s in ("A12UEL5L", "a12uel5l", "abcdef1qpzry9x8gf2tvdw0s3jn54khce6mua7lmqqqxw", "split1checkupstagehandshakeupstreamerranterredcaperred2y9e3w"):
        r = bech32_decode(s); ck(r is not None and r[0] == BECH32_CONST, "bip173 " + s)
    for s in ("A1LQFN3A", "a1lqfn3a", "abcdef1l7aum6echk45nj3s0wdvt2fg8x9yrzpqzd3ryx", "split1checkupstagehandshakeupstreamerranterredcaperredlc445v"):
        r = bech32_decode(s); ck(r is not None and r[0] == BECH32M_CONST, "bip350 " + s)
    for s in ("pzry9x0s0muk", "1pzry9x0s0muk", "x1b4n0q5v", "li1dgmt3", "A1G7SGD8", "10a06t8", "1qzzfhee", "M1VUXWEZ", "a12UEL5L"):
        ck(bech32_decode(s) is None, "bip173/350 invalid " + s)
    r = bech32_decode("BC1QW508D6QEJXTDG4Y5R3ZARVARY0C5XW7KV8F3T4")
    ck(r and r[2][0] == 0 and bytes(convertbits(r[2][1:], 5, 8, False)).hex() == "751e76e8199196d454941c45d1b3a323f1433bd6", "segwit v0")
    r = bech32_decode("bc1p0xlxvlhemja6c4dqv22uapctqupfhlxm9h8z3k2e72q4k9hcz7vqzk5jj0")
    ck(r and r[0] == BECH32M_CONST and r[2][0] == 1 and bytes(convertbits(r[2][1:], 5, 8, False)).hex()
       == "79be667ef9dcbbac55a06295ce870b07029bfcdb2dce28d959f2815b16f81798", "segwit v1")
    ck(bech32_encode("bc", [1] + convertbits(bytes.fromhex("79be667ef9dcbbac55a06295ce870b07029bfcdb2dce28d959f2815b16f81798"), 8, 5, True), BECH32M_CONST)
       == "bc1p0xlxvlhemja6c4dqv22uapctqupfhlxm9h8z3k2e72q4k9hcz7vqzk5jj0", "bech32m enc")
    # BIP340 vector 0 and 1, tagged hash, EC
    ck(pt_ser(pt_mul(3, G)).hex() == "02f9308a019258c31049344f85f89d5229b531c845836f99b08601f113bce036f9", "3G")
    sk = 0xB7E151628AED2A6ABF7158809CF4F3C762E7160F38B4DA56A784D9045190CFEF
    msg = bytes.fromhex("243F6A8885A308D313198A2E03707344A4093822299F31D0082EFA98EC4E6C89")
    sig = schnorr_sign(sk, msg, (1).to_bytes(32, "big"))
    ck(sig.hex().upper() == "6896BD60EEAE296DB48A229FF71DFE071BDE413E6D43F917DC8DCF8C78DE33418906D11AC976ABCCB20B091292BFF4EA897EFCB639EA871CFA95F6DE339E4B0A", "bip340 sign v1")
    ck(schnorr_verify(bytes.fromhex("DFF1D77F2A671C5F36183726DB2341BE58FEAE1DA2DECED843240F7B502BA659"), msg, sig), "bip340 verify v1")
    r_, s_ = ecdsa_sign(sk, msg, 12345)
    ck(ecdsa_verify(pt_mul(sk, G), msg, r_, s_) and not ecdsa_verify(pt_mul(sk, G), msg, r_, s_ ^ 1), "ecdsa")
    for a in range(1, 30):
        for k in (1, 3, 5, 7, 9, 15, 21, 45, 105):
            # compare definition with the reciprocity algorithm
            x, y, t = a % k, k, 1
            while x:
                while x % 2 == 0:
                    x //= 2
                    if y % 8 in (3, 5): t = -t
                x, y = y, x
                if x % 4 == 3 and y % 4 == 3: t = -t
                x %= y
            ck(jacobi_by_definition(a, k) == (t if y == 1 else 0), "jacobi %d/%d" % (a, k))
    ck(compact_size(252).hex() == "fc" and compact_size(253).hex() == "fdfd00" and compact_size(65535).hex() == "fdffff"
       and compact_size(65536).hex() == "fe00000100", "compact size")
    # cross-check against the C++ reference
    if refcli:
        reqs, exp = [], []
        strs = [b"", b"\x00", b"\x01", b"\x10", b"\x11", b"\x80", b"\x81", b"\x01\x00", b"\xff" * 75, b"\xab" * 76, b"\x01" * 255, b"\x02" * 256, b"\x03" * 520]
        for b in strs:
            reqs.append("push %s" % (b.hex() or "-")); exp.append(("hex", push_minimal(b).hex()))
            reqs.append("hash sha256 %s" % (b.hex() or "-")); exp.append(("hex", sha256(b).hex()))
            reqs.append("hash hash160 %s" % (b.hex() or "-")); exp.append(("hex", hash160(b).hex()))
            reqs.append("hash ripemd160 %s" % (b.hex() or "-")); exp.append(("hex", ripemd160(b).hex()))
            reqs.append("hash hash256 %s" % (b.hex() or "-")); exp.append(("hex", hash256(b).hex()))
            reqs.append("tagged TapLeaf %s" % (b.hex() or "-")); exp.append(("hex", tagged_hash(b"TapLeaf", b).hex()))
        for n in (0, 1, -1, 16, 17, 127, 128, -128, 255, 256, 32767, 32768, 2**31 - 1, 2**31, -2**31, 2**63 - 1, -2**63 + 1):
            reqs.append("num_encode %d" % n); exp.append(("hex", scriptnum_encode(n).hex()))
        for h in ("00", "80", "0100", "ff7f", "ffffff7f", "0180", "000080"):
            reqs.append("num_decode %s" % h); exp.append(("value", scriptnum_decode(bytes.fromhex(h))))
        try:
            r = subprocess.run([refcli], input="\n".join(reqs) + "\n", stdout=subprocess.PIPE, text=True, timeout=60)
            lines = r.stdout.strip().split("\n")
            ck(len(lines) == len(reqs), "mc_refcli reply count")
            for q, (k, v), l in zip(reqs, exp, lines):
                ck(json.loads(l).get(k) == v, "python reference and C++ reference disagree on: " + q)
        except Exception as ex:  # noqa
            bad.append("mc_refcli: %r" % (ex,))
    return bad


if __name__ == "__main__":
    import sys
    f = selftest(sys.argv[1] if len(sys.argv) > 1 else None)
    print("\n".join(f) if f else "pyref_codec selftest ok")
    sys.exit(1 if f else 0)
