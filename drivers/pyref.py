"""pyref -- pure-Python (3.11 stdlib) reference for the taproot-related process-level drivers.

Written from BIP340 / BIP341 / BIP342 / BIP350 / BIP144; shares no code with /repo.

  * secp256k1: lift_x, point add / mul (Jacobian), x-only public keys
  * BIP340 schnorr sign / verify, tagged hashes
  * BIP341 TapLeaf / TapBranch / TapTweak, output-key tweak, script-path (control block) verification,
    private-key tweak for key-path signing
  * BIP341/342 signature message for key-path and script-path spends
  * BIP173/BIP350 bech32 / bech32m and segwit address encode / decode
  * transaction (de)serialisation including BIP144 witnesses, txid / wtxid

selftest(repo) runs published vectors and the real-chain taproot spends in <repo>/doc/txs.
"""
import functools
import hashlib
import os
import struct

# ------------------------------------------------------------------------------------------ hashes


def sha256(b: bytes) -> bytes:
    return hashlib.sha256(b).digest()


def dsha256(b: bytes) -> bytes:
    return sha256(sha256(b))


@functools.lru_cache(maxsize=None)
def _tag_prefix(tag: str) -> bytes:
    t = sha256(tag.encode())
    return t + t


def tagged_hash(tag: str, msg: bytes) -> bytes:
    return sha256(_tag_prefix(tag) + msg)


# --------------------------------------------------------------------------------------- secp256k1

P_FIELD = 0xFFFFFFFFFFFFFFFFFFFFFFFFFFFFFFFFFFFFFFFFFFFFFFFFFFFFFFFEFFFFFC2F
N_ORDER = 0xFFFFFFFFFFFFFFFFFFFFFFFFFFFFFFFEBAAEDCE6AF48A03BBFD25E8CD0364141
G = (0x79BE667EF9DCBBAC55A06295CE870B07029BFCDB2DCE28D959F2815B16F81798,
     0x483ADA7726A3C4655DA4FBFC0E1108A8FD17B448A68554199C47D08FFB10D4B8)
# a point is None (infinity) or an affine pair (x, y)


def on_curve(pt) -> bool:
    if pt is None:
        return True
    x, y = pt
    return (y * y - x * x * x - 7) % P_FIELD == 0


def _jac_double(p):
    x, y, z = p
    if y == 0 or z == 0:
        return (0, 1, 0)
    p_ = P_FIELD
    ysq = (y * y) % p_
    s = (4 * x * ysq) % p_
    m = (3 * x * x) % p_           # a = 0
    nx = (m * m - 2 * s) % p_
    ny = (m * (s - nx) - 8 * ysq * ysq) % p_
    nz = (2 * y * z) % p_
    return (nx, ny, nz)


def _jac_add(p, q):
    p_ = P_FIELD
    if p[2] == 0:
        return q
    if q[2] == 0:
        return p
    x1, y1, z1 = p
    x2, y2, z2 = q
    z1z1 = (z1 * z1) % p_
    z2z2 = (z2 * z2) % p_
    u1 = (x1 * z2z2) % p_
    u2 = (x2 * z1z1) % p_
    s1 = (y1 * z2 * z2z2) % p_
    s2 = (y2 * z1 * z1z1) % p_
    if u1 == u2:
        if s1 != s2:
            return (0, 1, 0)
        return _jac_double(p)
    h = (u2 - u1) % p_
    r = (s2 - s1) % p_
    h2 = (h * h) % p_
    h3 = (h * h2) % p_
    u1h2 = (u1 * h2) % p_
    nx = (r * r - h3 - 2 * u1h2) % p_
    ny = (r * (u1h2 - nx) - s1 * h3) % p_
    nz = (h * z1 * z2) % p_
    return (nx, ny, nz)


def _to_jac(pt):
    return (0, 1, 0) if pt is None else (pt[0], pt[1], 1)


def _from_jac(p):
    if p[2] == 0:
        return None
    zi = pow(p[2], -1, P_FIELD)
    zi2 = (zi * zi) % P_FIELD
    return ((p[0] * zi2) % P_FIELD, (p[1] * zi2 * zi) % P_FIELD)


def point_add(p1, p2):
    return _from_jac(_jac_add(_to_jac(p1), _to_jac(p2)))


def point_neg(pt):
    return None if pt is None else (pt[0], (-pt[1]) % P_FIELD)


def point_mul(pt, k: int):
    k %= N_ORDER
    acc = (0, 1, 0)
    add = _to_jac(pt)
    while k:
        if k & 1:
            acc = _jac_add(acc, add)
        add = _jac_double(add)
        k >>= 1
    return _from_jac(acc)


def lift_x(x: int):
    """BIP340 lift_x: the point with this x and even y, or None"""
    if x >= P_FIELD:
        return None
    c = (pow(x, 3, P_FIELD) + 7) % P_FIELD
    y = pow(c, (P_FIELD + 1) // 4, P_FIELD)
    if (y * y) % P_FIELD != c:
        return None
    return (x, y if y % 2 == 0 else P_FIELD - y)


def b2i(b: bytes) -> int:
    return int.from_bytes(b, "big")


def i2b(i: int) -> bytes:
    return i.to_bytes(32, "big")


def xonly_pubkey(seckey: int) -> bytes:
    """x-only public key of a secret key (BIP340)"""
    assert 0 < seckey < N_ORDER
    return i2b(point_mul(G, seckey)[0])


def pubkey_point(seckey: int):
    return point_mul(G, seckey)


# ----------------------------------------------------------------------------------------- BIP340


def schnorr_sign(msg: bytes, seckey: int, aux: bytes = b"\0" * 32) -> bytes:
    assert len(aux) == 32
    if not (0 < seckey < N_ORDER):
        raise ValueError("secret key out of range")
    Pp = point_mul(G, seckey)
    d = seckey if Pp[1] % 2 == 0 else N_ORDER - seckey
    t = i2b(d ^ b2i(tagged_hash("BIP0340/aux", aux)))
    k0 = b2i(tagged_hash("BIP0340/nonce", t + i2b(Pp[0]) + msg)) % N_ORDER
    if k0 == 0:
        raise ValueError("zero nonce")
    R = point_mul(G, k0)
    k = k0 if R[1] % 2 == 0 else N_ORDER - k0
    e = b2i(tagged_hash("BIP0340/challenge", i2b(R[0]) + i2b(Pp[0]) + msg)) % N_ORDER
    sig = i2b(R[0]) + i2b((k + e * d) % N_ORDER)
    if not schnorr_verify(msg, i2b(Pp[0]), sig):
        raise ValueError("produced signature does not verify")
    return sig


def schnorr_verify(msg: bytes, pubkey: bytes, sig: bytes) -> bool:
    if len(pubkey) != 32 or len(sig) != 64:
        return False
    Pp = lift_x(b2i(pubkey))
    r = b2i(sig[:32])
    s = b2i(sig[32:])
    if Pp is None or r >= P_FIELD or s >= N_ORDER:
        return False
    e = b2i(tagged_hash("BIP0340/challenge", sig[:32] + pubkey + msg)) % N_ORDER
    R = _from_jac(_jac_add(_to_jac(point_mul(G, s)), _to_jac(point_mul(Pp, N_ORDER - e))))
    if R is None or R[1] % 2 != 0 or R[0] != r:
        return False
    return True


# ----------------------------------------------------------------------------------------- BIP341

LEAF_VER_TAPSCRIPT = 0xC0


def compact_size(n: int) -> bytes:
    if n < 0xFD:
        return bytes([n])
    if n <= 0xFFFF:
        return b"\xfd" + struct.pack("<H", n)
    if n <= 0xFFFFFFFF:
        return b"\xfe" + struct.pack("<I", n)
    return b"\xff" + struct.pack("<Q", n)


def ser_string(b: bytes) -> bytes:
    return compact_size(len(b)) + b


def tapleaf_hash(script: bytes, leaf_version: int = LEAF_VER_TAPSCRIPT) -> bytes:
    return tagged_hash("TapLeaf", bytes([leaf_version]) + ser_string(script))


def tapbranch_hash(a: bytes, b: bytes) -> bytes:
    if b < a:
        a, b = b, a
    return tagged_hash("TapBranch", a + b)


@functools.lru_cache(maxsize=4096)
def taproot_tweak_pubkey(internal: bytes, merkle_root):
    """BIP341 taproot_tweak_pubkey -> (parity, output key bytes) or None.
    merkle_root None/b'' = no script tree."""
    h = merkle_root or b""
    t = b2i(tagged_hash("TapTweak", internal + h))
    if t >= N_ORDER:
        return None
    Pp = lift_x(b2i(internal))
    if Pp is None:
        return None
    Q = point_add(Pp, point_mul(G, t))
    if Q is None:
        return None
    return (Q[1] & 1, i2b(Q[0]))


def taproot_tweak_seckey(seckey: int, merkle_root) -> int:
    """BIP341 taproot_tweak_seckey: secret key for the output key"""
    Pp = point_mul(G, seckey)
    d = seckey if Pp[1] % 2 == 0 else N_ORDER - seckey
    t = b2i(tagged_hash("TapTweak", i2b(Pp[0]) + (merkle_root or b"")))
    if t >= N_ORDER:
        raise ValueError("tweak out of range")
    return (d + t) % N_ORDER


def merkle_root_from_path(leaf: bytes, path: bytes) -> bytes:
    k = leaf
    for j in range(len(path) // 32):
        k = tapbranch_hash(k, path[32 * j:32 * j + 32])
    return k


def taproot_verify_script_path(output_key: bytes, script: bytes, control: bytes):
    """BIP341 script-path validation rules up to (and excluding) script execution.
    -> (ok, reason, info) ; info has leaf_version, parity_bit, internal_key, leaf_hash, merkle_root, depth"""
    info = {}
    if len(output_key) != 32:
        return False, "output key is not 32 bytes", info
    if len(control) < 33 or len(control) > 33 + 32 * 128 or (len(control) - 33) % 32 != 0:
        return False, "control block length %d is not 33+32m, 0<=m<=128" % len(control), info
    info["leaf_version"] = control[0] & 0xFE
    info["parity_bit"] = control[0] & 1
    info["internal_key"] = control[1:33]
    info["depth"] = (len(control) - 33) // 32
    p = b2i(control[1:33])
    if lift_x(p) is None:
        return False, "internal key in control block is not a valid x coordinate", info
    k = tapleaf_hash(script, info["leaf_version"])
    info["leaf_hash"] = k
    root = merkle_root_from_path(k, control[33:])
    info["merkle_root"] = root
    tw = taproot_tweak_pubkey(control[1:33], root)
    if tw is None:
        return False, "tweak out of range / point at infinity", info
    info["q_parity"], info["q"] = tw
    if tw[1] != output_key:
        return False, "tweaked key %s != output key %s" % (tw[1].hex(), output_key.hex()), info
    if tw[0] != info["parity_bit"]:
        return False, "control parity bit %d but output key has parity %d" % (info["parity_bit"], tw[0]), info
    return True, "", info


# ---------------------------------------------------------------------------------- bech32(m), BIP350

_B32 = "qpzry9x8gf2tvdw0s3jn54khce6mua7l"
BECH32_CONST = 1
BECH32M_CONST = 0x2BC830A3


def _b32_polymod(values):
    gen = (0x3B6A57B2, 0x26508E6D, 0x1EA119FA, 0x3D4233DD, 0x2A1462B3)
    chk = 1
    for v in values:
        b = chk >> 25
        chk = ((chk & 0x1FFFFFF) << 5) ^ v
        for i in range(5):
            if (b >> i) & 1:
                chk ^= gen[i]
    return chk


def _b32_hrp_expand(hrp):
    return [ord(c) >> 5 for c in hrp] + [0] + [ord(c) & 31 for c in hrp]


def bech32_encode(hrp: str, data, const: int) -> str:
    values = _b32_hrp_expand(hrp) + list(data)
    pm = _b32_polymod(values + [0] * 6) ^ const
    chk = [(pm >> 5 * (5 - i)) & 31 for i in range(6)]
    return hrp + "1" + "".join(_B32[d] for d in list(data) + chk)


def bech32_decode(s: str):
    """-> (hrp, data5, const) or None"""
    if any(ord(c) < 33 or ord(c) > 126 for c in s):
        return None
    if s.lower() != s and s.upper() != s:
        return None
    s = s.lower()
    pos = s.rfind("1")
    if pos < 1 or pos + 7 > len(s) or len(s) > 90:
        return None
    if any(c not in _B32 for c in s[pos + 1:]):
        return None
    hrp = s[:pos]
    data = [_B32.find(c) for c in s[pos + 1:]]
    pm = _b32_polymod(_b32_hrp_expand(hrp) + data)
    if pm not in (BECH32_CONST, BECH32M_CONST):
        return None
    return hrp, data[:-6], pm


def convertbits(data, frombits, tobits, pad=True):
    acc = 0
    bits = 0
    ret = []
    maxv = (1 << tobits) - 1
    for v in data:
        if v < 0 or (v >> frombits):
            return None
        acc = (acc << frombits) | v
        bits += frombits
        while bits >= tobits:
            bits -= tobits
            ret.append((acc >> bits) & maxv)
    if pad:
        if bits:
            ret.append((acc << (tobits - bits)) & maxv)
    elif bits >= frombits or ((acc << (tobits - bits)) & maxv):
        return None
    return ret


def segwit_addr_decode(addr: str):
    """-> (hrp, witness version, program bytes) for a valid BIP173/BIP350 address, else None"""
    d = bech32_decode(addr)
    if d is None:
        return None
    hrp, data, const = d
    if not data:
        return None
    prog = convertbits(data[1:], 5, 8, False)
    if prog is None or len(prog) < 2 or len(prog) > 40 or data[0] > 16:
        return None
    if data[0] == 0 and len(prog) not in (20, 32):
        return None
    if (data[0] == 0 and const != BECH32_CONST) or (data[0] != 0 and const != BECH32M_CONST):
        return None
    return hrp, data[0], bytes(prog)


def segwit_addr_encode(hrp: str, witver: int, prog: bytes) -> str:
    return bech32_encode(hrp, [witver] + convertbits(prog, 8, 5), BECH32_CONST if witver == 0 else BECH32M_CONST)


# ------------------------------------------------------------------------------------ transactions


class TxIn:
    __slots__ = ("txid", "vout", "script_sig", "sequence", "witness")

    def __init__(self, txid: bytes, vout: int, script_sig: bytes = b"", sequence: int = 0xFFFFFFFF, witness=None):
        self.txid = txid        # 32 bytes, serialisation (internal) byte order
        self.vout = vout
        self.script_sig = script_sig
        self.sequence = sequence
        self.witness = list(witness or [])


class TxOut:
    __slots__ = ("value", "spk")

    def __init__(self, value: int, spk: bytes):
        self.value = value
        self.spk = spk

    def serialize(self) -> bytes:
        return struct.pack("<q", self.value) + ser_string(self.spk)


class Tx:
    def __init__(self, version=2, vin=None, vout=None, locktime=0):
        self.version = version
        self.vin = list(vin or [])
        self.vout = list(vout or [])
        self.locktime = locktime

    def has_witness(self) -> bool:
        return any(i.witness for i in self.vin)

    def serialize(self, with_witness: bool = True) -> bytes:
        w = with_witness and self.has_witness()
        o = struct.pack("<i", self.version)
        if w:
            o += b"\x00\x01"
        o += compact_size(len(self.vin))
        for i in self.vin:
            o += i.txid + struct.pack("<I", i.vout) + ser_string(i.script_sig) + struct.pack("<I", i.sequence)
        o += compact_size(len(self.vout))
        for t in self.vout:
            o += t.serialize()
        if w:
            for i in self.vin:
                o += compact_size(len(i.witness))
                for it in i.witness:
                    o += ser_string(it)
        o += struct.pack("<I", self.locktime)
        return o

    def txid(self) -> bytes:
        """internal byte order (as it appears in an outpoint)"""
        return dsha256(self.serialize(False))

    def wtxid(self) -> bytes:
        return dsha256(self.serialize(True))


class _Rd:
    def __init__(self, b):
        self.b = b
        self.p = 0

    def take(self, n):
        if self.p + n > len(self.b):
            raise ValueError("transaction truncated")
        r = self.b[self.p:self.p + n]
        self.p += n
        return r

    def cs(self):
        f = self.take(1)[0]
        if f < 0xFD:
            return f
        if f == 0xFD:
            return struct.unpack("<H", self.take(2))[0]
        if f == 0xFE:
            return struct.unpack("<I", self.take(4))[0]
        return struct.unpack("<Q", self.take(8))[0]

    def string(self):
        return self.take(self.cs())


def tx_deserialize(raw: bytes) -> Tx:
    r = _Rd(raw)
    tx = Tx(version=struct.unpack("<i", r.take(4))[0])
    nin = r.cs()
    segwit = False
    if nin == 0:
        flag = r.take(1)[0]
        if flag != 1:
            raise ValueError("bad segwit flag")
        segwit = True
        nin = r.cs()
    for _ in range(nin):
        txid = r.take(32)
        vout = struct.unpack("<I", r.take(4))[0]
        ss = r.string()
        seq = struct.unpack("<I", r.take(4))[0]
        tx.vin.append(TxIn(txid, vout, ss, seq))
    for _ in range(r.cs()):
        val = struct.unpack("<q", r.take(8))[0]
        tx.vout.append(TxOut(val, r.string()))
    if segwit:
        for i in tx.vin:
            i.witness = [r.string() for _ in range(r.cs())]
    tx.locktime = struct.unpack("<I", r.take(4))[0]
    if r.p != len(raw):
        raise ValueError("trailing bytes after transaction")
    return tx


ANNEX_TAG = 0x50


def taproot_sighash(tx: Tx, input_index: int, spent_outputs, hash_type: int = 0, leaf_hash=None,
                    codesep_pos: int = 0xFFFFFFFF, annex=None, key_version: int = 0) -> bytes:
    """BIP341 common signature message (+ BIP342 extension when leaf_hash is given).
    spent_outputs: list of TxOut, one per input of tx."""
    assert len(spent_outputs) == len(tx.vin)
    if hash_type not in (0, 1, 2, 3, 0x81, 0x82, 0x83):
        raise ValueError("invalid hash_type")
    out_type = 1 if hash_type == 0 else hash_type & 3
    anyone = hash_type & 0x80
    m = b"\x00" + bytes([hash_type]) + struct.pack("<i", tx.version) + struct.pack("<I", tx.locktime)
    if not anyone:
        m += sha256(b"".join(i.txid + struct.pack("<I", i.vout) for i in tx.vin))
        m += sha256(b"".join(struct.pack("<q", o.value) for o in spent_outputs))
        m += sha256(b"".join(ser_string(o.spk) for o in spent_outputs))
        m += sha256(b"".join(struct.pack("<I", i.sequence) for i in tx.vin))
    if out_type == 1:
        m += sha256(b"".join(o.serialize() for o in tx.vout))
    ext_flag = 1 if leaf_hash is not None else 0
    m += bytes([ext_flag * 2 + (1 if annex is not None else 0)])
    if anyone:
        i = tx.vin[input_index]
        m += i.txid + struct.pack("<I", i.vout) + spent_outputs[input_index].serialize() + struct.pack("<I", i.sequence)
    else:
        m += struct.pack("<I", input_index)
    if annex is not None:
        m += sha256(ser_string(annex))
    if out_type == 3:
        if input_index >= len(tx.vout):
            raise ValueError("SIGHASH_SINGLE without matching output")
        m += sha256(tx.vout[input_index].serialize())
    if ext_flag:
        m += leaf_hash + bytes([key_version]) + struct.pack("<I", codesep_pos)
    return tagged_hash("TapSighash", m)


def p2tr_spk(output_key: bytes) -> bytes:
    return b"\x51\x20" + output_key


def split_taproot_witness(witness):
    """-> (stack items, script or None, control or None, annex or None) following BIP341"""
    w = list(witness)
    annex = None
    if len(w) >= 2 and w[-1] and w[-1][0] == ANNEX_TAG:
        annex = w.pop()
    if len(w) == 1:
        return w, None, None, annex
    if len(w) == 0:
        return [], None, None, annex
    return w[:-2], w[-2], w[-1], annex


# ----------------------------------------------------------------------------------------- selftest


def _h(s):
    return bytes.fromhex(s)


def _verify_real_spend(fund_hex: str, spend_hex: str, name: str, errs):
    """verify a real-chain single-sig taproot spend (key path, or script path whose script ends in
    <32-byte key> OP_CHECKSIG with the signature as first witness item)"""
    fund = tx_deserialize(_h(fund_hex))
    spend = tx_deserialize(_h(spend_hex))
    if tx_deserialize(fund.serialize()).serialize() != _h(fund_hex) or spend.serialize() != _h(spend_hex):
        errs.append(name + ": tx serialisation round trip differs")
        return
    idx = next((k for k, i in enumerate(spend.vin) if i.txid == fund.txid()), None)
    if idx is None or len(spend.vin) != 1:
        errs.append(name + ": funding tx is not the (single) input")
        return
    prev = fund.vout[spend.vin[idx].vout]
    if len(prev.spk) != 34 or prev.spk[:2] != b"\x51\x20":
        errs.append(name + ": prevout is not P2TR")
        return
    q = prev.spk[2:]
    stack, script, control, annex = split_taproot_witness(spend.vin[idx].witness)

    def sig_ok(sig, pk, leaf):
        ht = 0
        if len(sig) == 65:
            ht = sig[64]
            sig = sig[:64]
            if ht == 0:
                return False
        d = taproot_sighash(spend, idx, [prev], ht, leaf_hash=leaf, annex=annex)
        return schnorr_verify(d, pk, sig)

    if script is None:
        if not sig_ok(stack[0], q, None):
            errs.append(name + ": key-path signature does not verify under the reference")
    else:
        ok, why, info = taproot_verify_script_path(q, script, control)
        if not ok:
            errs.append(name + ": script-path commitment does not verify under the reference: " + why)
            return
        if not (len(script) >= 34 and script[-1] == 0xAC and script[-34] == 0x20):
            errs.append(name + ": unexpected script shape")
            return
        if not sig_ok(stack[0], script[-33:-1], info["leaf_hash"]):
            errs.append(name + ": script-path signature does not verify under the reference")
        # corrupting one bit of the sighash input must break it (the check is not vacuous)
        bad = taproot_sighash(spend, idx, [TxOut(prev.value + 1, prev.spk)], 0, leaf_hash=info["leaf_hash"], annex=annex)
        if schnorr_verify(bad, script[-33:-1], stack[0][:64]):
            errs.append(name + ": signature verifies for a wrong amount")


def selftest(repo: str = "/repo"):
    """-> list of error strings (empty = reference is usable)"""
    errs = []
    try:
        # --- BIP340 vector 0 and 1, plus a failing one
        pk0 = _h("F9308A019258C31049344F85F89D5229B531C845836F99B08601F113BCE036F9")
        sig0 = _h("E907831F80848D1069A5371B402410364BDF1C5F8307B0084C55F1CE2DCA8215"
                  "25F66A4A85EA8B71E482A74F382D2CE5EBEEE8FDB2172F477DF4900D310536C0")
        if xonly_pubkey(3) != pk0:
            errs.append("BIP340 v0: pubkey of sk=3 wrong")
        if schnorr_sign(b"\0" * 32, 3, b"\0" * 32) != sig0:
            errs.append("BIP340 v0: signature differs")
        if not schnorr_verify(b"\0" * 32, pk0, sig0):
            errs.append("BIP340 v0: signature does not verify")
        if schnorr_verify(b"\0" * 31 + b"\1", pk0, sig0) or schnorr_verify(b"\0" * 32, pk0, sig0[:63] + bytes([sig0[63] ^ 1])):
            errs.append("BIP340 v0: corrupted signature/message verifies")
        sk1 = b2i(_h("B7E151628AED2A6ABF7158809CF4F3C762E7160F38B4DA56A784D9045190CFEF"))
        pk1 = _h("DFF1D77F2A671C5F36183726DB2341BE58FEAE1DA2DECED843240F7B502BA659")
        m1 = _h("243F6A8885A308D313198A2E03707344A4093822299F31D0082EFA98EC4E6C89")
        sig1 = _h("6896BD60EEAE296DB48A229FF71DFE071BDE413E6D43F917DC8DCF8C78DE3341"
                  "8906D11AC976ABCCB20B091292BFF4EA897EFCB639EA871CFA95F6DE339E4B0A")
        if xonly_pubkey(sk1) != pk1 or schnorr_sign(m1, sk1, b"\0" * 31 + b"\1") != sig1 or not schnorr_verify(m1, pk1, sig1):
            errs.append("BIP340 v1 fails")
        # vector 5: public key not on the curve
        if schnorr_verify(m1, _h("EEFDEA4CDB677750A420FEE807EACF21EB9898AE79B9768766E4FAA04A2D4A34"), sig1):
            errs.append("BIP340 v5: off-curve key accepted")
        if not on_curve(point_mul(G, 12345)) or point_mul(G, N_ORDER) is not None or point_add(G, point_neg(G)) is not None:
            errs.append("group law sanity fails")
        if point_add(G, G) != point_mul(G, 2) or point_add(point_mul(G, 5), point_mul(G, 7)) != point_mul(G, 12):
            errs.append("add/mul inconsistent")
        # --- BIP350
        a = "bc1p0xlxvlhemja6c4dqv22uapctqupfhlxm9h8z3k2e72q4k9hcz7vqzk5jj0"
        d = segwit_addr_decode(a)
        if d != ("bc", 1, _h("79be667ef9dcbbac55a06295ce870b07029bfcdb2dce28d959f2815b16f81798")):
            errs.append("BIP350: valid v1 address does not decode")
        elif segwit_addr_encode(*d) != a:
            errs.append("BIP350: re-encoding differs")
        if segwit_addr_decode("bc1p0xlxvlhemja6c4dqv22uapctqupfhlxm9h8z3k2e72q4k9hcz7vqh2y7hd") is not None:
            errs.append("BIP350: v1 address with bech32 (not bech32m) checksum accepted")
        if segwit_addr_decode("BC1QW508D6QEJXTDG4Y5R3ZARVARY0C5XW7KV8F3T4") != ("bc", 0, _h("751e76e8199196d454941c45d1b3a323f1433bd6")):
            errs.append("BIP173: v0 address does not decode")
        if segwit_addr_decode("bc1qw508d6qejxtdg4y5r3zarvary0c5xw7kemeawh") is not None:
            errs.append("BIP350: v0 address with bech32m checksum accepted")
        if bech32_decode("a1lqfn3a") != ("a", [], BECH32M_CONST) or bech32_decode("A12UEL5L") != ("a", [], BECH32_CONST):
            errs.append("bech32(m) minimal vectors fail")
        # --- BIP341 wallet vectors (scriptPubKey[0] and [1])
        tw = taproot_tweak_pubkey(_h("d6889cb081036e0faefa3a35157ad71086b123b2b144b649798b494c300a961d"), None)
        if tw is None or tw[1] != _h("53a1f6e454df1aa2776a2814a721372d6258050de330b3c6d10ee8f4e0dda343"):
            errs.append("BIP341 wallet vector 0 (no script tree) fails")
        ik = _h("187791b6f712a8ea41c8ecdd0ee77fab3e85263b37e1ec18a3651926b3a6cf27")
        sc = _h("20d85a959b0290bf19bb89ed43c916be835475d013da4b362117393e25a48229b8ac")
        lh = tapleaf_hash(sc)
        if lh != _h("5b75adecf53548f3ec6ad7d78383bf84cc57b55a3127c72b9a2481752dd88b21"):
            errs.append("BIP341 wallet vector 1: leaf hash differs")
        q1 = _h("147c9c57132f6e7ecddba9800bb0c4449251c92a1e60371ee77557b6620f3ea3")
        ok, why, info = taproot_verify_script_path(q1, sc, b"\xc1" + ik)
        if not ok:
            errs.append("BIP341 wallet vector 1: control block rejected: " + why)
        if taproot_verify_script_path(q1, sc, b"\xc0" + ik)[0]:
            errs.append("BIP341 wallet vector 1: wrong parity accepted")
        if taproot_verify_script_path(q1, sc + b"\x51", b"\xc1" + ik)[0]:
            errs.append("BIP341 wallet vector 1: wrong script accepted")
        # --- seckey tweak consistent with pubkey tweak, both parities of the internal point
        for sk in (3, 4, 5, 6, 7):
            root = sha256(bytes([sk]))
            t = taproot_tweak_pubkey(xonly_pubkey(sk), root)
            if t is None or xonly_pubkey(taproot_tweak_seckey(sk, root)) != t[1]:
                errs.append("seckey tweak and pubkey tweak disagree (sk=%d)" % sk)
        # --- real-chain spends shipped with the repository
        d_ = os.path.join(repo, "doc", "txs")
        for nm in ("p2tr", "p2ts"):
            try:
                fi = open(os.path.join(d_, nm + "-in")).read().strip()
                ft = open(os.path.join(d_, nm + "-tx")).read().strip()
            except OSError as e:
                errs.append("cannot read %s example: %s" % (nm, e))
                continue
            _verify_real_spend(fi, ft, nm, errs)
    except Exception as e:  # noqa: BLE001 - any exception means the reference is unusable
        import traceback
        errs.append("exception in selftest: %r %s" % (e, traceback.format_exc()[-600:]))
    return errs


if __name__ == "__main__":
    import sys
    import time
    t0 = time.time()
    e = selftest(sys.argv[1] if len(sys.argv) > 1 else "/repo")
    print("pyref selftest: %s (%.2fs)" % ("OK" if not e else "FAILED", time.time() - t0))
    for x in e:
        print("  " + x)
    sys.exit(1 if e else 0)
