"""C06 -- tap: printed address and witnesses verify, whatever leaf is spent.

Exhaustive enumeration (no sampling) of (internal key, script-list pattern, n, spending index | none, address prefix)
against the REAL `tap` and `btcdeb` binaries in ctx.bdir, with the pure-Python BIP340/341/342/350 reference in
pyref.py as oracle.

One *group* = (key, pattern, n, prefix); it is one Pool work item and runs

    tap [-p] K n s1..sn                         (pipes)  -> address A0 -> output key Q (reference bech32m decoder)
    tap [-p] --tx --txin K n s1..sn             (pipes + pty)  key path: witness [placeholder], sighash log
    for every index i of the group:
      tap [-p] K n s1..sn i [args]              (pipes)  address must equal A0
      tap [-p] --tx --txin K n s1..sn i [args]  (pipes)  address == A0, emitted tx, witness [sig, args.., script, control]
      btcdeb --tx=<emitted> --txin=<funding>    (batch)  commitment phase must pass (sweep patterns: final stack 01)
      same tap command with stdin+stdout on ptys          Final control object / Tweaked pubkey / sighash log lines
      (csig patterns) reference signer signs tap's sighash, tap --sig=.., btcdeb must end with 01 / exit 0
    key-path round trip: reference computes the tweaked secret key, signs, tap --sig=.., btcdeb must end with 01

The funding and the spending transaction are synthesised with pyref (single input; P2TR output at vout n%2).
"""
import functools
import hashlib
import json
import multiprocessing
import os
import pty
import random
import re
import select
import shutil
import signal
import subprocess
import sys
import tempfile
import time

sys.path.insert(0, os.path.dirname(os.path.abspath(__file__)))
import pyref as R  # noqa: E402

# ------------------------------------------------------------------------------------------ the bounded space

INTERNAL_SKS = (3, 11, R.b2i(hashlib.sha256(b"C06/internal/1").digest()) % R.N_ORDER)   # 11: odd-Y point (negated in the seckey tweak)
PREFIXES = ((None, "bcrt"), ("--addrprefix=tb", "tb"), ("-pbc", "bc"), ("--addrprefix=bcrt", "bcrt"))
SWEEP_PATTERNS = ("distinct", "equal", "alt", "spelled", "emptyleaf", "zeroprefix", "decimal")   # zeroprefix: sibling leaf hashes that both start with a zero byte, in both orders   # spelled: leaves given as bracketed text with an inline function (same bytes as their hex form); emptyleaf: leaf 0 is the empty script
RT_PATTERNS = ("csig", "csigarg", "csep")             # leaves <pk_i> OP_CHECKSIG  /  OP_DROP <pk_i> OP_CHECKSIG with one spend argument
PLACEHOLDER = bytes(range(16)) * 4
SPEND_ARG = "0x2a"
TIMEOUT = 60


def bounds(tier):
    if tier == "thorough":
        return dict(N=64, big=(65, 127, 128, 129, 130, 131, 132, 133, 134, 135, 136, 137, 138, 139, 140, 200, 255, 256, 257, 258, 259, 260, 261, 262, 263, 264, 511, 512, 513, 1023, 1024), rt=(1, 2, 3, 4, 5, 6, 7, 8))
    # quick: a few tree sizes beyond the exhaustive range, none of them a power of two only (levels wider than 64 with odd node counts), for
    # the first key, the default prefix and distinct leaves
    return dict(N=24, big=(65, 100, 129, 130, 131, 135, 200, 257, 258, 263), rt=(1, 2, 3, 5))


def big_indices(n):
    return sorted({0, 1, n // 2, n - 2, n - 1})


@functools.lru_cache(maxsize=None)
def internal_key(ki):
    return R.xonly_pubkey(INTERNAL_SKS[ki])


@functools.lru_cache(maxsize=None)
def leaf_sk(i):
    return R.b2i(hashlib.sha256(b"C06/leaf/%d" % i).digest()) % R.N_ORDER


@functools.lru_cache(maxsize=None)
def leaf_pk(i):
    return R.xonly_pubkey(leaf_sk(i))


def _s(i, base=0):
    """<2-byte number> OP_2DROP OP_1: consumes the signature item tap always puts at the bottom, leaves 01"""
    v = base + i
    return bytes([2, v & 0xFF, v >> 8, 0x6D, 0x51])


@functools.lru_cache(maxsize=None)
def _alt_list(nmax):
    out = []
    k = 0
    while len(out) < nmax:
        a, b = _s(2 * k, 0x4000), _s(2 * k + 1, 0x4000)
        if R.tapleaf_hash(b) < R.tapleaf_hash(a):
            a, b = b, a              # now hash(a) < hash(b)
        if k & 1:
            a, b = b, a              # odd pairs: left leaf hash above its sibling
        out += [a, b]
        k += 1
    return tuple(out)


@functools.lru_cache(maxsize=None)
def _zero_list(nmax):
    """leaves <4-byte nonce> OP_2DROP OP_1 whose TapLeaf hash starts with 0x00 (ground), paired like _alt_list: within a pair the hashes share
    the zero first byte and differ later - even pairs ascending, odd pairs descending (so BIP341 has to swap them)"""
    found = []
    nonce = 0
    while len(found) < nmax:
        sc = bytes([4]) + nonce.to_bytes(4, "little") + bytes([0x6D, 0x51])
        if R.tapleaf_hash(sc)[0] == 0:
            found.append(sc)
        nonce += 1
    out = []
    for k in range(0, nmax - 1, 2):
        a, b = found[k], found[k + 1]
        if R.tapleaf_hash(b) < R.tapleaf_hash(a):
            a, b = b, a
        if (k // 2) & 1 == 0:
            a, b = b, a              # first pair: left leaf hash above its sibling (a swap is needed)
        out += [a, b]
    return tuple(out)


def _prog20(i):
    return hashlib.sha256(b"C06/prog/%d" % i).digest()[:20]


def spelling_for(pattern, i, script):
    """how leaf i is written on tap's command line"""
    if pattern == "emptyleaf" and not script:
        return "0x"
    if pattern == "decimal":
        return str(int.from_bytes(script, "little"))   # a digits-only token is a number for the tools: the leaf is its script-number encoding
    if pattern == "spelled":
        # a version-0 segwit address of the 20-byte value (odd leaves) / its plain hex in brackets (even leaves)
        if i & 1:
            return "[bech32dec(%s) OP_2DROP OP_1]" % R.segwit_addr_encode("bc", 0, _prog20(i))
        return "[%s OP_2DROP OP_1]" % _prog20(i).hex()
    return hx(script)


def scripts_for(pattern, n):
    if pattern == "distinct":
        return [_s(i) for i in range(n)]
    if pattern == "equal":
        return [_s(0x3FFF)] * n
    if pattern == "alt":
        return list(_alt_list(1024 + 2)[:n])
    if pattern == "spelled":
        return [bytes([20]) + _prog20(i) + bytes([0x6D, 0x51]) for i in range(n)]     # <20 bytes> OP_2DROP OP_1
    if pattern == "decimal":
        # OP_DROP OP_NOP*a OP_1 (OP_VERIFY OP_1)*b, at most 8 bytes with a last byte below 0x80: the little-endian bytes of a positive 64-bit
        # number, which is how the leaf is written on the command line (20853 = 75 51 = OP_DROP OP_1)
        shapes = [(a_, b_) for b_ in range(4) for a_ in range(7) if a_ + 2 * b_ + 2 <= 8]
        return [b"\x75" + b"\x61" * a_ + b"\x51" + b"\x69\x51" * b_ for a_, b_ in shapes[:n]]
    if pattern == "emptyleaf":
        return [b""] + [_s(i, 0x2000) for i in range(1, n)]       # the empty script is a legal leaf: it leaves the signature item as the (true) result
    if pattern == "zeroprefix":
        return list(_zero_list(16)[:n])
    if pattern == "csig":
        return [b"\x20" + leaf_pk(i) + b"\xac" for i in range(n)]
    if pattern == "csigarg":
        return [b"\x75\x20" + leaf_pk(i) + b"\xac" for i in range(n)]
    if pattern == "csep":
        # OP_CODESEPARATOR <pk_i> OP_CHECKSIG: the separator is executed, so BIP342 signs its position (opcode index 0), not 0xffffffff
        return [b"\xab\x20" + leaf_pk(i) + b"\xac" for i in range(n)]
    raise ValueError(pattern)


def make_jobs(tier):
    b = bounds(tier)
    jobs = []
    for ki in range(len(INTERNAL_SKS)):
        for pi in range(len(PREFIXES)):
            for pat in SWEEP_PATTERNS:
                for n in range(1, (min(b["N"], 8 if tier == "quick" else 16) if pat in ("spelled", "emptyleaf", "zeroprefix", "decimal") else b["N"]) + 1):
                    jobs.append(dict(ki=ki, pattern=pat, n=n, pi=pi, indices=list(range(n))))
                for n in (() if pat in ("spelled", "emptyleaf", "zeroprefix", "decimal") else b["big"]):
                    if tier == "quick" and not (ki == 0 and pi == 0 and pat == "distinct"):
                        continue
                    jobs.append(dict(ki=ki, pattern=pat, n=n, pi=pi, indices=big_indices(n)))
            for pat in RT_PATTERNS:
                for n in b["rt"]:
                    jobs.append(dict(ki=ki, pattern=pat, n=n, pi=pi, indices=list(range(n))))
    return jobs


# ------------------------------------------------------------------------------------------ process plumbing

def _env():
    e = {k: v for k, v in os.environ.items() if not k.startswith("DEBUG_")}
    e["LC_ALL"] = "C"
    return e


class Proc:
    __slots__ = ("rc", "out", "err", "timeout")

    def __init__(self, rc, out, err, timeout=False):
        self.rc, self.out, self.err, self.timeout = rc, out, err, timeout


def run_pipe(cmd, cwd, stdin_data=b""):
    try:
        p = subprocess.run(cmd, input=stdin_data, stdout=subprocess.PIPE, stderr=subprocess.PIPE, cwd=cwd, env=_env(), timeout=TIMEOUT)
        return Proc(p.returncode, p.stdout.decode("latin-1"), p.stderr.decode("latin-1"))
    except subprocess.TimeoutExpired as e:
        return Proc(None, (e.stdout or b"").decode("latin-1"), (e.stderr or b"").decode("latin-1"), True)


def run_pty(cmd, cwd):
    """stdin and stdout on pseudo-terminals (isatty true for both), stderr on a pipe"""
    mi, si = pty.openpty()
    mo, so = pty.openpty()
    try:
        p = subprocess.Popen(cmd, stdin=si, stdout=so, stderr=subprocess.PIPE, cwd=cwd, env=_env(), close_fds=True)
    finally:
        os.close(si)
        os.close(so)
    out = bytearray()
    err = bytearray()
    efd = p.stderr.fileno()
    fds = [mo, efd]
    deadline = time.time() + TIMEOUT
    timed_out = False
    while fds:
        left = deadline - time.time()
        if left <= 0:
            timed_out = True
            p.kill()
            break
        r, _, _ = select.select(fds, [], [], left)
        for fd in r:
            try:
                d = os.read(fd, 1 << 16)
            except OSError:
                d = b""
            if not d:
                fds.remove(fd)
            elif fd == mo:
                out += d
            else:
                err += d
    rc = p.wait()
    p.stderr.close()
    os.close(mo)
    os.close(mi)
    return Proc(None if timed_out else rc, out.decode("latin-1").replace("\r\n", "\n"), err.decode("latin-1").replace("\r\n", "\n"), timed_out)


RE_ADDR = re.compile(r"Resulting Bech32m address: (\S+)")
RE_TX = re.compile(r"Resulting transaction: ([0-9a-fA-F]+)")
RE_TWEAKED = re.compile(r"Tweaked pubkey = ([0-9a-f]{64}) \((not )?even\)")
RE_CTL = re.compile(r"Final control object = ([0-9a-f]+)")
RE_SIGHASH = re.compile(r"sighash \(little endian\) = ([0-9a-f]{64})")


def hx(b):
    return "0x" + b.hex()


def short(s, n=400):
    return s if len(s) <= n else s[:n // 2] + "...[%d chars]..." % (len(s) - n) + s[-n // 2:]


def cmd_str(cmd):
    return " ".join(short(c, 140) for c in cmd)


# ------------------------------------------------------------------------------------------ one group

class Group:
    def __init__(self, job, bdir, cwd):
        self.job = job
        self.ki, self.pattern, self.n, self.pi = job["ki"], job["pattern"], job["n"], job["pi"]
        self.tap = os.path.join(bdir, "tap")
        self.btcdeb = os.path.join(bdir, "btcdeb")
        self.cwd = cwd
        self.K = internal_key(self.ki)
        self.scripts = scripts_for(self.pattern, self.n)
        self.popt = [PREFIXES[self.pi][0]] if PREFIXES[self.pi][0] else []
        self.hrp = PREFIXES[self.pi][1]
        self.ident = [self.K.hex(), str(self.n)] + [spelling_for(self.pattern, i, s) for i, s in enumerate(self.scripts)]
        self.args = [SPEND_ARG] if self.pattern == "csigarg" else []
        self.is_rt = self.pattern in RT_PATTERNS
        self.viol = []          # (key, what, replay)
        self.inv = {"tap": 0, "tap_pty": 0, "btcdeb": 0}
        self.stats = dict(states=0, validated=0, ref_ok=0, btcdeb_ok=0, sighash_cmp=0, rt_script=0, rt_key=0,
                          cb_len={}, ctl_byte={}, btcdeb_outcome={}, depth_max=0)
        self.samples = []
        self.addr = None
        self.Q = None

    # -- helpers
    def v(self, key, what, index, extra=None):
        rep = dict(self.job)
        rep["indices"] = [] if index is None else [index]
        rep["focus"] = key
        w = "key#%d pattern=%s n=%d index=%s prefix=%s: %s" % (self.ki, self.pattern, self.n, index, self.hrp if self.popt else "(default)", what)
        if extra:
            w += " | " + short(extra, 600)
        self.viol.append((key, w, rep))

    def bump(self, d, k):
        self.stats[d][k] = self.stats[d].get(k, 0) + 1

    def run_tap(self, extra_opts, tail, use_pty=False, index=None, mode=""):
        cmd = [self.tap] + self.popt + extra_opts + self.ident + tail
        if use_pty:
            self.inv["tap_pty"] += 1
            p = run_pty(cmd, self.cwd)
        else:
            self.inv["tap"] += 1
            p = run_pipe(cmd, self.cwd)
        ok = True
        if p.timeout:
            self.v("tool-timeout:tap", "tap did not finish within %ds (%s)" % (TIMEOUT, mode), index, cmd_str(cmd))
            ok = False
        elif p.rc < 0:
            self.v("tool-crash:signal=%d:tap" % -p.rc, "tap killed by signal %d (%s)" % (-p.rc, mode), index, cmd_str(cmd) + " stderr: " + p.err[-300:])
            ok = False
        elif p.rc != 0:
            self.v("tap-exit:code=%d:mode=%s" % (p.rc, mode), "tap exited %d on a valid request" % p.rc, index, cmd_str(cmd) + " stderr: " + p.err[-300:])
            ok = False
        return p, cmd, ok

    def run_btcdeb(self, txhex):
        cmd = [self.btcdeb, "--tx=" + txhex, "--txin=" + self.fund_hex]
        self.inv["btcdeb"] += 1
        return run_pipe(cmd, self.cwd, b"\n"), cmd

    def classify_btcdeb(self, p):
        if p.timeout:
            return "timeout"
        if p.rc < 0:
            return "signal=%d" % -p.rc
        if p.rc == 0:
            return "ok:" + p.out.strip().replace("\n", ",")[:40]
        if "<<< taproot commitment >>>" in p.out:
            return "commitment-failed"
        m = re.search(r"error: (.*)", p.err)
        return "script-failed:" + (m.group(1).strip() if m else "exit=%d" % p.rc)

    def get_addr(self, p, index, mode):
        m = RE_ADDR.search(p.out)
        if not m:
            self.v("tap-no-address:mode=%s" % mode, "no 'Resulting Bech32m address' line", index, p.out[-200:] + p.err[-200:])
            return None
        return m.group(1)

    def get_tx(self, p, index, mode):
        m = RE_TX.search(p.out)
        if not m:
            self.v("tap-no-transaction:mode=%s" % mode, "no 'Resulting transaction' line", index, p.out[-200:] + p.err[-200:])
            return None, None
        try:
            return m.group(1), R.tx_deserialize(bytes.fromhex(m.group(1)))
        except ValueError as e:
            self.v("tap-transaction-unparsable:mode=%s" % mode, "emitted transaction does not deserialise: %s" % e, index, m.group(1))
            return None, None

    def check_tx_untouched(self, tx, index, mode):
        if tx.serialize(False) != self.spend.serialize(False) or len(tx.vin) != 1:
            self.v("tx-altered:mode=%s" % mode, "emitted transaction differs from the given one outside the witness", index, tx.serialize(False).hex())
            return False
        return True

    # -- group prelude: address without index, funding + spending transaction
    def prelude(self):
        st = self.stats
        p, cmd, ok = self.run_tap([], [], mode="addr")
        st["states"] += 1
        if not ok:
            return False
        a = self.get_addr(p, None, "addr")
        if a is None:
            return False
        self.addr = a
        d = R.segwit_addr_decode(a)
        if d is None:
            self.v("address-undecodable", "printed address %r is not a valid BIP350 segwit address" % a, None)
            return False
        hrp, ver, prog = d
        if hrp != self.hrp:
            self.v("address-hrp:want=%s" % self.hrp, "address %s has human-readable part %r" % (a, hrp), None)
        if ver != 1 or len(prog) != 32:
            self.v("address-not-p2tr", "address %s decodes to witness v%d, %d-byte program" % (a, ver, len(prog)), None)
            return False
        if R.segwit_addr_encode(hrp, 1, prog) != a:
            self.v("address-not-canonical", "address %s is not the canonical lower-case encoding" % a, None)
        if R.lift_x(R.b2i(prog)) is None:
            self.v("output-key-not-on-curve", "address %s encodes an x coordinate that is not on the curve" % a, None)
            return False
        self.Q = prog
        if len(self.samples) < 1:
            self.samples.append({"cmd": cmd_str(cmd), "stdout": p.out.strip(), "decoded_output_key": prog.hex()})
        n = self.n
        vout = n % 2
        outs = [R.TxOut(5000 + n, b"\x00\x14" + bytes([0x22]) * 20), R.TxOut(5000 + n, b"\x00\x14" + bytes([0x22]) * 20)]
        outs[vout] = R.TxOut(100000 + n, R.p2tr_spk(self.Q))
        self.fund = R.Tx(2, [R.TxIn(hashlib.sha256(b"C06/prev/%d" % n).digest(), n % 3, b"", 0xFFFFFFFE)], outs, 0)
        self.prev = outs[vout]
        self.spend = R.Tx(2, [R.TxIn(self.fund.txid(), vout, b"", 0xFFFFFFFD)], [R.TxOut(90000 + n, b"\x00\x14" + bytes([0x33]) * 20)], n)
        self.fund_hex = self.fund.serialize().hex()
        self.txopts = ["--tx=" + self.spend.serialize().hex(), "--txin=" + self.fund_hex]
        return True

    # -- key path (no index, with transactions)
    def keypath(self):
        self.stats["states"] += 0   # the no-index state was counted in prelude; this is a second observation of it
        self.kp_sighash = None
        pp, cmdp, okp = self.run_tap(self.txopts, [], mode="keypath")
        if not okp:
            return
        a = self.get_addr(pp, None, "keypath")
        if a is not None and a != self.addr:
            self.v("address-mismatch-tx:n=%d" % self.n, "key-path run with --tx/--txin prints %s, plain run printed %s" % (a, self.addr), None)
        txh, tx = self.get_tx(pp, None, "keypath")
        if tx is None:
            return
        self.check_tx_untouched(tx, None, "keypath")
        if tx.vin[0].witness != [PLACEHOLDER]:
            self.v("witness-shape:keypath", "key-path witness is not [placeholder signature]: %s" % [w.hex() for w in tx.vin[0].witness], None)
        pt, cmdt, okt = self.run_tap(self.txopts, [], use_pty=True, mode="keypath-pty")
        if not okt:
            return
        if RE_ADDR.findall(pt.out) != [self.addr] or RE_TX.findall(pt.out) != [txh]:
            self.v("pty-pipe-output-differs:keypath", "address/transaction printed under ptys differ from the piped run", None, pt.out[-300:])
        ref = R.taproot_sighash(tx, 0, [self.prev], 0)
        m = RE_SIGHASH.search(pt.err + pt.out)
        if not m:
            self.v("sighash-missing:keypath", "no 'sighash (little endian)' line in the pty log", None, pt.err[-300:])
        else:
            self.stats["sighash_cmp"] += 1
            self.kp_sighash = bytes.fromhex(m.group(1))
            if self.kp_sighash != ref:
                self.v("sighash-mismatch:keypath", "tap reports %s, BIP341 key-path digest of the emitted transaction is %s" % (m.group(1), ref.hex()), None, txh)
        mt = RE_TWEAKED.search(pt.err + pt.out)
        if mt and bytes.fromhex(mt.group(1)) != self.Q:
            self.v("pty-tweaked-pubkey-mismatch", "log says tweaked pubkey %s, address encodes %s" % (mt.group(1), self.Q.hex()), None)
        if len(self.samples) < 2 and m:
            self.samples.append({"cmd": cmd_str(cmdt), "stdout": short(pt.out.strip(), 500), "sighash_line": m.group(0), "reference_digest": ref.hex()})

    # -- tap refused the transaction pair built for its own address: read the control block from the log of a plain run
    def fallback_log_channel(self, i, tail):
        pt, cmdt, okt = self.run_tap([], tail, use_pty=True, index=i, mode="index-pty")
        if not okt:
            return
        m = RE_CTL.search(pt.err + pt.out)
        if not m:
            self.v("pty-control-missing", "no 'Final control object' line in the pty log", i, (pt.err + pt.out)[-300:])
            return
        cb = bytes.fromhex(m.group(1))
        okr, why, info = R.taproot_verify_script_path(self.Q, self.scripts[i], cb)
        if not okr:
            if info.get("q") == self.Q:
                self.v("parity-wrong:q=%s" % ("odd" if info["q_parity"] else "even"), "control byte %02x does not match the output key parity" % cb[0], i, cb.hex())
            else:
                self.v("control-block-invalid:n=%d:index=%d" % (self.n, i), "(log channel) BIP341 verification of (script, control block) against the printed output key fails: " + why, i,
                       "script=%s control=%s Q=%s" % (self.scripts[i].hex(), cb.hex(), self.Q.hex()))

    # -- one spending index
    def index_case(self, i):
        st = self.stats
        st["states"] += 1
        n = self.n
        tail = [str(i)] + self.args
        # (a) plain run with index
        p, cmd, ok = self.run_tap([], tail, index=i, mode="index")
        if ok:
            a = self.get_addr(p, i, "index")
            if a is not None and a != self.addr:
                self.v("address-mismatch-index:n=%d" % n, "with spending index %d the address is %s, without it %s" % (i, a, self.addr), i)
        # (b) with transactions, pipes
        p, cmd, ok = self.run_tap(self.txopts, tail, index=i, mode="index-tx")
        if not ok:
            self.fallback_log_channel(i, tail)
            return None
        a = self.get_addr(p, i, "index-tx")
        if a is not None and a != self.addr:
            self.v("address-mismatch-tx:n=%d" % n, "with --tx/--txin and index %d the address is %s, plain run printed %s" % (i, a, self.addr), i)
        txh, tx = self.get_tx(p, i, "index-tx")
        if tx is None:
            return None
        self.check_tx_untouched(tx, i, "index-tx")
        w = tx.vin[0].witness
        want_args = [bytes.fromhex(x[2:]) for x in self.args]
        if len(w) != 3 + len(want_args) or w[0] != PLACEHOLDER or w[1:1 + len(want_args)] != want_args:
            self.v("witness-shape:n=%d:index=%d" % (n, i), "witness is not [placeholder sig, args.., script, control]: %s" % [x.hex()[:80] for x in w], i)
            if len(w) < 2:
                return None
        script, cb = w[-2], w[-1]
        if script != self.scripts[i]:
            self.v("witness-script-mismatch:n=%d:index=%d" % (n, i), "emitted script %s is not script #%d %s" % (script.hex(), i, self.scripts[i].hex()), i)
        # reference BIP341 verification
        okr, why, info = R.taproot_verify_script_path(self.Q, script, cb)
        self.bump("cb_len", str(len(cb)))
        if cb:
            self.bump("ctl_byte", "%02x" % cb[0])
        ref_ok = okr
        if not okr:
            if info.get("q") == self.Q and info.get("q_parity") != info.get("parity_bit"):
                self.v("parity-wrong:q=%s" % ("odd" if info["q_parity"] else "even"),
                       "control byte %02x but the output key has %s Y (n=%d index=%d)" % (cb[0], "odd" if info["q_parity"] else "even", n, i), i, cb.hex())
            else:
                self.v("control-block-invalid:n=%d:index=%d" % (n, i), "BIP341 verification of (script, control block) against the printed output key fails: " + why, i,
                       "script=%s control=%s Q=%s" % (script.hex(), cb.hex(), self.Q.hex()))
        if len(cb) >= 33:
            if cb[1:33] != self.K:
                self.v("internal-key-mismatch:n=%d:index=%d" % (n, i), "control block carries key %s, given internal key %s" % (cb[1:33].hex(), self.K.hex()), i)
                ref_ok = False
            if cb[0] & 0xFE != 0xC0:
                self.v("leaf-version-wrong", "control byte %02x is not leaf version 0xc0" % cb[0], i)
                ref_ok = False
            st["depth_max"] = max(st["depth_max"], (len(cb) - 33) // 32)
        if ref_ok:
            st["ref_ok"] += 1
        if info.get("q") == self.Q and getattr(self, "root", None) is None:
            self.root = info["merkle_root"]     # Merkle root behind the printed output key (for the key-path round trip)
        # (c) the debugger's own commitment check
        pb, cmdb = self.run_btcdeb(txh)
        cls = self.classify_btcdeb(pb)
        self.bump("btcdeb_outcome", cls)
        deb_ok = False
        if cls.startswith("signal=") or cls == "timeout":
            self.v("tool-crash:%s:btcdeb" % cls if cls != "timeout" else "tool-timeout:btcdeb", "btcdeb %s on the transaction tap emitted" % cls, i, cmd_str(cmdb))
        elif cls == "commitment-failed":
            self.v("btcdeb-rejects-witness:n=%d:index=%d" % (n, i), "btcdeb fails in the taproot commitment phase on the emitted witness", i, cmd_str(cmdb) + " stderr: " + pb.err[-200:])
        elif self.is_rt:
            # placeholder signature: commitment must pass, then the signature check fails
            if cls.startswith("script-failed:") and "taproot commitment" not in pb.out:
                deb_ok = True
            else:
                self.v("btcdeb-unexpected:n=%d:index=%d" % (n, i), "placeholder-signed spend: expected commitment success then signature failure, got %s" % cls, i, cmd_str(cmdb))
        else:
            if cls == ("ok:" + PLACEHOLDER.hex()[:40] if not self.scripts[i] else "ok:01"):
                deb_ok = True
            else:
                self.v("btcdeb-script-fails:n=%d:index=%d" % (n, i), "commitment passed but the run does not end with a single 01: %s" % cls, i, cmd_str(cmdb) + " stdout: " + pb.out[-200:])
        if deb_ok:
            st["btcdeb_ok"] += 1
        if deb_ok and ref_ok:
            st["validated"] += 1
        # (d) pty channel: control block, tweaked pubkey, sighash
        sigh = None
        pt, cmdt, okt = self.run_tap(self.txopts, tail, use_pty=True, index=i, mode="index-tx-pty")
        if okt:
            log = pt.err + pt.out
            if RE_ADDR.findall(pt.out) != [self.addr] or RE_TX.findall(pt.out) != [txh]:
                self.v("pty-pipe-output-differs:index", "address/transaction printed under ptys differ from the piped run", i, pt.out[-300:])
            m = RE_CTL.search(log)
            if not m:
                self.v("pty-control-missing", "no 'Final control object' line in the pty log", i, log[-300:])
            elif bytes.fromhex(m.group(1)) != cb:
                self.v("pty-control-mismatch", "log says control %s, witness has %s" % (m.group(1), cb.hex()), i)
            m = RE_TWEAKED.search(log)
            if not m:
                self.v("pty-tweaked-pubkey-missing", "no 'Tweaked pubkey' line in the pty log", i, log[-300:])
            else:
                if bytes.fromhex(m.group(1)) != self.Q:
                    self.v("pty-tweaked-pubkey-mismatch", "log says tweaked pubkey %s, address encodes %s" % (m.group(1), self.Q.hex()), i)
                tw = R.taproot_tweak_pubkey(self.K, info.get("merkle_root")) if info.get("merkle_root") else None
                if tw and tw[1] == self.Q and (m.group(2) is None) != (tw[0] == 0):
                    self.v("pty-parity-log-wrong", "log says '%seven' but output key parity is %d" % (m.group(2) or "", tw[0]), i)
            m = RE_SIGHASH.search(log)
            csp = 0 if self.pattern == "csep" else 0xFFFFFFFF     # position of the last executed OP_CODESEPARATOR when the check runs
            sfx = ":executed-codeseparator" if self.pattern == "csep" else ""
            ref = R.taproot_sighash(tx, 0, [self.prev], 0, leaf_hash=R.tapleaf_hash(script), codesep_pos=csp)
            if not m:
                self.v("sighash-missing:scriptpath", "no 'sighash (little endian)' line in the pty log", i, log[-300:])
            else:
                st["sighash_cmp"] += 1
                sigh = bytes.fromhex(m.group(1))
                if sigh != ref:
                    self.v("sighash-mismatch:scriptpath" + sfx, "tap reports %s, BIP341/342 script-path digest of the emitted transaction is %s" % (m.group(1), ref.hex()), i, txh)
            if len(self.samples) < 4 and i == self.n - 1 and m:
                self.samples.append({"cmd": cmd_str(cmdt), "stdout": short(pt.out.strip(), 700), "control_line": short(RE_CTL.search(log).group(0), 300) if RE_CTL.search(log) else None,
                                     "sighash_line": m.group(0), "reference_digest": ref.hex(),
                                     "btcdeb_cmd": cmd_str(cmdb), "btcdeb_exit": pb.rc, "btcdeb_stdout": short(pb.out.strip(), 200), "btcdeb_stderr": short(pb.err.strip(), 200)})
        # (e) script-path round trip
        if self.is_rt:
            digest = sigh if sigh is not None else R.taproot_sighash(tx, 0, [self.prev], 0, leaf_hash=R.tapleaf_hash(script), codesep_pos=0 if self.pattern == "csep" else 0xFFFFFFFF)
            sig = R.schnorr_sign(digest, leaf_sk(i), hashlib.sha256(b"C06/aux").digest())
            p2, cmd2, ok2 = self.run_tap(["--sig=" + sig.hex()] + self.txopts, tail, index=i, mode="index-tx-sig")
            if ok2:
                txh2, tx2 = self.get_tx(p2, i, "index-tx-sig")
                if tx2 is not None:
                    self.check_tx_untouched(tx2, i, "index-tx-sig")
                    if tx2.vin[0].witness != [sig] + w[1:]:
                        self.v("sig-not-inserted:scriptpath", "witness with --sig is not [sig, args.., script, control]", i, str([x.hex()[:80] for x in tx2.vin[0].witness]))
                    pb2, cmdb2 = self.run_btcdeb(txh2)
                    cls2 = self.classify_btcdeb(pb2)
                    self.bump("btcdeb_outcome", "rt-script:" + cls2)
                    if cls2 == "ok:01":
                        st["rt_script"] += 1
                    elif cls2.startswith("signal="):
                        self.v("tool-crash:%s:btcdeb" % cls2, "btcdeb crashed on the signed script-path spend", i, cmd_str(cmdb2))
                    else:
                        self.v(("roundtrip-fails:scriptpath:executed-codeseparator" if self.pattern == "csep" else "roundtrip-fails:scriptpath:n=%d:index=%d" % (n, i)), "signature over tap's sighash passed back with --sig: btcdeb says %s" % cls2, i, cmd_str(cmdb2) + " stderr: " + pb2.err[-200:])
                    if len(self.samples) < 5 and i == self.n - 1:
                        self.samples.append({"cmd": cmd_str(cmd2), "stdout": short(p2.out.strip(), 700), "btcdeb_cmd": cmd_str(cmdb2), "btcdeb_exit": pb2.rc, "btcdeb_stdout": pb2.out.strip()[:100]})
        return True

    # -- refusals: the output being spent does not pay to this tree (another output key, the untweaked internal key, or the spend refers to
    #    another output of the funding transaction): tap must refuse (non-zero exit, no transaction printed) - key path and script path alike
    def mismatch_refusals(self):
        n = self.n
        vout = n % 2
        variants = []
        otherq = hashlib.sha256(b"C06/otherkey/%d" % n).digest()
        while R.lift_x(R.b2i(otherq)) is None:
            otherq = hashlib.sha256(otherq).digest()
        variants.append(("output pays to another key", otherq, vout))
        variants.append(("output pays to the untweaked internal key", self.K, vout))
        variants.append(("the spend refers to the other output of the funding transaction", self.Q, 1 - vout))
        for (what, q, spent) in variants:
            outs = [R.TxOut(5000 + n, b"\x00\x14" + bytes([0x22]) * 20), R.TxOut(5000 + n, b"\x00\x14" + bytes([0x22]) * 20)]
            outs[vout] = R.TxOut(100000 + n, R.p2tr_spk(q))
            if spent != vout:
                outs[spent] = R.TxOut(7000 + n, R.p2tr_spk(otherq))
            fund = R.Tx(2, [R.TxIn(hashlib.sha256(b"C06/prev/%d" % n).digest(), n % 3, b"", 0xFFFFFFFE)], outs, 0)
            spend = R.Tx(2, [R.TxIn(fund.txid(), spent, b"", 0xFFFFFFFD)], [R.TxOut(90000 + n, b"\x00\x14" + bytes([0x33]) * 20)], n)
            opts = ["--tx=" + spend.serialize().hex(), "--txin=" + fund.serialize().hex()]
            for (mode, tail) in (("keypath", []), ("scriptpath", None)):
                if tail is None:
                    if not self.job["indices"]:
                        continue
                    tail = [str(self.job["indices"][0])] + (self.args if hasattr(self, "args") else [])
                cmd = [self.tap] + self.popt + opts + self.ident + tail
                self.inv["tap"] += 1
                p = run_pipe(cmd, self.cwd)
                self.stats["mismatch_refusals"] = self.stats.get("mismatch_refusals", 0) + 1
                if p.timeout or p.rc < 0:
                    self.v("tool-crash-or-timeout:tap:mismatch", "tap died or hung on a funding output that does not pay to the tree", None, cmd_str(cmd))
                elif p.rc == 0 or RE_TX.findall(p.out):
                    self.v("mismatch-not-refused:%s" % mode, "%s (%s spend): tap exits %d and %s a transaction instead of refusing" % (what, mode, p.rc, "prints" if RE_TX.findall(p.out) else "does not print"), None, cmd_str(cmd))

    # -- key-path round trip (reference computes the tweaked secret key)
    def keypath_roundtrip(self):
        root = getattr(self, "root", None)
        if root is None:
            return      # no verifying control block in this group: already reported
        skq = R.taproot_tweak_seckey(INTERNAL_SKS[self.ki], root)
        if R.xonly_pubkey(skq) != self.Q:
            return      # cannot happen when the control block verified against Q
        ref = R.taproot_sighash(R.Tx(2, self.spend.vin, self.spend.vout, self.spend.locktime), 0, [self.prev], 0)
        digest = self.kp_sighash if getattr(self, "kp_sighash", None) is not None else ref
        sig = R.schnorr_sign(digest, skq, hashlib.sha256(b"C06/aux").digest())
        p, cmd, ok = self.run_tap(["--sig=" + sig.hex()] + self.txopts, [], mode="keypath-sig")
        if not ok:
            return
        txh, tx = self.get_tx(p, None, "keypath-sig")
        if tx is None:
            return
        self.check_tx_untouched(tx, None, "keypath-sig")
        if tx.vin[0].witness != [sig]:
            self.v("sig-not-inserted:keypath", "key-path witness with --sig is not [sig]", None, str([x.hex()[:80] for x in tx.vin[0].witness]))
        pb, cmdb = self.run_btcdeb(txh)
        cls = self.classify_btcdeb(pb)
        self.bump("btcdeb_outcome", "rt-key:" + cls)
        if cls == "ok:01":
            self.stats["rt_key"] += 1
        elif cls.startswith("signal="):
            self.v("tool-crash:%s:btcdeb" % cls, "btcdeb crashed on the signed key-path spend", None, cmd_str(cmdb))
        else:
            self.v("roundtrip-fails:keypath:n=%d" % self.n, "signature (tweaked key) over tap's sighash passed back with --sig: btcdeb says %s" % cls, None, cmd_str(cmdb) + " stderr: " + pb.err[-200:])

    def run(self, keypath=True):
        if self.prelude():
            if keypath:
                self.keypath()
            for i in self.job["indices"]:
                self.index_case(i)
            if keypath and self.job["indices"]:
                self.keypath_roundtrip()
            if keypath and self.n <= 4 and self.job["pattern"] in ("distinct", "csig") and self.job["pi"] == 0:
                self.mismatch_refusals()
        return dict(job=self.job, viol=self.viol, inv=self.inv, stats=self.stats, samples=self.samples, addr=self.addr,
                    Q=self.Q.hex() if self.Q else None)


_W = {}


def _init(bdir, cwd):
    _W["bdir"] = bdir
    _W["cwd"] = cwd
    signal.signal(signal.SIGINT, signal.SIG_IGN)


def _work(job):
    try:
        return Group(job, _W["bdir"], _W["cwd"]).run()
    except Exception as e:  # noqa: BLE001
        import traceback
        return dict(job=job, driver_error="%r\n%s" % (e, traceback.format_exc()[-1500:]))


# ------------------------------------------------------------------------------------------ driver entry points

def _infra(msg):
    return dict(level="model_checking", coverage={"states": 0, "transitions": 0, "traces_validated_against_impl": 0, "samples": ["-"], "exhaustive": False},
                violations=[], assumptions=[], summary="infrastructure error", infra_error=msg)


def run(ctx):
    t0 = time.time()
    errs = R.selftest(ctx.repo)
    if errs:
        return _infra("pyref self-test failed: " + "; ".join(errs)[:1500])
    if not any(R.pubkey_point(s)[1] & 1 for s in INTERNAL_SKS) or all(R.pubkey_point(s)[1] & 1 for s in INTERNAL_SKS):
        return _infra("internal key set does not contain both Y parities")
    for t in ("tap", "btcdeb"):
        if not os.access(os.path.join(ctx.bdir, t), os.X_OK):
            return _infra("missing binary %s in %s" % (t, ctx.bdir))
    t_self = time.time() - t0
    jobs = make_jobs(ctx.tier)
    # largest groups first (load balance); the seed only permutes the order among equals
    rnd = random.Random(ctx.seed)
    rnd.shuffle(jobs)
    jobs.sort(key=lambda j: -len(j["indices"]) * (1 + j["n"] // 256))
    cwd = tempfile.mkdtemp(prefix="c06.", dir=ctx.bdir)
    results = []
    try:
        with multiprocessing.Pool(os.cpu_count(), initializer=_init, initargs=(ctx.bdir, cwd)) as pool:
            for r in pool.imap_unordered(_work, jobs, chunksize=1):
                results.append(r)
    finally:
        shutil.rmtree(cwd, ignore_errors=True)
    derr = [r for r in results if "driver_error" in r]
    if derr:
        return _infra("driver exception in group %s: %s" % (json.dumps(derr[0]["job"])[:200], derr[0]["driver_error"]))

    # ---- aggregate
    viol = {}
    order = []

    def add(key, what, rep):
        if key not in viol:
            viol[key] = {"key": key, "what": what, "count": 0, "replay": rep}
            order.append(key)
        viol[key]["count"] += 1

    inv = {"tap": 0, "tap_pty": 0, "btcdeb": 0}
    tot = dict(states=0, validated=0, ref_ok=0, btcdeb_ok=0, sighash_cmp=0, rt_script=0, rt_key=0)
    hist = dict(cb_len={}, ctl_byte={}, btcdeb_outcome={})
    depth_max = 0
    addrs = set()
    qs = set()
    by_tree = {}
    samples = []
    results.sort(key=lambda r: (r["job"]["ki"], r["job"]["pi"], r["job"]["pattern"], r["job"]["n"]))
    for r in results:
        for k, w, rep in r["viol"]:
            add(k, w, rep)
        for k in inv:
            inv[k] += r["inv"][k]
        for k in tot:
            tot[k] += r["stats"][k]
        for h in hist:
            for k, c in r["stats"][h].items():
                hist[h][k] = hist[h].get(k, 0) + c
        depth_max = max(depth_max, r["stats"]["depth_max"])
        if r["addr"]:
            addrs.add(r["addr"])
        if r["Q"]:
            qs.add(r["Q"])
            j = r["job"]
            by_tree.setdefault((j["ki"], j["pattern"], j["n"]), {})[j["pi"]] = r["Q"]
    # same (key, scripts) under different prefixes must encode the same output key
    for (ki, pat, n), d in sorted(by_tree.items()):
        if len(set(d.values())) > 1:
            add("output-key-differs-across-prefixes:n=%d" % n, "key#%d pattern=%s n=%d: output keys per prefix %s" % (ki, pat, n, d),
                dict(ki=ki, pattern=pat, n=n, pi=0, indices=[], focus="prefix"))
    # samples: one small sweep group, one with a deep tree, one round-trip group
    want = [("distinct", 3), ("alt", 5), ("csig", 3), ("csigarg", 2), ("equal", 2)]
    for pat, n in want:
        for r in results:
            j = r["job"]
            if j["pattern"] == pat and j["n"] == n and j["ki"] == 1 and j["pi"] == 1 and r["samples"]:
                if not samples:
                    samples.append(r["samples"][0])      # the plain address run
                samples.append(dict(r["samples"][-1], case="key#%d pattern=%s n=%d prefix=%s" % (j["ki"], pat, n, PREFIXES[j["pi"]][1])))
                break
    if not samples:
        samples = [s for r in results for s in r["samples"]][:4] or ["(no tool run produced output)"]

    violations = [viol[k] for k in order]
    MAXV = 400
    if len(violations) > MAXV:
        rest = violations[MAXV:]
        violations = violations[:MAXV] + [{"key": "further-distinct-violation-keys-suppressed", "what": "%d more distinct keys, e.g. %s" % (len(rest), ", ".join(v["key"] for v in rest[:10])),
                                           "count": sum(v["count"] for v in rest), "replay": rest[0]["replay"]}]
    b = bounds(ctx.tier)
    n_inv = sum(inv.values())
    wall = time.time() - t0
    cov = {
        "states": tot["states"], "transitions": n_inv, "traces_validated_against_impl": tot["validated"],
        "samples": samples, "exhaustive": True,
        "bounds": "keys=%d x prefixes=%s x { patterns %s: every n in 1..%d with every index 0..n-1 and the run without index%s ; patterns %s: n in %s, every index, key path } ; single-input spending tx, hash_type 0x00"
                  % (len(INTERNAL_SKS), [p[0] or "(default)" for p in PREFIXES], list(SWEEP_PATTERNS), b["N"],
                     ("; n in %s with index in {0,1,n//2,n-2,n-1}" % list(b["big"])) if b["big"] else "", list(RT_PATTERNS), list(b["rt"])),
        "groups": len(results), "invocations": inv,
        "witnesses_accepted_by_reference": tot["ref_ok"], "witnesses_accepted_by_btcdeb": tot["btcdeb_ok"],
        "sighashes_compared": tot["sighash_cmp"], "roundtrips_scriptpath_ok": tot["rt_script"], "roundtrips_keypath_ok": tot["rt_key"],
        "distinct_addresses": len(addrs), "distinct_output_keys": len(qs),
        "distinct_control_block_lengths": len(hist["cb_len"]), "control_block_length_histogram": dict(sorted(hist["cb_len"].items(), key=lambda kv: int(kv[0]))),
        "control_byte_histogram": hist["ctl_byte"], "max_merkle_path_depth": depth_max,
        "btcdeb_outcome_histogram": hist["btcdeb_outcome"], "distinct_outcomes": len(hist["btcdeb_outcome"]),
        "selftest_s": round(t_self, 2), "driver_wall_s": round(wall, 2), "workers": os.cpu_count(),
        "explanation": "a state is one (internal key, script pattern, n, spending index or none, address prefix); each is run through the real tap (pipes and ptys) "
                       "and the emitted witness is checked by the pure-Python BIP341 verifier and by the real btcdeb; traces_validated counts witnesses accepted by both",
    }
    vac = []
    if not violations:
        if set(hist["ctl_byte"]) != {"c0", "c1"}:
            vac.append("control bytes seen: %s (both parities expected)" % sorted(hist["ctl_byte"]))
        if len(hist["cb_len"]) < 4:
            vac.append("only %d distinct control block lengths" % len(hist["cb_len"]))
        if tot["rt_script"] == 0 or tot["rt_key"] == 0:
            vac.append("no successful round trips")
        if tot["validated"] != tot["states"] - len(results):
            vac.append("validated witnesses %d != index states %d" % (tot["validated"], tot["states"] - len(results)))
    return dict(level="model_checking", coverage=cov, violations=violations,
                assumptions=["pure-Python reference drivers/pyref.py (BIP340/341/342/350), self-tested before the run on BIP340 vectors 0/1/5, BIP350 and BIP341 wallet vectors and the real-chain spends doc/txs/p2tr-*, p2ts-*",
                             "tree shape is tap's choice: the oracle verifies the emitted Merkle proof against the printed output key instead of rebuilding the tree",
                             "leaf scripts of the (n, index) sweep are '<2-byte number> OP_2DROP OP_1': tap always puts a signature item at the bottom of a script-path witness, so a bare OP_1 leaf would violate tapscript's clean-stack rule by construction; spendability is claimed for leaves that consume that item",
                             "spending transactions have a single input (Instance::calc_sighash supplies one spent output); hash_type 0x00; no annex; leaf version 0xc0 only",
                             "internal keys are 3 fixed valid x-only keys with known secret keys (needed for the key-path round trip; ENABLE_DANGEROUS is off so tap itself never sees a private key)",
                             "n above %d only at the listed boundary values; script contents limited to the five listed patterns" % b["N"]],
                summary="%d states, %d tool runs, %d witnesses validated by reference+btcdeb, %d sighashes, %d+%d round trips, %d violation keys, %.1fs"
                        % (tot["states"], n_inv, tot["validated"], tot["sighash_cmp"], tot["rt_script"], tot["rt_key"], len(violations), wall),
                infra_error="vacuity guard: " + "; ".join(vac) if vac else None)


def replay(ctx, path):
    with open(path) as fh:
        doc = json.load(fh)
    job = doc.get("replay") or doc
    errs = R.selftest(ctx.repo)
    if errs:
        print("pyref self-test failed:", errs)
        return 2
    job = {k: job[k] for k in ("ki", "pattern", "n", "pi", "indices")}
    cwd = tempfile.mkdtemp(prefix="c06r.", dir=ctx.bdir)
    runs = []
    try:
        for _ in range(2):
            r = Group(job, ctx.bdir, cwd).run()
            runs.append(sorted((k, w) for k, w, _ in r["viol"]))
    finally:
        shutil.rmtree(cwd, ignore_errors=True)
    print("replay C06: key#%d pattern=%s n=%d prefix=%s indices=%s (recorded key: %s)" % (job["ki"], job["pattern"], job["n"], PREFIXES[job["pi"]][1], job["indices"], doc.get("key")))
    for k, w in runs[0]:
        print("  VIOLATED %s: %s" % (k, w[:600]))
    if runs[0] != runs[1]:
        print("  NOTE: the two runs differ (nondeterminism):")
        for x in sorted(set(runs[0]) ^ set(runs[1])):
            print("    only in one run:", x[0])
    if not runs[0] and not runs[1]:
        print("  holds on this case (both runs)")
        return 0
    return 1
