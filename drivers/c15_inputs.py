"""Input model for the C15 crash-freedom check: base inputs (one valid input per input class of the
three tools), the deviation operators, and the interactive command alphabet.

Everything here is a deterministic, finite enumeration.  Nothing is sampled.

A *base* is a tool invocation split into **slots** (one per argv element, plus one pseudo slot for
the script line that batch-mode btcdeb reads from stdin).  A *deviation* replaces the contents of
one slot (or, for the transaction "re-link" deviation, of a slot and of its partner slot) by zero
or more strings.  2-deviation inputs combine two deviations that touch disjoint slots.
"""
import hashlib
import os
import struct

BIG = 10000

# ------------------------------------------------------------------------------------------------
# constants: well-formed sample values
G_PUB = "0279be667ef9dcbbac55a06295ce870b07029bfcdb2dce28d959f2815b16f81798"
G_X = G_PUB[2:]
PUB2 = "02c6047f9441ed7d6d3045406e95c07cd85c778e4b8cef3ca7abac09b95c709ee5"
H20 = "62e907b15cbf27d5425399ebf6f0fb50ebb88f18"
H32 = "6c60f404f8167a38fc70eaf8aa17ac351023bef86bcb9d1086a19afe95bd5333"
ADDR58 = "1A1zP1eP5QGefi2DMPTfTL5SLmv7DivfNa"
BECH = "bc1qw508d6qejxtdg4y5r3zarvary0c5xw7kv8f3t4"
DERSIG = ("304402207f874ef00f11dcc9a621acad9354f3fca1bf90c43878f607b7e2d358088487e7022052a01b47b8eef5e1"
          "c96a6affdc3dac46fdc11b60612464dc8c5921a852090d2701")
SIG64 = "000102030405060708090a0b0c0d0e0f" * 4

# test/signing.cpp (P2WSH 2-of-3 multisig, works with --tx=<amount>:<hex> + script + stack)
SIGN_SCRIPT = ("52210375e00eb72e29da82b89367947f29ef34afb75e8654f6ea368e0acdfd92976b7c2103a1b26313f430c4b15bb1fd"
               "ce663207659d8cac749a0e53d70eff01874496feff2103c96d495bfdd5ba4145e3e046fee45e84a8a48ad05bd8dbb395"
               "c011a32cf9f88053ae")
SIGN_S2 = DERSIG
SIGN_S3 = ("3045022100c56ab2abb17fdf565417228763bc9f2940a6465042fd62fbd9f4c7406345d7f702201cb1a56b45181f83"
           "47713627b325ec5df48fc1aee6bdaf937cbb804d7409b10c01")
SIGN_TX = ("010000000001019086ce64fce1bb086395faf6fac37c73f32ba4ea89330432bf8ee8035e9315aa0100000000ffffffff"
           "021353b9030000000017a914c3f413d0918853a8e23766678d2e3c2e5c8138bb8725e4973100000000220020701a8d40"
           "1c84fb13e6baf169d59684e17abd9fa216c8cc5b9fc63d622ff8c58d040047304402207f874ef00f11dcc9a621acad93"
           "54f3fca1bf90c43878f607b7e2d358088487e7022052a01b47b8eef5e1c96a6affdc3dac46fdc11b60612464dc8c5921"
           "a852090d2701483045022100c56ab2abb17fdf565417228763bc9f2940a6465042fd62fbd9f4c7406345d7f702201cb1"
           "a56b45181f8347713627b325ec5df48fc1aee6bdaf937cbb804d7409b10c016952210375e00eb72e29da82b89367947f"
           "29ef34afb75e8654f6ea368e0acdfd92976b7c2103a1b26313f430c4b15bb1fdce663207659d8cac749a0e53d70eff01"
           "874496feff2103c96d495bfdd5ba4145e3e046fee45e84a8a48ad05bd8dbb395c011a32cf9f88053ae00000000")
SIGN_AMT = "8.947024"

# doc/tapscript-example-with-tap.md
TAP_PUB = "f30544d6009c8d8d94f5d030b2e844b1a3ca036255161c479db1cca5b374dd1c"
TAP_ALICE = ("[144 OP_CHECKSEQUENCEVERIFY OP_DROP 9997a497d964fc1a62885b05a51166a65a90df00492c8d7cf61d6accf54803be "
             "OP_CHECKSIG]")
TAP_BOB = ("[OP_SHA256 6c60f404f8167a38fc70eaf8aa17ac351023bef86bcb9d1086a19afe95bd5333 OP_EQUALVERIFY "
           "4edfcf9dfe6c0b5c83d1ab3f78d1b39a46ebac6798e08e19761f5ed89ec83c10 OP_CHECKSIG]")
TAP_TX = ("020000000171f2f89c07c3b58c7b0cf3654ba049d28bbcc76b7298f41c17e7b1a3149040ec0000000000ffffffff01905f0100"
          "00000000160014ceb2d28afdcad1ae0fc2cf81cb929ba29e83468200000000")
TAP_TXIN = ("020000000001010aa633878f200c80fc8ec88f13f746e5870be7373ad5d78d22e14a402d6c6fc20000000000feffffff02a0"
            "86010000000000225120a5ba0871796eb49fb4caa6bf78e675b9455e2d66e751676420f8381d5dda8951c759f40500000000"
            "1600147bf84e78c81b9fed7a47b9251d95b13d6ebac14102473044022017de23798d7a01946744421fbb79a48556da809a9f"
            "fdb729f6e5983051480991022052460a5082749422804ad2a25e6f8335d5cf31f69799cece4a1ccc0256d501070121025"
            "7e0052b0ec6736ee13392940b7932571ce91659f71e899210b8daaf6f17027500000000")
TAP_PREIMAGE = "107661134f21fc7c02223d50ab9eb3600bc3ffc3712423a1e47bb1f9a9dbf55f"

# spends synthesised once by mc_gen (reference model): output types and the annex, which doc/txs does not contain
GEN_PAIRS = {
    'gen-bare-multisig': ('0200000002e4fe85640b0d33b1d0031fb43a2818c3d764a4f44ba504d111825249c2b75f870000000000feffffff9b1a40cc0d52878fa1ff39058caba4ed95bf13c95c8d9f51e7bb04df1407233701000000490047304402201c3ecc49111801c95d620c1b61eebbdadaf8ea37af50dbe207926e89a6b57fec022022c39b14e5780296b4874447e2139bd4d98c071a4e5155cfbe7f0fc7fe67490501feffffff028813000000000000160014b3756bd3b402b3b62ff8e67bfdcd55f4d598a7cb102700000000000016001455385a35cf4268f85656c5f35bf016ea3ade492b00000000',
        '0100000001639f78fb7729d09dc6066a6dd81997572d2413c50b703edd5b378166b5466b2d000000000151ffffffff03e8030000000000001976a91482390396aed3dfece64e2ec6ad0a3666b9ad3f0588ac00e1f50500000000475121025c078555a2fc2973842e8bf149a52baa576da0014ea5ab79c3c0c8cfb14ced1f2102100a01a3b78272dc38696b2abd2355e4fb8bd805952493d1c2278d5f0e8eb77d52aeea030000000000001976a914af911a35998cbd5500f92999495897823e7043c688ac00000000'),
    'gen-p2sh-p2wsh': ('02000000000102e4fe85640b0d33b1d0031fb43a2818c3d764a4f44ba504d111825249c2b75f870000000000feffffffa2434300dac1efd8df8090e1e7d7aa4813c04339b2611011c9f1362184d491cc01000000232200200676bcbf2c7a1d26a71e0d2659653813b227f2e3345a127eaba66ad87355f60cfeffffff028813000000000000160014b3756bd3b402b3b62ff8e67bfdcd55f4d598a7cb102700000000000016001455385a35cf4268f85656c5f35bf016ea3ade492b0003004830450221008203816dd27b15b95460212c23eb8e7dc59d93228dccd50edde74834005c188b0220017453547c74e2e46a2d4e828c41607066c5839aebe85bfdd5ad13b04c2f792901475121025c078555a2fc2973842e8bf149a52baa576da0014ea5ab79c3c0c8cfb14ced1f2102100a01a3b78272dc38696b2abd2355e4fb8bd805952493d1c2278d5f0e8eb77d52ae00000000',
        '0100000001639f78fb7729d09dc6066a6dd81997572d2413c50b703edd5b378166b5466b2d000000000151ffffffff03e8030000000000001976a91482390396aed3dfece64e2ec6ad0a3666b9ad3f0588ac00e1f5050000000017a914a1c3ce756e2404e5b1db5814b83f01662029df6a87ea030000000000001976a914af911a35998cbd5500f92999495897823e7043c688ac00000000'),
    'gen-p2tr-key-annex': ('02000000000101928f36aacc026ee1cb1a728f122cf262bd8d48e57baa6333f1e47986dd7cdf0b0100000000feffffff028813000000000000160014b3756bd3b402b3b62ff8e67bfdcd55f4d598a7cb102700000000000016001455385a35cf4268f85656c5f35bf016ea3ade492b0241dcfdb10fd45259f6a8decf6a4fa8c42f074bda65f990951382873db1be1da381b8470483d78ed0226e8b8dea82d78744739b8c3f3837cc58b061f155976f1fbf010450aabbcc00000000',
        '0100000001639f78fb7729d09dc6066a6dd81997572d2413c50b703edd5b378166b5466b2d000000000151ffffffff03e8030000000000001976a91482390396aed3dfece64e2ec6ad0a3666b9ad3f0588ac00e1f5050000000022512081b2e286ea350a7ac355f82857f25cc87b76ebafc6d4cf37e7df7fd749e05512ea030000000000001976a914af911a35998cbd5500f92999495897823e7043c688ac00000000'),
    'gen-p2ts-path2-annex': ('020000000001017a6a373102ccacd4f765bf70c78b44e2944b6fe3723e6fabee5a0ccc7c70ff480100000000feffffff028813000000000000160014b3756bd3b402b3b62ff8e67bfdcd55f4d598a7cb102700000000000016001455385a35cf4268f85656c5f35bf016ea3ade492b044117a930e0ebbcdc0638cbe3f4ac72570b7c60a759cbac7508cf898d772e7267535f829d0fc0e6022e2158dd9b03057cf984e10f3e934e0ef8bacb3f793ef8977c012220100a01a3b78272dc38696b2abd2355e4fb8bd805952493d1c2278d5f0e8eb77dac61c15c078555a2fc2973842e8bf149a52baa576da0014ea5ab79c3c0c8cfb14ced1fff333736e6719456cfb693d3a3613a3b4a3c1b0f142d1308dd815fa2d6fb4a6b0030a79be0e10178c99f5194c80060fc9e5bb9ad0fea76dd3daa23841c5709c00450aabbcc00000000',
        '0100000001639f78fb7729d09dc6066a6dd81997572d2413c50b703edd5b378166b5466b2d000000000151ffffffff03e8030000000000001976a91482390396aed3dfece64e2ec6ad0a3666b9ad3f0588ac00e1f50500000000225120fd11e9d6eeeafe6faf47568f838b92888f0bf2a4461e57c8c97d6bd28823b2acea030000000000001976a914af911a35998cbd5500f92999495897823e7043c688ac00000000'),
    'gen-p2wsh': ('02000000000102e4fe85640b0d33b1d0031fb43a2818c3d764a4f44ba504d111825249c2b75f870000000000feffffff09c7bbfa1c76902299a2fdbfeb58bd6debfd759d523cacb36a95278f783504930100000000feffffff028813000000000000160014b3756bd3b402b3b62ff8e67bfdcd55f4d598a7cb102700000000000016001455385a35cf4268f85656c5f35bf016ea3ade492b000400483045022100b50b8f27ba599e409edce4faecf3bdd816e40dc7d478be5822c76dd75a1f0f0b02206d3ecbedf13626439ad10aa08ed7946809f24ea006ce565bb1abf30e4e7b061101483045022100df6dc8e3629eefad5b1142060a890530e46693c6c6d1b1398df82dd6bb7744c202202a8f4fb0cefe3b7105be8ba750194b336d623d2da098da0e65bb58b127150b3f01695221025c078555a2fc2973842e8bf149a52baa576da0014ea5ab79c3c0c8cfb14ced1f2102100a01a3b78272dc38696b2abd2355e4fb8bd805952493d1c2278d5f0e8eb77d2103deaae4d81e0df7419e877b2a0312e7a2e6675b703228b585dba8dda95adc49c453ae00000000',
        '0100000001639f78fb7729d09dc6066a6dd81997572d2413c50b703edd5b378166b5466b2d000000000151ffffffff03e8030000000000001976a91482390396aed3dfece64e2ec6ad0a3666b9ad3f0588ac00e1f50500000000220020f15c72562596f74272b576812ba0ac1fb74312ad488629c0a69db68bb0e754cbea030000000000001976a914af911a35998cbd5500f92999495897823e7043c688ac00000000'),
}

DOC_PAIRS = ["p2pkh", "p2sh-multisig-2-of-2", "p2sh-multisig-invalid-order", "p2sh-p2wpkh", "p2tr", "p2ts"]

# option tables read off btcdeb.cpp:118-130 and tap.cpp:119-126  (long, short, takes-argument)
BTCDEB_OPTS = [("help", "h", 0), ("quiet", "q", 0), ("tx", "x", 1), ("txin", "i", 1), ("modify-flags", "f", 1),
               ("select", "s", 1), ("pretend-valid", "P", 1), ("default-flags", "d", 0),
               ("allow-disabled-opcodes", "z", 0), ("version", "V", 0), ("dataset", "X", 2), ("verbose", "v", 0),
               ("debug", "D", 1)]
TAP_OPTS = [("help", "h", 0), ("quiet", "q", 0), ("version", "v", 0), ("addrprefix", "p", 1), ("tx", "x", 1),
            ("txin", "i", 1), ("privkey", "k", 1), ("sig", "s", 1)]

# the tf table of functions.cpp:278-320 (ENABLE_DANGEROUS is off in this build): name, inline name, valid args
TF_TABLE = [
    ("addr-to-scriptpubkey", "addr_to_spk", [ADDR58]),
    ("add", "add", ["0x0102030405", "0x0a0b0c0d0e"]),
    ("bech32-decode", "b32d", [BECH]),
    ("bech32-encode", "b32e", [H20]),
    ("bech32m-encode", "b32me", [H32]),
    ("base58chk-decode", "b58cd", [ADDR58]),
    ("base58chk-encode", "b58ce", ["0x00" + H20]),
    ("combine-pubkeys", "combine_pubkeys", [G_PUB, PUB2]),
    ("echo", "echo", ["hello"]),
    ("hash160", "hash160", [H20]),
    ("hash256", "hash256", [H20]),
    ("hex", "hex", ["35"]),
    ("int", "int", ["0x23"]),
    ("len", "len", [H32]),
    ("jacobi-symbol", "jacobi_sym", [H32]),
    ("prefix-compact-size", "prefix_compact_size", [H20]),
    ("pubkey-to-xpubkey", "pubkey_to_xpubkey", [G_PUB]),
    ("reverse", "reverse", [H20]),
    ("ripemd160", "ripemd160", ["abc"]),
    ("sha256", "sha256", ["abc"]),
    ("scriptpubkey-to-addr", "spk_to_addr", ["76a914" + H20 + "88ac"]),
    ("sub", "sub", ["0x0a0b0c0d0e", "0x0102030405"]),
    ("tagged-hash", "tagged_hash", ["TapLeaf", H32]),
    ("taproot-tweak-pubkey", "taproot_tweak_pubkey", [G_X, H32]),
    ("tweak-pubkey", "tweak_pubkey", [H32, G_PUB]),
    ("verify-sig", "verify_sig", [H32, G_X, SIG64]),          # the Schnorr branch (x-only key); listed before the ECDSA row, which stays the row looked up by name
    ("verify-sig", "verify_sig", [H32, G_PUB, DERSIG]),
    ("verify-sig-compact", "verify_sig_compact", [H32, G_PUB, SIG64]),
]
# the names Value::do_exec (value.h:581-621) accepts in fn(arg) form, with the tf-table row supplying the argument
INLINE_FNS = [
    ("echo", "echo"), ("hex", "hex"), ("int", "int"), ("reverse", "reverse"), ("sha256", "sha256"),
    ("ripemd160", "ripemd160"), ("hash256", "hash256"), ("hash160", "hash160"),
    ("base58chkenc", "base58chk-encode"), ("base58chkdec", "base58chk-decode"),
    ("bech32enc", "bech32-encode"), ("bech32dec", "bech32-decode"), ("verify_sig", "verify-sig"),
    ("combine_pubkeys", "combine-pubkeys"), ("tweak_pubkey", "tweak-pubkey"),
    ("pubkey_to_xpubkey", "pubkey-to-xpubkey"), ("addr_to_spk", "addr-to-scriptpubkey"),
    ("spk_to_addr", "scriptpubkey-to-addr"), ("add", "add"), ("sub", "sub"), ("jacobi", "jacobi-symbol"),
    ("tagged_hash", "tagged-hash"), ("taproot_tweak_pubkey", "taproot-tweak-pubkey"),
    ("prefix_compact_size", "prefix-compact-size"),
]

EXTENDED_OPS = [  # (opcode, operands bottom..top): the 15 re-enabled opcodes behind -z
    ("OP_CAT", ["0x0102", "0x0304"]), ("OP_SUBSTR", ["0x0102030405", "1", "2"]), ("OP_LEFT", ["0x0102030405", "2"]),
    ("OP_RIGHT", ["0x0102030405", "2"]), ("OP_INVERT", ["0x0102"]), ("OP_AND", ["0x0f0f", "0x00ff"]),
    ("OP_OR", ["0x0f0f", "0x00ff"]), ("OP_XOR", ["0x0f0f", "0x00ff"]), ("OP_2MUL", ["4"]), ("OP_2DIV", ["4"]),
    ("OP_MUL", ["6", "3"]), ("OP_DIV", ["6", "3"]), ("OP_MOD", ["7", "3"]), ("OP_LSHIFT", ["1", "2"]),
    ("OP_RSHIFT", ["8", "2"]),
]


# ------------------------------------------------------------------------------------------------
# transaction field map
def _rcs(b, o):
    v = b[o]
    if v < 253:
        return v, 1
    if v == 253:
        return struct.unpack_from("<H", b, o + 1)[0], 3
    if v == 254:
        return struct.unpack_from("<I", b, o + 1)[0], 5
    return struct.unpack_from("<Q", b, o + 1)[0], 9


def csize(n):
    if n < 0:
        n = 0
    if n < 253:
        return bytes([n])
    if n <= 0xffff:
        return b"\xfd" + struct.pack("<H", n)
    if n <= 0xffffffff:
        return b"\xfe" + struct.pack("<I", n)
    return b"\xff" + struct.pack("<Q", n)


def tx_fields(b):
    """strict parse of a serialized transaction -> list of (name, kind, offset, length, value) or None.
    kind: u32 | marker | csize | hash | index | bytes | amount"""
    try:
        F = []
        o = 0
        F.append(("version", "u32", o, 4, None)); o += 4
        seg = False
        if b[o] == 0 and b[o + 1] == 1:
            seg = True
            F.append(("marker", "marker", o, 2, None)); o += 2
        n, l = _rcs(b, o); F.append(("vin.count", "csize", o, l, n)); o += l
        nin = n
        if nin > 1000:
            return None
        for i in range(nin):
            F.append(("vin%d.hash" % i, "hash", o, 32, None)); o += 32
            F.append(("vin%d.n" % i, "index", o, 4, struct.unpack_from("<I", b, o)[0])); o += 4
            n, l = _rcs(b, o); F.append(("vin%d.scriptSig.len" % i, "csize", o, l, n)); o += l
            if o + n > len(b):
                return None
            F.append(("vin%d.scriptSig" % i, "bytes", o, n, None)); o += n
            F.append(("vin%d.sequence" % i, "u32", o, 4, None)); o += 4
        n, l = _rcs(b, o); F.append(("vout.count", "csize", o, l, n)); o += l
        nout = n
        if nout > 1000:
            return None
        for i in range(nout):
            F.append(("vout%d.value" % i, "amount", o, 8, None)); o += 8
            n, l = _rcs(b, o); F.append(("vout%d.spk.len" % i, "csize", o, l, n)); o += l
            if o + n > len(b):
                return None
            F.append(("vout%d.spk" % i, "bytes", o, n, None)); o += n
        if seg:
            for i in range(nin):
                n, l = _rcs(b, o); F.append(("wit%d.count" % i, "csize", o, l, n)); o += l
                if n > 1000:
                    return None
                for j in range(n):
                    m, l = _rcs(b, o); F.append(("wit%d.%d.len" % (i, j), "csize", o, l, m)); o += l
                    if o + m > len(b):
                        return None
                    F.append(("wit%d.%d" % (i, j), "bytes", o, m, None)); o += m
        F.append(("locktime", "u32", o, 4, None)); o += 4
        if o != len(b):
            return None
        return F
    except (IndexError, struct.error):
        return None


def txid_le(b):
    """txid (internal byte order, as it appears in a prevout) of a strictly parseable transaction, else None"""
    F = tx_fields(b)
    if F is None:
        return None
    out = bytearray()
    for (name, kind, o, l, v) in F:
        if kind == "marker" or name.startswith("wit"):
            continue
        out += b[o:o + l]
    return hashlib.sha256(hashlib.sha256(bytes(out)).digest()).digest()


THOROUGH_ONLY_BASES = {"btcdeb/sign-tx-legacyarg", "btcdeb/select-short", "btcdeb/dataset-p2sh-multisig-2-of-2",
                       "btcdeb/dataset-p2sh-multisig-invalid-order", "btcdeb/dataset-p2sh-p2wpkh", "btcdeb/dataset-p2tr",
                       "tap/n2-tx-sig-short", "tap/n1-prefix-short"}
QUICK_EXTRA_OPTION_BASES = {"btcdeb/bracket", "btcdeb/stack", "btcdeb/auto-p2sh-p2wpkh", "btcdeb/sign-tx", "btcdeb/dataset-long",
                            "btcdeb-argv/script", "btcdeb-argv/none", "tap/n1", "tap/n2-tx", "tap/n1-spend", "tap/noargs",
                            "btcc/opcode1"}


# ------------------------------------------------------------------------------------------------
class Slot:
    """one argv element (prefix+value) or the stdin script line (stdin=True)"""
    __slots__ = ("prefix", "value", "vtype", "meta", "stdin")

    def __init__(self, value, vtype="tok", prefix="", meta=None, stdin=False):
        self.prefix, self.value, self.vtype, self.meta, self.stdin = prefix, value, vtype, meta or {}, stdin

    def text(self):
        return self.prefix + self.value


def _p2wsh_pair(ws_hex):
    """(spending tx hex, funding tx hex): a P2WSH output of the witness script and its spend with the witness [script] (no signatures)"""
    import hashlib as _h
    ws = bytes.fromhex(ws_hex)

    def cs(n):
        return bytes([n]) if n < 253 else b"\xfd" + n.to_bytes(2, "little") if n < 65536 else b"\xfe" + n.to_bytes(4, "little")
    spk = b"\x00\x20" + _h.sha256(ws).digest()
    fund = (b"\x02\x00\x00\x00" + b"\x01" + b"\x11" * 32 + b"\x00\x00\x00\x00" + b"\x00" + b"\xff\xff\xff\xff" + b"\x01" + (100000).to_bytes(8, "little") + cs(len(spk)) + spk + b"\x00" * 4)
    txid = _h.sha256(_h.sha256(fund).digest()).digest()
    out = (90000).to_bytes(8, "little") + b"\x01\x51"
    spend = (b"\x02\x00\x00\x00" + b"\x00\x01" + b"\x01" + txid + b"\x00\x00\x00\x00" + b"\x00" + b"\xfd\xff\xff\xff" + b"\x01" + out + b"\x01" + cs(len(ws)) + ws + b"\x00" * 4)
    return spend.hex(), fund.hex()


class Base:
    def __init__(self, bid, tool, slots, klass, mode="batch", env=None, pair=False, opts=None):
        self.id, self.tool, self.slots, self.klass, self.mode = bid, tool, slots, klass, mode
        self.quick = bid not in THOROUGH_ONLY_BASES           # near-duplicate forms are enumerated in the thorough tier only
        self.quick_extras = bid in QUICK_EXTRA_OPTION_BASES   # quick: the extra-option deviations are applied to these bases
        self.env = env or {}
        self.pair = pair          # take part in the 2-deviation enumeration
        self.opts = opts          # option table for the extra-option deviations

    def size(self):
        return sum(len(s.text()) for s in self.slots)

    def render(self, repl=None):
        """-> (argv list, stdin string or None).  repl: {slot index | 'FRONT' | 'END': [strings]}"""
        repl = repl or {}
        argv = list(repl.get("FRONT", []))
        stdin_lines = None
        has_stdin_slot = False
        for i, s in enumerate(self.slots):
            items = repl[i] if i in repl else [s.text()]
            if s.stdin:
                has_stdin_slot = True
                stdin_lines = items
            else:
                argv.extend(items)
        argv.extend(repl.get("END", []))
        stdin = None
        if has_stdin_slot:
            stdin = "".join(x + "\n" for x in stdin_lines)  # deleted slot -> empty stdin
        return argv, stdin


def T(v):
    return Slot(v, "tok")


def build_bases(repo):
    """-> list of Base (argv / batch-stdin bases) in a fixed order"""
    B = []
    txs = {}
    for p in DOC_PAIRS:
        with open(os.path.join(repo, "doc", "txs", p + "-in")) as fh:
            tin = fh.read().strip()
        with open(os.path.join(repo, "doc", "txs", p + "-tx")) as fh:
            ttx = fh.read().strip()
        txs[p] = (ttx, tin)

    # ---------------------------------------------------------------- btcc
    def cc(bid, toks, klass, pair=False, vt=None, meta=None):
        B.append(Base("btcc/" + bid, "btcc", [Slot(t, (vt or {}).get(i, "tok"), meta=(meta or {}).get(i)) for i, t in enumerate(toks)],
                      klass, pair=pair))

    cc("opcode1", ["OP_1"], "opcode", pair=True)
    cc("opcodes", ["OP_DUP", "OP_HASH160", "OP_EQUALVERIFY", "OP_CHECKSIG"], "opcode")
    cc("decimal1", ["17"], "decimal", vt={0: "num"})
    cc("decimals", ["1", "16", "-1", "1000", "2147483647"], "decimal", vt={i: "num" for i in range(5)})
    cc("hex20", [H20], "hex", vt={0: "hex"})
    cc("hex1", ["ab"], "hex", pair=True, vt={0: "hex"})
    cc("0x", ["0x01", "0x0102030405"], "0x", pair=True, vt={0: "hex", 1: "hex"})
    cc("0xempty", ["0x"], "0x", vt={0: "hex"})
    cc("bracket1", ["[OP_1]"], "bracket", pair=True)
    cc("bracket-nest", ["[OP_1 [OP_2 [OP_3 [4]]]]"], "bracket")
    cc("bracket-split", ["[OP_1", "OP_2]"], "bracket", pair=True)
    cc("p2pkh", ["OP_DUP", "OP_HASH160", "[" + H20 + "]", "OP_EQUALVERIFY", "OP_CHECKSIG"], "mixed")
    cc("string", ["hello"], "string")
    cc("comment", ["[OP_1 # comment\nOP_2]"], "bracket")
    rows = {r[0]: r for r in TF_TABLE}
    for (inl, tfname) in INLINE_FNS:
        args = rows[tfname][2]
        arg = args[0] if len(args) == 1 else "[" + " ".join(args) + "]"
        cc("fn-" + inl, ["%s(%s)" % (inl, arg)], "inline-fn", pair=(inl in ("int", "hex")), vt={0: "fn"}, meta={0: {"fn": inl, "args": args}})
    # the tf-table "inline" names that do_exec does not know (b32d, b58ce, jacobi_sym, ...): unknown-function path
    known = set(i for i, _ in INLINE_FNS)
    for (name, inl, args) in TF_TABLE:
        if inl not in known:
            arg = args[0] if len(args) == 1 else "[" + " ".join(args) + "]"
            cc("fn-" + inl, ["%s(%s)" % (inl, arg)], "inline-fn-unknown", vt={0: "fn"}, meta={0: {"fn": inl, "args": args}})
    cc("fn-nested", ["hex(sha256(reverse(0x0102)))"], "inline-fn", vt={0: "fn"})

    # ---------------------------------------------------------------- btcdeb batch (script line on stdin)
    def deb(bid, script, opts, stack, klass, pair=False, env=None, stackvt="num"):
        slots = list(opts)
        slots.append(Slot(script, "script", stdin=True))
        slots += [Slot(a, stackvt) for a in stack]
        B.append(Base("btcdeb/" + bid, "btcdeb", slots, klass, pair=pair, env=env, opts=BTCDEB_OPTS))

    def O(prefix, value, vtype, **meta):
        return Slot(value, vtype, prefix=prefix, meta=meta)

    deb("bracket", "[OP_1 OP_2 OP_ADD]", [], [], "script-bracket", pair=True)
    deb("hex", "0x515293", [], [], "script-hex", pair=True)
    deb("stack", "[OP_ADD OP_3 OP_EQUAL]", [], ["1", "2"], "script+stack", pair=True)
    deb("empty-script", "", [], [], "script-empty", pair=True)
    deb("ifelse", "[OP_1 OP_IF OP_2 OP_ELSE OP_3 OP_ENDIF]", [], [], "script-if")
    deb("p2pkh-stack", "[OP_DUP OP_HASH160 0x%s OP_EQUALVERIFY OP_CHECKSIG]" % H20, [], [DERSIG, G_PUB], "script+hexstack",
        stackvt="hex")
    deb("flags-long", "[OP_1 OP_IF OP_2 OP_ENDIF]", [O("--modify-flags=", "-NULLDUMMY,+P2SH", "flags")], [], "flags")
    deb("flags-short", "[OP_0 OP_0 OP_1 OP_CHECKMULTISIG]", [O("-f", "-MINIMALIF,-NULLFAIL", "flags")], [], "flags")
    deb("sign-tx", SIGN_SCRIPT, [O("--tx=", SIGN_AMT + ":" + SIGN_TX, "txamt")], ["0x", SIGN_S2, SIGN_S3], "tx+script+stack",
        stackvt="hex")
    deb("sign-tx-laxflags", SIGN_SCRIPT, [O("--tx=", SIGN_AMT + ":" + SIGN_TX, "txamt"), O("-f", "-STRICTENC,-DERSIG,-LOW_S,-NULLFAIL,-NULLDUMMY", "flags")],
        ["0x", SIGN_S2, SIGN_S3], "tx+script+stack", stackvt="hex")     # undefined hash types reach the signature check only without STRICTENC
    deb("sign-tx-legacyarg", SIGN_SCRIPT, [O("tx=", SIGN_AMT + ":" + SIGN_TX, "txamt")], ["0x", SIGN_S2, SIGN_S3],
        "tx+script+stack", stackvt="hex")
    for p in DOC_PAIRS:
        ttx, tin = txs[p]
        deb("auto-" + p, "", [O("--tx=", ttx, "tx", partner=None), O("--txin=", tin, "txin", partner=0)], [], "tx+txin auto")
    for g in sorted(GEN_PAIRS):
        ttx, tin = GEN_PAIRS[g]
        deb("auto-" + g, "", [O("--tx=", ttx, "tx", partner=None), O("--txin=", tin, "txin", partner=0)], [], "tx+txin auto")
    # sessions the interpreter environment refuses to set up (a witness script above the 10,000-byte limit) and the largest it accepts:
    # the refusal is reported with a diagnostic, through the same path for every front end
    for nbytes in (10000, 10001):
        ttx, tin = _p2wsh_pair("61" * (nbytes - 1) + "51")
        deb("auto-p2wsh-script-%d-bytes" % nbytes, "", [O("--tx=", ttx, "tx", partner=None), O("--txin=", tin, "txin", partner=0)], [], "tx+txin auto refused")
    ttx, tin = txs["p2sh-multisig-2-of-2"]
    deb("select", "", [O("--tx=", ttx, "tx"), O("--txin=", tin, "txin", partner=0), O("--select=", "0", "index", n=2)], [],
        "select")
    ttx, tin = txs["p2pkh"]
    deb("select-short", "", [O("-x", ttx, "tx"), O("-i", tin, "txin", partner=0), O("-s", "0", "index", n=1)], [], "select")
    deb("pretend", "[OP_CHECKSIG]", [O("--pretend-valid=", DERSIG + ":" + G_PUB, "pv")], [DERSIG, G_PUB], "pretend-valid",
        stackvt="hex")
    deb("pretend-short", "[OP_CHECKSIG]", [O("-P", "0x01:0x02", "pv")], ["0x01", "0x02"], "pretend-valid", stackvt="hex")
    for (op, operands) in EXTENDED_OPS:
        deb("z-" + op, "[%s]" % op, [O("-z", "", "flagopt")], operands, "disabled-opcode", pair=(op in ("OP_DIV", "OP_2DIV")))
    deb("z-long", "[OP_1 OP_2 OP_MUL]", [O("--allow-disabled-opcodes", "", "flagopt")], [], "disabled-opcode")
    deb("dataset-long", "", [O("--dataset=", "p2pkh", "name")], [], "dataset", pair=True)
    deb("dataset-short", "", [O("-X", "p2ts", "name")], [], "dataset")
    for p in DOC_PAIRS[1:5]:
        deb("dataset-" + p, "", [O("--dataset=", p, "name")], [], "dataset")
    deb("dataset-list", "", [O("--dataset", "", "flagopt")], [], "dataset-list")
    deb("dataset-list-short", "", [O("-X", "", "flagopt")], [], "dataset-list")
    deb("dataset-override", "", [O("--dataset=", "p2pkh", "name"), O("--txin=", txs["p2pkh"][1], "txin")], [], "dataset")
    deb("default-flags", "", [O("--default-flags", "", "flagopt")], [], "info-option")
    deb("version", "", [O("--version", "", "flagopt")], [], "info-option")
    deb("help", "", [O("--help", "", "flagopt")], [], "info-option")
    deb("quiet", "[OP_1]", [O("-q", "", "flagopt")], [], "info-option")
    deb("verbose", "[OP_1]", [O("-v", "", "flagopt")], [], "info-option")
    deb("debug", "[OP_1]", [O("--debug=", "sighash,signing", "name")], [], "debug-option")
    deb("tx-only", "[OP_1]", [O("--tx=", txs["p2pkh"][0], "tx")], [], "tx only")
    deb("txin-only", "[OP_1]", [O("--txin=", txs["p2pkh"][1], "txin")], [], "txin only")
    deb("cltv", "[OP_CHECKLOCKTIMEVERIFY]", [O("--tx=", txs["p2pkh"][0], "tx")], ["1"], "tx+locktime")

    # ---------------------------------------------------------------- btcdeb, script as argv[0] (stdout piped, stdin "tty")
    def debargv(bid, opts, script, stack, klass, pair=False):
        slots = list(opts)
        if script is not None:
            slots.append(Slot(script, "script"))
        slots += [Slot(a, "num") for a in stack]
        B.append(Base("btcdeb-argv/" + bid, "btcdeb", slots, klass, mode="argv", env={"DEBUG_SET_PIPE_OUT": "1"}, pair=pair,
                      opts=BTCDEB_OPTS))

    debargv("script", [], "[OP_1 OP_2 OP_ADD]", [], "argv script")
    debargv("script+stack", [], "[OP_ADD]", ["1", "2"], "argv script+stack")
    debargv("none", [], None, [], "argv empty", pair=True)
    debargv("script-10001-bytes", [], "0x" + "61" * 10000 + "51", [], "argv script refused")
    debargv("auto-p2sh-p2wpkh", [O("--tx=", txs["p2sh-p2wpkh"][0], "tx"), O("--txin=", txs["p2sh-p2wpkh"][1], "txin", partner=0)],
            None, [], "argv tx+txin auto")

    # ---------------------------------------------------------------- tap
    def tap(bid, opts, key, n, scripts, rest, klass, pair=False):
        slots = list(opts)
        slots.append(Slot(key, "hex"))
        slots.append(Slot(str(n), "index", meta={"n": n, "count": True}))
        slots += [Slot(s, "script") for s in scripts]
        if rest:
            slots.append(Slot(rest[0], "index", meta={"n": n}))
            slots += [Slot(a, "hex") for a in rest[1:]]
        B.append(Base("tap/" + bid, "tap", slots, klass, pair=pair, opts=TAP_OPTS))

    tap("n1", [], G_X, 1, ["[OP_1]"], [], "tap n=1", pair=True)   # quick pair budget excludes it (size)
    tap("n2", [], TAP_PUB, 2, [TAP_ALICE, TAP_BOB], [], "tap n=2")
    tap("n3", [], G_X, 3, ["[OP_1]", "[OP_2]", "[OP_3]"], [], "tap n=3")
    tap("n1-spend", [], G_X, 1, ["[OP_1]"], ["0"], "tap spend")
    tap("n2-spend-arg", [], TAP_PUB, 2, [TAP_ALICE, TAP_BOB], ["1", TAP_PREIMAGE], "tap spend")
    tap("n3-spend-sig", [], G_X, 3, ["[OP_1]", "[OP_2]", "[OP_3]"], ["2", "%SIG%", "0x01"], "tap spend")
    tap("n2-tx", [O("--tx=", TAP_TX, "tx"), O("--txin=", TAP_TXIN, "txin", partner=0)], TAP_PUB, 2, [TAP_ALICE, TAP_BOB], [],
        "tap tx taproot")
    tap("n2-tx-spend", [O("--tx=", TAP_TX, "tx"), O("--txin=", TAP_TXIN, "txin", partner=0)], TAP_PUB, 2, [TAP_ALICE, TAP_BOB],
        ["1", TAP_PREIMAGE], "tap tx tapscript")
    tap("n2-tx-sig", [O("-x", TAP_TX, "tx"), O("-i", TAP_TXIN, "txin", partner=0), O("--sig=", SIG64, "hex")], TAP_PUB, 2,
        [TAP_ALICE, TAP_BOB], ["1", TAP_PREIMAGE], "tap tx sig")
    tap("n2-tx-sig-short", [O("-x", TAP_TX, "tx"), O("-i", TAP_TXIN, "txin", partner=0), O("-s", SIG64, "hex")], TAP_PUB, 2,
        [TAP_ALICE, TAP_BOB], [], "tap tx sig")
    tap("n2-privkey", [O("-k", H32, "hex")], TAP_PUB, 2, [TAP_ALICE, TAP_BOB], [], "tap privkey (feature compiled out)")
    tap("n1-prefix", [O("--addrprefix=", "tb", "name")], G_X, 1, ["[OP_1]"], [], "tap addrprefix")
    tap("n1-prefix-short", [O("-p", "bc", "name")], G_X, 1, ["[OP_1]"], [], "tap addrprefix")
    tap("n1-quiet", [O("-q", "", "flagopt")], G_X, 1, ["[OP_1]"], [], "tap quiet")
    B.append(Base("tap/version", "tap", [O("--version", "", "flagopt")], "tap info", opts=TAP_OPTS))
    B.append(Base("tap/help", "tap", [O("--help", "", "flagopt")], "tap info", opts=TAP_OPTS))
    B.append(Base("tap/noargs", "tap", [], "tap info", opts=TAP_OPTS, pair=True))
    return B, txs


# ------------------------------------------------------------------------------------------------
# deviation operators
def big_strings():
    return [("digits", "7" * BIG), ("hex", "ab" * (BIG // 2)), ("A", "A" * BIG), ("open-bracket", "[" * BIG),
            ("open-paren", "(" * BIG), ("nested-brackets", "[" * (BIG // 2) + "]" * (BIG // 2)),
            ("nested-calls", "sha256(" * 1250 + "00" + ")" * 1250)]


INDEX_VALUES = ["-1", "<n>", "<n+1>", "2147483648", "4294967296", "", "x"]
NUM_VALUES = ["0", "-1", "0x80", "0x", "2147483648", "9223372036854775808", "0x0500000000", "OP_0",      # quick: these eight
              "2147483647", "-2147483648", "9223372036854775807", "-9223372036854775808", "0xffffffffff", "OP_1NEGATE"]
NONHEX_CHARS = ["g", " ", ":", "Z", ",", "-", "\x7f", "\xc3\xa9"]   # quick: the first three


def trunc_positions(s, vtype, fields=None, tier="quick"):
    """cut points p (keep s[:p]), 0 < p < len(s)"""
    n = len(s)
    if n <= 1:
        return []
    if n <= (96 if tier == "quick" else 240):
        return list(range(1, n))
    P = set()
    if vtype in ("tx", "txin", "txamt"):
        off = 0
        if vtype == "txamt" and ":" in s:
            off = s.index(":") + 1
            P.update(range(1, off + 1))
        for byte in range(0, 81):
            P.add(off + 2 * byte)
        for byte in range(80, (n - off) // 2 + 1, 8):
            P.add(off + 2 * byte)
        for f in fields or []:
            P.add(off + 2 * f[2])
            P.add(off + 2 * (f[2] + f[3]))
        # odd-length cuts: one nibble into a field, at each field start
        for f in fields or []:
            P.add(off + 2 * f[2] + 1)
    elif tier == "quick":
        P.update(range(1, 65))
        P.update(range(64, n, 8))
        P.update(range(max(1, n - 4), n))
    else:
        P.update(range(1, 161))
        P.update(range(160, n, 16))
        P.update(range(max(1, n - 8), n))
    return sorted(p for p in P if 0 < p < n)


def nonhex_positions(s):
    n = len(s)
    start = 2 if s.startswith("0x") else 0
    c = sorted(set(p for p in (0, 1, start, start + 1, n // 2, n - 2, n - 1) if 0 <= p < n))
    return c


def tx_field_devs(hexs, prefix_len=0, script_bytes=False):
    """deviations of one transaction hex string -> list of (kind, desc, new hex string)"""
    out = []
    try:
        b = bytes.fromhex(hexs[prefix_len:])
    except ValueError:
        return out
    F = tx_fields(b)
    if F is None:
        return out
    pre = hexs[:prefix_len]
    nout = next((f[4] for f in F if f[0] == "vout.count"), 0)

    def put(f, repl):
        return pre + (b[:f[2]] + repl + b[f[2] + f[3]:]).hex()

    for f in F:
        name, kind, o, l, v = f
        if kind == "csize":
            for (d, r) in (("00", b"\x00"), ("n-1", csize(v - 1)), ("n+1", csize(v + 1)), ("fd0000", b"\xfd\x00\x00"),
                           ("fdffff", b"\xfd\xff\xff"), ("feffffffff", b"\xfe\xff\xff\xff\xff"), ("ff*9", b"\xff" * 9)):
                if v == 0 and d == "n-1":
                    continue
                out.append(("txfield-size", "%s=%s" % (name, d), put(f, r)))
        elif kind == "index":
            for (d, r) in (("0", 0), ("n+1", v + 1), ("7fffffff", 0x7fffffff), ("80000000", 0x80000000), ("ffffffff", 0xffffffff),
                           ("100", 100)):
                if r == v:
                    continue
                out.append(("txfield-index", "%s=%s" % (name, d), put(f, struct.pack("<I", r & 0xffffffff))))
        elif kind in ("u32", "amount"):
            for (d, r) in (("00", b"\x00" * l), ("ff", b"\xff" * l), ("80-top", b"\x00" * (l - 1) + b"\x80")):
                out.append(("txfield-num", "%s=%s" % (name, d), put(f, r)))
        elif kind == "marker":
            for (d, r) in (("0000", b"\x00\x00"), ("0002", b"\x00\x02"), ("00ff", b"\x00\xff"), ("dropped", b"")):
                out.append(("txfield-marker", "%s=%s" % (name, d), put(f, r)))
        elif kind == "hash":
            out.append(("txfield-hash", "%s=00*32" % name, put(f, b"\x00" * 32)))
        elif kind == "bytes" and l > 0:
            # first byte of a script / witness item: the opcode or push length that the tools look at
            for (d, r) in (("00", 0), ("4b", 0x4b), ("4c", 0x4c), ("4e", 0x4e), ("ff", 0xff), ("51", 0x51), ("50", 0x50)):
                if b[o] == r:
                    continue
                out.append(("txfield-script-byte0", "%s[0]=%s" % (name, d), put(f, bytes([r]) + b[o + 1:o + l])))
            # short scripts of a funding transaction (the output script templates the tools pattern-match on): every byte +-1
            if script_bytes and l <= 40 and name.startswith("vout"):
                for k in range(l):
                    for dlt in (1, -1):
                        nb = (b[o + k] + dlt) & 0xff
                        out.append(("txfield-script-byte", "%s[%d]%+d" % (name, k, dlt), put(f, b[o:o + k] + bytes([nb]) + b[o + k + 1:o + l])))
    # structure: one more input (unrelated outpoint, empty scriptSig, empty witness) appended / prepended, one more output, no outputs
    fm = {f[0]: f for f in F}
    nin = fm["vin.count"][4]
    if 1 <= nin < 250 and fm["vin.count"][3] == 1 and fm["vout.count"][3] == 1:
        lt = fm["locktime"]
        seg = "marker" in fm
        extra_in = bytes([0x77]) * 32 + struct.pack("<I", 1) + b"\x00" + b"\xfe\xff\xff\xff"
        vc = fm["vin.count"]
        first_in = fm["vin0.hash"][2]
        end_ins = fm["vout.count"][2]
        for (where, desc) in ((end_ins, "appended"), (first_in, "prepended")):
            nb = bytearray(b)
            # witness of the new input (empty stack) goes to the matching place in the witness section
            if seg:
                wpos = lt[2] if where == end_ins else fm["wit0.count"][2]
                nb[wpos:wpos] = b"\x00"
            nb[where:where] = extra_in
            nb[vc[2]] = nin + 1
            out.append(("txfield-structure", "one more input %s" % desc, pre + bytes(nb).hex()))
        nout = fm["vout.count"][4]
        if nout < 250:
            endouts = (fm["wit0.count"][2] if seg else lt[2])
            nb = bytearray(b)
            nb[endouts:endouts] = struct.pack("<q", 1000) + b"\x01\x51"
            nb[fm["vout.count"][2]] = nout + 1
            out.append(("txfield-structure", "one more output", pre + bytes(nb).hex()))
        if nout >= 1:
            startouts = fm["vout0.value"][2]
            endouts = (fm["wit0.count"][2] if seg else lt[2])
            nb = bytearray(b)
            del nb[startouts:endouts]
            nb[fm["vout.count"][2]] = 0
            out.append(("txfield-structure", "no outputs", pre + bytes(nb).hex()))
    # funding-output scripts that are witness programs: other program lengths and versions (the length byte and the data change together)
    if script_bytes:
        for f in F:
            name, kind, o, l, v = f
            if kind != "bytes" or not name.startswith("vout") or not (4 <= l <= 42):
                continue
            spk = b[o:o + l]
            if not ((spk[0] == 0 or 0x51 <= spk[0] <= 0x60) and spk[1] == l - 2):
                continue
            prog = spk[2:]
            lf = next((g for g in F if g[0] == name + ".len"), None)
            if lf is None or lf[3] != 1:
                continue
            for plen in (2, 20, 31, 32, 33, 40):
                for ver in (spk[0], 0x00, 0x51, 0x52, 0x60):
                    if plen == len(prog) and ver == spk[0]:
                        continue
                    np = (prog + bytes([0x42]) * 40)[:plen]
                    nspk = bytes([ver, plen]) + np
                    out.append(("txfield-witness-program", "%s: version %02x, %d-byte program" % (name, ver, plen),
                                pre + (b[:lf[2]] + bytes([len(nspk)]) + nspk + b[o + l:]).hex()))
    return out


def slot_deviations(base, i, tier):
    """all single deviations of slot i -> list of (kind, desc, {slot: [strings], ...})"""
    s = base.slots[i]
    pre, val, vt = s.prefix, s.value, s.vtype
    D = []

    def rep(kind, desc, newval):
        D.append((kind, "%s%s" % (("arg%d " % i) if not s.stdin else "stdin ", desc), {i: [pre + newval]}))

    D.append(("delete-arg", ("arg%d" % i) if not s.stdin else "stdin", {i: []}))
    D.append(("duplicate-arg", ("arg%d" % i) if not s.stdin else "stdin", {i: [s.text(), s.text()]}))
    if vt == "flagopt":
        # option without a value: give it one
        if pre.startswith("--"):
            rep("option-unexpected-value", "=x", "=x")
            rep("option-unexpected-value", "=" + "A" * 20 + "...", "=" + "A" * BIG)
        else:
            rep("option-unexpected-value", "x", "x")
        return D
    if val != "":
        rep("empty", "empty value", "")
    for (bn, bs) in big_strings():
        rep("big-" + bn, "10^4 chars (%s)" % bn, bs)
    if pre.startswith("-"):
        # option given without its value, as the last argv element
        p = pre[:-1] if pre.endswith("=") else pre
        D.append(("option-missing-value", "arg%d %s last" % (i, p), {i: [], "END": [p]}))
    fields = None
    off = 0
    if vt in ("tx", "txin", "txamt"):
        if vt == "txamt" and ":" in val:
            off = val.index(":") + 1
        try:
            fields = tx_fields(bytes.fromhex(val[off:]))
        except ValueError:
            fields = None
    for p in trunc_positions(val, vt, fields, tier):
        rep("truncate", "cut at %d/%d" % (p, len(val)), val[:p])
    hexlike = vt in ("hex", "tx", "txin", "txamt") or (vt in ("script", "num", "tok", "fn", "pv") and _looks_hex(val))
    if hexlike or vt == "pv":
        rep("odd-length-hex", "append nibble", val + "0")
        if len(val) > 1:
            rep("odd-length-hex", "drop first nibble", val[:off] + val[off + 1:])
        for p in nonhex_positions(val):
            for ch in (NONHEX_CHARS[:3] if tier == "quick" else NONHEX_CHARS):
                rep("non-hex-char", "%r at %d" % (ch, p), val[:p] + ch + val[p + 1:])
        if fields:
            # one non-hex character at the first nibble of each field class
            seen = set()
            for f in fields:
                k = f[0].rstrip("0123456789.") + f[1]
                if k in seen:
                    continue
                seen.add(k)
                p = off + 2 * f[2]
                if p < len(val):
                    for ch in ("g", " ", ":"):
                        rep("non-hex-char", "%r at field %s" % (ch, f[0]), val[:p] + ch + val[p + 1:])
    # a DER signature with its hash-type byte: other hash types (the byte selects digest variants and is echoed by debug code)
    hv = val[2:] if val.startswith("0x") else val
    if vt in ("hex", "num", "tok") and len(hv) >= 18 and hv[:2] == "30" and _looks_hex(val) and int(hv[2:4], 16) == len(hv) // 2 - 3:
        for ht in ("00", "04", "40", "1f", "80", "ff", "02", "83"):
            if hv[-2:] != ht:
                rep("sig-hashtype", "hash type byte " + ht, val[:-2] + ht)
    if vt in ("script", "tok", "num", "hex", "fn"):
        for d in range(1, 9):
            rep("unbalanced-bracket", "depth %d missing close" % d, "[" * d + val + "]" * (d - 1))
            rep("unbalanced-bracket", "depth %d extra close" % d, "[" * (d - 1) + val + "]" * d)
        rep("paren", "()", "()")
        rep("paren", "(v)", "(" + val + ")")
        rep("paren", "v(", val + "(")
        rep("paren", "v)", val + ")")
        rep("paren", "v()", val + "()")
        for nv in (NUM_VALUES[:8] if tier == "quick" else NUM_VALUES):
            if nv != val:
                rep("boundary-value", nv, nv)
        for nbytes in (520, 521, 10000):
            rep("big-stack-item", "%d bytes" % nbytes, "0x" + "5a" * nbytes)
        rep("big-stack-item", "75 bytes", "0x" + "5a" * 75)
        rep("big-stack-item", "76 bytes", "0x" + "5a" * 76)
        rep("big-stack-item", "256 bytes", "0x" + "5a" * 256)
    if vt == "fn" and "fn" in s.meta:
        fn, args = s.meta["fn"], s.meta["args"]

        def call(a):
            return "%s(%s)" % (fn, a[0] if len(a) == 1 else "[" + " ".join(a) + "]")
        inner = [(n, v) for (n, v) in adversarial_args() if " " not in v] + [("num " + v, v) for v in NUM_VALUES] + [
            ("520 bytes", "0x" + "5a" * 520), ("521 bytes", "0x" + "5a" * 521), ("OP_1", "OP_1"), ("string", "hello")]
        for pos in range(len(args)):
            for (an, av) in inner:
                a = list(args)
                a[pos] = av
                if a != args:
                    rep("fn-argument", "%s arg%d=%s" % (fn, pos, an), call(a))
        if len(args) > 1:
            rep("fn-argument", "%s one arg missing" % fn, call(args[:-1]))
            for (an, av) in inner[:12]:
                rep("fn-argument", "%s whole arg=%s" % (fn, an), "%s(%s)" % (fn, av))
        rep("fn-argument", "%s one arg added" % fn, call(list(args) + [args[-1]]))
        rep("fn-argument", "%s no arg" % fn, "%s()" % fn)
        rep("fn-argument", "%s nested in itself" % fn, "%s(%s)" % (fn, val))
    if vt == "script":
        # script-level structure: lone conditionals, truncated push, invalid opcode byte
        for sv in ("[OP_IF]", "[OP_ENDIF]", "[OP_ELSE]", "[OP_1 OP_IF]", "0x4c", "0x4d01", "0x4effffffff", "0x05ab", "0xff", "0xba",
                   "[OP_CODESEPARATOR]", "[OP_RETURN]", "[OP_CHECKSIG]", "[OP_0 OP_CHECKMULTISIG]", "[OP_1NEGATE OP_PICK]",
                   "int(0x0102030405)", "[int(0x0102030405)]", "[bech32dec(a12uel5l)]", "[addr_to_spk(x)]", "[nosuchfn(1)]"):
            if sv != val:
                rep("script-structure", sv, sv)
    if vt == "index":
        n = s.meta.get("n", 1)
        for iv in INDEX_VALUES:
            x = {"<n>": str(n), "<n+1>": str(n + 1)}.get(iv, iv)
            if x != val:
                rep("index", iv if not iv.startswith("<") else "%s=%s" % (iv, x), x)
        for x in ("0", "1", "1024", "1025", "-2147483649", "18446744073709551615", "18446744073709551616", "0x1", "1e3", " 1"):
            if x != val:
                rep("index", x, x)
    if vt == "flags":
        for fv in ("+", "-", ",", "+,", ",+P2SH", "P2SH", "+BOGUS", "+P2SH,", "+P2SH,,-P2SH", "+" + "A" * 126, "+" + "A" * 127,
                   "+" + "A" * 128, "+" + "A" * 200, "+P2SH," + "A" * 130):
            rep("flags-structure", fv[:24] + ("..." if len(fv) > 24 else ""), fv)
    if vt == "pv":
        a, _, c = val.partition(":")
        for pvv in (":", "::", a + ":", ":" + c, val + ",", val + ":" + c, ",", a + "," + c, val + "," + val, a, "x:y", "[:]",
                    "[OP_1:OP_2]", a + ":[" + c, "int(0x0102030405):02", "02:int(0x0102030405)", "jacobi_sym([3 0]):02", "bech32dec(x):02", "nosuchfn(1):02"):
            rep("pretend-valid-structure", pvv[:24] + ("..." if len(pvv) > 24 else ""), pvv)
    if vt == "txamt":
        amt, _, rest = val.partition(":")
        for av in ("", "x", "-1", "1e9", "21000000.000000001", "92233720368.54775808", "7" * 400, "1,2,3", ",", ",,", "1,", ",1",
                   "0.000000001"):
            rep("amount", av[:24], av + ":" + rest)
        rep("amount", "no colon", amt + rest)
        rep("amount", "two colons", amt + "::" + rest)
        rep("amount", "amount only", amt)
        rep("amount", "amount and colon only", amt + ":")
    if vt == "name":
        for nv in ("x", "..", "/", "../../etc/passwd", "p2pkh/", "%s%s%s%n", "p2tr", "sighash", "1"):
            if nv != val:
                rep("name", nv, nv)
    if vt in ("tx", "txin", "txamt"):
        for (kind, desc, newhex) in tx_field_devs(val, off):
            rep(kind, desc, newhex)
        partner = s.meta.get("partner")
        if vt == "txin" and partner is not None:
            # re-linked variants: the deviated funding transaction gets a new txid; patch the spending
            # transaction's prevout so that the pair still matches and the deeper code is reached
            ps = base.slots[partner]
            try:
                pb = bytes.fromhex(ps.value)
                old = txid_le(bytes.fromhex(val))
            except ValueError:
                pb, old = None, None
            if pb is not None and old is not None and old in pb:
                for (kind, desc, newhex) in tx_field_devs(val, 0, script_bytes=True):
                    try:
                        new = txid_le(bytes.fromhex(newhex))
                    except ValueError:
                        new = None
                    if new is None or new == old:
                        continue
                    D.append((kind + "-relinked", "arg%d %s (prevout re-linked)" % (i, desc),
                              {i: [pre + newhex], partner: [ps.prefix + pb.replace(old, new).hex()]}))
    return D


def _looks_hex(v):
    w = v[2:] if v.startswith("0x") else v
    return len(w) >= 2 and all(c in "0123456789abcdefABCDEF" for c in w)


def extra_option_deviations(base, tier="thorough"):
    """one option of the tool's table added to the command line: empty / missing / oversized value, for every option"""
    D = []
    if tier == "quick" and not base.quick_extras:
        return D
    for (long, short, takes) in base.opts or []:
        D.append(("extra-option", "--%s= (empty)" % long, {"FRONT": ["--%s=" % long]}))
        D.append(("extra-option", "--%s=<10^4 A>" % long, {"FRONT": ["--%s=%s" % (long, "A" * BIG)]}))
        D.append(("extra-option", "--%s last (missing value)" % long, {"END": ["--" + long]}))
        D.append(("extra-option", "-%s last (missing value)" % short, {"END": ["-" + short]}))
        D.append(("extra-option", "-%s<10^4 A>" % short, {"FRONT": ["-%s%s" % (short, "A" * BIG)]}))
        D.append(("extra-option", "--%s first (swallows next)" % long, {"FRONT": ["--" + long]}))
    for u in ("--bogus", "-?", "--", "-", "--=", "--tx", "-" + "z" * 300):
        D.append(("extra-option", "%s first" % u[:12], {"FRONT": [u]}))
    return D


def single_deviations(base, tier):
    D = []
    for i in range(len(base.slots)):
        D.extend(slot_deviations(base, i, tier))
    D.extend(extra_option_deviations(base, tier))
    return D


def pair_deviations(base, tier):
    """all unordered pairs of single deviations that touch disjoint slots"""
    per = []
    for i in range(len(base.slots)):
        per.append(slot_deviations(base, i, tier))
    per.append(extra_option_deviations(base, tier))
    out = []
    for a in range(len(per)):
        for b in range(a + 1, len(per)):
            for (k1, d1, r1) in per[a]:
                for (k2, d2, r2) in per[b]:
                    if set(r1) & set(r2):
                        # both want FRONT/END (or the same partner slot): concatenate list-valued edits
                        r = dict(r1)
                        ok = True
                        for k, v in r2.items():
                            if k in r:
                                if k in ("FRONT", "END"):
                                    r[k] = r[k] + v
                                else:
                                    ok = False
                            else:
                                r[k] = v
                        if not ok:
                            continue
                    else:
                        r = dict(r1); r.update(r2)
                    out.append((k1 + "+" + k2, d1 + " & " + d2, r))
    return out


# ------------------------------------------------------------------------------------------------
# interactive sessions
EXEC_OPS = ["OP_CODESEPARATOR", "OP_IF", "OP_ENDIF", "OP_CHECKSIG", "OP_CHECKMULTISIG", "OP_DUP", "OP_DROP", "OP_ADD", "OP_1ADD",
            "OP_DIV", "OP_2DIV", "OP_VERIFY", "OP_TOALTSTACK", "OP_FROMALTSTACK", "OP_PICK", "OP_CHECKLOCKTIMEVERIFY",
            "0", "1000", "0102030405ff", "garbage!"]
PLAIN_CMDS = ["step", "rewind", "print", "stack", "altstack", "vfexec", "help", "", "frobnicate", "exec", "tf", "tf -h"]


def command_alphabet():
    return PLAIN_CMDS + ["exec " + o for o in EXEC_OPS]


def changed_char(s, pos=None):
    pos = len(s) // 2 if pos is None else pos
    c = s[pos]
    r = "q" if c != "q" else "p"
    return s[:pos] + r + s[pos + 1:]


def adversarial_args():
    """the ~8 adversarial tf arguments of the design, plus the well-formed bech32 strings with an empty data part"""
    return [("empty", ""), ("x", "x"), ("0x", "0x"), ("1byte", "0x00"), ("31bytes", "0x" + "11" * 31), ("32bytes", "0x" + "11" * 32),
            ("33bytes", "0x" + "02" + "11" * 32), ("64bytes", "0x" + "11" * 64),
            ("~10^4chars", "A" * (BIG - 400)),   # the REPL's line buffer is 10240 bytes: keep the whole command on one line
            ("base58-addr-1char-changed", changed_char(ADDR58)), ("bech32-addr-1char-changed", changed_char(BECH)),
            ("bech32-empty-data", "a12uel5l"), ("bech32m-empty-data", "a1lqfn3a"), ("base58check-of-nothing", "3QJmnh"),
            ("int64-overflow", "9223372036854775808"), ("5-byte-number", "0x0102030405"), ("unclosed-bracket", "[OP_1"),
            ("quote", "\"abc"),
            # inline functions that throw or fail while the ARGUMENT is being compiled (before the transform itself runs)
            ("inline-throws", "int(0x0102030405)"), ("inline-unknown", "nosuchfn(1)"), ("inline-fails", "bech32dec(x)"), ("inline-nested-throw", "[hex(int(0x0102030405))]")]


def tf_commands():
    """`tf <fn> <args>`: for every function of the tf table, the valid call, and every call in which one
    argument position holds an adversarial value, one argument is missing, or one is added"""
    out = []
    adv = adversarial_args()
    for (name, inl, args) in TF_TABLE:
        out.append(("tf %s valid" % name, "tf %s %s" % (name, " ".join(args))))
        for pos in range(len(args)):
            for (an, av) in adv:
                a = list(args)
                a[pos] = av
                out.append(("tf %s arg%d=%s" % (name, pos, an), ("tf %s %s" % (name, " ".join(a))).rstrip()))
        if len(args) > 1:
            out.append(("tf %s one arg missing" % name, "tf %s %s" % (name, " ".join(args[:-1]))))
        out.append(("tf %s one arg added" % name, "tf %s %s %s" % (name, " ".join(args), args[-1])))
        out.append(("tf %s two args added" % name, "tf %s %s %s %s" % (name, " ".join(args), args[-1], args[0])))
    out.append(("tf unknown function", "tf nosuchfunction 01"))
    # a quote left open at the end of the line: the argument continues on the following lines until the quote closes
    for (cn, cont) in [("short", ["cd"]), ("1100-chars", ["c" * 1100]), ("3000-chars", ["c" * 3000]), ("9000-chars", ["c" * 9000]), ("two-6000-char-lines", ["c" * 6000, "d" * 6000]),
                       ("four-400-char-lines", ["c" * 400, "d" * 400, "e" * 400, "f" * 400]), ("escapes", ["c\\" * 700]), ("empty-lines", ["", "", "x"])]:
        for head in ("tf echo", "tf len", "exec"):
            out.append(("%s: open quote continued over %s" % (head, cn), "%s \"ab\n%s\"" % (head, "\n".join(cont))))
        out.append(("tf echo: long first line, open quote continued over %s" % cn, "tf echo %s \"ab\n%s\"" % ("0x" + "11" * 700, "\n".join(cont))))
    return out


def sessions(txs):
    """the 6 interactive sessions: (id, argv)"""
    S = [
        ("plain-z", ["-z", "[OP_ADD OP_8 OP_EQUAL]", "7", "1"]),
        ("ifelse", ["--modify-flags=-CONST_SCRIPTCODE", "[OP_1 OP_IF OP_2 OP_ELSE OP_3 OP_ENDIF OP_TOALTSTACK]", "0x01", "0x02"]),
        ("p2pkh", ["--tx=" + txs["p2pkh"][0], "--txin=" + txs["p2pkh"][1]]),
        ("p2sh-multisig", ["--tx=" + txs["p2sh-multisig-2-of-2"][0], "--txin=" + txs["p2sh-multisig-2-of-2"][1]]),
        ("p2tr", ["--tx=" + txs["p2tr"][0], "--txin=" + txs["p2tr"][1]]),
        ("p2ts", ["--tx=" + txs["p2ts"][0], "--txin=" + txs["p2ts"][1]]),
        # added after a second round of independently seeded changes pointed at shapes the first six sessions lack:
        ("p2sh-p2wpkh", ["--tx=" + txs["p2sh-p2wpkh"][0], "--txin=" + txs["p2sh-p2wpkh"][1]]),                     # segwit v0 under the default flags
        ("p2sh-shape-nostack", ["[OP_HASH160 0xb472a266d0bd89c13706a4132ccfb16f7c3b9fcb OP_EQUAL]"]),            # P2SH-shaped script, empty stack (hash160 of the empty string)
        ("p2tr-key-annex", ["--tx=" + GEN_PAIRS["gen-p2tr-key-annex"][0], "--txin=" + GEN_PAIRS["gen-p2tr-key-annex"][1]]),
        ("p2ts-annex", ["--tx=" + GEN_PAIRS["gen-p2ts-path2-annex"][0], "--txin=" + GEN_PAIRS["gen-p2ts-path2-annex"][1]]),
        ("throwing-first-op", ["[OP_1ADD OP_1]", "0x0102030405"]),                                                 # the first step fails by throwing (number too long)
        ("noconst", ["-f-CONST_SCRIPTCODE", "[OP_1 OP_DROP OP_2]"]),                                                 # OP_CODESEPARATOR allowed in legacy scripts
        ("push520", ["0x4d0802" + "ab" * 520 + "75"]),                                                             # a 520-byte push in the listing
    ]
    return S


FULL_DEPTH_SESSIONS = {"throwing-first-op"}

# history files found in the working directory at start-up (readline front end)
HISTORY_FILES = {
    "plain": b"step\nprint\n",
    "no-final-newline": b"step\nstack",
    "nul-first": b"step\n\x00hidden\nstack\n",
    "lone-nul": b"\x00",
    "long-line": b"tf echo " + b"a" * 3000 + b"\nstep\n",
    "escapes": b"tf echo a\\nb\nexec 1\\\n\\\\\\\n",
    "empty": b"",
    "blank-lines": b"\n\n\n",
}
INTERACTIVE_TX_COMMANDS = ["print", "step", "step", "step", "rewind", "print", "stack"]


def exec_pair_lines():
    """every exec operation alone, and every ordered pair of exec operations given on ONE exec line"""
    return ["exec " + a for a in EXEC_OPS] + ["exec %s %s" % (a, b) for a in EXEC_OPS for b in EXEC_OPS] + ["exec OP_CODESEPARATOR 0 0 OP_CHECKSIG", "exec OP_CODESEPARATOR OP_RETURN", "exec 0x51"]


EXEC_PAIR_PATTERNS = [["{x}"], ["{x}", "step", "step", "step", "step"], ["step", "{x}", "step", "step", "step", "step", "step"]]
