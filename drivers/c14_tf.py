"""C14 — Value transforms compute their defined functions and invert each other.

Every transform of the `tf` table is evaluated through each invocation form that exists for it
  cmd : `tf <name> <args>` typed into the forced-interactive REPL (btcdeb_tty), one process per command, the reply is
        cut out between two sentinel commands; stderr of that process decides accepted / rejected
  inl : `btcc 'name(arg)'` (the script pushing the result is decoded)
  op  : `echo '[OP_X]' | btcdeb 0x<arg>` (batch btcdeb prints the final stack), and for 5..500-byte arguments also
        opemb: `echo '[0x<arg> OP_X]' | btcdeb`
on an exhaustively enumerated, bounded argument space, against a Python oracle (pyref_codec.py: hashlib, BIP340,
own base58check / bech32(m) / script-number / secp256k1 code).  Nothing is sampled.
"""
import re
import json, os, random, shutil, signal, subprocess, sys, tempfile, time
from multiprocessing import Pool

sys.path.insert(0, os.path.dirname(os.path.abspath(__file__)))
import pyref_codec as R  # noqa: E402

BDIR = None
WDIR = None
SENT_CMD, SENT_REPLY = "tf hex 424242", "327906"
REPL_LINE_MAX = 10000      # kerl reads lines with fgets(buf, 10240)
ARGV_MAX = 131000          # Linux: one argv string < 128 KiB
BATCH_LINE_MAX = 1000      # batch btcdeb reads the script with fgets(buf, 1024)

# the tf table as read from functions.cpp (ENABLE_DANGEROUS off) -> inline name understood by Value::do_exec (None: no inline form)
TABLE = {
    "addr-to-scriptpubkey": "addr_to_spk", "add": "add", "bech32-decode": "bech32dec", "bech32-encode": "bech32enc",
    "bech32m-encode": "bech32menc", "base58chk-decode": "base58chkdec", "base58chk-encode": "base58chkenc",
    "combine-pubkeys": "combine_pubkeys", "echo": "echo", "hash160": "hash160", "hash256": "hash256", "hex": "hex",
    "int": "int", "len": "len", "jacobi-symbol": "jacobi", "prefix-compact-size": "prefix_compact_size",
    "pubkey-to-xpubkey": "pubkey_to_xpubkey", "reverse": "reverse", "ripemd160": "ripemd160", "sha256": "sha256",
    "scriptpubkey-to-addr": "spk_to_addr", "sub": "sub", "tagged-hash": "tagged_hash",
    "taproot-tweak-pubkey": "taproot_tweak_pubkey", "tweak-pubkey": "tweak_pubkey", "verify-sig": "verify_sig",
    "verify-sig-compact": "verify_sig_compact",
}
# the inline names `tf -h` prints ("The inline operators have slightly different names; they are called: ...") where they differ from TABLE
ADVERTISED = {"bech32-decode": "b32d", "bech32-encode": "b32e", "bech32m-encode": "b32me", "base58chk-decode": "b58cd", "base58chk-encode": "b58ce",
              "jacobi-symbol": "jacobi_sym"}
CAN_REJECT = {"addr-to-scriptpubkey", "add", "bech32-decode", "base58chk-decode", "combine-pubkeys", "jacobi-symbol",
              "pubkey-to-xpubkey", "scriptpubkey-to-addr", "sub", "tagged-hash", "taproot-tweak-pubkey", "tweak-pubkey",
              "verify-sig", "verify-sig-compact"}
OPFORM = {"sha256": "OP_SHA256", "ripemd160": "OP_RIPEMD160", "hash160": "OP_HASH160", "hash256": "OP_HASH256"}
HRP = "bcrt"

# stderr lines that are not error reports
BENIGN = ("warning:", "LOG:", "notice:", "(pk_parity", "msg =", "NOTE:", "vchSig.size()", "signature_parse_compact failed")


def filler(kind, n):
    if kind == 0:
        return bytes((i * 37 + 0x5b) & 0xff for i in range(n))
    if kind == 1:
        return b"\xff" * n
    return b"\x00" * n


def hx(b):
    return "0x" + b.hex()


def le32(n):
    return n.to_bytes(32, "little")


# ------------------------------------------------------------------------------------------------ case generation
def gen_cases(tier):
    """-> list of (tf, argclass, args, expect, forms)
    expect: ('data', bytes) | ('int', n) | ('str', s) | ('rawstr', s) | ('bech32dec', pre_line, bytes) | ('reject',)
            | ('limit', why)       tool limit: a rejection is recorded as an observation, an answer must still be right.. (value unknown: not compared)
            | ('convention', why)  argument outside the tool's own calling convention: observation only"""
    thorough = tier == "thorough"
    C = []

    def add(tf, argclass, args, expect, forms=("cmd", "inl")):
        forms = [f for f in forms if not (f == "inl" and TABLE[tf] is None)]
        if "inl" in forms and tf in ADVERTISED:
            forms.append("inl2")       # the same inline call under the name the tool's own help advertises
        C.append((tf, argclass, list(args), expect, tuple(forms)))

    Ls = list(range(0, 301)) + [520] if thorough else list(range(0, 141)) + [252, 253, 254, 255, 256, 520]
    kinds = (0, 1, 2) if thorough else (0, 1)
    byte_args = [(L, k, filler(k, L)) for L in Ls for k in kinds if not (L == 0 and k > 0)]
    big = [(5000, 0, filler(0, 5000))] + ([(65531, 0, filler(0, 65531))] if thorough else [(20000, 0, filler(0, 20000))])

    # ---- one-argument byte-string transforms
    for L, k, b in byte_args + big:
        ac = "bytes"
        a = [hx(b)]
        for h, f in (("sha256", R.sha256), ("ripemd160", R.ripemd160), ("hash160", R.hash160), ("hash256", R.hash256)):
            add(h, ac, a, ("data", f(b)), ("cmd", "inl", "op", "opemb"))
        add("reverse", ac, a, ("data", b[::-1]))
        add("len", ac, a, ("int", len(b)))
        add("prefix-compact-size", ac, a, ("data", R.compact_size(len(b)) + b))
        add("echo", ac, a, ("data", b))
        add("hex", ac, a, ("rawstr", b.hex()))
        if L <= 5000:
            add("base58chk-encode", ac, a, ("str", R.b58check_encode(b)))
            add("bech32-encode", ac, a, ("str", R.bech32_encode(HRP, [1] + R.convertbits(b, 8, 5, True), R.BECH32_CONST)))
            add("bech32m-encode", ac, a, ("str", R.bech32_encode(HRP, [1] + R.convertbits(b, 8, 5, True), R.BECH32M_CONST)))
        # decode o encode (strings produced by the *oracle's* encoder; the tool's encoder is checked against it above)
        if L <= 300:
            s = R.b58check_encode(b)
            if R.classify(s)[0] == "string":
                add("base58chk-decode", "roundtrip" if L <= 200 else "payload-over-200-bytes", [s], ("data", b))   # what the tool's encoder accepts, its decoder gives back
            for nm, const in (("bech32", R.BECH32_CONST), ("bech32m", R.BECH32M_CONST)):
                s = R.bech32_encode(HRP, [1] + R.convertbits(b, 8, 5, True), const)
                d = R.bech32_decode(s)
                if d is None:
                    add("bech32-decode", "over-90-chars", [s], ("reject",))
                else:
                    add("bech32-decode", "roundtrip-" + nm, [s], ("bech32dec", "(%s HRP = %s)" % (nm, HRP), b))
    # ---- base58check payloads that start with zero bytes: each leading zero byte is one leading '1' of the string, so the decoded payload is as
    #      long as the string (size estimates from the string length, 0.733 bytes per character, do not hold)
    for nz in (1, 2, 5, 17, 18, 19, 20, 21, 25, 32, 33, 64, 100):
        for tail in (b"", b"\x01", filler(0, 20)):
            b = b"\x00" * nz + tail
            s58 = R.b58check_encode(b)
            add("base58chk-encode", "leading-zeros", [hx(b)], ("str", s58))
            if R.classify(s58)[0] == "string":
                add("base58chk-decode", "leading-zeros", [s58], ("data", b))
    # ---- an inline call whose argument is a bracketed sub-script, itself inside a bracketed sub-script: [OP_DUP sha256([OP_2 OP_3])] - the
    #      tokenizer has to keep the call together (brackets, blanks and all) at every nesting level
    for body_text, body in (("[OP_2 OP_3]", bytes.fromhex("5253")), ("[OP_1 [OP_2] OP_DROP]", bytes.fromhex("51015275")), ("[0x1234 OP_SIZE]", bytes.fromhex("02123482"))):
        for h, f in (("sha256", R.sha256), ("ripemd160", R.ripemd160), ("hash160", R.hash160), ("hash256", R.hash256), ("reverse", lambda b: b[::-1])):
            add(h, "nested-bracket-argument", [body_text], ("data", f(body)), ("nest",))
    # ---- strings and integers as arguments of the generic transforms
    for s in ("abc", "hello", "Zz", "TapLeaf", "x"):
        sb = s.encode()
        for h, f in (("sha256", R.sha256), ("ripemd160", R.ripemd160), ("hash160", R.hash160), ("hash256", R.hash256)):
            add(h, "string", [s], ("data", f(sb)))
        add("reverse", "string", [s], ("str", s[::-1]))
        add("len", "string", [s], ("int", len(sb)))
        add("echo", "string", [s], ("str", s))
        add("hex", "string", [s], ("rawstr", sb.hex()))
        add("prefix-compact-size", "string", [s], ("data", R.compact_size(len(sb)) + sb))
        add("base58chk-encode", "string", [s], ("str", R.b58check_encode(sb)))
    ints = [0, 1, -1, 2, 16, 17, 127, -127, 128, -128, 255, -255, 256, -256, 32767, -32767, 32768, -32768, 8388607, -8388607, 8388608, -8388608,
            2**31 - 1, -(2**31 - 1), 2**31, -2**31, 2**32, 2**39, 2**47, 2**55, 2**63 - 1, -(2**63 - 1)]
    for n in ints:
        e = R.scriptnum_encode(n)
        add("hex", "int", [str(n)], ("rawstr", e.hex()))
        add("int", "int", [str(n)], ("int", n))
        add("echo", "int", [str(n)], ("int", n))
        add("len", "int", [str(n)], ("int", len(e)))
        add("sha256", "int", [str(n)], ("data", R.sha256(e)))
        # int o hex: the number's own encoding, fed back as data
        if e:
            # data of more than 4 bytes is outside the script-number range (C18: four bytes, five only for lock-time operands):
            # a rejection is a tool limit (observation); a crash is still a crash
            add("int", "data-minimal" if len(e) <= 4 else "data-over-4-bytes", [hx(e)], ("int", n) if len(e) <= 4 else ("limit", "script numbers are limited to 4 bytes"))
    for h in ("", "00", "80", "0100", "0180", "ff7f", "ff80", "ffff", "7f", "ff", "000080", "ffffff7f", "ffffffff", "00000080", "00000000",
              "0000008000", "ffffffff7f", "ffffffffff", "ffffffffffffff7f", "ffffffffffffffff"):
        b = bytes.fromhex(h)
        add("int", "data-nonminimal-or-boundary" if len(b) <= 4 else "data-over-4-bytes", [hx(b)], ("int", R.scriptnum_decode(b)) if len(b) <= 4 else ("limit", "script numbers are limited to 4 bytes"))
    # ---- codec corruption: every single-character substitution
    nstr = 4 if thorough else 2
    payloads = [bytes([0x00]) + R.hash160(b"key%d" % i) for i in range(nstr)]
    payloads[1] = bytes([0x00, 0x00]) + payloads[1][2:]        # leading zero bytes -> leading '1's
    for p in payloads:
        s = R.b58check_encode(p)
        for pos in range(len(s)):
            for c in R.B58:
                if c != s[pos]:
                    t = s[:pos] + c + s[pos + 1:]
                    d = R.b58check_decode(t)
                    if R.classify(t)[0] == "string":
                        add("base58chk-decode", "corrupt-1char", [t], ("data", d) if d is not None else ("reject",))
            for c in "0OIl":   # characters outside the alphabet
                t = s[:pos] + c + s[pos + 1:]
                add("base58chk-decode", "corrupt-non-alphabet", [t], ("reject",))
    progs = [R.sha256(b"prog%d" % i)[:(20, 32, 32, 2)[i]] for i in range(nstr)]
    for nm, const in (("bech32", R.BECH32_CONST), ("bech32m", R.BECH32M_CONST)):
        for p in progs:
            s = R.bech32_encode(HRP, [1] + R.convertbits(p, 8, 5, True), const)
            add("bech32-decode", "upper-case-" + nm, [s.upper()], ("bech32dec", "(%s HRP = %s)" % (nm, HRP), p))
            for pos in range(len(s)):
                for c in R.B32:
                    if c != s[pos]:
                        t = s[:pos] + c + s[pos + 1:]
                        d = R.bech32_decode(t)
                        if d is None:
                            add("bech32-decode", "corrupt-1char-" + nm, [t], ("reject",))
                        else:   # still a valid string by the oracle's decoder (other hrp / other encoding): compare what it decodes to
                            bb = R.convertbits(d[2][1:], 5, 8, False) if d[2] else None
                            if bb is not None:
                                add("bech32-decode", "corrupt-1char-still-valid", [t],
                                    ("bech32dec", "(%s HRP = %s)" % ("bech32" if d[0] == R.BECH32_CONST else "bech32m", d[1]), bytes(bb)))
                if s[pos].isalpha():
                    t = s[:pos] + s[pos].upper() + s[pos + 1:]
                    add("bech32-decode", "mixed-case-" + nm, [t], ("reject",))
    # BIP173 / BIP350 vectors (valid strings that are not images of the tool's encoder)
    for s, nm in (("abcdef1qpzry9x8gf2tvdw0s3jn54khce6mua7lmqqqxw", "bech32"), ("abcdef1l7aum6echk45nj3s0wdvt2fg8x9yrzpqzd3ryx", "bech32m")):
        d = R.bech32_decode(s)
        bb = R.convertbits(d[2][1:], 5, 8, False)
        if bb is not None:
            add("bech32-decode", "bip-vector", [s], ("bech32dec", "(%s HRP = %s)" % (nm, d[1]), bytes(bb)))
    for s in ("a12uel5l", "A12UEL5L", "a1lqfn3a"):
        # valid bech32(m) strings with an EMPTY data part: there is no version symbol to strip; any non-crashing answer is accepted
        add("bech32-decode", "valid-string-empty-data", [s], ("convention", "valid checksum, empty data part"))
    for s in ("pzry9x0s0muk", "1pzry9x0s0muk", "x1b4n0q5v", "li1dgmt3", "A1G7SGD8", "10a06t8", "1qzzfhee", "a12UEL5L"):
        add("bech32-decode", "bip-invalid-vector", [s], ("reject",))
    # ---- address <-> scriptPubKey, 8 P2PKH pairs
    for i in range(8):
        h = R.hash160(R.pt_ser(R.pt_mul(i + 1, R.G)))
        addr = R.b58check_encode(b"\x00" + h)
        spk = b"\x76\xa9\x14" + h + b"\x88\xac"
        add("addr-to-scriptpubkey", "p2pkh", [addr], ("data", spk))
        add("scriptpubkey-to-addr", "p2pkh", [hx(spk)], ("str", addr))
        if i == 0:
            for pos in range(len(addr)):
                c = R.B58[(R.B58.index(addr[pos]) + 1) % 58]
                t = addr[:pos] + c + addr[pos + 1:]
                if R.b58check_decode(t) is None and R.classify(t)[0] == "string":
                    add("addr-to-scriptpubkey", "bad-checksum", [t], ("reject",))
            for bad, ac in ((spk[:-1], "wrong-length"), (spk + b"\x00", "wrong-length"), (b"\xa9\x14" + h + b"\x87\x00\x00", "not-p2pkh-template"),
                            (b"\x76\xa9\x13" + h + b"\x88\xac", "not-p2pkh-template"), (spk[:-1] + b"\xad", "not-p2pkh-template")):
                add("scriptpubkey-to-addr", ac, [hx(bad)], ("reject",))
    # ---- other address kinds: the version byte decides the script template (P2PKH 00 / 6f, P2SH 05 / c4); anything else, or a payload
    #      that is not 20 bytes, has no scriptPubKey
    h20 = R.hash160(b"C14 other address kinds")
    for ver, kind in ((0x6f, "p2pkh"), (0x05, "p2sh"), (0xc4, "p2sh"), (0x80, None), (0x1e, None), (0xff, None)):
        addr = R.b58check_encode(bytes([ver]) + h20)
        if kind == "p2pkh":
            add("addr-to-scriptpubkey", "p2pkh-testnet", [addr], ("data", b"\x76\xa9\x14" + h20 + b"\x88\xac"))
        elif kind == "p2sh":
            add("addr-to-scriptpubkey", "p2sh", [addr], ("data", b"\xa9\x14" + h20 + b"\x87"))
        else:
            add("addr-to-scriptpubkey", "unknown-version", [addr], ("reject",))
    for payload, ac in ((h20[:19], "payload-19-bytes"), (h20 + b"\x00", "payload-21-bytes"), (b"", "payload-empty")):
        add("addr-to-scriptpubkey", ac, [R.b58check_encode(b"\x00" + payload)], ("reject",))
    # ---- add / sub (little-endian 256-bit values; optional modulus as third argument)
    vals = [1, (1 << 128) - 1, 1 << 128, int.from_bytes(filler(0, 20), "little"), (1 << 192) - 1, int.from_bytes(filler(0, 31), "little"),
            R.P - 1, R.N - 1, 1 << 255, (1 << 256) - 1, (R.P - 1) // 2, int.from_bytes(R.sha256(b"v12"), "little") % R.N]
    vlen = [17, 17, 17, 20, 24, 31, 32, 32, 32, 32, 32, 32]

    def enc(v, ln):
        return hx(v.to_bytes(32, "little")[:ln])
    M = 1 << 256
    for i, a in enumerate(vals):
        for j, b in enumerate(vals):
            A, B = enc(a, vlen[i]), enc(b, vlen[j])
            add("add", "no-modulus", [A, B], ("data", le32((a + b) % M)))
            add("sub", "no-modulus", [A, B], ("data", le32((a - b) % M)))
            for g, gn in ((R.P, "p"), (R.N, "n")):
                if a < g and b < g:
                    add("add", "modulus", [A, B, hx(le32(g))], ("data", le32((a + b) % g)))
                    add("sub", "modulus:a>=b" if a >= b else "modulus:a<b", [A, B, hx(le32(g))], ("data", le32((a - b) % g)))
    # operands at or above the modulus, small moduli: the mathematical definition is (a +- b) mod g for any a, b
    small = [0, 1, 5, 16, 17, 18, 40, 255, 256, 1000, (1 << 128) + 3, (1 << 256) - 1]
    for a in small:
        for b in small:
            for g in (7, 17, 18, 256, (1 << 128) + 1):
                if a < g and b < g:
                    continue
                add("add", "modulus-unreduced-operand", [hx(le32(a)), hx(le32(b)), hx(le32(g))], ("data", le32((a + b) % g)))
                add("sub", "modulus-unreduced-operand", [hx(le32(a)), hx(le32(b)), hx(le32(g))], ("data", le32((a - b) % g)))
    # small integers written as decimal numbers (they compile to OP_0 .. OP_16, not to pushes)
    for a in (0, 1, 2, 16, 17, 100):
        for b in (0, 1, 5, 16, 17):
            add("add", "small-decimal-operands", [str(a), str(b)], ("data", le32((a + b) % M)))
            add("sub", "small-decimal-operands", [str(a), str(b)], ("data", le32((a - b) % M)))
            add("add", "small-decimal-operands-modulus", [str(a), str(b), "7"], ("data", le32((a + b) % 7)))
    add("add", "one-argument", [enc(5, 17)], ("reject",))
    add("sub", "one-argument", [enc(5, 17)], ("reject",))
    add("add", "four-arguments", [enc(5, 17)] * 4, ("reject",))
    add("sub", "four-arguments", [enc(5, 17)] * 4, ("reject",))
    for t in ("add", "sub"):   # arguments that do not serialise as non-empty pushes: outside the tool's calling convention
        add(t, "small-integers", ["1", "2"], ("convention", "1 and 2 serialise as OP_1 OP_2, which the argument extractor refuses"))
        add(t, "small-integers", ["0x01", "0x02"], ("convention", "0x01 serialises as OP_1"))
    # ---- Jacobi symbol
    ns = [0, 1, 2, 3, 4, R.P - 1, R.P - 2, R.P, R.P + 1, (R.P - 1) // 2] + [int.from_bytes(R.sha256(b"j%d" % i), "big") % R.P for i in range(54)]
    for n in ns:
        b = le32(n)
        ok, ops = R.decode_script(b)
        if ok and all(d for _, d in ops):
            add("jacobi-symbol", "n-bytes-parse-as-pushes", [hx(b)], ("convention", "the 32 bytes of n parse as a script of pushes and are taken for an argument list"))
        else:
            add("jacobi-symbol", "mod-field-prime", [hx(b)], ("int", R.legendre(n, R.P)))
        add("jacobi-symbol", "mod-field-prime-explicit", [hx(b), hx(le32(R.P))], ("int", R.legendre(n, R.P)))
    add("jacobi-symbol", "n-bytes-parse-as-pushes", [hx(bytes([31]) + filler(0, 31))], ("convention", "the 32 bytes of n parse as one push"))
    for k in (1, 3, 5, 7, 9, 11, 13, 15, 21, 25, 27, 35, 45, 63, 105, 255, 257, 1155, 65537, 15015):
        for n in list(range(0, min(2 * k + 1, 48))) + [k * k + 2, (1 << 255) + 12345, R.P]:
            add("jacobi-symbol", "mod-small-odd-k", [hx(le32(n)), hx(le32(k))], ("int", R.jacobi_by_definition(n, k)))
    # moduli on both sides of the machine-word boundaries 2^31, 2^32, 2^63, 2^64, 2^127, 2^128 (the nearest primes below and above, and three
    # times the prime below): native-integer fast paths and signed intermediates go wrong exactly there
    for e in (31, 32, 63, 64, 127, 128):
        lo = (1 << e) - 1
        while not R._is_prime(lo):
            lo -= 2
        hi = (1 << e) + 1
        while not R._is_prime(hi):
            hi += 2
        for k in (lo, hi, 3 * lo):
            for n in list(range(0, 12)) + [k - 1, k - 2, (k - 1) // 2, k + 2, (1 << (e - 1)) + 3, (1 << e) - 3, (1 << 255) + 12345]:
                add("jacobi-symbol", "mod-word-boundary-k", [hx(le32(n)), hx(le32(k))], ("int", R.jacobi_by_definition(n, k)))
    add("jacobi-symbol", "n-not-32-bytes", [hx(filler(0, 31))], ("reject",))
    add("jacobi-symbol", "n-not-32-bytes", [hx(filler(0, 33))], ("reject",))
    add("jacobi-symbol", "k-not-32-bytes", [hx(le32(5)), hx(filler(0, 31))], ("reject",))
    # ---- tagged hash
    tags = ["TapLeaf", "TapBranch", "TapTweak", "BIP0340/challenge", "x"] if thorough else ["TapLeaf", "BIP0340/challenge"]
    for tag in tags:
        for L, k, b in byte_args:
            if L >= 2 and k in ((0, 1) if thorough else (0,)):
                add("tagged-hash", "tag+msg", [tag, hx(b)], ("data", R.tagged_hash(tag.encode(), b)))
        # the empty message and every one-byte message (0x01..0x10 and 0x81 serialise as OP_1..OP_16 / OP_1NEGATE, the empty one as OP_0)
        for b in [b""] + [bytes([x]) for x in range(256)]:
            add("tagged-hash", "tag+tiny-msg", [tag, hx(b)], ("data", R.tagged_hash(tag.encode(), b)))
        m1, m2 = R.sha256(b"left"), R.sha256(b"right")
        add("tagged-hash", "tag+msg+msg", [tag, hx(m1), hx(m2)], ("data", R.tagged_hash(tag.encode(), m1 + m2)))
        add("tagged-hash", "tag-only", [tag], ("reject",))
        # long messages given in several parts (the concatenation is echoed on stderr): totals around and far beyond 4096 bytes
        if tag == tags[0]:
            for nparts, plen in ((2, 2047), (2, 2048), (2, 2049), (16, 300), (10, 700), (3, 7000), (64, 520)):
                parts = [filler(0, plen)[::-1] if i % 2 else filler(0, plen) for i in range(nparts)]
                add("tagged-hash", "tag+long-multipart-msg", [tag] + [hx(x) for x in parts], ("data", R.tagged_hash(tag.encode(), b"".join(parts))))
    # ---- secp256k1 transforms
    ds = [1, 2, 3, 0x1111111111111111111111111111111111111111111111111111111111111111, R.N - 1, int.from_bytes(R.sha256(b"d5"), "big") % R.N,
          int.from_bytes(R.sha256(b"d6"), "big") % R.N, (R.N - 1) // 2]
    pts = [R.pt_mul(d, R.G) for d in ds]
    notx = next(x for x in range(R.G[0] + 1, R.G[0] + 50) if R.lift_x(x) is None)
    badpk = b"\x02" + notx.to_bytes(32, "big")
    for i, Pt in enumerate(pts):
        pk = R.pt_ser(Pt)
        add("pubkey-to-xpubkey", "valid", [hx(pk)], ("data", Pt[0].to_bytes(32, "big")))
        for j, Qt in enumerate(pts):
            S = R.pt_add(Pt, Qt)
            add("combine-pubkeys", "valid" if S else "sum-is-infinity", [hx(pk), hx(R.pt_ser(Qt))], ("data", R.pt_ser(S)) if S else ("reject",))
            # the uncompressed (65-byte) spelling of either or both keys denotes the same points
            if S and i < 3 and j < 3:
                unc = lambda P: b"\x04" + P[0].to_bytes(32, "big") + P[1].to_bytes(32, "big")
                add("combine-pubkeys", "valid-first-uncompressed", [hx(unc(Pt)), hx(R.pt_ser(Qt))], ("data", R.pt_ser(S)))
                add("combine-pubkeys", "valid-second-uncompressed", [hx(pk), hx(unc(Qt))], ("data", R.pt_ser(S)))
                add("combine-pubkeys", "valid-both-uncompressed", [hx(unc(Pt)), hx(unc(Qt))], ("data", R.pt_ser(S)))
        for t in (1, 2, ds[5], R.N - 1):
            tb = t.to_bytes(32, "big")
            add("tweak-pubkey", "valid", [hx(tb), hx(pk)], ("data", R.pt_ser(R.pt_mul(t, Pt))))
            X = R.lift_x(Pt[0])
            T = R.pt_add(X, R.pt_mul(t, R.G))
            add("taproot-tweak-pubkey", "valid" if T else "result-is-infinity", [hx(Pt[0].to_bytes(32, "big")), hx(tb)], ("data", R.pt_ser(T)) if T else ("reject",))
        add("tweak-pubkey", "tweak-zero", [hx(bytes(32)), hx(pk)], ("reject",))
        add("tweak-pubkey", "tweak-ge-order", [hx(R.N.to_bytes(32, "big")), hx(pk)], ("reject",))
        add("taproot-tweak-pubkey", "tweak-ge-order", [hx(Pt[0].to_bytes(32, "big")), hx(R.N.to_bytes(32, "big"))], ("reject",))
    add("pubkey-to-xpubkey", "not-on-curve", [hx(badpk)], ("reject",))
    add("pubkey-to-xpubkey", "wrong-length", [hx(badpk[:-1])], ("reject",))
    add("combine-pubkeys", "not-on-curve", [hx(R.pt_ser(pts[0])), hx(badpk)], ("reject",))
    add("combine-pubkeys", "one-argument", [hx(R.pt_ser(pts[0]))], ("reject",))
    add("tweak-pubkey", "not-on-curve", [hx((5).to_bytes(32, "big")), hx(badpk)], ("reject",))
    add("tweak-pubkey", "tweak-not-32-bytes", [hx(filler(0, 31)), hx(R.pt_ser(pts[0]))], ("reject",))
    add("taproot-tweak-pubkey", "x-not-on-curve", [hx(notx.to_bytes(32, "big")), hx((5).to_bytes(32, "big"))], ("reject",))
    add("taproot-tweak-pubkey", "x-not-32-bytes", [hx(filler(0, 31)), hx((5).to_bytes(32, "big"))], ("reject",))
    # ---- signature verification
    for i in (3, 5, 6):
        d, Pt = ds[i], pts[i]
        pk, xo = R.pt_ser(Pt), Pt[0].to_bytes(32, "big")
        for mi in range(3 if thorough else 2):
            msg = R.sha256(b"msg%d" % mi)
            other = R.sha256(b"other%d" % mi)
            r, s = R.ecdsa_sign(d, msg, int.from_bytes(R.sha256(b"k%d%d" % (i, mi)), "big") % R.N)
            der, comp = R.der_sig(r, s), r.to_bytes(32, "big") + s.to_bytes(32, "big")
            hs = R.N - s
            add("verify-sig", "ecdsa-valid", [hx(msg), hx(pk), hx(der)], ("int", 1))
            add("verify-sig", "ecdsa-valid-high-s", [hx(msg), hx(pk), hx(R.der_sig(r, hs))], ("int", 1))
            add("verify-sig", "ecdsa-wrong-message", [hx(other), hx(pk), hx(der)], ("int", 0))
            add("verify-sig", "ecdsa-wrong-s", [hx(msg), hx(pk), hx(R.der_sig(r, (s + 1) % R.N or 1))], ("int", 0))
            add("verify-sig", "ecdsa-wrong-key", [hx(msg), hx(R.pt_ser(pts[1])), hx(der)], ("int", 0))
            add("verify-sig-compact", "ecdsa-valid", [hx(msg), hx(pk), hx(comp)], ("int", 1))
            add("verify-sig-compact", "ecdsa-wrong-message", [hx(other), hx(pk), hx(comp)], ("int", 0))
            add("verify-sig-compact", "ecdsa-wrong-s", [hx(msg), hx(pk), hx(r.to_bytes(32, "big") + ((s + 1) % R.N or 1).to_bytes(32, "big"))], ("int", 0))
            sch = R.schnorr_sign(d, msg)
            add("verify-sig", "schnorr-valid", [hx(msg), hx(xo), hx(sch)], ("int", 1))
            add("verify-sig", "schnorr-wrong-message", [hx(other), hx(xo), hx(sch)], ("int", 0))
            add("verify-sig", "schnorr-wrong-sig", [hx(msg), hx(xo), hx(sch[:63] + bytes([sch[63] ^ 1]))], ("int", 0))
    add("verify-sig", "two-arguments", [hx(R.sha256(b"m")), hx(R.pt_ser(pts[0]))], ("reject",))
    add("verify-sig", "sighash-not-32-bytes", [hx(filler(0, 31)), hx(R.pt_ser(pts[0])), hx(filler(0, 70))], ("reject",))
    add("verify-sig-compact", "two-arguments", [hx(R.sha256(b"m")), hx(R.pt_ser(pts[0]))], ("reject",))
    return C


# ------------------------------------------------------------------------------------------------ execution
def _sig(rc):
    try:
        return signal.Signals(-rc).name
    except ValueError:
        return "SIG%d" % -rc


def _errlines(err):
    out = []
    for l in err.split("\n"):
        l = l.strip()
        if not l or l.startswith(BENIGN) or l.endswith("usage information"):
            continue
        out.append(l)
    return out


def _run(argv, inp=None, timeout=120):
    try:
        p = subprocess.run(argv, input=inp, stdout=subprocess.PIPE, stderr=subprocess.PIPE, timeout=timeout, cwd=WDIR, close_fds=False)
    except subprocess.TimeoutExpired:
        return None, "", ""
    return p.returncode, p.stdout.decode("latin1"), p.stderr.decode("latin1")


def cut_reply(out):
    a = "btcdeb> %s\nbtcdeb> " % SENT_REPLY
    b = "btcdeb> %s\n" % SENT_REPLY
    i = out.find(a)
    j = out.rfind(b)
    if i < 0 or j < i + len(a):
        return None
    return out[i + len(a):j]


def run_cmd(tf, args):
    line = "tf %s %s" % (tf, " ".join(args))
    rc, out, err = _run([os.path.join(BDIR, "btcdeb_tty"), "[OP_1]"], ("%s\n%s\n%s\n" % (SENT_CMD, line, SENT_CMD)).encode())
    try:
        os.unlink(os.path.join(WDIR, ".btcdeb_history"))
    except OSError:
        pass
    if rc is None:
        return ("timeout", None, [], [], "")
    if rc < 0:
        return ("crash", _sig(rc), [], _errlines(err), "")
    rep = cut_reply(out)
    if rep is None:
        return ("unparsable", out[-300:], [], _errlines(err), "")
    lines = rep[:-1].split("\n") if rep.endswith("\n") else ([] if rep == "" else rep.split("\n"))
    return ("ran", None, lines, _errlines(err), rep)


def run_inl(tf, args, advertised=False):
    a = args[0] if len(args) == 1 else "[" + " ".join(args) + "]"
    rc, out, err = _run([os.path.join(BDIR, "btcc"), "%s(%s)" % (ADVERTISED[tf] if advertised else TABLE[tf], a)])
    if rc is None:
        return ("timeout", None, [], [], "")
    if rc < 0:
        return ("crash", _sig(rc), [], _errlines(err), "")
    lines = out[:-1].split("\n") if out.endswith("\n") else out.split("\n")
    return ("ran", None, lines, _errlines(err), out)


def run_op(tf, args, embedded):
    if embedded:
        rc, out, err = _run([os.path.join(BDIR, "btcdeb")], ("[%s %s]\n" % (args[0], OPFORM[tf])).encode())
    else:
        rc, out, err = _run([os.path.join(BDIR, "btcdeb"), args[0]], ("[%s]\n" % OPFORM[tf]).encode())
    if rc is None:
        return ("timeout", None, [], [], "")
    if rc < 0:
        return ("crash", _sig(rc), [], _errlines(err), "")
    lines = out[:-1].split("\n") if out.endswith("\n") else out.split("\n")
    return ("ran", None, lines, _errlines(err), out)


def form_applicable(tf, args, form):
    if form == "cmd":
        return len("tf %s %s" % (tf, " ".join(args))) < REPL_LINE_MAX
    if form == "nest":
        return True
    if form in ("inl", "inl2"):
        return TABLE[tf] is not None and sum(len(a) + 1 for a in args) + 40 < ARGV_MAX
    if form == "op":
        return tf in OPFORM and len(args) == 1 and args[0].startswith("0x") and len(args[0]) < ARGV_MAX
    if form == "opemb":
        return tf in OPFORM and len(args) == 1 and args[0].startswith("0x") and 5 <= (len(args[0]) - 2) // 2 and len(args[0]) + 20 < BATCH_LINE_MAX
    return False


def sh(args):
    s = " ".join(a if len(a) <= 90 else a[:40] + "...(%d chars)" % len(a) for a in args)
    return s


def evaluate(unit):
    """-> (tf, form, argclass, outcome, key, what, replay, sample, cmdline_reply)"""
    tf, ac, args, expect, form = unit
    rp = {"tf": tf, "args": args, "form": form, "argclass": ac, "expect": [expect[0]] + [x.hex() if isinstance(x, bytes) else x for x in expect[1:]]}
    if form == "cmd":
        st, sg, lines, errs, raw = run_cmd(tf, args)
        binary, shown = "btcdeb_tty", "tf %s %s" % (tf, sh(args))
    elif form == "nest":
        expr = "[OP_DUP %s(%s) OP_DROP]" % (TABLE[tf], args[0])
        rc, out, err = _run([os.path.join(BDIR, "btcc"), expr])
        binary, shown = "btcc", "btcc '%s'" % expr
        want = R.push_minimal(b"\x76" + R.push_minimal(expect[1]) + b"\x75").hex()
        got = out.strip().split("\n")[-1] if out and out.strip() else ""
        base = (tf, form, ac + "|" + expect[0])
        if rc != 0 or got != want:
            return base + ("wrong", "wrong-result:%s:nest:%s" % (tf, ac), "%s gives %s (exit %s), expected %s" % (shown, got[:120], rc, want[:120]), rp, None, None)
        return base + ("ok", None, None, None, "%s -> %s" % (shown, got[:70]), None)
    elif form in ("inl", "inl2"):
        st, sg, lines, errs, raw = run_inl(tf, args, form == "inl2")
        binary, shown = "btcc", "btcc '%s(%s)'" % (ADVERTISED[tf] if form == "inl2" else TABLE[tf], sh(args) if len(args) == 1 else "[" + sh(args) + "]")
        if form == "inl2":
            form = "inl"       # judged exactly as the inline form
    else:
        st, sg, lines, errs, raw = run_op(tf, args, form == "opemb")
        binary, shown = "btcdeb", ("echo '[%s %s]' | btcdeb" % (sh(args), OPFORM[tf])) if form == "opemb" else ("echo '[%s]' | btcdeb %s" % (OPFORM[tf], sh(args)))
    base = (tf, form, ac + "|" + expect[0])
    keep = (("tf %s %s" % (tf, " ".join(args))), raw) if form == "cmd" and st == "ran" and len(raw) < 400 and len(args) and sum(map(len, args)) < 400 else None
    if st == "timeout":
        return base + ("timeout", "timeout:%s:%s" % (binary, tf), shown + " timed out", rp, None, None)
    if st == "crash":
        what = (errs[-1] if errs else "-")
        tag = "scriptnum_error" if "script number overflow" in " ".join(errs) else "assert-secp256k1_context_verify" if "secp256k1_context_verify" in " ".join(errs) else ac
        if expect[0] == "convention":
            return base + ("crash-outside-convention", "crash:%s:%s:%s:%s" % (binary, sg, tf, ac), "%s died with %s (%s); input: %s" % (shown, sg, what[:200], expect[1]), rp, None, None)
        return base + ("crash", "crash:%s:%s:%s:%s" % (binary, sg, tf, tag), "%s died with %s (%s)" % (shown, sg, what[:200]), rp, None, None)
    if st == "unparsable":
        return base + ("unparsable", "unparsable-repl-output:%s" % tf, "%s: cannot find the sentinels in %r" % (shown, sg), rp, None, None)
    # the HRP note of bech32-decode is an annotation, whichever stream it is written to (stdout before repair 453d635, the log channel since)
    notes = [e for e in errs if re.match(r"^\(bech32m? HRP = .*\)$", e.strip())]
    errs = [e for e in errs if e not in notes]
    rejected = bool(errs)
    val = lines[-1] if lines else None
    pre = lines[:-1] + [n.strip() for n in notes]
    kind = expect[0]
    if kind == "convention":
        return base + ("convention-rejected" if rejected else "convention-answered", None, None, None, "%s -> %s%s" % (shown, val, " [stderr: %s]" % errs[0][:80] if errs else ""), keep)
    if kind == "limit":
        if rejected:
            return base + ("limit-rejected", None, None, None, "%s -> rejected (%s)" % (shown, expect[1]), keep)
        return base + ("limit-answered", None, None, None, "%s -> %s" % (shown, (val or "")[:60]), keep)
    if kind == "reject":
        if rejected:
            # a refusal yields no value: what the command form prints after the diagnostic is empty (bytes left over from an earlier parsing
            # attempt, or a half-finished result, are not an answer)
            # (bech32-decode leaves its argument as it is and prints it back: that is the argument, not a result)
            if form == "cmd" and tf in ("base58chk-decode", "bech32-decode", "addr-to-scriptpubkey") and val not in (None, "", '""') and val.strip('"') != (args[0] if args else ""):
                return base + ("rejected-with-value", "refusal-prints-a-value:%s:%s" % (tf, ac), "%s was refused (%s) but still printed the value %r" % (shown, errs[0][:80], (val or "")[:100]), rp, None, keep)
            return base + ("rejected", None, None, None, "%s -> rejected: %s" % (shown, errs[0][:80]), keep)
        return base + ("accepted-invalid", "accepted-invalid:%s:%s:%s" % (tf, form, ac), "%s was accepted and printed %r; the oracle rejects this input" % (shown, (val or "")[:100]), rp, None, keep)
    # a value is expected
    if kind == "bech32dec":
        want_pre, want = [expect[1]], ("data", expect[2])
    else:
        want_pre, want = [], expect
    if form == "cmd":
        exp_line = want[1].hex() if want[0] == "data" else str(want[1]) if want[0] in ("int", "rawstr") else '"%s"' % want[1]
        got_line = val
    elif form == "inl":
        eb = R.push_minimal(want[1]) if want[0] == "data" else R.push_number(want[1]) if want[0] == "int" else R.push_minimal(want[1].encode())
        exp_line, got_line = eb.hex(), val
    else:
        exp_line, got_line = want[1].hex(), val
        pre = []   # other stack items cannot exist here
    if rejected:
        k = "rejected-valid:%s:%s:%s" % (tf, form, ac)
        return base + ("rejected-valid", k, "%s was rejected (%s); the oracle's answer is %s" % (shown, errs[0][:120], exp_line[:100]), rp, None, keep)
    if got_line == exp_line and pre == want_pre:
        return base + ("ok", None, None, None, "%s -> %s" % (shown, (got_line if len(got_line) < 80 else got_line[:70] + "...")), keep)
    if form == "inl" and want[0] == "data" and R.nonminimal_class(want[1]):
        k = "inline-result-reread-as-number:len=%d:class=%s" % (len(want[1]), R.nonminimal_class(want[1]))
    elif pre != want_pre and got_line == exp_line:
        k = "wrong-annotation:%s:%s:%s" % (tf, form, ac)
    else:
        k = "wrong-result:%s:%s:%s" % (tf, form, ac)
    return base + ("wrong", k, "%s -> %r %r ; the oracle's answer is %r %r" % (shown, pre, (got_line or "")[:140], want_pre, exp_line[:140]), rp, None, keep)


def session_check(chunk):
    """differential: the replies a long REPL session gives equal the replies of fresh one-command sessions"""
    lines = [SENT_CMD]
    for c, _ in chunk:
        lines += [c, SENT_CMD]
    rc, out, err = _run([os.path.join(BDIR, "btcdeb_tty"), "[OP_1]"], ("\n".join(lines) + "\n").encode())
    try:
        os.unlink(os.path.join(WDIR, ".btcdeb_history"))
    except OSError:
        pass
    if rc is None or rc < 0:
        return [("session-died", "crash:btcdeb_tty:%s:long-session" % (_sig(rc) if rc else "timeout"), "a session of %d tf commands died" % len(chunk), {"session": [c for c, _ in chunk]})], 0
    sep = "btcdeb> %s\n" % SENT_REPLY
    parts = out.split(sep)
    bad, n = [], 0
    if len(parts) != len(chunk) + 2:
        return [("session-unparsable", "unparsable-repl-output:long-session", "expected %d sentinel replies, found %d" % (len(chunk) + 1, len(parts) - 1), {"session": [c for c, _ in chunk]})], 0
    for (c, fresh), got in zip(chunk, parts[1:-1]):
        got = got[len("btcdeb> "):] if got.startswith("btcdeb> ") else got
        if got.endswith("btcdeb> "):
            got = got[:-len("btcdeb> ")]
        f = fresh[:-len("btcdeb> ")] if fresh.endswith("btcdeb> ") else fresh
        n += 1
        if got != f:
            bad.append(("session-differs", "session-state-leak:%s" % c.split()[1], "in a long session %r answered %r, in a fresh session %r" % (c[:120], got[:120], f[:120]), {"session": [x for x, _ in chunk], "at": c}))
    return bad, n


def _init(bdir, wroot):
    global BDIR, WDIR
    BDIR = bdir
    WDIR = os.path.join(wroot, "w%d" % os.getpid())
    os.makedirs(WDIR, exist_ok=True)


# ------------------------------------------------------------------------------------------------ driver entry points
def tool_table(bdir, wroot):
    _init(bdir, wroot)
    rc, out, err = _run([os.path.join(BDIR, "btcdeb_tty"), "[OP_1]"], b"tf\n")
    for l in out.split("\n"):
        if "available functions are" in l:
            return l.split(":", 1)[1].split()
    return None


def run(ctx):
    t0 = time.time()
    empty = {"states": 0, "transitions": 0, "traces_validated_against_impl": 0, "samples": ["-"]}
    refcli = os.path.join(ctx.bdir, "mc_refcli")
    st = R.selftest(refcli if os.path.exists(refcli) else None)
    if st:
        return dict(level="model_checking", coverage=empty, violations=[], assumptions=[], summary="reference self-test failed",
                    infra_error="pyref_codec selftest: " + "; ".join(st[:5]))
    wroot = tempfile.mkdtemp(prefix="c14.", dir=ctx.bdir)
    try:
        return _run_checked(ctx, wroot, t0, empty)
    finally:
        shutil.rmtree(wroot, ignore_errors=True)


def _run_checked(ctx, wroot, t0, empty):
    names = tool_table(ctx.bdir, wroot)
    if names is None:
        return dict(level="model_checking", coverage=empty, violations=[], assumptions=[], summary="cannot list the tf table", infra_error="`tf` did not list its functions")
    unknown = sorted(set(names) - set(TABLE))
    missing = sorted(set(TABLE) - set(names))
    cases = gen_cases(ctx.tier)
    units, skipped_forms = [], {}
    for tf, ac, args, expect, forms in cases:
        if tf in missing:
            continue
        for f in forms:
            if form_applicable(tf, args, f):
                units.append((tf, ac, args, expect, f))
            else:
                skipped_forms[f] = skipped_forms.get(f, 0) + 1
    random.Random(ctx.seed).shuffle(units)
    states = len(set((tf, tuple(args)) for tf, _, args, _, _ in units))
    per_tf, per_form, outcomes, viol, samples, observations = {}, {}, {}, {}, {}, {}
    validated = transitions = 0
    fresh = {}
    fresh_meta = {}
    with Pool(os.cpu_count(), initializer=_init, initargs=(ctx.bdir, wroot)) as pool:
        for tf, form, ac, outcome, key, what, rp, sample, keep in pool.imap_unordered(evaluate, units, chunksize=32):
            transitions += 1
            ac, ekind = ac.rsplit("|", 1)
            d = per_tf.setdefault(tf, {"evaluated_ok": 0, "rejected_as_expected": 0, "invalid_inputs_tried": 0, "violations": 0, "other": 0, "forms": {}})
            d["invalid_inputs_tried"] += ekind == "reject"
            d["forms"][form] = d["forms"].get(form, 0) + 1
            per_form[form] = per_form.get(form, 0) + 1
            outcomes[outcome] = outcomes.get(outcome, 0) + 1
            if outcome == "ok":
                d["evaluated_ok"] += 1; validated += 1
            elif outcome == "rejected":
                d["rejected_as_expected"] += 1; validated += 1
            elif key:
                d["violations"] += 1; validated += 1
            else:
                d["other"] += 1
                o = observations.setdefault("%s:%s:%s" % (tf, ac, outcome), {"count": 0, "example": sample})
                o["count"] += 1
            if key:
                v = viol.setdefault(key, {"key": key, "what": what, "count": 0, "replay": rp})
                v["count"] += 1
                if len(json.dumps(rp)) < len(json.dumps(v["replay"])):
                    v["what"], v["replay"] = what, rp
            elif sample and outcome in ("ok", "rejected") and len(samples.setdefault((tf, form, outcome), [])) < 1:
                samples[(tf, form, outcome)].append(sample)
            if keep and outcome in ("ok", "rejected", "wrong", "accepted-invalid", "rejected-valid"):
                fresh[keep[0]] = keep[1]
                fresh_meta[keep[0]] = (tf, ac, outcome)
        # ---- long-session differential (state leaking between tf commands)
        items = sorted(fresh.items())
        random.Random(ctx.seed + 1).shuffle(items)
        chunks = [items[i:i + 400] for i in range(0, len(items), 400)]
        session_cmds = 0
        for bad, n in pool.imap_unordered(session_check, chunks):
            session_cmds += n
            transitions += n
            validated += n
            for outcome, key, what, rp in bad:
                outcomes[outcome] = outcomes.get(outcome, 0) + 1
                v = viol.setdefault(key, {"key": key, "what": what, "count": 0, "replay": rp})
                v["count"] += 1
        # ---- every ordered pair of representative commands in one process (the shuffle above decides which command precedes which;
        #      here the order is exhaustive): the second command's reply must be the one it gives in a fresh process
        by_class = {}
        for c, rpl in sorted(fresh.items(), key=lambda kv: (len(kv[0]), kv[0])):
            tfn, ac, oc = fresh_meta.get(c, (None, None, None))
            if tfn is None or oc != "ok":
                continue
            L = by_class.setdefault((tfn, ac), [])      # the shortest accepted command(s) of every (transform, argument class)
            if len(L) < (1 if ctx.tier == "quick" else 2):
                L.append((c, rpl))
        reps = [x for k in sorted(by_class) for x in by_class[k]]
        pair_sessions = 0
        pairs = [[a, b] for a in reps for b in reps]
        for bad, n in pool.imap_unordered(session_check, pairs, chunksize=64):
            pair_sessions += 1
            transitions += n
            validated += n
            for outcome, key, what, rp in bad:
                outcomes[outcome] = outcomes.get(outcome, 0) + 1
                key = key.replace("session-state-leak:", "session-state-leak:after-one-command:")
                v = viol.setdefault(key, {"key": key, "what": what, "count": 0, "replay": rp})
                v["count"] += 1
    # ---- vacuity guards
    vac = []
    if unknown:
        vac.append("tf table has transforms this driver does not cover: %s" % unknown)
    for tf in TABLE:
        if tf in missing:
            continue
        d = per_tf.get(tf)
        if not d or (d["evaluated_ok"] == 0 and d["violations"] == 0):
            vac.append("%s never evaluated successfully" % tf)
        if tf in CAN_REJECT and (not d or d["invalid_inputs_tried"] == 0):
            vac.append("%s never given an input it must reject" % tf)
    flat = [s for k in sorted(samples) for s in samples[k]]
    cov = {
        "states": states, "transitions": transitions, "traces_validated_against_impl": validated, "samples": flat[:40], "exhaustive": True,
        "bounds": {
            "tier": ctx.tier,
            "byte_string_lengths": "every length 0..%s, 520, 5000%s" % ((300, " and 65531 (inline form only: REPL lines are limited to 10 KiB, argv strings to 128 KiB, so the 65535/65536 compact-size boundary cannot be reached through any invocation form)") if ctx.tier == "thorough" else ("140, 252..256", ", 20000 (inline)")),
            "fillers": 3 if ctx.tier == "thorough" else 2,
            "codec_corruption": "every single-character substitution (each position x each other alphabet character, plus 4 non-alphabet characters for base58; plus per-position case flips for bech32) of %d strings each of base58check, bech32, bech32m" % (4 if ctx.tier == "thorough" else 2),
            "add_sub": "12 values of 17..32 bytes, all ordered pairs, without modulus and modulo the secp256k1 field prime and group order",
            "jacobi": "64 values modulo the field prime (implicit and explicit k), 20 small odd k x n in 0..min(2k,47) and 3 large n",
            "addresses": "8 P2PKH pairs, one address corrupted at every position",
            "ec": "8 keys: all ordered pairs for combine-pubkeys, 4 tweaks each for tweak-pubkey / taproot-tweak-pubkey; ECDSA (DER, compact) and BIP340 signatures by the oracle's own signer",
        },
        "per_transform": per_tf, "evaluations_by_form": per_form, "forms_not_applicable": skipped_forms,
        "distinct_outcomes": len(outcomes), "outcome_histogram": outcomes,
        "violation_keys": {k: v["count"] for k, v in sorted(viol.items())},
        "observations": observations,
        "long_session_commands_compared": session_cmds,
        "ordered_pair_sessions": pair_sessions, "ordered_pair_representatives": len(reps),
        "tf_table": names, "transforms_missing_from_tool": missing,
        "notes": [
            "the inline names printed by `tf -h` (b32d, b58ce, jacobi_sym, ...) are not the names Value::do_exec understands (bech32dec, base58chkenc, jacobi, ...); bech32m-encode, len and verify-sig-compact have no inline form",
            "`int` on data longer than 4 bytes raises 'script number overflow' (REPL: caught and reported; btcc: uncaught)",
        ],
        "wall_s_driver": round(time.time() - t0, 2),
    }
    return dict(level="model_checking", coverage=cov, violations=sorted(viol.values(), key=lambda v: v["key"]),
                assumptions=[
                    "`reverse` is checked on data and strings only (for integers the table text does not fix a meaning)",
                    "add / sub / tagged-hash / jacobi-symbol(n k) / EC and signature transforms receive their argument list as a compiled script of pushes; only arguments of >= 5 bytes (which serialise as plain pushes) are required to work; `tf add 1 2`, an empty tagged-hash message and a 32-byte n whose bytes happen to parse as pushes are recorded as observations",
                    "add / sub read their operands (and the result) as little-endian integers of up to 32 bytes; with a modulus g the operands are taken < g",
                    "jacobi-symbol reads n and k as 32-byte little-endian integers; k odd",
                    "base58chk-decode is required only for payloads of at most 200 bytes (the tool passes max_ret_len=200); longer payloads are an observation",
                    "bech32-decode of a valid string strips the first 5-bit symbol (witness version) and converts the rest to bytes; valid strings with an empty data part are outside that convention (crashes there are still reported)",
                    "bech32-encode / bech32m-encode always prepend witness version 1 and use the hrp 'bcrt' (the tool's defaults)",
                    "opcode form uses the argument as an initial stack item (`btcdeb 0x<arg>` with script [OP_X]); the embedded-push form only for 5..500-byte arguments (shorter literals are C07's subject, longer lines exceed batch btcdeb's 1 KiB script line)",
                    "a transform counts as having rejected its input when its process wrote an error line to stderr (anything except warning:/LOG:/notice:/pk_parity/msg= lines)",
                    "oracle: drivers/pyref_codec.py (self-tested on BIP173/BIP350/BIP340 vectors and cross-checked against the C++ reference before every run)",
                ],
                summary="%d (transform, argument) cases, %d evaluations, %d matched the oracle, %d violation keys" % (states, transitions, outcomes.get("ok", 0) + outcomes.get("rejected", 0), len(viol)),
                infra_error="; ".join(vac) if vac else None)


def replay(ctx, path):
    rp = json.load(open(path))["replay"]
    wroot = tempfile.mkdtemp(prefix="c14r.", dir=ctx.bdir)
    try:
        _init(ctx.bdir, wroot)
        if "session" in rp:
            fresh = []
            for c in rp["session"]:
                parts = c.split()
                fresh.append((c, run_cmd(parts[1], parts[2:])[4]))
            b1, b2 = session_check(fresh)[0], session_check(fresh)[0]
            for b in b1:
                print(b[2])
            if [b[1:3] for b in b1] != [b[1:3] for b in b2]:
                print("NONDETERMINISTIC"); return 1
            print("holds" if not b1 else "differs"); return 1 if b1 else 0
        ex = rp["expect"]
        kind = ex[0]
        expect = (kind,) + tuple(bytes.fromhex(x) if (kind in ("data",) and i == 0) or (kind == "bech32dec" and i == 1) else x for i, x in enumerate(ex[1:]))
        unit = (rp["tf"], rp["argclass"], rp["args"], expect, rp["form"])
        r1, r2 = evaluate(unit), evaluate(unit)
        print("case   :", rp["tf"], rp["form"], sh(rp["args"]))
        print("run 1  :", r1[3], "|", r1[5] or r1[7])
        print("run 2  :", r2[3], "|", r2[5] or r2[7])
        if (r1[3], r1[4], r1[5]) != (r2[3], r2[4], r2[5]):
            print("NONDETERMINISTIC"); return 1
        if r1[4] is None:
            print("holds"); return 0
        print("differs"); return 1
    finally:
        shutil.rmtree(wroot, ignore_errors=True)
