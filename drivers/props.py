"""Per-property check definitions used by vcheck: which targets to build, how to run the engine(s),
how to turn their result files into evidence coverage."""
import json, os, subprocess, sys, time
from dataclasses import dataclass, field


@dataclass
class Ctx:
    pid: str
    tier: str
    seed: int
    repo: str
    verif: str
    bdir: str = ""
    bdir_asan: str = ""


def run_engine(ctx, prog, args, timeout=None, bdir=None):
    """run a native engine; returns its JSON result (dict)"""
    out = os.path.join(bdir or ctx.bdir, "result.%s.%s.%d.json" % (prog, ctx.pid, os.getpid()))
    cmd = [os.path.join(bdir or ctx.bdir, prog), "--tier", ctx.tier, "--seed", str(ctx.seed), "--out", out] + args
    t0 = time.time()
    r = subprocess.run(cmd, stdout=subprocess.PIPE, stderr=subprocess.PIPE, text=True, timeout=timeout)
    if r.returncode != 0 or not os.path.exists(out):
        return {"infra_error": "%s exited %d: %s" % (prog, r.returncode, (r.stderr or r.stdout)[-2000:]), "violations": []}
    with open(out) as fh:
        res = json.load(fh)
    os.unlink(out)
    res["_wall"] = time.time() - t0
    return res


def replay_engine(prog):
    def f(ctx, path):
        r = subprocess.run([os.path.join(ctx.bdir, prog), "--replay", path])
        return r.returncode
    return f


# ------------------------------------------------------------------------------------------- C01
def run_c01(ctx):
    r = run_engine(ctx, "mc_script", ["--mode", "c01"])
    if "infra_error" in r:
        return dict(level="model_checking", coverage={"states": 1, "transitions": 1, "traces_validated_against_impl": 0, "samples": ["-"]}, violations=[], infra_error=r["infra_error"])
    vac = []
    if r["opcodes_seen"] < 108:
        vac.append("only %d opcodes exercised" % r["opcodes_seen"])
    cov = {
        "states": r["states"], "transitions": r["transitions"],
        "traces_validated_against_impl": r["sessions"],
        "samples": r["samples"][:8] or ["(none)"],
        "exhaustive": True,
        "bounds": r["plan"],
        "work_items": r["items"],
        "failing_transitions": r["failing"], "refused_scripts": r["refused"],
        "distinct_outcomes": len(r["outcomes"]), "outcome_histogram": r["outcomes"],
        "opcodes_exercised": r["opcodes_seen"], "opcodes_seen_both_succeeding_and_failing": r["opcodes_ok_and_fail"],
        "opcodes_never_succeeding": r["opcodes_never_ok"],
        "explanation": "every state is a (sigversion, flags, initial stack, op history) replayed on a fresh Instance; after every step main stack, alt stack, condition-stack projection, op count and pc are compared with the reference interpreter; ContinueScript is compared with stepping on every explored script",
    }
    return dict(level="model_checking", coverage=cov, violations=r["violations"],
                assumptions=["reference interpreter in /verif/ref (self-tested on consensus vectors and six real-chain spends before every run)",
                             "state key drops script bytes: FindAndDelete-dependence of signature opcodes on earlier pushes is explored in C02, not here",
                             "values outside the alphabets V/Vs and depths beyond the listed bounds are not covered"],
                summary="%d states, %d transitions, %d outcomes" % (r["states"], r["transitions"], len(r["outcomes"])),
                infra_error="; ".join(vac) if vac else None)


PROPS = {
    "C01": dict(targets=["mc_script"], run=run_c01, replay=replay_engine("mc_script")),
}
