"""Per-property check definitions used by vcheck: which targets to build, how to run the engine(s),
how to turn their result files into evidence coverage."""
import json, os, subprocess, sys, time
from dataclasses import dataclass, field


@dataclass
class Ctx:
    pid: str
    tier: str
    seed: int
    repo: str
    verif: str
    bdir: str = ""
    bdir_asan: str = ""


def run_engine(ctx, prog, args, timeout=None, bdir=None):
    """run a native engine; returns its JSON result (dict)"""
    out = os.path.join(bdir or ctx.bdir, "result.%s.%s.%d.json" % (prog, ctx.pid, os.getpid()))
    cmd = [os.path.join(bdir or ctx.bdir, prog), "--tier", ctx.tier, "--seed", str(ctx.seed), "--out", out] + args
    t0 = time.time()
    r = subprocess.run(cmd, stdout=subprocess.PIPE, stderr=subprocess.PIPE, text=True, timeout=timeout)
    if r.returncode != 0 or not os.path.exists(out):
        return {"infra_error": "%s exited %d: %s" % (prog, r.returncode, (r.stderr or r.stdout)[-2000:]), "violations": []}
    with open(out) as fh:
        res = json.load(fh)
    os.unlink(out)
    res["_wall"] = time.time() - t0
    return res


def replay_engine(prog):
    def f(ctx, path):
        r = subprocess.run([os.path.join(ctx.bdir, prog), "--replay", path])
        return r.returncode
    return f


def replay_c04(ctx, path):
    """replays of the signed sessions go to mc_sig, the others to mc_hist"""
    import json as _json
    with open(path) as fh:
        rec = _json.load(fh)
    rp = rec.get("replay") or rec
    prog = "mc_sig" if rp.get("engine") == "mc_sig" else "mc_hist"
    return subprocess.run([os.path.join(ctx.bdir, prog), "--replay", path]).returncode


# ------------------------------------------------------------------------------------------- C01
def run_c01(ctx):
    r = run_engine(ctx, "mc_script", ["--mode", "c01"])
    if "infra_error" in r:
        return dict(level="model_checking", coverage={"states": 1, "transitions": 1, "traces_validated_against_impl": 0, "samples": ["-"]}, violations=[], infra_error=r["infra_error"])
    rl = run_engine(ctx, "mc_sig", ["--mode", "locktime"])
    if "infra_error" in rl:
        return dict(level="model_checking", coverage={"states": 1, "transitions": 1, "traces_validated_against_impl": 0, "samples": ["-"]}, violations=[], infra_error=rl["infra_error"])
    r["violations"] = list(r["violations"]) + list(rl["violations"])
    r["plan"].append("T: CHECKLOCKTIMEVERIFY / CHECKSEQUENCEVERIFY with 22 boundary operands (and their padded forms) under every transaction environment nLockTime {0,100,499999999,500000000,2^32-1} x nSequence {0,10,0x0040000a,2^31,2^32-1,2^32-2} x nVersion {1,2} x {BASE, WITNESS_V0} x 4 flag sets (%d sessions)" % rl["sessions"])
    r["sessions"] += rl["sessions"]; r["transitions"] += rl["steps"]
    for k, v in rl["outcomes"].items():
        r["outcomes"][k] = r["outcomes"].get(k, 0) + v
    vac = []
    if rl["outcomes"].get("OK", 0) < 1000 or rl["outcomes"].get("UNSATISFIED_LOCKTIME", 0) < 1000:
        vac.append("lock-time exploration vacuous")
    if r["opcodes_seen"] < 108:
        vac.append("only %d opcodes exercised" % r["opcodes_seen"])
    cov = {
        "states": r["states"], "transitions": r["transitions"],
        "traces_validated_against_impl": r["sessions"],
        "samples": r["samples"][:8] or ["(none)"],
        "exhaustive": True,
        "bounds": r["plan"],
        "work_items": r["items"],
        "failing_transitions": r["failing"], "refused_scripts": r["refused"],
        "distinct_outcomes": len(r["outcomes"]), "outcome_histogram": r["outcomes"],
        "opcodes_exercised": r["opcodes_seen"], "opcodes_seen_both_succeeding_and_failing": r["opcodes_ok_and_fail"],
        "opcodes_never_succeeding": r["opcodes_never_ok"],
        "explanation": "every state is a (sigversion, flags, initial stack, op history) replayed on a fresh Instance; after every step main stack, alt stack, condition-stack projection, op count and pc are compared with the reference interpreter; ContinueScript is compared with stepping on every explored script",
    }
    return dict(level="model_checking", coverage=cov, violations=r["violations"],
                assumptions=["reference interpreter in /verif/ref (self-tested on consensus vectors and six real-chain spends before every run)",
                             "state key drops script bytes: FindAndDelete-dependence of signature opcodes on earlier pushes is explored in C02, not here",
                             "values outside the alphabets V/Vs and depths beyond the listed bounds are not covered"],
                summary="%d states, %d transitions, %d outcomes" % (r["states"], r["transitions"], len(r["outcomes"])),
                infra_error="; ".join(vac) if vac else None)


# ------------------------------------------------------------------------------------------- C04 / C16
def _infra(level, r):
    return dict(level=level, coverage={"states": 1, "transitions": 1, "traces_validated_against_impl": 0, "samples": ["-"]}, violations=[], infra_error=r["infra_error"])


def run_c04(ctx):
    r = run_engine(ctx, "mc_hist", ["--mode", "c04"])
    if "infra_error" in r:
        return _infra("model_checking", r)
    cov = {
        "states": r["states"], "transitions": r["transitions"] + r["tree_histories"] * r["L"],
        "traces_validated_against_impl": r["sessions"] + r["tree_histories"],
        "samples": r["samples"] or ["(none)"], "exhaustive": True,
        "bounds": ["sessions: every script of <= %d ops over {1,0,IF,NOTIF,ELSE,ENDIF,TOALTSTACK,FROMALTSTACK,DUP,DROP,ADD,CODESEPARATOR,NOP} x {BASE,WITNESS_V0,TAPSCRIPT} that completes without a failing step, plus hand-shaped sessions (nested IF, op count 201, code separators, tapscript signature budget, scriptSig->scriptPubKey, P2SH)" % (4 if ctx.tier == "quick" else 5),
                   "(a) fixpoint BFS over {step, rewind} with dedup on the full canonical state", "(b) complete history tree to depth L=%d without dedup" % r["L"]],
        "candidate_sessions": r["specs"], "sessions_in_domain": r["sessions"], "sessions_with_failing_step_skipped": r["skipped_sessions_with_failing_step"],
        "rewinds_accepted": r["rewinds_accepted"], "rewinds_refused": r["rewinds_refused"], "rewinds_undoing_a_state_changing_step": r["nontrivial_rewinds"],
        "history_tree_histories": r["tree_histories"],
    }
    # sessions with real signatures (mc_sig --mode c04sig): every depth, every number of rewinds, continued to the end
    rs = run_engine(ctx, "mc_sig", ["--mode", "c04sig"])
    if "infra_error" in rs:
        return _infra("model_checking", rs)
    r["violations"] = list(r["violations"]) + list(rs["violations"])
    cov["signed_sessions"] = {"engine": "mc_sig --mode c04sig", "sessions": rs.get("sessions"), "steps_and_rewinds": rs.get("steps"),
                              "rule": "ECDSA templates (single checks, code separators between checks, multisig) x {BASE, WITNESS_V0} x transaction shapes, signed by the independent signer: for every depth M and every R <= M, M steps + R rewinds + run to the end reproduce the uninterrupted run's stack trace"}
    vac = None
    if r["sessions"] < 100 or r["nontrivial_rewinds"] < 100:
        vac = "vacuous exploration: %d sessions, %d non-trivial rewinds" % (r["sessions"], r["nontrivial_rewinds"])
    return dict(level="model_checking", coverage=cov, violations=r["violations"],
                assumptions=["oracle is differential (fresh session advanced by the net number of steps); compared state: stack, altstack, condition-stack projection, script, pc, pend, pbegincodehash, m_codeseparator_pos, m_validation_weight_left, opcode_pos, nOpCount, curr_op_seq, done, is_p2sh, successor script, history vectors",
                             "sessions containing a failing step are outside the property's quantifier and are skipped"],
                summary="%d sessions, %d states, %d tree histories" % (r["sessions"], r["states"], r["tree_histories"]), infra_error=vac)


def run_c16(ctx):
    r = run_engine(ctx, "mc_hist", ["--mode", "c16"])
    if "infra_error" in r:
        return _infra("model_checking", r)
    cov = {
        "states": r["sessions"], "transitions": r["evals"], "traces_validated_against_impl": r["evals"],
        "samples": r["samples"] or ["(none)"], "exhaustive": True,
        "bounds": ["at every prefix of %d sessions: exec of every op list of length 1..%d over %d tokens (opcode names with/without OP_, integers -1..17, hex pushes, one failing op per error class)" % (r["sessions"], r["exec_maxlen"], r["exec_tokens"])],
        "evals_where_reference_fails": r["evals_ref_failing"], "evals_where_reference_succeeds": r["evals"] - r["evals_ref_failing"],
    }
    vac = None
    if r["evals"] < 1000 or r["evals"] == r["evals_ref_failing"]:
        vac = "vacuous exploration"
    return dict(level="model_checking", coverage=cov, violations=r["violations"],
                assumptions=["reference: the same operations spliced into the script at the current position and executed by the reference interpreter; continuation of the session compared with continuation of the spliced script",
                             "OP_CODESEPARATOR is excluded from exec's conformance alphabet (its 'as if in the script' meaning is undefined for a temporary script); hex pushes are those whose direct push is minimal",
                             "sessions carry no transaction, so the error code of a failing Schnorr check is not compared"],
                summary="%d sessions, %d evals" % (r["sessions"], r["evals"]), infra_error=vac)


# ------------------------------------------------------------------------------------------- C10 / C17 / C18
def run_c10(ctx):
    r = run_engine(ctx, "mc_bounds", ["--mode", "c10"])
    if "infra_error" in r:
        return _infra("model_checking", r)
    need = {"OP_COUNT", "STACK_SIZE", "PUBKEY_COUNT", "OK", "REFUSED", "UNKNOWN_ERROR"}
    missing = sorted(need - set(r["outcomes"].keys()))
    cov = {
        "states": r["prefixes"] + r["whole_sessions"], "transitions": r["transitions"] + r["whole_sessions"], "traces_validated_against_impl": r["sessions"],
        "samples": r["samples"] or ["(none)"], "exhaustive": True,
        "bounds": ["%d constructed boundary states (op count 199..202 via NOPs / unexecuted branches / multisig key counts 0..21, stack+altstack 998..1000 via DUP chains and altstack splits, initial stacks of 999/1000, numeric operands of 4/5/6 bytes) x {BASE, WITNESS_V0, TAPSCRIPT}; every one of %d symbols applied from each" % (r["prefixes"], r["symbols"]),
                   "whole-session cases: scripts of 9999/10000/10001 bytes x 3 sigversions, successor scriptPubKey of 10000/10001 bytes, op-count reset across scriptSig -> scriptPubKey -> P2SH redeem script at 201/202"],
        "outcome_histogram": r["outcomes"], "distinct_outcomes": len(r["outcomes"]),
    }
    return dict(level="model_checking", coverage=cov, violations=r["violations"],
                assumptions=["reference interpreter decides the expected outcome at each boundary", "symbols that only re-trigger C01's listed findings (OP_CHECKSIGADD refused, OP_SUCCESSx in tapscript) are left to C01",
                             "a 521-byte push is accepted as failing whether it is refused at parse time or fails with PUSH_SIZE (the tool refuses it)"],
                summary="%d boundary states, %d transitions" % (r["prefixes"], r["transitions"]),
                infra_error=("vacuous: outcomes never observed: %s" % missing) if missing else None)


def run_c17(ctx):
    r = run_engine(ctx, "mc_bounds", ["--mode", "c17"])
    if "infra_error" in r:
        return _infra("model_checking", r)
    c = r["classes"]
    cov = {
        "states": r["cases"], "transitions": r["cases"], "traces_validated_against_impl": c.get("must-compute", 0) + c.get("must-fail", 0) + c.get("disabled", 0) + c.get("unexecuted-enabled", 0) + c.get("fail-or-denoted", 0),
        "samples": r["samples"] or ["(none)"], "exhaustive": True,
        "bounds": ["15 opcodes x every operand tuple over %d boundary values (pairs; SUBSTR/LEFT/RIGHT offsets over a 12-value offset set), with and without --allow-disabled-opcodes, executed and inside an unexecuted branch; each case in a crash-contained worker" % r["values"],
                   "long and mid-range operands: INVERT/AND/OR/XOR/CAT/SUBSTR/LEFT/RIGHT on patterned strings of 31 length classes around 8/16/32/64/128/256/512 and the 520-byte limit [thorough: every length 5..520], offsets around 0/128/256/the string length/-1, CAT pairs whose sum is 519/520/521; MUL/DIV/MOD on all signed pairs of 30 mid-range magnitudes (products beyond 32 bits), 2MUL/2DIV on them, LSHIFT/RSHIFT of them by every count 0..66"],
        "case_classes": c,
    }
    vac = None
    if c.get("must-compute", 0) < 100 or c.get("must-fail", 0) < 100 or c.get("disabled", 0) < 100:
        vac = "vacuous exploration: %s" % c
    return dict(level="model_checking", coverage=cov, violations=r["violations"],
                assumptions=["denotations: CAT concatenation; SUBSTR/LEFT/RIGHT slices, script error when out of range or negative; INVERT/AND/OR/XOR bytewise (equal lengths); 2MUL/2DIV/MUL/DIV/MOD on script numbers, truncation toward zero, minimal re-encoding; division/modulo by zero is a script error; LSHIFT/RSHIFT = x2^b / floor-div 2^b compared for a >= 0 and 0 <= b < 32",
                             "where the property is silent (5-byte numeric operands, negative or >= 32 shift counts, negative shift base) only crash-freedom is required ('no-crash-only' class)",
                             "which script error is reported is not compared (the property only asks for 'a script error')",
                             "run on the plain build: a crash is a terminating signal; undefined behaviour that does not trap is C15's business (sanitizer builds)"],
                summary="%d cases" % r["cases"], infra_error=vac)


def run_c18(ctx):
    r = run_engine(ctx, "mc_bounds", ["--mode", "c18"])
    if "infra_error" in r:
        return _infra("model_checking", r)
    cov = {
        "states": r["strings"] + r["integers"], "transitions": r["strings"] * 3 + r["integers"] * 5, "traces_validated_against_impl": r["strings"] + r["integers"],
        "samples": r["samples"], "exhaustive": True,
        "bounds": ["all byte strings of length 0..3 (16,843,009)", "length 4: " + ("all 2^32 strings" if r["full_4_byte_space"] else "{00,01,7f,80,ff}^3 x all 256 top bytes (the thorough tier enumerates all 2^32)"),
                   "length 5 with a 5-byte limit: {00,01,7f,80,ff}^4 x all 256 top bytes", "integers: every n in [-2^16, 2^16], +-2^k+d for k<63, |d|<=3, INT64 extremes; mid-range: +-m*s for every m < 128,000 [1,024,000] and the strides s = 1000003, 4294967311, 0x0080ff017f; decimal shapes of 1..18 digits (10^k+-d, repdigits, runs of 9s / 0s with one other digit at every position, ascending digits); every magnitude of <= 6 bytes over {00,01,5a,7f,80,ff}, both signs",
                   "per string: decode value, minimality verdict (constructor with fRequireMinimal), re-encode; per integer: serialize, round trip, Value(int).hex_str(), decimal literal, Value(0x..).int_value()"],
        "byte_strings": r["strings"], "of_which_minimal": r["minimal_strings"], "integers": r["integers"],
        "locktime_operand_sessions": r.get("locktime_operand_sessions", 0),
    }
    cov["bounds"].append("unary numeric opcodes (1ADD 1SUB NEGATE ABS NOT 0NOTEQUAL) on the same operand strings of length 0..4, with and without MINIMALDATA: the result is the minimal encoding of the value (counted with the lock-time operand sessions)")
    cov["bounds"].append("lock-time operands: every string of length 0..1 and {00,01,7f,80,ff}^k x all 256 top bytes for k = 1..4 (lengths 2..5), plus a 6-byte string, "
                         "as the operand of OP_CHECKLOCKTIMEVERIFY and of OP_CHECKSEQUENCEVERIFY through the interpreter, with and without MINIMALDATA (outcome and stack vs the reference)")
    cov["states"] += cov["locktime_operand_sessions"]
    cov["transitions"] += 3 * cov["locktime_operand_sessions"]
    cov["traces_validated_against_impl"] += cov["locktime_operand_sessions"]
    return dict(level="model_checking", coverage=cov, violations=r["violations"],
                assumptions=["oracle: arithmetic definition of the sign-magnitude little-endian codec in ref/refnum.hpp",
                             "lock-time operand path: reference interpreter (ref/refscript.hpp) without a transaction - decoding is observed through the error class"],
                summary="%d strings, %d integers, %d lock-time operand sessions" % (r["strings"], r["integers"], cov["locktime_operand_sessions"]))


# ------------------------------------------------------------------------------------------- C03 / C05
def run_c03(ctx):
    r = run_engine(ctx, "mc_spend", ["--mode", "c03"])
    if "infra_error" in r:
        return _infra("model_checking", r)
    cov = {
        "states": r["sessions"], "transitions": r["steps"], "traces_validated_against_impl": r["sessions"] - r["out_of_scope"],
        "samples": r["samples"] or ["(none)"], "exhaustive": True,
        "bounds": ["12 output types (bare P2PK, bare multisig, P2PKH compressed/uncompressed, P2SH multisig, P2WPKH, P2WSH multisig/checksig, P2SH-P2WPKH, P2SH-P2WSH, P2TR key path, P2TR script path with path length 0..3, with/without annex) x position of the spending input x referenced output x selection {auto, right, wrong input, out of range} x every single-item deviation of the satisfaction (bit flips, removed/duplicated/extra items, fields altered after signing) x every single non-activation flag toggled from STANDARD; the six real-chain pairs; "
                   + ("all bit positions of every satisfaction item on the base shape" if ctx.tier != "quick" else "bit flips at first/middle/last byte of every item")],
        "sessions_refused": r["refused"], "sessions_valid": r["valid"], "sessions_invalid": r["invalid"], "sessions_out_of_scope": r["out_of_scope"],
        "by_type": r["by_type"], "outcome_histogram": r["outcomes"], "distinct_outcomes": len(r["outcomes"]),
    }
    vac = None
    if r["valid"] < 100 or r["invalid"] < 100 or r["refused"] < 50 or len(r["by_type"]) < 8:
        vac = "vacuous exploration: %s" % r["by_type"]
    cov["bounds"].append('wide transactions: 300-input spends with the spending input at 127/128/255/256/257/260/299 and 300-output funding transactions with the spent output at 255/256/258/299, for P2PKH, P2SH multisig, P2WPKH, P2WSH, P2SH-P2WPKH (hash types ALL and SINGLE|ANYONECANPAY), automatic and explicit selection, the selection pos-256 (must be refused), the sequence of input pos-256 altered after signing')
    return dict(level="model_checking", coverage=cov, violations=r["violations"],
                assumptions=["verdict oracle: verify_input() of the reference model (self-tested on six real-chain spends); set-up oracle: the reference session plan (input, amount, sigversion, scripts per phase, initial stack, every micro-step state)",
                             "the session counts as valid iff it finishes without error and its final stack is non-empty with a true top element and exactly one element for witness scripts or under CLEANSTACK (the property's wording)",
                             "domain: P2SH/WITNESS/TAPROOT are never removed from the flag set (without its activation flag consensus executes nothing for the output type); taproot spends have one input (the tool receives one funding transaction); unknown witness/leaf versions and out-of-range prevout indices (C15) are out of scope",
                             "extended invalid satisfactions (non-push-only scriptSig with P2SH, scriptSig with native witness program, witness on legacy output, conditional/altstack spanning scripts, 521-byte witness item) are reported under their own 'extended:' keys"],
                summary="%d sessions (%d valid, %d invalid, %d refused), %d steps" % (r["sessions"], r["valid"], r["invalid"], r["refused"], r["steps"]), infra_error=vac)


def run_c05(ctx):
    r = run_engine(ctx, "mc_spend", ["--mode", "c05"])
    if "infra_error" in r:
        return _infra("model_checking", r)
    r3 = run_engine(ctx, "mc_spend", ["--mode", "c03"])   # the commitment phase through Instance::configure_tx_txin + step()
    viol = list(r["violations"])
    sess_tap = 0
    if "infra_error" not in r3:
        # ... and the size rule (33+32m bytes, m <= 128), which is enforced where the session is configured
        viol += [v for v in r3["violations"] if v["key"].startswith("commitment:") or v["key"] == "failed-step-then-step-succeeds:commitment" or "control block" in v["key"]
                 or v["key"].startswith("refuses-valid-spend:p2tr-script") or v["key"].startswith("setup:script:p2tr-script") or v["key"].startswith("invalid-verdict-for-valid-spend:p2tr-script")]
        sess_tap = r3["by_type"].get("p2tr-script", 0)
    c = r["classes"]
    cov = {
        "states": r["cases"], "transitions": r["iterate_steps"], "traces_validated_against_impl": r["cases"] + sess_tap,
        "samples": r["samples"] or ["(none)"], "exhaustive": True,
        "bounds": ["TaprootCommitmentEnv driven directly: path lengths " + ("0..128 (every value, all corruption families)" if ctx.tier != "quick" else "0..128 (every value: valid, parity flipped, one middle node corrupted; all corruption families on {0,1,2,3,64,127,128})") + ", scripts of length 0/1/252/253 and, on paths of <= 3 nodes, 254/255/256/65535/65536/65537/100000, one-byte-near-equal nodes at path levels 0/1/2/9/33/100, leaf versions {c0,c2,00,fe,50}, nodes below/above/equal to the running hash, both parities; every single-field corruption (parity bit, each control-byte bit, internal-key bytes, each node, script, program bytes, dropped/extra node, swapped nodes), internal keys off the curve / >= p",
                   "commitment phase through configure_tx_txin + step(): %d tapscript sessions of the C03 generator (leaf hash handed to execdata, intermediate hashes, verdict)" % sess_tap],
        "case_classes": c, "valid_commitments": c.get("valid:valid", 0), "invalid_commitments": sum(v for k, v in c.items() if k.startswith("invalid:")),
    }
    vac = None
    if c.get("valid:valid", 0) < 10 or len(c) < 8:
        vac = "vacuous exploration: %s" % c
    return dict(level="model_checking", coverage=cov, violations=viol,
                assumptions=["oracle: taproot_verify() in ref/refcodec.hpp on OpenSSL EC arithmetic; every intermediate m_k is compared with the BIP341 branch hash", "size-invalid control blocks (1, 16, 31 stray bytes, one byte short) are refusal cases of the session generator shared with C03 and are counted here as well"],
                summary="%d commitments, %d Iterate() steps, %d sessions" % (r["cases"], r["iterate_steps"], sess_tap), infra_error=vac)


# ------------------------------------------------------------------------------------------- C02 / C11
def run_c02(ctx):
    r = run_engine(ctx, "mc_sig", ["--mode", "c02"])
    if "infra_error" in r:
        return _infra("model_checking", r)
    o = r["outcomes"]
    cov = {
        "states": r["sessions"], "transitions": r["steps"], "traces_validated_against_impl": r["sessions"],
        "samples": r["samples"] or ["(none)"], "exhaustive": True,
        "bounds": ["ECDSA (legacy + BIP143), explicit mode mirroring `--tx=<amounts>:<hex> --txin=<hex> --select=k <script> <stack>`: all 256 hash-type bytes x transaction shapes (nin,nout) x every input index x {BASE, WITNESS_V0} x {NONE, STANDARD}; 20 script templates (CHECKSIG(VERIFY), code separators executed/unexecuted/multiple, two digests in one script, 1-of-1..2-of-3 multisig with every order / missing / extra signature, FindAndDelete) x 10 hash types x 4 flag sets x 3 shapes; 14 signature/key encoding classes and 7 multisig encoding classes x all 2^8 subsets of {DERSIG, LOW_S, STRICTENC, NULLFAIL, NULLDUMMY, WITNESS_PUBKEYTYPE, CONST_SCRIPTCODE, DISCOURAGE_UPGRADABLE_PUBKEYTYPE}; every single-bit flip of signature, public key and serialised transaction",
                   "Schnorr (BIP341/342), auto mode through configure_tx_txin: all 256 hash-type bytes + 64-byte form, key path and script path, annex present/absent, 1..3 outputs; 13 tapscript templates (code-separator positions incl. unexecuted branch and after a long push, two digests, CHECKSIGADD, unknown key type); validation-weight budget landing at -50/-1/0/+49; every single-bit flip of signature and serialised transaction"],
        "signature_checks_accepting": r["signature_checks_accepting"], "signature_checks_rejecting": r["signature_checks_rejecting"],
        "outcome_histogram": o, "distinct_outcomes": len(o),
    }
    need = {"OK", "SIG_DER", "SIG_HIGH_S", "SIG_HASHTYPE", "PUBKEYTYPE", "WITNESS_PUBKEYTYPE", "SIG_NULLFAIL", "SIG_NULLDUMMY", "SIG_FINDANDDELETE", "invalid"}
    missing = sorted(need - set(o.keys()))
    cov["bounds"].append('lengths across the one-byte compact-size boundary inside the digests: script codes of every length 236..274 (whole script and the part after a code separator) x {ALL, SINGLE|ANYONECANPAY} x {BASE, V0} x {NONE, STANDARD}; transactions of 252/253/254/300 inputs or outputs signing input 0/100/251/252/253/260 x 6 hash types; tapscript leaves of every length 242..262; annexes of 252/253/254/300/65535/65536 bytes on key and script path')
    return dict(level="model_checking", coverage=cov, violations=r["violations"],
                assumptions=["signer and verifier: reftx (legacy/BIP143/BIP341 digests) + refec (OpenSSL EC arithmetic), self-tested on BIP340 vectors and six real-chain spends",
                             "taproot is restricted to single-input transactions (the tool receives one funding transaction); on the key path only accept/reject is compared (the tool has no error sink there)",
                             "transaction bit flips that change the structure, the spent outpoint's txid, or make the outpoint index exceed the funding outputs are excluded (C13 / C15)"],
                summary="%d sessions, %d steps" % (r["sessions"], r["steps"]),
                infra_error=("vacuous: outcomes never observed: %s" % missing) if missing else None)


def run_c11(ctx):
    r = run_engine(ctx, "mc_sig", ["--mode", "c11"])
    if "infra_error" in r:
        return _infra("model_checking", r)
    cov = {
        "states": r["sessions"], "transitions": r["steps"], "traces_validated_against_impl": r["sessions"],
        "samples": ["--pretend-valid=0xaa01:<key1>,0xaa01:<key2> ; script <key1> OP_CHECKSIG ; stack aa01", "--pretend-valid=0xbb02bb:<key2> ; script 1 <key3> <key2> 2 OP_CHECKMULTISIG ; stack '' bb02bb"], "exhaustive": True,
        "bounds": ["every ordered list of 1..%d pairs over {s1,s2} x {p1,p2} (duplicates, one signature for two keys, one key with two signatures) x {BASE, WITNESS_V0} x with/without a transaction x {NONE, STANDARD}: each listed pair in CHECKSIG, CHECKSIGVERIFY, 1-of-1 and 1-of-2 multisig; an unlisted signature for each mocked key; non-interference on 4 templates signed by unlisted keys and a listed signature offered to an unlisted key; 10 malformed / edge-case list spellings" % (2 if ctx.tier == "quick" else 3)],
        "outcome_histogram": r["outcomes"], "signature_checks_accepting": r["signature_checks_accepting"], "signature_checks_rejecting": r["signature_checks_rejecting"],
    }
    cov["bounds"].append('wide multisig: 1-of-n with the one listed key at every script position and 2-of-n with adjacent listed keys (right and wrong signature order) for n in {3,8,9,15,16,17,18,19,20}; n-of-n with all n pairs listed (list in script order and reversed) and with one pair missing')
    return dict(level="model_checking", coverage=cov, violations=r["violations"],
                assumptions=["model: a check of (S, P) succeeds unconditionally iff the pair is listed; everything else runs as without the option (reference interpreter with real digests)",
                             "malformed = an item without a colon or with more than one colon; the empty list, a trailing comma and empty signature/key parts are not called malformed by the property and are only counted",
                             "tapscript cannot be selected in explicit mode from the command line; CHECKSIGADD with mock pairs is therefore not covered"],
                summary="%d sessions" % r["sessions"],
                infra_error=None if r["signature_checks_accepting"] > 100 and r["signature_checks_rejecting"] > 100 else "vacuous exploration")


# ------------------------------------------------------------------------------------------- C13
def run_c13(ctx):
    r = run_engine(ctx, "mc_tx", [])
    if "infra_error" in r:
        return _infra("model_checking", r)
    c = r["classes"]
    valid = sum(v for k, v in c.items() if k.endswith(":valid"))
    invalid = sum(v for k, v in c.items() if k.endswith(":invalid"))
    cov = {
        "states": r["cases"], "transitions": r["cases"], "traces_validated_against_impl": valid + invalid,
        "samples": r["samples"], "exhaustive": True,
        "bounds": ["structure product: 1..3 inputs x 0..3 outputs x every witness mix {absent, 1 item, 3 items} per input x versions {1,2,-1,2^31-1} x sequences x amounts {0,1,21e14,-1,INT64_MAX,INT64_MIN}",
                   "scriptSig / scriptPubKey / witness-item lengths over {0,1,75,76,252,253,254,255,256,65535,65536} (all pairs, triples in the thorough tier); 252/253/254 inputs, outputs, witness items",
                   "for %d representative transactions: every proper prefix, odd-length hex, every value of the marker and flag bytes, witness flag with all-empty stacks, non-canonical compact size, embedded spaces, upper case, non-hex character, 0x prefix" % r["representatives"],
                   "%d decimal amount strings: integer parts {0,1,20999999,21000000,92233720368,...} x fractional digit patterns over {0,1,9} with 1..8 digits, sign / exponent / malformed spellings; amount lists" % r["amount_strings"]],
        "case_classes": c, "well_formed_cases": valid, "rejected_cases": invalid,
    }
    return dict(level="model_checking", coverage=cov, violations=r["violations"],
                assumptions=["oracle: ref/reftx.hpp (strict BIP144 parser and serialiser, double-SHA256 via OpenSSL)", "trailing bytes after a complete transaction are outside the property's quantifier: counted as an observation",
                             "amount strings with more than 8 fractional digits are outside the quantifier"],
                summary="%d cases (%d well-formed, %d to be rejected)" % (r["cases"], valid, invalid),
                infra_error=None if valid > 1000 and invalid > 1000 else "vacuous exploration")


# ------------------------------------------------------------------------------------------- C09 = (a) flag parsing [driver] + (b) monotonicity [native]
def run_c09(ctx):
    import c09_flags
    ra = c09_flags.run(ctx)
    rb = run_engine(ctx, "mc_script", ["--mode", "c09b"])
    if "infra_error" in rb:
        return _infra("model_checking", rb)
    rs = run_engine(ctx, "mc_spend", ["--mode", "c09s"])
    if "infra_error" in rs:
        return _infra("model_checking", rs)
    rb["violations"] = list(rb["violations"]) + list(rs["violations"])
    rb["plan"] = list(rb["plan"]) + ["spend level: %d auto-configured --tx/--txin sessions (the C03 generator's valid spends and single-item deviations of every output type, plus hand-made P2SH / bare spends with non-push-only scriptSigs) x 18 non-activation flags (SIGPUSHONLY among them): the debugger's verdict with the flag set vs without it, %d edges, %d of them outcome-changing" % (rs["spends"], rs["edges"], rs["outcome_changing_edges"])]
    cova = ra["coverage"]
    cov = {
        "states": cova.get("states", 0) + rb["mono_scripts"], "transitions": cova.get("transitions", 0) + rb["mono_scripts"] * 256,
        "traces_validated_against_impl": cova.get("traces_validated_against_impl", 0) + rb["mono_pairs"],
        "samples": (cova.get("samples") or [])[:4] + ["monotonicity: script 0x7551 from stack [01] run under all 256 subsets of R; every cover edge B -> B\\{f} checked"],
        "exhaustive": True,
        "bounds": (cova.get("bounds") if isinstance(cova.get("bounds"), list) else [str(cova.get("bounds"))]) + rb["plan"],
        "flag_parsing": {k: v for k, v in cova.items() if k not in ("samples", "bounds")},
        "monotonicity_scripts": rb["mono_scripts"], "monotonicity_lattice_edges_checked": rb["mono_pairs"], "lattice_edges_where_the_outcome_changes": rb["mono_outcome_changing_edges"],
    }
    vac = ra.get("infra_error")
    if rb["mono_outcome_changing_edges"] < 1000:
        vac = "vacuous monotonicity exploration"
    return dict(level="model_checking", coverage=cov, violations=list(ra["violations"]) + list(rb["violations"]),
                assumptions=list(ra.get("assumptions", [])) + ["monotonicity: success = ContinueScript returns true; checked on the cover relation of the subset lattice of the 8 execution-relevant flags (exhaustive for inclusion by transitivity); signature-encoding flags are exercised by C02's 2^8 subsets against the reference"],
                summary="(a) %s; (b) %d scripts x 256 flag sets, %d lattice edges" % (ra.get("summary", ""), rb["mono_scripts"], rb["mono_pairs"]), infra_error=vac)


def replay_c09(ctx, path):
    import json as _j
    rec = _j.load(open(path))
    if isinstance(rec.get("replay"), dict) and rec["replay"].get("engine") == "mc_script":
        return replay_engine("mc_script")(ctx, path)
    if isinstance(rec.get("replay"), dict) and rec["replay"].get("engine") == "mc_spend":
        return replay_engine("mc_spend")(ctx, path)
    import c09_flags
    return c09_flags.replay(ctx, path)


def _lazy(modname, fn):
    def f(ctx, *a):
        import importlib
        return getattr(importlib.import_module(modname), fn)(ctx, *a)
    return f


PROPS = {
    "C15": dict(targets=["btcdeb", "btcc", "tap", "btcdeb_tty"], asan_targets=["btcdeb", "btcc", "tap", "btcdeb_tty", "mc_bounds", "kerlhist", "btcdeb_tty_rl"], run=_lazy("c15_crash", "run"), replay=_lazy("c15_crash", "replay")),
    "C12": dict(targets=["btcdeb", "btcdeb_tty", "mc_refcli", "mc_gen"], run=_lazy("c12_listing", "run"), replay=_lazy("c12_listing", "replay")),
    "C08": dict(targets=["btcdeb", "btcdeb_tty", "mc_refcli", "mc_gen"], run=_lazy("c08_batch", "run"), replay=_lazy("c08_batch", "replay")),
    "C09": dict(targets=["btcdeb", "btcdeb_tty", "mc_refcli", "mc_script", "mc_spend"], run=run_c09, replay=replay_c09),
    "C13": dict(targets=["mc_tx"], run=run_c13, replay=replay_engine("mc_tx")),
    "C02": dict(targets=["mc_sig"], run=run_c02, replay=replay_engine("mc_sig")),
    "C11": dict(targets=["mc_sig"], run=run_c11, replay=replay_engine("mc_sig")),
    "C07": dict(targets=["btcc", "mc_refcli"], run=_lazy("c07_btcc", "run"), replay=_lazy("c07_btcc", "replay")),
    "C14": dict(targets=["btcc", "btcdeb", "btcdeb_tty", "mc_refcli"], run=_lazy("c14_tf", "run"), replay=_lazy("c14_tf", "replay")),
    "C06": dict(targets=["tap", "btcdeb"], run=_lazy("c06_tap", "run"), replay=_lazy("c06_tap", "replay")),
    "C03": dict(targets=["mc_spend"], run=run_c03, replay=replay_engine("mc_spend")),
    "C05": dict(targets=["mc_spend"], run=run_c05, replay=replay_engine("mc_spend")),
    "C10": dict(targets=["mc_bounds"], run=run_c10, replay=replay_engine("mc_bounds")),
    "C17": dict(targets=["mc_bounds"], run=run_c17, replay=replay_engine("mc_bounds")),
    "C18": dict(targets=["mc_bounds"], run=run_c18, replay=replay_engine("mc_bounds")),
    "C04": dict(targets=["mc_hist", "mc_sig"], run=run_c04, replay=replay_c04),
    "C16": dict(targets=["mc_hist"], run=run_c16, replay=replay_engine("mc_hist")),
    "C01": dict(targets=["mc_script", "mc_sig"], run=run_c01, replay=lambda ctx, path: replay_engine("mc_sig" if '"engine": "mc_sig"' in open(path).read() else "mc_script")(ctx, path)),
}
