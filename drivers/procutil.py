"""Shared process-level helpers for the Python drivers (C08, C09): running a tool with stdin and/or
stdout on a pty, a persistent mc_refcli client, the verification-flag table (written from Bitcoin Core's
public constants, not read from the tree), and violation grouping."""
import errno, json, os, pty, select, signal, subprocess, termios, time

TIMEOUT = 10.0
BASE_ENV = {"PATH": "/usr/bin:/bin", "LC_ALL": "C"}

# ---------------------------------------------------------------------------------------------- flags
# bit i <-> name, Bitcoin Core script/interpreter.h (SCRIPT_VERIFY_*); standard = policy/policy.h
FLAG_NAMES = [
    "P2SH", "STRICTENC", "DERSIG", "LOW_S", "NULLDUMMY", "SIGPUSHONLY", "MINIMALDATA",
    "DISCOURAGE_UPGRADABLE_NOPS", "CLEANSTACK", "CHECKLOCKTIMEVERIFY", "CHECKSEQUENCEVERIFY", "WITNESS",
    "DISCOURAGE_UPGRADABLE_WITNESS_PROGRAM", "MINIMALIF", "NULLFAIL", "WITNESS_PUBKEYTYPE", "CONST_SCRIPTCODE",
    "TAPROOT", "DISCOURAGE_UPGRADABLE_TAPROOT_VERSION", "DISCOURAGE_OP_SUCCESS", "DISCOURAGE_UPGRADABLE_PUBKEYTYPE",
]
assert len(FLAG_NAMES) == 21 and len(set(FLAG_NAMES)) == 21
FLAG_BIT = {n: 1 << i for i, n in enumerate(FLAG_NAMES)}
STANDARD_NAMES = frozenset(n for n in FLAG_NAMES if n != "SIGPUSHONLY")
STANDARD = sum(FLAG_BIT[n] for n in STANDARD_NAMES)


def apply_flag_list(mods):
    """mods: list of '+NAME' / '-NAME' (well-formed). Returns the resulting frozenset of names."""
    s = set(STANDARD_NAMES)
    for m in mods:
        if m[0] == "+":
            s.add(m[1:])
        else:
            s.discard(m[1:])
    return frozenset(s)


def flags_int(names):
    return sum(FLAG_BIT[n] for n in names)


# ---------------------------------------------------------------------------------------------- processes
def _sig_name(n):
    try:
        return signal.Signals(n).name
    except ValueError:
        return "SIG%d" % n


def run_proc(argv, data=b"", stdin="pipe", stdout="pipe", env=None, cwd=None, timeout=TIMEOUT):
    """Run argv. stdin/stdout: 'pipe' or 'pty'. stderr is always a pipe. `data` is written to a stdin pipe
    (ignored for a pty: none of the batch paths read a terminal stdin). Returns dict(rc, sig, out, err, hang)."""
    e = dict(BASE_ENV)
    if env:
        e.update(env)
    m_in = s_in = m_out = s_out = None
    try:
        if stdin == "pty":
            m_in, s_in = pty.openpty()
        if stdout == "pty":
            m_out, s_out = pty.openpty()
            a = termios.tcgetattr(s_out)
            a[1] &= ~termios.OPOST          # no \n -> \r\n translation: bytes arrive as written
            termios.tcsetattr(s_out, termios.TCSANOW, a)
        p = subprocess.Popen(argv, stdin=s_in if s_in is not None else subprocess.PIPE,
                             stdout=s_out if s_out is not None else subprocess.PIPE,
                             stderr=subprocess.PIPE, env=e, cwd=cwd, close_fds=True)
    except Exception:
        for fd in (m_in, s_in, m_out, s_out):
            if fd is not None:
                try: os.close(fd)
                except OSError: pass
        raise
    if s_in is not None:
        os.close(s_in)
    if s_out is not None:
        os.close(s_out)
    if p.stdin is not None:
        try:
            if data:
                p.stdin.write(data)
            p.stdin.close()
        except (BrokenPipeError, OSError):
            try: p.stdin.close()
            except Exception: pass
    fd_out = m_out if m_out is not None else p.stdout.fileno()
    fd_err = p.stderr.fileno()
    bufs = {fd_out: [], fd_err: []}
    live = {fd_out, fd_err}
    deadline = time.time() + timeout
    hang = False
    while live:
        left = deadline - time.time()
        if left <= 0:
            hang = True
            break
        r, _, _ = select.select(list(live), [], [], left)
        if not r:
            hang = True
            break
        for fd in r:
            try:
                chunk = os.read(fd, 65536)
            except OSError as ex:
                if ex.errno == errno.EIO:     # pty: slave side closed
                    chunk = b""
                else:
                    raise
            if chunk:
                bufs[fd].append(chunk)
            else:
                live.discard(fd)
    if hang:
        try: p.kill()
        except Exception: pass
    try:
        rc = p.wait(timeout=5)
    except subprocess.TimeoutExpired:
        p.kill(); rc = p.wait(); hang = True
    if p.stdout is not None:
        p.stdout.close()
    p.stderr.close()
    for fd in (m_in, m_out):
        if fd is not None:
            os.close(fd)
    sig = None
    if rc < 0:
        sig = _sig_name(-rc)
    return {"rc": rc, "sig": sig, "hang": hang,
            "out": b"".join(bufs[fd_out]).decode("latin-1"), "err": b"".join(bufs[fd_err]).decode("latin-1")}


# ---------------------------------------------------------------------------------------------- reference client
class RefCli:
    """one persistent mc_refcli process (line in, JSON line out)"""

    def __init__(self, bdir):
        self.p = subprocess.Popen([os.path.join(bdir, "mc_refcli")], stdin=subprocess.PIPE, stdout=subprocess.PIPE,
                                  env=dict(BASE_ENV), text=True, bufsize=1)

    def ask(self, line):
        self.p.stdin.write(line + "\n")
        self.p.stdin.flush()
        rep = self.p.stdout.readline()
        if not rep:
            raise RuntimeError("mc_refcli died on: " + line)
        return json.loads(rep)

    def run(self, sv, flags, allow_disabled, script_hex, stack):
        r = self.ask("run %d %d %d %s %s" % (sv, flags, 1 if allow_disabled else 0, script_hex or "-",
                                             ",".join(stack) if stack else "-"))
        if "error" in r:
            raise RuntimeError("mc_refcli: %s" % r["error"])
        return r

    def close(self):
        try:
            self.p.stdin.close(); self.p.wait(timeout=5)
        except Exception:
            self.p.kill()


_REF = {}


def refcli(bdir):
    """per-process singleton"""
    k = (os.getpid(), bdir)
    if k not in _REF:
        _REF[k] = RefCli(bdir)
    return _REF[k]


# ---------------------------------------------------------------------------------------------- misc
def crash_class(r):
    """narrow name of an abnormal termination, or None"""
    if r["hang"]:
        return None
    if r["sig"]:
        ex = None
        mark = "terminate called after throwing an instance of '"
        i = r["err"].find(mark)
        if i >= 0:
            j = r["err"].find("'", i + len(mark))
            ex = r["err"][i + len(mark):j]
        return "%s%s" % (r["sig"], (":exception=" + ex) if ex else "")
    return None


class Violations:
    """group by key: count + deterministic (smallest sort key) first example"""

    def __init__(self):
        self.d = {}

    def add(self, key, what, replay, order=None):
        o = order if order is not None else json.dumps(replay, sort_keys=True)
        cur = self.d.get(key)
        if cur is None:
            self.d[key] = [1, o, what, replay]
        else:
            cur[0] += 1
            if o < cur[1]:
                cur[1], cur[2], cur[3] = o, what, replay

    def merge_rows(self, rows):
        for key, what, replay, order in rows:
            self.add(key, what, replay, order)

    def out(self):
        return [{"key": k, "what": v[2], "count": v[0], "replay": v[3]} for k, v in sorted(self.d.items())]


_HANGS = {}


def hang_abort(scratch, hang=None, limit=3):
    """Mass-hang guard: hang=True records a timed-out run; once one worker has seen `limit` of them it drops a
    marker into the scratch directory and every worker skips its remaining cases (reported as skipped, the run is
    then not exhaustive). Returns True when the remaining cases are to be skipped."""
    marker = os.path.join(scratch, "ABORT-AFTER-HANGS")
    if hang:
        k = (os.getpid(), scratch)
        _HANGS[k] = _HANGS.get(k, 0) + 1
        if _HANGS[k] >= limit:
            try:
                open(marker, "w").close()
            except OSError:
                pass
    return os.path.exists(marker)


def scratch_cwd(bdir, tag):
    d = os.path.join(bdir, "scratch.%s.%d" % (tag, os.getpid()))
    os.makedirs(d, exist_ok=True)
    return d
