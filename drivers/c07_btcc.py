"""C07 — btcc assembles every token sequence into the exact minimal encoding.

Exhaustive enumeration of a bounded token grammar against the real `btcc` binary; the oracle is the reference
assembler in pyref_codec.py (documented classification order, emission rules of the property statement).
Verdict per case: (a) stdout == reference bytes.  When (a) fails the output is decoded and (b) "same operation
sequence and every push minimal" is evaluated for the report.  Nothing is sampled: every listed case is run.
"""
import json, os, random, signal, subprocess, sys, time
from multiprocessing import Pool

sys.path.insert(0, os.path.dirname(os.path.abspath(__file__)))
import pyref_codec as R  # noqa: E402

BTCC = None


# ------------------------------------------------------------------------------------------------ case generation
def filler(kind, n):
    if kind == 0:
        return bytes((i * 37 + 0x5b) & 0xff for i in range(n))
    if kind == 1:
        return b"\xff" * n
    return b"\x00" * n


STRAT = [0x00, 0x01, 0x02, 0x10, 0x11, 0x7f, 0x80, 0x81, 0xff]
SEQ_TOKENS = ["OP_DUP", "ADD", "OP_x4c", "0", "17", "-1", "0x", "0x81", "0xdeadbeef00", "ab", "[OP_1 2]", "0x00"]
BODIES = ["", "OP_DUP", "OP_1", "0", "OP_RIGHT", "17", "OP_DUP OP_ADD", "OP_1 OP_0", "OP_0 OP_0", "1000", "OP_1 OP_2 OP_3 OP_4 OP_5",
          "0x" + filler(0, 74).hex(), "0x" + filler(0, 75).hex(), "0x" + filler(0, 252).hex(), "0x" + filler(0, 253).hex()]
SEPS = [("sp", " "), ("sp2", "  "), ("tab", "\t"), ("nl", "\n"), ("crlf", "\r\n"), ("mix", " \t \n"),
        ("comment", " # a comment\n"), ("comment-adjacent", "# c\n"), ("comment-cr", " #x\r")]


def decimals():
    s = set(range(-17, 18))
    for k in (7, 8, 15, 16, 23, 24, 31, 32, 39, 40, 47, 48, 55, 56, 63):
        for d in (-1, 0, 1):
            for sg in (1, -1):
                v = sg * ((1 << k) + d)
                if R.INT64_MIN <= v <= R.INT64_MAX:
                    s.add(v)
    s.update([8388607, -8388607, 8388608, -8388608, 2**63 - 1, -2**63, -2**63 + 1])
    return sorted(s)


def gen_cases(tier):
    """-> list of (class, mode, argv).  mode: 'asm' (reference assembler applies), 'split' (a bracket typed without
    quotes, i.e. split over several argv items; expected = the same bracket in one item), 'obs' (outside the grammar:
    crash-freedom only)"""
    thorough = tier == "thorough"
    C = []
    add = lambda cls, argv, mode="asm": C.append((cls, mode, list(argv)))
    # -- opcode names, both spellings
    for name in R.OPCODES:
        add("opname-prefixed", ["OP_" + name]); add("opname-bare", [name])
    for nn in range(256):
        h = "%02x" % nn
        add("op-escape-prefixed", ["OP_x" + h]); add("op-escape-bare", ["x" + h])
        if h.upper() != h:
            add("op-escape-prefixed", ["OP_x" + h.upper()]); add("op-escape-bare", ["x" + h.upper()])
    # -- decimals
    for v in decimals():
        add("decimal", [str(v)])
    # -- hex literals
    add("hex-empty", ["0x"])
    for b in range(256):
        h = "%02x" % b
        add("hex1-0x", ["0x" + h]); add("hex1-bare", [h])
        if h.upper() != h:
            add("hex1-0x", ["0x" + h.upper()]); add("hex1-bare", [h.upper()])
    if thorough:
        for v in range(65536):
            h = "%04x" % v
            add("hex2-0x", ["0x" + h]); add("hex2-bare", [h])
    for a in STRAT:
        for b in STRAT:
            h = "%02x%02x" % (a, b)
            if not thorough:
                add("hex2-0x", ["0x" + h]); add("hex2-bare", [h])
            if h.upper() != h:
                add("hex2-0x", ["0x" + h.upper()]); add("hex2-bare", [h.upper()])
            for c in STRAT:
                add("hex3-0x", ["0x%s%02x" % (h, c)])
                if thorough:
                    add("hex3-bare", ["%s%02x" % (h, c)])
                    for d in STRAT:
                        add("hex4-0x", ["0x%s%02x%02x" % (h, c, d)])
    if not thorough:
        for a in (0x00, 0x7f, 0x80, 0xff):
            for b in (0x00, 0x7f, 0x80, 0xff):
                for c in (0x00, 0x7f, 0x80, 0xff):
                    for d in (0x00, 0x01, 0x7f, 0x80, 0x81, 0xff):
                        add("hex4-0x", ["0x%02x%02x%02x%02x" % (a, b, c, d)])
    for h in ("ffffff7f", "ffffffff", "00000080", "0000008000", "ffffffff7f", "000080", "008000", "800000", "00000000", "0000000000",
              "ffffff00", "ffffff80", "ffffffff00", "ffffffff80", "7f", "ff7f", "ffff7f", "0000000080"):
        add("hexV-0x", ["0x" + h]); add("hexV-bare", [h])
    lens = [5, 6, 74, 75, 76, 77, 254, 255, 256, 257, 519, 520, 521, 522] + ([1000, 4096, 65535] if thorough else [1000])
    for n in lens:
        for k in ((0, 1, 2) if thorough else (0, 1)):
            b = filler(k, n)
            if n * 2 + 2 < 131072:
                add("hexlen-0x", ["0x" + b.hex()])
            if k < 2:   # an all-zero bare string of even length is still hex ("00..": not a canonical decimal)
                add("hexlen-bare", [b.hex()])
    # -- brackets, nesting depth 0..8
    for body in BODIES:
        for d in range(0, 9):
            if d == 0:
                toks = R.tokenize_body(body)
                if toks:
                    add("nest-d0", toks)
            else:
                add("nest-d%d" % d, ["[" * d + body + "]" * d])
    # -- sequences over the 12-token set
    for a in SEQ_TOKENS:
        add("single", [a])
        for b in SEQ_TOKENS:
            add("pair", [a, b])
            add("pair-in-bracket", ["[%s %s]" % (a, b)])
            add("pair-in-bracket2", ["[[%s %s]]" % (a, b)])
            add("pair-split-bracket", ["[" + a, b + "]"], "split")
            # nested brackets typed without quotes: the first piece opens two or three brackets / an inner group opens later / closes early
            add("nested-split-bracket", ["[[" + a, b + "]", "OP_3]"], "split")
            add("nested-split-bracket", ["[" + a, "[" + b, "OP_3]]"], "split")
            add("nested-split-bracket", ["[[[" + a, b + "]", "OP_3]", "4]"], "split")
            add("nested-split-bracket", ["[[" + a + "]", b + "]"], "split")
            # two groups typed without quotes in one invocation, of different shapes, with other tokens around them (state kept from the
            # first group - a scan offset, a depth - must not reach the second)
            add("two-split-brackets", ["[" + a, b + "]", "[0xaabbcc", "4", a + "]"], "split")
            add("two-split-brackets", ["[" + a, b + "]", "OP_DUP", "[OP_3", "[4", b + "]]", "OP_EQUAL"], "split")
            add("two-split-brackets", ["10", "[OP_1", "OP_2]", "[" + a, "OP_HASH160", "0xabcd", b + "]"], "split")
            add("two-split-brackets", ["[[" + a, "OP_2]", b + "]", "[" + b, a + "]"], "split")
            for nm, sep in SEPS:
                add("ws-" + nm, ["[" + a + sep + b + "]"])
                add("ws-" + nm + "-padded", ["[ " + a + sep + b + sep + "]"])
            # comments that contain brackets, at the top level of a sub-script and inside a nested one
            for nm, sep in (("comment-close", " # a ] b\n"), ("comment-open", " # [ x\n"), ("comment-both", " # ][ [[ ]\n")):
                add("ws-" + nm, ["[" + a + sep + b + "]"])
                add("ws-" + nm + "-nested", ["[[" + a + sep + b + "] OP_3]"])
                add("ws-" + nm + "-nested2", ["[OP_3 [" + a + sep + b + "]" + sep + "]"])
            for c in SEQ_TOKENS:
                add("triple", [a, b, c])
                if thorough:
                    add("triple-in-bracket", ["[%s %s %s]" % (a, b, c)])
                    add("triple-split-bracket", ["[" + a, b, c + "]"], "split")
    # -- outside the grammar: crash-freedom only, outcome recorded
    for t in ["OP_NOP2", "OP_NOP3", "NOP2", "op_dup", "dup", "OP_dup", "-0", "+1", "007", "0x0", "0x123", "0X12", "hello", "OP_", "OP_x", "OP_xg0",
              "OP_x123", "9223372036854775808", "-9223372036854775809", "1 2", "OP_DUP OP_ADD", "1 # c", " 1", "1 ", "[1 2] 3", "[1", "1]", "[[1]",
              "[1][2]", "nosuch(1)", "--", "-", "0b11"]:
        add("outside-grammar", [t], "obs")
    return C


# ------------------------------------------------------------------------------------------------ execution
def run_btcc(argv, timeout=60):
    try:
        p = subprocess.run([BTCC] + argv, stdout=subprocess.PIPE, stderr=subprocess.PIPE, timeout=timeout, close_fds=False)
    except subprocess.TimeoutExpired:
        return ("timeout", None, "", "")
    out = p.stdout.decode("latin1")
    err = p.stderr.decode("latin1")
    if p.returncode < 0:
        try:
            sg = signal.Signals(-p.returncode).name
        except ValueError:
            sg = "SIG%d" % -p.returncode
        return ("crash", sg, out, err)
    return ("exit", p.returncode, out, err)


def crash_what(err):
    for l in err.split("\n"):
        if "what():" in l:
            return l.split("what():", 1)[1].strip().replace(" ", "_")[:40]
    for l in err.split("\n"):
        if "terminate called" in l and "'" in l:
            return l.split("'")[1]
    return "-"


def short(argv):
    s = " ".join(repr(a) if len(a) <= 80 else repr(a[:40] + "...(%d chars)" % len(a)) for a in argv)
    return s if len(s) < 400 else s[:400] + "..."


def b_check(out_bytes, exp_ops):
    """(b) of the property: decoded operation sequence == expected one, and every push minimal"""
    ok, ops = R.decode_script(out_bytes)
    if not ok:
        return "undecodable-output"
    got = [("push", d) if (o <= 0x60 and o != 0x50) else ("op", o) for o, d in ops]
    # OP_0 / OP_1NEGATE / OP_1..OP_16 given *by name* are pushes of their value
    exp_ops = [("push", b"" if v == 0 else b"\x81" if v == 0x4f else bytes([v - 0x50])) if (k == "op" and (v == 0 or v == 0x4f or 0x51 <= v <= 0x60)) else (k, v)
               for k, v in exp_ops]
    if got != exp_ops:
        return "operation-sequence-differs"
    for o, d in ops:
        if o <= 0x60 and o != 0x50 and not R.check_minimal_push(o, d):
            return "nonminimal-push"
    return "equivalent-and-minimal"


def rejoin_split(argv):
    """the argv items as the user meant them: pieces of a bracketed group typed without quotes are joined with one space again,
    items outside a group stay items of their own (a single split group gives one item, as before)"""
    out, acc, depth = [], None, 0
    for v in argv:
        bal = v.count("[") - v.count("]")
        if acc is None:
            if v.startswith("[") and bal > 0:
                acc, depth = v, bal
            else:
                out.append(v)
        else:
            acc += " " + v
            depth += bal
            if depth <= 0:
                out.append(acc)
                acc = None
    if acc is not None:
        out.append(acc)
    return out


def run_case(case):
    """-> (cls, mode, outcome, key|None, what|None, replay|None, sample|None)"""
    cls, mode, argv = case
    st, rc, out, err = run_btcc(argv)
    if mode == "obs":
        if st == "crash":
            return (cls, mode, "crash-outside-grammar:%s" % rc, None, None, None, "%s -> %s" % (short(argv), rc))
        return (cls, mode, "ran", None, None, None, "%s -> %s" % (short(argv), out.strip()[:60]))
    rp = {"argv": argv, "mode": mode}
    if st == "timeout":
        return (cls, mode, "timeout", "timeout:btcc:" + cls, "btcc %s timed out" % short(argv), rp, None)
    if st == "crash":
        return (cls, mode, "crash", "crash:btcc:%s:%s" % (rc, crash_what(err)), "btcc %s died with %s; stderr: %s" % (short(argv), rc, err[-300:]), rp, None)
    notes, ops = [], []
    toks = argv if mode == "asm" else rejoin_split(argv)
    try:
        exp = R.assemble(toks, notes, ops)
    except R.OutOfGrammar as ex:
        return (cls, mode, "generator-error", "generator-error:" + cls, "reference refuses %r" % (ex,), rp, None)
    rp["expected"] = exp.hex()
    o = out.strip()
    try:
        ob = bytes.fromhex(o)
    except ValueError:
        return (cls, mode, "not-hex", "output-not-hex:" + cls, "btcc %s printed %r (exit %s)" % (short(argv), o[:80], rc), rp, None)
    if rc != 0:
        return (cls, mode, "nonzero-exit", "nonzero-exit:%s:%s" % (cls, rc), "btcc %s exit %s, stdout %r stderr %r" % (short(argv), rc, o[:80], err[-200:]), rp, None)
    # reference self-consistency: the reference bytes decode to the reference operation sequence with minimal pushes
    # (only meaningful when no push opcode was emitted *by name*, which by construction swallows following bytes)
    raw_push_by_name = any(k == "op" and 0x01 <= v <= 0x4e for k, v in ops)
    if ob == exp:
        if not raw_push_by_name and mode == "asm" and b_check(exp, ops) != "equivalent-and-minimal":
            return (cls, mode, "reference-inconsistent", "generator-error:reference-b-check", "reference %s fails its own (b)" % exp.hex()[:80], rp, None)
        return (cls, mode, "ok", None, None, None, "btcc %s -> %s" % (short(argv), o[:80] + ("..." if len(o) > 80 else "")))
    b = b_check(ob, ops) if not raw_push_by_name else "n/a(raw push opcode by name)"
    what = "btcc %s -> %s ; the statement requires %s ; decode check (b): %s" % (short(argv), o[:120] or "(empty)", exp.hex()[:120], b)
    if mode == "split":
        single = run_btcc(toks)
        same = single[2].strip() == o
        return (cls, mode, "mismatch", "bracket-split-across-argv",
                what + " ; the same bracket passed as ONE argv item gives %s (%s)" % (single[2].strip()[:80], "same" if same else "different"), rp, None)
    if len(toks) == 1 and "]#" in toks[0]:
        # input shape: a comment glued to a closing bracket
        return (cls, mode, "mismatch", "comment-glued-to-closing-bracket", what, rp, None)
    if notes:
        # attribute to the first literal/body whose bytes are a short non-minimal number encoding -- provided the
        # output is just the concatenation of what the tool emits for the tokens one by one
        kind, ln, k = notes[0]
        if kind == "hex-literal":
            key = "hex-literal-reread-as-number:len=%d:class=%s" % (ln, k)
        else:
            key = "bracket-body-reread-as-number:bodylen=%d:class=%s" % (ln, k)
        if len(toks) > 1:
            parts = [run_btcc([t])[2].strip() for t in toks]
            if "".join(parts) != o:
                key = "sequence-not-compositional:" + cls
                what += " ; token-by-token outputs " + "+".join(parts)[:200]
        return (cls, mode, "mismatch", key, what, rp, None)
    c0 = R.classify(toks[0]) if len(toks) == 1 else None
    if c0 and c0[0] == "op" and ob == R.push_minimal(toks[0].encode()):
        nm = toks[0][3:] if toks[0].startswith("OP_") else toks[0]
        return (cls, mode, "mismatch", "opcode-name-emitted-as-string:%s" % nm.lower(), what, rp, None)
    return (cls, mode, "mismatch", "mismatch:%s:%s" % (cls, b.split("(")[0]), what, rp, None)


def _init(b):
    global BTCC
    BTCC = b


# ------------------------------------------------------------------------------------------------ driver entry points
def run(ctx):
    global BTCC
    t0 = time.time()
    BTCC = os.path.join(ctx.bdir, "btcc")
    st = R.selftest(os.path.join(ctx.bdir, "mc_refcli") if os.path.exists(os.path.join(ctx.bdir, "mc_refcli")) else None)
    if st:
        return dict(level="model_checking", coverage={"states": 0, "transitions": 0, "traces_validated_against_impl": 0, "samples": ["-"]},
                    violations=[], assumptions=[], summary="reference self-test failed", infra_error="pyref_codec selftest: " + "; ".join(st[:5]))
    cases = gen_cases(ctx.tier)
    random.Random(ctx.seed).shuffle(cases)
    states = len(set((m, tuple(a)) for _, m, a in cases))
    hist, outcomes, viol, samples, obs = {}, {}, {}, {}, {}
    validated = transitions = 0
    with Pool(os.cpu_count(), initializer=_init, initargs=(BTCC,)) as pool:
        for cls, mode, outcome, key, what, rp, sample in pool.imap_unordered(run_case, cases, chunksize=64):
            transitions += 1
            hist[cls] = hist.get(cls, 0) + 1
            if mode == "obs":
                obs[outcome] = obs.get(outcome, 0) + 1
                if len(samples.setdefault("outside-grammar", [])) < 40 and sample:
                    samples["outside-grammar"].append(sample)
                continue
            if outcome in ("ok", "mismatch"):
                validated += 1
            outcomes[outcome] = outcomes.get(outcome, 0) + 1
            if key:
                v = viol.setdefault(key, {"key": key, "what": what, "count": 0, "replay": rp})
                v["count"] += 1
                if len(json.dumps(rp)) < len(json.dumps(v["replay"])):   # keep the smallest failing input
                    v["what"], v["replay"] = what, rp
            elif sample and len(samples.setdefault(cls, [])) < 1:
                samples[cls].append(sample)
    vac = []
    for need in ("opname-prefixed", "opname-bare", "op-escape-prefixed", "decimal", "hex1-0x", "hex1-bare", "hex2-0x", "hexlen-0x", "nest-d8", "pair", "triple", "ws-comment"):
        if not hist.get(need):
            vac.append("class %s empty" % need)
    if outcomes.get("ok", 0) < transitions // 2:
        vac.append("fewer than half of the cases matched the reference (%d of %d)" % (outcomes.get("ok", 0), transitions))
    flat = [s for k in sorted(samples) if k != "outside-grammar" for s in samples[k]]
    cov = {
        "states": states, "transitions": transitions, "traces_validated_against_impl": validated,
        "samples": flat[:24], "exhaustive": True,
        "bounds": {
            "tier": ctx.tier, "opcode_names": len(R.OPCODES), "op_escapes": 256, "decimals": len(decimals()),
            "hex1": "all 256, 0x and bare, both letter cases",
            "hex2": "all 65536 in 0x and bare form" if ctx.tier == "thorough" else "both bytes from %s, 0x and bare" % [("%02x" % x) for x in STRAT],
            "hex3/hex4": "bytes from the same 9-value set (hex4 in quick: 4x4x4x6 boundary bytes)",
            "lengths": "5,6,74..77,254..257,519..522,1000" + (",4096,65535(bare; 0x form exceeds the 128 KiB argv limit)" if ctx.tier == "thorough" else ""),
            "nesting_depth": "0..8 around %d bodies" % len(BODIES), "sequence_tokens": SEQ_TOKENS,
            "sequences": "all ordered pairs and triples; pairs also inside one and two brackets, split over argv items, and with %d separator variants" % len(SEPS),
        },
        "histogram_by_token_class": dict(sorted(hist.items())),
        "distinct_outcomes": len(outcomes) + len(viol), "outcome_histogram": outcomes,
        "violation_keys": {k: v["count"] for k, v in sorted(viol.items())},
        "outside_grammar_observations": {"outcomes": obs, "examples": samples.get("outside-grammar", [])},
        "observations": [
            "btcc does not split an argv item on whitespace: 'btcc \"1 2\"' is one string token (outside the grammar); whitespace and # comments are only tokenised inside brackets, which is where the separator variants are checked",
            "OP_NOP2 / OP_NOP3 are not in the tool's name table and are pushed as strings (outside the grammar per DESIGN)",
        ],
        "wall_s_driver": round(time.time() - t0, 2),
    }
    return dict(level="model_checking", coverage=cov, violations=sorted(viol.values(), key=lambda v: v["key"]),
                assumptions=[
                    "token classification follows the documented order 0x -> bracket -> name(arg) -> canonical decimal -> opcode name -> even-length hex -> string (pinned by test/value.cpp)",
                    "tokens of the string class (unknown words, OP_NOP2/3, lower-case names, -0, +1, odd-length digit strings with leading zeros, several tokens in one argv item) are outside the grammar: crash-freedom only",
                    "'a push of the compiled body' is read as the minimal-form push (so a one-byte body 0x81 is OP_1NEGATE, 0x01..0x10 is OP_n, the empty body OP_0)",
                    "for sequences that name a push opcode directly (OP_PUSHDATA1, OP_x01..OP_x4e) only byte equality is checked: such bytes swallow what follows when decoded",
                    "hex literals longer than 65535 bytes cannot be passed (Linux limits one argv string to 128 KiB)",
                    "reference assembler in drivers/pyref_codec.py; its number/push primitives are cross-checked against the C++ reference (mc_refcli) before every run",
                ],
                summary="%d token sequences, %d matched the reference, %d violation keys" % (states, outcomes.get("ok", 0), len(viol)),
                infra_error="; ".join(vac) if vac else None)


def replay(ctx, path):
    global BTCC
    BTCC = os.path.join(ctx.bdir, "btcc")
    rp = json.load(open(path))["replay"]
    argv, mode = rp["argv"], rp.get("mode", "asm")
    toks = argv if mode == "asm" else [" ".join(argv)]
    try:
        exp = R.assemble(toks).hex()
    except R.OutOfGrammar:
        exp = None
    r1, r2 = run_btcc(argv), run_btcc(argv)
    print("argv     :", short(argv))
    print("run 1    :", r1[0], r1[1], r1[2].strip()[:200])
    print("run 2    :", r2[0], r2[1], r2[2].strip()[:200])
    print("reference:", (exp or "(outside grammar)")[:200])
    if r1[:3] != r2[:3]:
        print("NONDETERMINISTIC"); return 1
    if r1[0] == "exit" and r1[1] == 0 and exp is not None and r1[2].strip() == exp:
        print("holds"); return 0
    print("differs"); return 1
