"""C15 - "No input makes the tools crash or touch memory they do not own".

Deviation-bounded exhaustive enumeration (no sampling) of malformed inputs against the
AddressSanitizer+UBSan builds of btcc, btcdeb, tap and the forced-interactive btcdeb (btcdeb_tty),
plus a valgrind-memcheck slice on the plain builds for uninitialised reads.

Enumerated space (see coverage.bounds for the measured sizes):
  * every base input of c15_inputs.build_bases (one valid input per input class),
  * ALL single deviations of every base (c15_inputs.single_deviations),
  * ALL pairs of single deviations on disjoint argument slots for the bases marked pair=True,
  * every interactive command sequence of length <= 2 (quick) / <= 3 (thorough) over the command
    alphabet on each of the 6 sessions; every `tf fn args` command of c15_inputs.tf_commands alone and
    paired with step / rewind (before and after).

Oracle: the process ends by itself with exit status 0 or 1 (the only codes the three tools choose:
`return 0/1` from main, exit(1) from argument validation, tap's abort(msg) macro = exit(1)); no signal;
no AddressSanitizer / UBSan report; no uncaught C++ exception; no failed assert; no memcheck error.

Violation key:  <tool>:<class>:<kind>:<func>@<file>
  tool   btcc | btcdeb | tap | btcdeb_tty (interactive)
  class  asan | ubsan | uncaught | assert | signal | exit | valgrind      (hang:<tool>:<deviation kind> for time-outs)
  kind   asan error kind | normalised UBSan message | exception type | assertion expression | signal name
  func@file  first stack frame whose source file is inside the repository and not under secp256k1/
             (function name without parameters, file basename, no line numbers)

Execution strategy: every case first runs with unsymbolised reports (10-15 ms); each distinct raw report
signature is then re-run once with symbolisation to compute its key.  A run that stops on one of the two
"benign-to-continue" report kinds (alloc-dealloc-mismatch, load of an invalid enum value = copy of an
uninitialised field) is re-run with that check neutralised (alloc_dealloc_mismatch=0:malloc_fill_byte=0); a run that
stops on a UBSan report after which execution could continue (invalid enum load, null pointer passed to a nonnull
parameter, reference bound to null) is re-run on the plain binary (signals / aborts only, key frame "noframe"), so the
remainder of the execution is observed too.  All reports of all re-runs are recorded.

Key frame: frames in the generic container / serialisation layer (GENERIC_FILES, GENERIC_FUNCS: prevector, Span, serialize.h,
streams.h, uint256.h, primitives/transaction.h, CScript copy constructors) are passed over when a more specific in-tree
frame follows, so that e.g. every failure to deserialise a transaction in tap is one key (parse_tx@instance.cpp) rather than
one per throwing helper.  For an uncaught exception the stack is that of the last (re)throw.
"""
import hashlib
import json
import multiprocessing
import os
import re
import shutil
import signal
import subprocess
import sys
import tempfile
import time

sys.path.insert(0, os.path.dirname(os.path.abspath(__file__)))
import c15_inputs as I  # noqa: E402

TIMEOUT = 10
ASAN_BASE = "exitcode=99:detect_leaks=0:abort_on_error=0:allocator_may_return_null=1:color=never:handle_abort=1"
ENVS = {
    # variant -> (ASAN_OPTIONS, UBSAN_OPTIONS)
    "asan": (ASAN_BASE + ":symbolize=0", "print_stacktrace=0:halt_on_error=1"),
    "asan-sym": (ASAN_BASE + ":symbolize=1", "print_stacktrace=1:halt_on_error=1"),
    "relaxed": (ASAN_BASE + ":symbolize=0:alloc_dealloc_mismatch=0:malloc_fill_byte=0", "print_stacktrace=0:halt_on_error=1"),
    "relaxed-sym": (ASAN_BASE + ":symbolize=1:alloc_dealloc_mismatch=0:malloc_fill_byte=0", "print_stacktrace=1:halt_on_error=1"),
}
VALGRIND = ["valgrind", "-q", "--error-exitcode=97", "--track-origins=no", "--undef-value-errors=yes"]
OK_EXIT = (0, 1)

_ANSI = re.compile(r"\x1b\[[0-9;]*m")


# =================================================================================================
# worker state
class W:
    ctx = None
    bases = None
    txs = None
    sess = None
    alpha = None
    tfc = None
    cwd = None
    cache_base = None
    cache_per = None


def _init_worker(ctxd, scratch):
    W.ctx = ctxd
    W.bases, W.txs = I.build_bases(ctxd["repo"])
    W.sess = I.sessions(W.txs)
    W.alpha = I.command_alphabet()
    W.xlines = I.exec_pair_lines()
    W.tfc = I.tf_commands()
    W.cwd = os.path.join(scratch, "w%d" % os.getpid())
    os.makedirs(os.path.join(W.cwd, "doc"), exist_ok=True)
    dst = os.path.join(W.cwd, "doc", "txs")
    if not os.path.isdir(dst):
        shutil.copytree(os.path.join(ctxd["repo"], "doc", "txs"), dst)
    signal.signal(signal.SIGINT, signal.SIG_IGN)


def _per(bi):
    """per-slot deviation lists of base bi (+ the extra-option list as last element); cached for the last base"""
    if W.cache_base != bi:
        b = W.bases[bi]
        per = [I.slot_deviations(b, i, W.ctx["tier"]) for i in range(len(b.slots))]
        per.append(I.extra_option_deviations(b, W.ctx["tier"]))
        W.cache_base, W.cache_per = bi, per
    return W.cache_per


def _merge(r1, r2):
    r = dict(r1)
    for k, v in r2.items():
        if k in r:
            if k in ("FRONT", "END"):
                r[k] = r[k] + v
            else:
                return None
        else:
            r[k] = v
    return r


TF_PATTERNS = [("{tf}",), ("step", "{tf}"), ("{tf}", "step"), ("rewind", "{tf}"), ("{tf}", "rewind")]


def concretize(d):
    """descriptor -> dict(tool, bin, argv, stdin, env, base, kind, desc)"""
    t = d[0]
    if t in ("B", "D", "P"):
        b = W.bases[d[1]]
        if t == "B":
            kind, desc, repl = "base", "base input", {}
        elif t == "D":
            per = _per(d[1])
            kind, desc, repl = per[d[2]][d[3]]
        else:
            per = _per(d[1])
            k1, d1, r1 = per[d[2]][d[3]]
            k2, d2, r2 = per[d[4]][d[5]]
            repl = _merge(r1, r2)
            kind, desc = "pair:" + k1 + "+" + k2, d1 + " & " + d2
        argv, stdin = b.render(repl)
        binname = "btcdeb_tty" if b.mode == "argv" else b.tool
        return dict(tool=b.tool, bin=binname, argv=argv, stdin=stdin, env=dict(b.env), base=b.id, kind=kind, desc=desc)
    if t == "I":
        # a single deviation of a transaction argument of an auto-configured base, run in the interactive front end
        # (start-up view, print, steps, rewind) instead of batch mode
        b = W.bases[d[1]]
        kind, desc, repl = _per(d[1])[d[2]][d[3]]
        argv, _ = b.render(repl)
        cmds = I.INTERACTIVE_TX_COMMANDS
        return dict(tool="btcdeb_tty", bin="btcdeb_tty", argv=argv, stdin="".join(c + "\n" for c in cmds), env=dict(b.env), base=b.id + "@tty",
                    kind=kind + "@interactive", desc=desc + " ; then " + " ; ".join(cmds))
    if t == "T":
        sid, argv = W.sess[d[1]]
        cmds = [W.alpha[i] for i in d[2]]
        return dict(tool="btcdeb_tty", bin="btcdeb_tty", argv=list(argv), stdin="".join(c + "\n" for c in cmds), env={},
                    base="tty/" + sid, kind="cmdseq-len%d" % len(cmds), desc=" ; ".join(repr(c) for c in cmds) or "(no commands)")
    if t == "H":
        # the working directory does not allow the REPL to write its history file (.btcdeb_history is a directory there)
        sid, argv = W.sess[d[1]]
        cmds = list(d[2])
        return dict(tool="btcdeb_tty", bin="btcdeb_tty", argv=list(argv), stdin="".join(c + "\n" for c in cmds), env={}, histdir=True,
                    base="tty/" + sid + "@unwritable-history", kind="history-file-unwritable", desc=" ; ".join(repr(c) for c in cmds) or "(no commands)")
    if t == "R":
        # the front end over the READLINE build of kerl (what ./configure produces; the other interactive items use the build without
        # readline, which reads lines with fgets): continuation lines of an open quote, history loading and recording exist only there.
        # d[2]: ("tf", index) | ("cmd", index, index...) ; d[3]: name of a prepared history file, or None
        sid, argv = W.sess[d[1]]
        if d[2][0] == "tf":
            name, line = W.tfc[d[2][1]]
            cmds, desc = [line, "stack"], name
        else:
            cmds = [W.alpha[i] for i in d[2][1:]]
            desc = " ; ".join(repr(c) for c in cmds) or "(no commands)"
        return dict(tool="btcdeb_tty_rl", bin="btcdeb_tty_rl", argv=list(argv), stdin="".join(c + "\n" for c in cmds), env={}, histfile=d[3],
                    base="tty-readline/" + sid + ("@history:" + d[3] if d[3] else ""), kind="readline:" + d[2][0], desc=desc)
    if t == "X":
        sid, argv = W.sess[d[1]]
        line = W.xlines[d[2]]
        cmds = [line if c == "{x}" else c for c in I.EXEC_PAIR_PATTERNS[d[3]]]
        return dict(tool="btcdeb_tty", bin="btcdeb_tty", argv=list(argv), stdin="".join(c + "\n" for c in cmds), env={},
                    base="tty/" + sid, kind="exec-line-pair", desc=" ; ".join(repr(c) for c in cmds))
    if t == "F":
        sid, argv = W.sess[d[1]]
        name, line = W.tfc[d[2]]
        cmds = [line if c == "{tf}" else c for c in TF_PATTERNS[d[3]]]
        return dict(tool="btcdeb_tty", bin="btcdeb_tty", argv=list(argv), stdin="".join(c + "\n" for c in cmds), env={},
                    base="tty/" + sid, kind="tf" if d[3] == 0 else "tf+step/rewind",
                    desc=" ; ".join(TF_PATTERNS[d[3]]).replace("{tf}", name))
    raise ValueError(d)


def _env(variant, extra):
    e = {"PATH": "/usr/bin:/bin", "LC_ALL": "C"}
    if variant in ENVS:
        e["ASAN_OPTIONS"], e["UBSAN_OPTIONS"] = ENVS[variant]
    e.update(extra or {})
    return e


def execute(ctxd, cwd, c, variant, _retry=False):
    """run one concrete case -> (rc, signal name or None, stdout, stderr, hang flag)"""
    if variant.startswith("asan") or variant.startswith("relaxed"):
        cmd = [os.path.join(ctxd["bdir_asan"], c["bin"])]
    elif variant == "valgrind":
        cmd = VALGRIND + [os.path.join(ctxd["bdir"], c["bin"])]
    else:
        cmd = [os.path.join(ctxd["bdir"], c["bin"])]
    cmd += c["argv"]
    if c.get("histdir"):
        cwd = os.path.join(cwd, "histdir")
        os.makedirs(os.path.join(cwd, ".btcdeb_history"), exist_ok=True)
    if c.get("histfile"):
        cwd = os.path.join(cwd, "histfile")
        os.makedirs(cwd, exist_ok=True)
        with open(os.path.join(cwd, ".btcdeb_history"), "wb") as fh:
            fh.write(I.HISTORY_FILES[c["histfile"]])
    sin = c["stdin"]
    try:
        p = subprocess.Popen(cmd, stdin=subprocess.PIPE if sin is not None else subprocess.DEVNULL, stdout=subprocess.PIPE,
                             stderr=subprocess.PIPE, cwd=cwd, env=_env(variant, c["env"]), close_fds=True)
    except OSError as e:  # e.g. E2BIG
        return (-1000, None, b"", ("spawn failed: %s" % e).encode(), False)
    try:
        out, err = p.communicate(sin.encode("utf-8", "surrogateescape") if sin is not None else None,
                                 timeout=TIMEOUT * (6 if variant == "valgrind" else 1) * (3 if _retry else 1))
        hang = False
    except subprocess.TimeoutExpired:
        p.kill()
        out, err = p.communicate()
        hang = True
        if not _retry:
            # a loaded machine must not produce a false alarm: only a second time-out with a tripled limit counts
            return execute(ctxd, cwd, c, variant, _retry=True)
    rc = p.returncode
    sig = None
    if rc is not None and rc < 0 and not hang:
        try:
            sig = signal.Signals(-rc).name
        except ValueError:
            sig = "SIG%d" % -rc
    h = os.path.join(cwd, ".btcdeb_history")
    if c["bin"] in ("btcdeb_tty", "btcdeb_tty_rl") and os.path.exists(h):
        try:
            os.unlink(h)
        except OSError:
            pass
    return (rc, sig, out, err, hang)


# =================================================================================================
# report parsing
_UB = re.compile(r"^(\S+?):(\d+):(\d+): runtime error: (.*)$", re.M)
_AS = re.compile(r"ERROR: AddressSanitizer:? ([A-Za-z0-9_-]+)")
_TERM = re.compile(r"terminate called after throwing an instance of '([^'\[]+)")
_TERM2 = re.compile(r"terminate called (recursively|without an active exception)")
_ASSERT = re.compile(r"Assertion [`'](.*?)' failed")
_FR_SYM = re.compile(r"^\s*#(\d+) 0x[0-9a-f]+ in (.+?) (/[^\s:]+):(\d+)(?::\d+)?\s*$")
_FR_MOD = re.compile(r"^\s*#(\d+) 0x[0-9a-f]+ (?:in (.+?) )?\s*\((\S+?)\+0x([0-9a-f]+)\)")
_VG = re.compile(r"^==\d+== (\S.*)$")


def _slug(s, n=90):
    s = re.sub(r"0x[0-9a-fA-F]+", "H", s)
    s = re.sub(r"(?<![A-Za-z0-9_])-?\d+(?![A-Za-z_])", "N", s)
    s = re.sub(r"[^A-Za-z0-9_.:<>=!+&|-]+", "-", s).strip("-")
    return s[:n]


def _slug_expr(s, n=60):
    """assertion expressions keep their literals (assert(0) must stay '0')"""
    return re.sub(r"[^A-Za-z0-9_.:<>=!+&|-]+", "-", s).strip("-")[:n]


def _safe(s):
    return re.sub(r"[\[\]\*\?\s]", "_", s)


def first_stack_block(lines, start):
    """frames of the first stack trace at or after line index start"""
    fr = []
    begun = False
    for ln in lines[start:]:
        if re.match(r"^\s*#\d+ 0x", ln):
            begun = True
            fr.append(ln)
        elif begun:
            break
    return fr


def raw_signature(tool, rc, sig, err_text, hang, variant, binname):
    """coarse, symbolisation-free classification of one run.  -> None (run is fine) or a hashable signature"""
    if hang:
        return ("hang",)
    t = _ANSI.sub("", err_text)
    if variant == "valgrind":
        if rc == 97 or "== Invalid " in t or "uninitialised" in t:
            lines = t.splitlines()
            for k, ln in enumerate(lines):
                m = _VG.match(ln)
                if m and not m.group(1).startswith(("at ", "by ", "Address ", "Uninitialised ")):
                    what = m.group(1)
                    frames = []
                    for l2 in lines[k + 1:k + 14]:
                        m2 = re.match(r"^==\d+==\s+(?:at|by) 0x[0-9A-F]+: (.+?) \((?:in )?([^)]*)\)\s*$", l2)
                        if not m2:
                            if frames:
                                break
                            continue
                        frames.append((m2.group(1), m2.group(2)))
                    return ("valgrind", _slug(what), tuple(frames))
            return ("valgrind", "error-exitcode", ())
        # signals / aborts / exit codes of the plain binaries are the sanitizer pass's business, not the memcheck slice's
        return None
    m = _UB.search(t)
    ma = _AS.search(t)
    if m and (not ma or m.start() < ma.start()):
        return ("ubsan", "%s:%s:%s" % (m.group(1), m.group(2), m.group(3)), _slug(m.group(4)))
    if ma:
        kind = ma.group(1)
        lines = t.splitlines()
        idx = next(i for i, ln in enumerate(lines) if "ERROR: AddressSanitizer" in ln)
        offs = []
        for ln in first_stack_block(lines, idx):
            mm = _FR_MOD.match(ln)
            if mm and os.path.basename(mm.group(3)) == binname:
                offs.append(mm.group(4))
        extra = ""
        if kind == "ABRT":
            mt = _TERM.search(t)
            mx = _ASSERT.search(t)
            if mt:
                extra = "uncaught:" + mt.group(1)
            elif _TERM2.search(t):
                extra = "uncaught:(rethrow)"
            elif mx:
                extra = "assert:" + mx.group(1)
        return ("asan", kind, extra, tuple(offs[:8]))
    mt = _TERM.search(t)
    if mt:
        return ("uncaught", mt.group(1))
    mx = _ASSERT.search(t)
    if mx:
        return ("assert", mx.group(1))
    if sig:
        return ("signal", sig, ())
    if rc not in OK_EXIT:
        return ("exit", rc)
    return None


def _strip_func(f):
    """'void ns::T<int>::fn<char>(int, char) const' -> 'ns::T<int>::fn<char>'"""
    f = f.strip()
    f = re.sub(r"\s+\[clone [^\]]*\]$", "", f)
    f = re.sub(r"\s+\[with [^\]]*\]$", "", f)
    # drop the trailing parameter list
    depth = 0
    end = len(f)
    for k in range(len(f) - 1, -1, -1):
        ch = f[k]
        if ch == ")":
            if depth == 0:
                pass
            depth += 1
        elif ch == "(":
            depth -= 1
            if depth == 0:
                end = k
                break
    if f.endswith(")") or f.endswith(") const"):
        f = f[:end]
    # drop a leading return type (only present for templates): split at top-level spaces
    depth = 0
    last = 0
    for k, ch in enumerate(f):
        if ch in "<(":
            depth += 1
        elif ch in ">)":
            depth -= 1
        elif ch == " " and depth == 0:
            last = k + 1
    f = f[last:]
    return f or "?"


_A2L = {}


def _addr2line_file(binary, off, repo):
    key = (binary, off)
    if key not in _A2L:
        res = None
        try:
            r = subprocess.run(["addr2line", "-e", binary, "-f", "-C", "-i", "0x" + off], stdout=subprocess.PIPE,
                               stderr=subprocess.DEVNULL, text=True, timeout=60)
            ls = r.stdout.splitlines()
            for k in range(0, len(ls) - 1, 2):
                path = ls[k + 1].rsplit(":", 1)[0]
                if _in_tree(path, repo):
                    res = (_strip_func(ls[k]), os.path.basename(path))
                    break
        except (OSError, subprocess.TimeoutExpired):
            pass
        _A2L[key] = res
    return _A2L[key]


def _in_tree(path, repo):
    path = os.path.normpath(path)
    return path.startswith(repo.rstrip("/") + "/") and "/secp256k1/" not in path


_STD = ("std::", "__gnu_cxx::", "__cxa", "__cxxabiv1", "__interceptor", "__sanitizer", "__asan", "__ubsan", "operator new",
        "operator delete", "_start", "__libc")


GENERIC_FILES = ("prevector.h", "span.h", "serialize.h", "streams.h", "tinyformat.h", "strencodings.h", "strencodings.cpp", "vector.h",
                 "uint256.h", "transaction.h")
GENERIC_DIRS = ("/support/", "/compat/")
GENERIC_FUNCS = ("prevector<", "CScript::CScript", "CScriptBase", "Span<")


def _generic(path, func=""):
    return os.path.basename(path) in GENERIC_FILES or any(d in path for d in GENERIC_DIRS) or func.startswith(GENERIC_FUNCS)


def _frames_in_tree(frames, repo, bin_path):
    """[(func, file basename, generic?)] for the in-tree frames of a symbolised stack block, in order"""
    out = []
    for ln in frames:
        m = _FR_SYM.match(ln)
        if m:
            if _in_tree(m.group(3), repo):
                fn = _strip_func(m.group(2))
                out.append((fn, os.path.basename(m.group(3)), _generic(m.group(3), fn)))
            continue
        m = _FR_MOD.match(ln)
        if m and m.group(2) and os.path.basename(m.group(3)) == os.path.basename(bin_path):
            r = _addr2line_file(bin_path, m.group(4), repo)
            if r:
                out.append((r[0], r[1], _generic("/" + r[1], r[0])))
            else:
                core = _strip_func(m.group(2))
                if not core.startswith(_STD):
                    out.append((core, "unknown", False))
    return out


def top_frame(frames, repo, bin_path, recursion=False):
    """'func@file' of the first in-tree frame; frames in the generic container / serialisation layer (GENERIC_FILES) are
    passed over when a more specific in-tree frame follows.  For a stack overflow (recursion=True) the faulting frame is an
    arbitrary member of the recursion cycle, so the alphabetically first of the most frequent in-tree functions is used."""
    fr = _frames_in_tree(frames, repo, bin_path)
    if not fr:
        return "noframe"
    if recursion:
        cnt = {}
        for (f, fl, g) in fr:
            cnt[(f, fl)] = cnt.get((f, fl), 0) + 1
        mx = max(cnt.values())
        f, fl = sorted(k for k, v in cnt.items() if v >= max(1, mx - 1))[0]
        return "%s@%s" % (f, fl)
    for (f, fl, g) in fr:
        if not g:
            return "%s@%s" % (f, fl)
    return "%s@%s" % (fr[0][0], fr[0][1])


def make_key(tool, rc, sig, err_text, hang, variant, repo, bin_path, devkind=""):
    """-> violation key for one (symbolised) run, or None when the run is fine"""
    if hang:
        return "hang:%s:%s" % (tool, _safe(devkind.split(":")[0] or "base"))
    t = _ANSI.sub("", err_text)
    lines = t.splitlines()
    if variant == "valgrind":
        rs = raw_signature(tool, rc, sig, err_text, hang, variant, os.path.basename(bin_path))
        if rs is None:
            return None
        if rs[0] == "valgrind":
            what = rs[1]
            w = what.lower().replace("-", " ")
            if "conditional jump" in w:
                kind = "uninit-cond"
            elif "uninitialised value" in w:
                kind = "uninit-use"
            elif "uninitialised byte" in w:
                kind = "uninit-syscall-param"
            elif "invalid read" in w:
                kind = "invalid-read"
            elif "invalid write" in w:
                kind = "invalid-write"
            elif "mismatched" in w:
                kind = "mismatched-free"
            elif "invalid free" in w:
                kind = "invalid-free"
            else:
                kind = _slug(what, 40)
            fn = "?"
            for (f, obj) in rs[2]:
                if os.path.basename(obj) == os.path.basename(bin_path) or obj.endswith((".cpp", ".h", ".c")) or re.search(r"\.(cpp|h|c):\d+$", obj):
                    fn = _strip_func(f)
                    break
            return _safe("%s:valgrind:%s:%s" % (tool, kind, fn))
        if rs[0] == "signal":
            return _safe("%s:signal:%s:noframe" % (tool, rs[1]))
        return _safe("%s:exit:%s" % (tool, rs[1]))
    m = _UB.search(t)
    ma = _AS.search(t)
    if m and (not ma or m.start() < ma.start()):
        idx = t[:m.start()].count("\n")
        fr = first_stack_block(lines, idx)
        frame = top_frame(fr, repo, bin_path)
        if frame == "noframe" and _in_tree(m.group(1), repo):
            frame = "unknown@%s" % os.path.basename(m.group(1))
        return _safe("%s:ubsan:%s:%s" % (tool, _slug(m.group(4)), frame))
    if ma:
        kind = ma.group(1)
        idx = next(i for i, ln in enumerate(lines) if "ERROR: AddressSanitizer" in ln)
        frame = top_frame(first_stack_block(lines, idx), repo, bin_path, recursion=(kind == "stack-overflow"))
        if kind == "ABRT":
            mt = _TERM.search(t)
            mx = _ASSERT.search(t)
            if mt:
                return _safe("%s:uncaught:%s:%s" % (tool, mt.group(1), frame))
            if _TERM2.search(t):
                return _safe("%s:uncaught:rethrow:%s" % (tool, frame))
            if mx:
                return _safe("%s:assert:%s:%s" % (tool, _slug_expr(mx.group(1)), frame))
            return _safe("%s:signal:SIGABRT:%s" % (tool, frame))
        if kind in ("SEGV", "FPE", "ILL", "BUS"):
            return _safe("%s:signal:SIG%s:%s" % (tool, kind, frame))
        return _safe("%s:asan:%s:%s" % (tool, kind, frame))
    mt = _TERM.search(t)
    if mt:
        return _safe("%s:uncaught:%s:noframe" % (tool, mt.group(1)))
    mx = _ASSERT.search(t)
    if mx:
        return _safe("%s:assert:%s:noframe" % (tool, _slug_expr(mx.group(1))))
    if sig:
        return _safe("%s:signal:%s:noframe" % (tool, sig))
    if rc not in OK_EXIT:
        return _safe("%s:exit:%s" % (tool, rc))
    return None


def _diag(rc, err_text):
    for ln in _ANSI.sub("", err_text).splitlines():
        ln = ln.strip()
        if ln and not ln.startswith(("warning: ambiguous", "WARNING: This is experimental")):
            ln = re.sub(r"[0-9a-fA-F]{8,}", "H", ln)
            ln = re.sub(r"\d+", "N", ln)
            return ln[:48]
    return ""


MASKABLE_ASAN = ("alloc-dealloc-mismatch",)
ENUM_LOAD = "not-a-valid-value-for-type"
CONTINUABLE_UBSAN = (ENUM_LOAD, "null-pointer-passed-as-argument", "reference-binding-to-null-pointer")


def _maskable(rs):
    """reports after which the sanitized binary can be re-run with the check neutralised"""
    if rs is None:
        return False
    if rs[0] == "asan" and rs[1] in MASKABLE_ASAN:
        return True
    if rs[0] == "ubsan" and ENUM_LOAD in rs[2]:
        return True
    return False


def _next_variant(v, rs):
    """how the observation of an input continues after its run stopped on report rs (None: it does not)"""
    if rs is None:
        return None
    if v == "asan" and _maskable(rs):
        return "relaxed"
    if v in ("asan", "relaxed") and rs[0] == "ubsan" and any(k in rs[2] for k in CONTINUABLE_UBSAN):
        return "plain"
    return None


def work(item):
    """(descriptor, first variant) -> list of result tuples, one per process run:
       (descriptor, variant, tool, base, devkind, input hash, input size, rc, raw signature, behaviour digest, diag)"""
    d, variant = item
    c = concretize(d)
    ih = hashlib.md5(("%s|%s|%r|%r|%r" % (c["tool"], c["bin"], c["argv"], c["stdin"], sorted(c["env"].items()))).encode(
        "utf-8", "surrogateescape")).hexdigest()[:16]
    size = sum(len(a) for a in c["argv"]) + len(c["stdin"] or "")
    out = []
    v = variant
    for _ in range(3):
        t1 = time.time()
        rc, sig, so, se, hang = execute(W.ctx, W.cwd, c, v)
        ms = int(1000 * (time.time() - t1))
        set_ = se.decode("utf-8", "replace")
        rs = raw_signature(c["tool"], rc, sig, set_, hang, v, c["bin"])
        if rs is None:
            dg = hashlib.md5(("%s|" % rc).encode() + so + b"|" + se).hexdigest()[:12]
        else:
            dg = "V" + hashlib.md5(repr(rs).encode()).hexdigest()[:11]
        out.append((d, v, c["tool"], c["base"], c["kind"], ih, size, rc, rs, dg, _diag(rc, set_), ms, c["stdin"] == ""))
        v = _next_variant(v, rs)
        if v is None:
            break
    return out


def work_sym(item):
    """symbolising re-run of one representative -> (group id, key, concrete case, stderr excerpt)"""
    gid, d, variant = item
    c = concretize(d)
    sv = {"asan": "asan-sym", "relaxed": "relaxed-sym"}.get(variant, variant)
    rc, sig, so, se, hang = execute(W.ctx, W.cwd, c, sv)
    t = se.decode("utf-8", "replace")
    binp = os.path.join(W.ctx["bdir_asan"] if sv.endswith("-sym") else W.ctx["bdir"], c["bin"])
    key = make_key(c["tool"], rc, sig, t, hang, sv, W.ctx["repo"], binp, c["kind"])
    exc = _excerpt(t)
    return (gid, key, c, exc, rc, sig)


def _excerpt(t, n=1800):
    t = _ANSI.sub("", t)
    for pat in ("runtime error:", "ERROR: AddressSanitizer", "terminate called", "Assertion", "== "):
        k = t.find(pat)
        if k >= 0:
            k = t.rfind("\n", 0, k) + 1
            return t[k:k + n]
    return t[-n:]


# =================================================================================================
def enumerate_space(ctx, bases, txs):
    """-> (list of (descriptor, variant), bounds dict)"""
    tier = ctx.tier
    sess = I.sessions(txs)
    alpha = I.command_alphabet()
    tfc = I.tf_commands()
    items = []
    bounds = {}
    n_single = 0
    n_pair = 0
    per_all = {}
    skipped = []
    for bi, b in enumerate(bases):
        if tier == "quick" and not b.quick:
            skipped.append(b.id)
            continue
        per = [I.slot_deviations(b, i, tier) for i in range(len(b.slots))]
        per.append(I.extra_option_deviations(b, tier))
        per_all[bi] = per
        items.append((("B", bi), "asan"))
        for si, p in enumerate(per):
            for di in range(len(p)):
                items.append((("D", bi, si, di), "asan"))
                n_single += 1
    # the transaction-argument deviations of the auto-configured bases once more, in the interactive front end
    n_itx = 0
    for bi, b in enumerate(bases):
        if bi not in per_all or b.tool != "btcdeb" or b.mode != "batch" or b.klass not in ("tx+txin auto", "select"):
            continue
        for si, sl in enumerate(b.slots):
            if sl.vtype not in ("tx", "txin"):
                continue
            for di, (k, dd, r) in enumerate(per_all[bi][si]):
                if tier == "quick" and k in ("truncate", "non-hex-char", "odd-length-hex"):
                    continue      # quick: the structural (field-level) deviations; thorough: all
                items.append((("I", bi, si, di), "asan"))
                n_itx += 1
    # pairs: pair-marked bases with at least two slots, smallest first, while the budget of the tier lasts
    budget = 6500 if tier == "quick" else 10 ** 9
    pb = sorted([bi for bi, b in enumerate(bases) if b.pair and bi in per_all], key=lambda bi: (bases[bi].size(), bases[bi].id))
    pair_bases = []
    for bi in pb:
        per = per_all[bi]
        slots = list(range(len(per)))
        if tier == "quick":
            slots = slots[:-1]       # quick: the extra-option pseudo slot does not take part in pairs
        its = []
        for x in range(len(slots)):
            for y in range(x + 1, len(slots)):
                sa, sb = slots[x], slots[y]
                for i in range(len(per[sa])):
                    ri = per[sa][i][2]
                    for j in range(len(per[sb])):
                        if _merge(ri, per[sb][j][2]) is None:
                            continue
                        its.append((("P", bi, sa, i, sb, j), "asan"))
        if not its or n_pair + len(its) > budget:
            continue
        items += its
        n_pair += len(its)
        pair_bases.append((bases[bi].id, len(its)))
    # interactive
    L = 2 if tier == "quick" else 3
    n_seq = 0
    A = len(alpha)
    n_x = 0
    xlines = I.exec_pair_lines()
    for si in range(len(sess)):
        for xi in range(len(xlines)):
            for pi in range(len(I.EXEC_PAIR_PATTERNS)):
                if tier == "quick" and pi != 1:
                    continue     # quick: the line followed by four steps (a crash in the line itself shows there too)
                items.append((("X", si, xi, pi), "asan"))
                n_x += 1
    for si in range(len(sess)):
        seqs = [()]
        frontier = [()]
        for _ in range(L if (si < 6 or sess[si][0] in I.FULL_DEPTH_SESSIONS) else max(1, L - 1)):   # most sessions added later get one level less
            frontier = [s + (a,) for s in frontier for a in range(A)]
            seqs += frontier
        for s in seqs:
            items.append((("T", si, s), "asan"))
            n_seq += 1
    for si in range(min(3, len(sess))):
        for seq in ((), ("step",), ("step", "rewind", "print"), ("tf sha256 01", "exec OP_1", "help")):
            items.append((("H", si, seq), "asan"))
    n_tf = 0
    for si in range(min(6, len(sess))):     # the tf commands do not depend on the session: first six sessions only
        for ti in range(len(tfc)):
            for pi in range(len(TF_PATTERNS)):
                if tier == "quick" and pi > 0 and si != 0:
                    continue     # quick: the step/rewind pairings of the tf commands on the first session only
                items.append((("F", si, ti, pi), "asan"))
                n_tf += 1
    # the readline front end: every tf command line (the open-quote continuations among them), every command of the alphabet alone and
    # after a step, and start-up over each prepared history file
    n_rl = 0
    for ti in range(len(tfc)):
        items.append((("R", 0, ("tf", ti), None), "asan")); n_rl += 1
    for a in range(A):
        items.append((("R", 0, ("cmd", a), None), "asan")); n_rl += 1
        items.append((("R", 0, ("cmd", 0, a), None), "asan")); n_rl += 1
    for hname in sorted(I.HISTORY_FILES):
        for si in range(min(2, len(sess))):
            items.append((("R", si, ("cmd", 0, 3), hname), "asan")); n_rl += 1
    bounds["readline_front_end_runs"] = n_rl
    # valgrind slice (plain binaries)
    vg = []
    seen_k = set()
    for bi, b in enumerate(bases):
        if bi not in per_all:
            continue
        first = b.klass not in seen_k
        seen_k.add(b.klass)
        if tier == "thorough" or first:
            vg.append((("B", bi), "valgrind"))
        if b.tool == "btcdeb" and b.mode == "batch":
            sidx = next(i for i, s in enumerate(b.slots) if s.stdin)
            if tier == "thorough" or b.id in ("btcdeb/bracket", "btcdeb/auto-p2pkh", "btcdeb/flags-long", "btcdeb/z-OP_DIV",
                                               "btcdeb/sign-tx", "btcdeb/dataset-long"):
                vg.append((("D", bi, sidx, 0), "valgrind"))   # deviation 0 of a slot = delete -> empty stdin
        # hash-type deviations of signature arguments: uninitialised reads show under memcheck only
        for si, s in enumerate(b.slots):
            for di, (k, dd, r) in enumerate(per_all[bi][si]):
                if k == "sig-hashtype":
                    vg.append((("D", bi, si, di), "valgrind"))
        if tier == "thorough":
            for si, s in enumerate(b.slots):
                devs = I.slot_deviations(b, si, tier)
                for di, (k, dd, r) in enumerate(devs):
                    if k in ("empty", "delete-arg") and not (s.stdin and di == 0):
                        vg.append((("D", bi, si, di), "valgrind"))
    for si in range(len(sess)):
        vg.append((("T", si, ()), "valgrind"))
        if tier == "thorough":
            vg.append((("T", si, (0, 2, 3)), "valgrind"))
    items += vg
    bounds.update({
        "bases": len(per_all), "bases_left_to_thorough": skipped, "single_deviations": n_single, "pair_bases": pair_bases, "pair_deviations": n_pair,
        "pair_rule": "all unordered pairs of single deviations on two different slots" + (
            " (extra-option pseudo slot excluded in quick)" if tier == "quick" else " (extra-option pseudo slot included)"),
        "interactive_sessions": [s[0] for s in sess], "command_alphabet": alpha, "command_alphabet_size": A,
        "max_sequence_length": L, "max_sequence_length_rule": "sessions 1-6 and %s: L; the other sessions added later: L-1" % sorted(I.FULL_DEPTH_SESSIONS), "command_sequences": n_seq,
        "interactive_tx_deviations": n_itx, "interactive_tx_commands": I.INTERACTIVE_TX_COMMANDS,
        "exec_lines_with_two_operations": len(xlines), "exec_line_patterns": I.EXEC_PAIR_PATTERNS, "exec_line_cases": n_x,
        "tf_commands": len(tfc), "tf_rule": "each `tf fn args` alone on every session, and as (step,tf) (tf,step) (rewind,tf) (tf,rewind) " + (
            "on the first session" if tier == "quick" else "on every session"),
        "tf_cases": n_tf, "valgrind_slice": len(vg), "timeout_s": TIMEOUT,
        "truncation_rule": "values <= 240 chars: every character position; transaction hex: every byte boundary of the first 80 bytes, "
                           "every 8th byte after, both ends of every field and one nibble into every field; other long values: every "
                           "position < 160, every 16th after, the last 8",
    })
    return items, bounds


def _describe(c, maxlen=300):
    def sh(a):
        return a if len(a) <= maxlen else "%s...<%d chars>" % (a[:60], len(a))
    s = "%s %s" % (c["bin"], " ".join(repr(sh(a)) for a in c["argv"]))
    if c["env"]:
        s = " ".join("%s=%s" % kv for kv in sorted(c["env"].items())) + " " + s
    if c["stdin"] is not None:
        s += " <<< " + repr(sh(c["stdin"]))
    return s


def run(ctx):
    t0 = time.time()
    if not ctx.bdir_asan or not os.path.exists(os.path.join(ctx.bdir_asan, "btcdeb")):
        return dict(level="fault_enumeration", coverage={"evaluations": 0, "distinct_nontrivial": 0, "rule": "-", "samples": []},
                    violations=[], infra_error="sanitizer build missing (ctx.bdir_asan)")
    repo = os.path.realpath(ctx.repo)
    ctxd = dict(repo=repo, tier=ctx.tier, bdir=ctx.bdir, bdir_asan=ctx.bdir_asan)
    bases, txs = I.build_bases(repo)
    items, bounds = enumerate_space(ctx, bases, txs)
    # the seed only permutes the order in which blocks are visited
    if ctx.seed:
        import random
        blocks = {}
        for it in items:
            blocks.setdefault((it[0][0], it[0][1], it[1]), []).append(it)
        ks = sorted(blocks, key=repr)
        random.Random(ctx.seed).shuffle(ks)
        items = [it for k in ks for it in blocks[k]]
    scratch = tempfile.mkdtemp(prefix="c15-", dir=ctx.bdir)
    tm = os.times()
    cpu0 = tm.children_user + tm.children_system
    ncpu = os.cpu_count() or 4
    results = []
    t_enum = time.time() - t0
    try:
        with multiprocessing.Pool(ncpu, initializer=_init_worker, initargs=(ctxd, scratch)) as pool:
            # phase 0: bases and empty sessions first (their behaviour digest is the reference for "non-trivial")
            base_items = [it for it in items if it[1] == "asan" and (it[0][0] == "B" or (it[0][0] == "T" and it[0][2] == ()))]
            base_res = pool.map(work, base_items, chunksize=1)
            base_digest = {}
            skip_primary = set()
            for rl in base_res:
                for r in rl:
                    results.append(r)
                for r in rl:
                    base_digest[(r[3], r[1])] = r[9]
                # an interactive session whose start-up already stops on a maskable report: its sequences run relaxed
                if rl[0][0][0] == "T" and _maskable(rl[0][8]):
                    skip_primary.add(rl[0][0][1])
            rest = []
            done = set(id(x) for x in base_items)
            for it in items:
                if id(it) in done:
                    continue
                if it[1] == "asan" and it[0][0] in ("T", "F") and it[0][1] in skip_primary:
                    it = (it[0], "relaxed")
                rest.append(it)
            for rl in pool.imap_unordered(work, rest, chunksize=48):
                results.extend(rl)
            t_main = time.time() - t0
            # phase 2: one symbolising re-run per distinct raw signature
            groups = {}
            for r in results:
                (d, v, tool, base, kind, ih, size, rc, rs, dg, diag) = r[:11]
                if rs is None:
                    continue
                g = groups.setdefault((tool, v, rs), [0, []])
                g[0] += 1
                # representatives = the smallest inputs; an input for the tool's own binary is preferred over the argv-mode
                # harness form, and empty stdin (btcdeb then parses an uninitialised buffer: not reproducible) comes last
                rank = (1 if r[12] else 0, 1 if (d[0] in ("B", "D", "P") and bases[d[1]].mode == "argv") else 0, size)
                g[1].append((rank, d))
                if len(g[1]) > 8:
                    g[1].sort(key=lambda x: (x[0], repr(x[1])))
                    del g[1][3:]
            glist = sorted(groups.items(), key=lambda kv: repr(kv[0]))
            for kv in glist:
                kv[1][1].sort(key=lambda x: (x[0], repr(x[1])))
                del kv[1][1][3:]
            sym = [None] * len(glist)
            n_sym = 0
            for attempt in range(3):
                todo = [(gi, g[1][1][attempt][1], g[0][1]) for gi, g in enumerate(glist)
                        if (sym[gi] is None or sym[gi][1] is None) and len(g[1][1]) > attempt]
                n_sym += len(todo)
                for res in pool.map(work_sym, todo, chunksize=1):
                    if sym[res[0]] is None or res[1] is not None:
                        sym[res[0]] = res
    finally:
        shutil.rmtree(scratch, ignore_errors=True)
    tm = os.times()
    cpu_children = tm.children_user + tm.children_system - cpu0
    # ---- violations by key
    by_key = {}
    for (gi, key, c, exc, rc, sig) in sym:
        (tool, v, rs), (cnt, cands) = glist[gi]
        size = cands[0][0]
        if key is None:
            # none of the (up to three) symbolised re-runs reproduced the report: a flaky outcome is itself a finding;
            # the key carries the report class only (module offsets would not be stable across builds)
            key = _safe("%s:unreproduced:%s" % (tool, _slug(":".join(str(x) for x in rs[:3] if isinstance(x, str)), 80)))
        e = by_key.setdefault(key, dict(count=0, size=None))
        e["count"] += cnt
        if e["size"] is None or size < e["size"]:
            e.update(size=size, case=c, variant=v, excerpt=exc, rc=rc, sig=sig)
        e.setdefault("bases", set()).add(c["base"])
    violations = []
    for key in sorted(by_key):
        e = by_key[key]
        c = e["case"]
        violations.append({
            "key": key,
            "what": "%s [%s; base %s; %s: %s] -> rc=%s%s :: %s" % (
                _describe(c), e["variant"], c["base"], c["kind"], c["desc"][:120], e["rc"], (" " + e["sig"]) if e["sig"] else "",
                " | ".join(x.strip() for x in e["excerpt"].splitlines()[:4])[:500]),
            "count": e["count"],
            "replay": {"tool": c["tool"], "bin": c["bin"], "argv": c["argv"], "stdin": c["stdin"], "env": c["env"],
                       "variant": e["variant"], "base": c["base"], "deviation": "%s: %s" % (c["kind"], c["desc"]), "key": key},
        })
    # ---- coverage
    evaluations = len(results) + n_sym
    inputs = {}
    for r in results:
        (d, v, tool, base, kind, ih, size, rc, rs, dg, diag) = r[:11]
        if v in ("asan", "relaxed") and ih not in inputs:
            inputs[ih] = (base, dg, d, v)
    nontrivial = 0
    for ih, (base, dg, d, v) in inputs.items():
        if d[0] == "B" or (d[0] == "T" and d[2] == ()):
            continue
        if base_digest.get((base, v)) != dg:
            nontrivial += 1
    per_tool, per_kind, per_variant, outcomes, rc_hist = {}, {}, {}, set(), {}
    n_viol_runs = 0
    for r in results:
        (d, v, tool, base, kind, ih, size, rc, rs, dg, diag) = r[:11]
        per_tool[tool] = per_tool.get(tool, 0) + 1
        per_variant[v] = per_variant.get(v, 0) + 1
        kk = kind.split(":")[0] if not kind.startswith("pair:") else "pair"
        per_kind[kk] = per_kind.get(kk, 0) + 1
        oc = (tool, "viol:" + ":".join(str(x) for x in rs[:2])) if rs is not None else (tool, "rc%s" % rc, diag)
        outcomes.add(oc)
        rk = "%s:%s" % (tool, "violation" if rs is not None else "rc%s" % rc)
        rc_hist[rk] = rc_hist.get(rk, 0) + 1
        if rs is not None:
            n_viol_runs += 1
    samples = []
    seen = set()
    for r in results:
        (d, v, tool, base, kind, ih, size, rc, rs, dg, diag) = r[:11]
        kk = (tool, kind.split(":")[0])
        if kk in seen or len(samples) >= 14 or size > 400:
            continue
        seen.add(kk)
        samples.append({"descriptor": list(d) if d[0] != "T" else ["T", d[1], list(d[2])], "tool": tool, "base": base,
                        "deviation": kind, "variant": v, "exit": rc, "first_diagnostic": diag,
                        "outcome": "ok" if rs is None else "violation:%s" % ":".join(str(x) for x in rs[:2])})
    for vv in violations[:6]:
        samples.append({"violation_key": vv["key"], "input": vv["what"][:300]})
    wall = time.time() - t0
    slow = sorted(results, key=lambda r: -r[11])[:5]
    cov = {
        "evaluations": evaluations,
        "distinct_nontrivial": nontrivial,
        "distinct_inputs": len(inputs),
        "rule": "enumeration: every base input, every single deviation of every base (truncate at every position / delete / "
                "duplicate an argument, every size/count/index/number field of a transaction hex replaced by each listed value - for the "
                "funding transaction also with the spending transaction's prevout re-linked -, every index argument by each listed value, "
                "empty / 10^4-character arguments, unbalanced brackets depth 1..8, odd-length hex, non-hex characters per position class, "
                "boundary numbers, 520/521/10000-byte items, every option of the tool empty / missing / oversized), all pairs of single "
                "deviations on distinct slots for the small bases, and every interactive command sequence up to the length bound; "
                "a case is non-trivial when its (exit status, stdout, stderr) or sanitizer outcome differs from that of its base input; "
                "distinct = distinct (tool, argv, stdin) after rendering",
        "samples": samples,
        "exhaustive": True,
        "bounds": bounds,
        "processes_per_tool": per_tool,
        "processes_per_deviation_kind": dict(sorted(per_kind.items())),
        "processes_per_variant": per_variant,
        "symbolising_reruns": n_sym,
        "distinct_outcome_classes": len(outcomes),
        "exit_histogram": dict(sorted(rc_hist.items())),
        "runs_ending_in_a_violation": n_viol_runs,
        "distinct_raw_report_signatures": len(glist),
        "distinct_violation_keys": len(violations),
        "wall_enumerate_s": round(t_enum, 1), "wall_main_s": round(t_main, 1), "wall_total_s": round(wall, 1),
        "cpus": ncpu, "cpu_s_workers_and_children": round(cpu_children, 1),
        "process_ms_total": sum(r[11] for r in results),
        "slowest_processes": [{"ms": r[11], "tool": r[2], "base": r[3], "deviation": r[4], "variant": r[1]} for r in slow],
    }
    infra = None
    # native sweep under the sanitizers: every operand tuple of the 15 re-enabled opcodes (C17's enumeration, mc_bounds --mode c17) executed
    # through Instance/StepScript in the ASan+UBSan flavour; only worker deaths (abort, trap, sanitizer report) are taken from it
    import props as _props
    if os.path.exists(os.path.join(ctx.bdir_asan, "mc_bounds")):
        r17 = _props.run_engine(ctx, "mc_bounds", ["--mode", "c17"], bdir=ctx.bdir_asan)
        if "infra_error" in r17:
            infra = "native sanitizer sweep failed: %s" % r17["infra_error"]
        else:
            nat = [v for v in r17["violations"] if ":crash:" in v["key"]]
            for v in nat:
                violations.append({"key": "native-sweep:" + v["key"], "what": "sanitizer build, re-enabled opcode sweep: " + v["what"], "count": v.get("count", 1), "replay": v.get("replay")})
            cov["native_sanitizer_sweep"] = {"engine": "mc_bounds --mode c17 (asan+ubsan flavour)", "operand_tuples": r17.get("cases"), "worker_deaths": len(nat)}
            cov["distinct_violation_keys"] = len(violations)
    else:
        infra = "sanitizer build of mc_bounds missing"
    # the history file read at start-up by the readline build of kerl (the checks' REPL runs use the build without readline, where that
    # loader does not exist): every history file of up to 2 (thorough: 3) lines over 14 line shapes, loaded by the real
    # kerl_set_history_file in the sanitizer flavour (mc/kerlhist.c)
    kh = os.path.join(ctx.bdir_asan, "khist.%d" % os.getpid())
    if os.path.exists(os.path.join(ctx.bdir_asan, "kerlhist")):
        os.makedirs(kh, exist_ok=True)
        try:
            r = subprocess.run([os.path.join(ctx.bdir_asan, "kerlhist"), kh, "3" if ctx.tier == "thorough" else "2"], stdout=subprocess.PIPE, stderr=subprocess.PIPE, text=True, timeout=1800,
                               env=dict(os.environ, ASAN_OPTIONS="detect_leaks=0", UBSAN_OPTIONS="print_stacktrace=0"))
            summ = [l.split("\t") for l in r.stdout.splitlines() if l.startswith("SUMMARY\t")]
            if r.returncode != 0 or not summ:
                infra = "kerlhist failed: exit %s %s" % (r.returncode, (r.stderr or r.stdout)[-500:])
            else:
                byk = {}
                for l in r.stdout.splitlines():
                    if not l.startswith("DEATH\t"):
                        continue
                    f = l.split("\t")
                    head = re.sub(r"[0-9]+", "N", f[5].split("error: ")[-1].split("ERROR: ")[-1])[:120] if len(f) > 5 and f[5] else "%s-%s" % (f[1], f[2])
                    k = "history-loader:" + re.sub(r"[^A-Za-z0-9_.:\[\]-]+", "-", head).strip("-")
                    e = byk.setdefault(k, {"key": k, "what": "loading .btcdeb_history with lines (%s), %s: the loader dies (%s %s): %s" % (f[3], f[4], f[1], f[2], f[5] if len(f) > 5 else ""), "count": 0,
                                           "replay": {"engine": "kerlhist", "lines": f[3].split(","), "final_newline": f[4] == "final-newline"}})
                    e["count"] += 1
                violations.extend(byk.values())
                cov["history_file_loader"] = {"engine": "kerlhist (readline build of kerl/kerl.c, asan+ubsan flavour)", "history_files": int(summ[0][1]), "loader_deaths": int(summ[0][2]),
                                              "line_shapes": int(summ[0][3]), "max_lines": int(summ[0][4])}
                cov["distinct_violation_keys"] = len(violations)
        finally:
            shutil.rmtree(kh, ignore_errors=True)
    else:
        infra = "sanitizer build of kerlhist missing"
    if any(r[7] == -1000 for r in results):
        infra = "some processes could not be spawned"
    tools_seen = set(per_tool)
    if not {"btcc", "btcdeb", "tap", "btcdeb_tty"} <= tools_seen:
        infra = "vacuous: not all four tools were exercised (%s)" % sorted(tools_seen)
    if sum(1 for k in rc_hist if k.endswith(":rc0")) < 4:
        infra = "vacuous: some tool never exited 0 on any input"
    return dict(
        level="fault_enumeration", coverage=cov, violations=violations,
        assumptions=[
            "the sanitizer builds (-O1 -fsanitize=address,undefined) execute the same source as the shipped binaries; bundled secp256k1 is built "
            "without sanitizers and frames under secp256k1/ are never used as the keyed call site",
            "inputs beyond 2 deviations from a base, command sequences longer than the bound, arguments containing NUL bytes, and input that "
            "depends on a real terminal (readline editing, completion callbacks) are not covered",
            "uninitialised reads are only observed in the valgrind slice (bases, empty stdin, empty/deleted arguments) and where UBSan flags a "
            "load of an invalid enum value; ASan does not detect them elsewhere",
            "a run that stops on alloc-dealloc-mismatch or on an invalid enum load is continued by a re-run with that check neutralised and, for "
            "the enum load, on the unsanitized binary (signals / aborts only); other sanitizer reports end the observation of that input",
            "exit statuses 0 and 1 are the tools' deliberate results (main's return value, exit(1) in argument validation, tap's abort macro)",
            "ENABLE_DANGEROUS is off in this build: sign / get-pubkey / WIF transforms and tap --privkey are out of scope",
        ],
        summary="%d processes, %d distinct inputs, %d non-trivial, %d outcome classes, %d violating runs -> %d distinct keys" % (
            evaluations, len(inputs), nontrivial, len(outcomes), n_viol_runs, len(violations)),
        infra_error=infra)


# =================================================================================================
def replay(ctx, path):
    with open(path) as fh:
        rec = json.load(fh)
    rp = rec.get("replay") or rec
    if rp.get("engine") == "kerlhist":
        kh = tempfile.mkdtemp(prefix="khr-", dir=ctx.bdir_asan)
        try:
            r = subprocess.run([os.path.join(ctx.bdir_asan, "kerlhist"), kh, str(max(2, len(rp.get("lines") or [])))], stdout=subprocess.PIPE, stderr=subprocess.STDOUT, text=True)
            want = "\t%s\t%s\t" % (",".join(rp.get("lines") or []), "final-newline" if rp.get("final_newline") else "no-final-newline")
            hits = [l for l in r.stdout.splitlines() if l.startswith("DEATH") and want in l]
            print("\n".join(hits) if hits else "the loader survives this history file")
            return 1 if hits else 0
        finally:
            shutil.rmtree(kh, ignore_errors=True)
    repo = os.path.realpath(ctx.repo)
    ctxd = dict(repo=repo, tier=ctx.tier, bdir=ctx.bdir, bdir_asan=ctx.bdir_asan)
    scratch = tempfile.mkdtemp(prefix="c15r-", dir=ctx.bdir)
    try:
        os.makedirs(os.path.join(scratch, "doc"))
        shutil.copytree(os.path.join(repo, "doc", "txs"), os.path.join(scratch, "doc", "txs"))
        c = dict(tool=rp["tool"], bin=rp["bin"], argv=rp["argv"], stdin=rp["stdin"], env=rp.get("env") or {})
        v = rp.get("variant", "asan")
        sv = {"asan": "asan-sym", "relaxed": "relaxed-sym"}.get(v, v)
        keys = []
        for k in range(2):
            rc, sig, so, se, hang = execute(ctxd, scratch, c, sv)
            t = se.decode("utf-8", "replace")
            binp = os.path.join(ctx.bdir_asan if sv.endswith("-sym") else ctx.bdir, c["bin"])
            key = make_key(c["tool"], rc, sig, t, hang, sv, repo, binp, (rp.get("deviation") or "").split(":")[0])
            keys.append(key)
            print("run %d: exit=%s signal=%s key=%s" % (k + 1, rc, sig, key))
            if k == 0:
                print(_describe(c))
                print(_excerpt(t, 3000))
        if keys[0] != keys[1]:
            print("NONDETERMINISTIC: the two runs differ: %s vs %s" % (keys[0], keys[1]))
        if rp.get("key") and keys[0] != rp["key"]:
            print("recorded key was %s" % rp["key"])
        return 0 if (keys[0] is None and keys[1] is None) else 1
    finally:
        shutil.rmtree(scratch, ignore_errors=True)
