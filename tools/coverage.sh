#!/bin/bash
# usage: tools/coverage.sh [ids...]   - analysis aid, not a registered check.
# Builds /repo with gcc --coverage (flavour "cov"), runs the quick tier of the given checks (default: all but C15, whose
# subjects are the sanitizer binaries) on it, and prints per source file of the tree the lines no check reached.
# Evidence is kept aside (it must describe the registered plain/asan runs).
cd "$(dirname "$0")/.." || exit 2
IDS=${@:-C01 C02 C03 C04 C05 C06 C07 C08 C09 C10 C11 C12 C13 C14 C16 C17 C18}
KEEP=$(mktemp -d /var/tmp/evidence.keep.XXXXXX); cp -r evidence $KEEP/
BD=$(VERIF_FLAVOR=cov python3 harness/build.py --flavor cov all) || exit 2
find $BD -name '*.gcda' -delete
for p in $IDS; do VERIF_FLAVOR=cov ./vcheck $p --tier quick 2>&1 | tail -1 | cut -c1-160; done
rm -rf evidence; cp -r $KEEP/evidence evidence; rm -rf $KEEP
OUT=/var/tmp/verif-coverage; rm -rf $OUT; mkdir -p $OUT; cd $OUT
for f in $BD/lib_*.gcda $BD/tool_*.gcda; do gcov -b -o $BD $f > /dev/null 2>&1; done
python3 - "$OUT" <<'PY'
import os, re, sys
out = sys.argv[1]
rows = []
for fn in sorted(os.listdir(out)):
    if not fn.endswith(".gcov"): continue
    src = None; tot = 0; miss = []
    for l in open(os.path.join(out, fn), errors="replace"):
        m = re.match(r"\s*([^:]+):\s*(\d+):(.*)", l)
        if not m: continue
        c, n, t = m.group(1).strip(), int(m.group(2)), m.group(3)
        if n == 0:
            if t.startswith("Source:"): src = t[7:]
            continue
        if c == "-": continue
        tot += 1
        if c in ("#####", "====="): miss.append(n)
    if src and src.startswith("/repo") and "/secp256k1/" not in src and tot:
        rows.append((src, tot, miss))
for src, tot, miss in rows:
    print("%-45s %5d lines, %5d not reached (%.0f%%)" % (src[6:], tot, len(miss), 100.0 * len(miss) / tot))
PY
echo "annotated sources: $OUT/*.gcov"
