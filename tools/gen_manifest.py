#!/usr/bin/env python3
"""Regenerates /verif/MANIFEST.json from the table below (run after adding a check)."""
import json, os

V = os.path.dirname(os.path.dirname(os.path.abspath(__file__)))

MC = "model_checking"
CHECKS = {
 "C01": dict(engine="mc_script", cat=MC, design="DESIGN.md §3 C01",
    text="exhaustive breadth-first exploration of the real stepping interpreter over the complete opcode alphabet, from many initial stacks, under all 2^8 subsets of the execution-relevant flags (shallow) and all one-flag deviations of NONE/STANDARD (deeper), for BASE/WITNESS_V0/TAPSCRIPT; the reference interpreter is compared after every step and ContinueScript against stepping on every explored script",
    note="trusted: the reference interpreter in /verif/ref (self-tested before each run on consensus vectors and six real-chain spends); bounded by depth and by the value alphabets",
    tech="explicit-state bounded model checking of the implementation (BFS with state dedup, reference-model oracle per transition)"),
 "C04": dict(engine="mc_hist", cat=MC, design="DESIGN.md §3 C04",
    text="command-history graph of real debugger sessions explored to a fixpoint over {step, rewind} with dedup on the full canonical session state, plus the complete history tree to depth L without dedup; every reached state must equal the state of a fresh session advanced by the net number of steps, refused rewinds must change nothing, continuation must give the fresh outcome",
    note="differential oracle (implementation against itself from a fresh session), so no expected values are hand-written; sessions with a failing step are outside the quantifier",
    tech="explicit-state model checking of the command-history graph (fixpoint BFS + exhaustive bounded history tree, differential oracle)"),
 "C16": dict(engine="mc_hist", cat=MC, design="DESIGN.md §3 C16",
    text="at every prefix of every explored session, exec of every operation list of length 1-2 over a token alphabet is run on the real Instance::eval and compared with the reference interpreter executing the same operations spliced into the script; position, remaining script and history must be untouched and the continuation must equal that of the spliced script",
    note="trusted: reference interpreter; OP_CODESEPARATOR and non-minimal hex pushes are outside the compared domain (stated in evidence)",
    tech="exhaustive enumeration of (session prefix x operation list) with a reference-model oracle"),
 "C10": dict(engine="mc_bounds", cat=MC, design="DESIGN.md §3 C10",
    text="boundary states of every resource limit are constructed directly (op count 199..202 by NOPs, unexecuted branches and multisig key counts 0..21; stack+altstack 998..1000; 4/5/6-byte numeric operands; 9999/10000/10001-byte scripts; per-script op-count reset across scriptSig, scriptPubKey and redeem script) for BASE/WITNESS_V0/TAPSCRIPT and every symbol of the complete opcode alphabet is applied from each; the reference interpreter decides the outcome at L-1, L, L+1",
    note="trusted: reference interpreter; the boundary generators are listed in the evidence",
    tech="explicit-state exploration from constructed boundary states (complete alphabet per state, reference-model oracle)"),
 "C17": dict(engine="mc_bounds", cat=MC, design="DESIGN.md §3 C17",
    text="each of the 15 re-enabled opcodes is executed on every operand tuple over a boundary-rich value set, with and without --allow-disabled-opcodes, executed and in an unexecuted branch, each case in a crash-contained forked worker; results are compared with the denoted string/bitwise/integer function, invalid operands must yield a script error, never a signal",
    note="denotations are written in ref/refscript.hpp (exec_extended); where the property is silent only crash-freedom is required and the class is counted separately",
    tech="exhaustive enumeration of operand tuples per opcode with crash containment (depth-1 state-space search)"),
 "C18": dict(engine="mc_bounds", cat=MC, design="DESIGN.md §3 C18",
    text="total enumeration of all byte strings of length 0..3 (and all 2^32 of length 4 in the thorough tier), stratified 4/5-byte strings, all integers in [-2^16, 2^16] and around every power of two: decode value, minimality verdict, re-encoding, round trip and the debugger's decimal/hex conversions are compared with the arithmetic definition",
    note="oracle is the arithmetic definition in ref/refnum.hpp",
    tech="total enumeration of the codec domain"),
 "C03": dict(engine="mc_spend", cat=MC, design="DESIGN.md §3 C03",
    text="funding/spending pairs for every supported output type are synthesised and signed by the independent reference signer; for every input position, referenced output, selection, every single-item deviation of the satisfaction and every single non-activation flag toggle, the real configure_tx_txin + step() session is run in lock-step with the reference session plan (input, amount, sigversion, scripts per phase, initial stack, every micro-step) and its validity verdict is compared with the reference VerifyScript; refusals are demanded where the property demands them",
    note="trusted: reference model (verify_input, session plan) self-tested on six real-chain spends; taproot restricted to single-input spends; activation flags P2SH/WITNESS/TAPROOT never removed (stated in evidence)",
    tech="deviation-bounded exhaustive enumeration of spends, each session explored step by step against a reference model"),
 "C05": dict(engine="mc_spend", cat=MC, design="DESIGN.md §3 C05",
    text="TaprootCommitmentEnv is driven directly over every path length (0..128 in the thorough tier), leaf versions, node orderings below/above/equal, both parities and every single-field corruption of valid commitments; after every Iterate() the running hash is compared with the BIP341 branch hash and the final state with the BIP341 verdict; the same phase is checked through configure_tx_txin + step() including the hand-over of the leaf hash",
    note="oracle: BIP341 rule implemented on OpenSSL EC arithmetic in ref/refcodec.hpp",
    tech="exhaustive enumeration of commitment triples and their single-field corruptions, stepwise comparison with a reference model"),
 "C06": dict(engine="c06_tap", cat=MC, design="DESIGN.md §3 C06",
    text="the real tap binary is run for every (n, index) with n up to 24 (quick) / 64 (thorough) plus large n, three script-content patterns, three internal keys and all address prefixes; the printed address, control block and script are verified under BIP341 by an independent pure-Python reference and by the real btcdeb commitment check, the reported sighash is compared with the reference BIP341/342 digest, and signatures made over it are passed back with --sig and validated end to end",
    note="trusted: drivers/pyref.py (self-tested on BIP340/341/350 vectors and the real-chain taproot spends before every run); single-input spends, hash type 0x00",
    tech="exhaustive enumeration of (key, script list, n, index) against the real binary with an independent reference verifier"),
 "C02": dict(engine="mc_sig", cat=MC, design="DESIGN.md §3 C02",
    text="products of small explicit alphabets executed step by step on the real Instance against the reference interpreter whose signature checker is the independent digest + EC implementation: all 256 hash-type bytes x transaction shapes x input index x {BASE, WITNESS_V0} (ECDSA, explicit mode) and x {key path, script path} x annex x outputs (Schnorr, auto mode); 20 ECDSA and 13 tapscript script templates (code separators, multisig orders, FindAndDelete, CHECKSIGADD); encoding classes x all 2^8 encoding-flag subsets; validation-weight boundaries; every single-bit flip of signature, public key and serialised transaction",
    note="trusted: reftx/refec (self-tested on BIP340 vectors and six real-chain spends); keys and fillers are fixed constants of the data alphabet; taproot limited to single-input spends",
    tech="exhaustive enumeration of a product of finite alphabets, each session explored step by step against a reference model"),
 "C07": dict(engine="c07_btcc", cat=MC, design="DESIGN.md §3 C07",
    text="the real btcc binary is run on every token sequence of a grammar-directed finite space (every opcode name in both spellings, all 256 OP_xNN escapes, boundary decimals, all 1-byte and (thorough) all 2-byte hex literals in 0x and bare form, boundary lengths to 520, nesting depth 0..8, all ordered pairs and triples over a 12-token set, whitespace/comment variants); the output is compared with a reference assembler implementing the statement and decoded to check the operation sequence and the minimal-push rule",
    note="trusted: drivers/pyref_codec.py (self-tested against BIP vectors and mc_refcli); tokens falling through to the string class are outside the grammar",
    tech="exhaustive enumeration of a bounded token grammar against the real binary with a reference assembler"),
 "C11": dict(engine="mc_sig", cat=MC, design="DESIGN.md §3 C11",
    text="every ordered list of 1..3 mock pairs over {s1,s2} x {p1,p2} (duplicates, one signature for two keys, one key with two signatures) is installed through the real parse_pretend_valid_expr and every listed pair, every unlisted signature for a mocked key, and scripts signed by unlisted keys are executed in CHECKSIG / CHECKSIGVERIFY / CHECKMULTISIG under BASE and WITNESS_V0, with and without a transaction, against the reference interpreter extended with the mock-pair rule; malformed list spellings must be rejected",
    note="metamorphic + reference oracle; tapscript/CHECKSIGADD with mock pairs is not reachable in explicit mode and is not covered",
    tech="exhaustive enumeration of pair lists x script templates with a reference-model oracle"),
 "C14": dict(engine="c14_tf", cat=MC, design="DESIGN.md §3 C14",
    text="every transform of the tf table is evaluated in every form that exists for it (REPL command, inline name(arg) through btcc, script opcode through batch btcdeb) on byte strings of every length 0..300 (quick 0..140 + boundaries) with several fillers, every single-character corruption of encoded base58check/bech32/bech32m strings, boundary integers, operand pairs for add/sub with and without modulus, Jacobi symbols, address conversions; results are compared with hashlib and independently written codecs and the forms are compared with each other",
    note="trusted: drivers/pyref_codec.py; argument conventions the tool itself rejects are recorded as observations (listed in the evidence)",
    tech="exhaustive enumeration of (transform, argument, form) over bounded argument alphabets with an independent oracle"),
 "C13": dict(engine="mc_tx", cat=MC, design="DESIGN.md §3 C13",
    text="a structure alphabet (input/output counts, every witness mix, script and witness-item lengths across the 252/253 and 65535/65536 compact-size boundaries, extreme versions/sequences/amounts) is enumerated exhaustively; every element is parsed by the real Instance::parse_transaction and compared field by field, re-serialised byte by byte, and its txid/wtxid compared with the reference; for a representative subset every proper prefix, every marker/flag byte value and several spelling variants must be accepted or rejected exactly as the reference parser decides; a closed set of decimal amount strings is converted exactly",
    note="oracle: ref/reftx.hpp; trailing bytes and >8 fractional digits are outside the quantifier (observations)",
    tech="exhaustive enumeration of a structure alphabet and of all single truncations / byte substitutions, reference codec as oracle"),
 "C08": dict(engine="c08_batch", cat=MC, design="DESIGN.md §3 C08",
    text="the real btcdeb binary is run non-interactively on every script of 1-2 symbols (thorough: 3) over an opcode alphabet that reaches every error class and the C++-exception paths, from several initial stacks and flag lists; exit status, terminating signal, stdout (final stack as lowercase hex bottom to top) and stderr error line are compared with the reference interpreter and with forced-interactive stepping of the same script; for representatives of every outcome class the full product of script delivery {stdin/pipe, stdin/pty, argv} x {-q, every --debug subset, DEBUG_* variables} must leave stdout and exit status unchanged; --verbose must be refused",
    note="trusted: mc_refcli (reference interpreter); error texts are compared implementation-vs-implementation (batch vs interactive)",
    tech="exhaustive enumeration of short scripts x delivery/option variants against the real binary with a reference oracle"),
 "C09": dict(engine="c09_flags+mc_script+mc_spend", cat=MC, design="DESIGN.md §3 C09",
    text="(a) every single +/-NAME, every ordered pair over the 21 flag names, ordered triples, whole-table lists and 19 classes of malformed lists are passed to the real binary and the printed flag set is compared with set arithmetic over an independent table; --default-flags is compared with the standard set; behavioural probes pin 12 flags to their bits; (b) every script of 1-2 symbols from small initial stacks x 3 sigversions is run under all 2^8 subsets of the execution-relevant flags and every cover edge of the subset lattice is checked for monotonicity (success under B implies success under B minus one flag); (c) the same relation on the debugger's own verdict of ~4.4 k auto-configured --tx/--txin sessions (valid spends of every output type, their single-item deviations, hand-made P2SH / bare spends with non-push-only scriptSigs) for each of the 18 non-activation flags, SIGPUSHONLY included",
    note="(a) independent flag table in drivers/procutil.py; (b) metamorphic relation on the real ContinueScript, exhaustive for inclusion by transitivity over the cover relation",
    tech="exhaustive enumeration of flag lists against the real binary + exhaustive lattice-edge check of the monotonicity relation"),
 "C12": dict(engine="c12_listing", cat=MC, design="DESIGN.md §3 C12",
    text="the forced-interactive btcdeb (real main(), real kerl command table, isatty interposed) is driven through every prefix of steps of every plain script of up to 3 ops (thorough: 4) over a 12-symbol alphabet and of every synthesised spend type (legacy with scriptPubKey section, P2SH, P2WPKH, P2WSH, P2SH-wrapped, taproot key path, tapscript with several path lengths, real-chain pairs), and through every {step, rewind} history up to length 6/8; at every point the printed listing is compared line by line with the reference micro-step list, the marked line with the micro-step the next step actually performs (established from the tool's own stack change against the reference stacks), and the #NNNN echo with the marker",
    note="trusted: mc_gen session plans and mc_refcli stacks; rewind histories avoid the C04 defect classes (stated in the evidence)",
    tech="exhaustive exploration of the command-history graph of REPL sessions through the real binary with a reference micro-step model"),
 "C15": dict(engine="c15_crash", cat="fault_enumeration", design="DESIGN.md §3 C15",
    text="ASan+UBSan builds of btcdeb, btcc, tap and the forced-interactive btcdeb (plus a valgrind-memcheck slice for uninitialised reads) are run on every single deviation of ~120 valid base inputs (truncation at every position, deleted/duplicated arguments, length/count/index fields replaced by boundary values, empty and 10^4-character arguments, unbalanced brackets at every depth, option values) and on all pairs of deviations for the smallest bases; interactively on every command sequence of length <= 2 (thorough: 3) over a 32-symbol command alphabet on six sessions and on every tf transform x adversarial arguments; a run violates the property when the process dies by a signal, aborts, or the sanitizers/valgrind report an error",
    note="deviation-bounded exhaustive enumeration, not fuzzing: every listed deviation of every base is executed; violation keys are (tool, error class, top in-tree frame) so distinct crash sites stay distinct; secp256k1 is compiled without sanitizers",
    tech="deviation-bounded exhaustive fault/input enumeration with sanitizers as oracle"),
}

REASON_PENDING = "check under construction in this round; not claimed until its engine has run end-to-end"
NOT_APPLICABLE = {}


def main():
    props = [json.loads(l) for l in open(os.path.join(V, "properties.jsonl"))]
    checks = []
    for p in props:
        c = CHECKS.get(p["id"])
        if not c:
            continue
        checks.append({
            "property_id": p["id"],
            "quick_cmd": "./vcheck %s --tier quick" % p["id"],
            "thorough_cmd": "./vcheck %s --tier thorough" % p["id"],
            "evidence_file": "evidence/%s.json" % p["id"],
            "replay_cmd_template": "./vcheck %s --replay {path}" % p["id"],
            "engine": c["engine"],
            "level_claimed": {"category": c["cat"], "text": c["text"], "design_ref": c["design"]},
            "level_note": c["note"],
            "technique": c["tech"],
        })
    na = [{"property_id": p["id"], "reason": NOT_APPLICABLE.get(p["id"], REASON_PENDING)} for p in props if p["id"] not in CHECKS]
    engines = {}
    for pid, c in CHECKS.items():
        engines.setdefault(c["engine"], []).append(pid)
    m = {
        "version": 1,
        "setup_cmd": "python3 harness/build.py all && python3 harness/build.py --flavor asan btcdeb btcc tap btcdeb_tty mc_bounds kerlhist btcdeb_tty_rl",
        "hooks": {
            "guard": "BTCDEB_VERIF",
            "enable": "no source hooks are used: checks compile the working tree's own translation units out of tree (harness/build.py) and link them with the harness; forced-interactive btcdeb is obtained by interposing isatty() at link time",
            "baseline_off_cmd": "cd /repo && make -j16 test-btcdeb >/dev/null 2>&1 && ./test-btcdeb",
            "source_commits": [],
            "add_only": True,
        },
        "engines": [{"name": e, "path": ("mc/%s.cpp" % e) if e.startswith("mc_") else ("drivers/%s.py" % e), "serves_properties": sorted(ps)} for e, ps in sorted(engines.items())],
        "checks": checks,
        "not_applicable": na,
        "notes": "vcheck rebuilds from $VERIF_REPO (default /repo) on every call; known_findings.jsonl lists genuine defects (open) and repaired ones (fixed: ...)",
    }
    with open(os.path.join(V, "MANIFEST.json"), "w") as fh:
        json.dump(m, fh, indent=1)
        fh.write("\n")
    print("MANIFEST.json: %d checks, %d not claimed" % (len(checks), len(na)))


if __name__ == "__main__":
    main()
