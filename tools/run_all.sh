#!/bin/bash
# usage: tools/run_all.sh [quick|thorough] [ids...]   - runs the registered checks on /repo's current tree, one line per check
cd "$(dirname "$0")/.." || exit 2
TIER=${1:-quick}; shift
IDS=${@:-C01 C02 C03 C04 C05 C06 C07 C08 C09 C10 C11 C12 C13 C14 C15 C16 C17 C18}
RC=0
for p in $IDS; do
  s=$(date +%s); out=$(./vcheck $p --tier $TIER 2>&1); rc=$?; e=$(( $(date +%s) - s ))
  [ $rc -ne 0 ] && RC=1
  printf "%s exit=%d %4ds  %s\n" $p $rc $e "$(echo "$out" | tail -1 | cut -c1-220)"
  echo "$out" | grep -E "^(VIOLATION|KNOWN-FINDING)" | cut -c1-260
done
exit $RC
