#!/bin/bash
# usage: tools/confirm_seed.sh <worktree> <seed-name> <property> [more properties to run...]
# Confirms an independently written property-breaking change:
#   with the change:   project builds, ./test-btcdeb passes, the demonstration fails
#   without the change: the demonstration passes
# then stores it under /verif/seeded/<seed-name>/, runs the listed checks against /repo with the patch applied
# (git -C /repo apply ... ; ./vcheck ... ; git -C /repo checkout -- .), records everything in meta.json, and removes the worktree.
set -u
WT=$1; NAME=$2; shift 2; PROPS="$@"
V=/verif; OUT=$V/seeded/$NAME; LOG=$(mktemp /var/tmp/confirm.XXXXXX)
[ -f "$WT/_seed/patch.diff" ] || { echo "no patch in $WT/_seed"; exit 2; }
cd "$WT" || exit 2
run_demo() { if [ -f _seed/demo.sh ]; then timeout 900 bash _seed/demo.sh > "$1" 2>&1; echo $?; else echo 127; fi; }
# state: change applied?
if git apply -R --check _seed/patch.diff 2>/dev/null; then :; else git apply _seed/patch.diff || { echo "cannot apply patch"; exit 2; }; fi
make -j16 > $LOG.make1 2>&1 || { echo "BUILD-WITH-CHANGE failed"; tail -5 $LOG.make1; exit 3; }
T1=$(./test-btcdeb 2>&1 | tail -3 | tr '\n' ' ')
D1=$(run_demo $LOG.demo_with)
git apply -R _seed/patch.diff || { echo "cannot revert"; exit 2; }
make -j16 > $LOG.make0 2>&1 || { echo "BUILD-WITHOUT-CHANGE failed"; exit 3; }
D0=$(run_demo $LOG.demo_without)
git apply _seed/patch.diff
echo "tests with change: $T1"
echo "demo with change exit=$D1 ; demo without change exit=$D0"
case "$T1" in *"All tests passed"*) TESTS_OK=1;; *) TESTS_OK=0;; esac
if [ "$TESTS_OK" != 1 ] || [ "$D1" = 0 ] || [ "$D0" != 0 ]; then echo "NOT CONFIRMED (tests_ok=$TESTS_OK demo_with=$D1 demo_without=$D0)"; tail -5 $LOG.demo_with; tail -5 $LOG.demo_without; exit 4; fi
mkdir -p "$OUT"
cp -r _seed/* "$OUT"/
tail -c 3000 $LOG.demo_with > "$OUT/demo_output_with_change.txt"; tail -c 3000 $LOG.demo_without > "$OUT/demo_output_without_change.txt"
# run the checks against /repo with the change applied
cd $V
git -C /repo apply "$OUT/patch.diff" || { echo "patch does not apply to /repo"; exit 5; }
KEEP=$(mktemp -d /var/tmp/evidence.keep.XXXXXX); cp -r $V/evidence $KEEP/   # evidence/ must keep describing the unchanged tree
RES=""
for P in $PROPS; do
  ./vcheck $P > $LOG.check_$P 2>&1; RC=$?
  NV=$(grep -c '^VIOLATION' $LOG.check_$P)
  KEYS=$(grep '^  key=' $LOG.check_$P | sed 's/ count=.*//; s/^  key=//' | head -5 | tr '\n' '|')
  echo "check $P: exit=$RC violations=$NV keys: $KEYS"
  RES="$RES{\"check\":\"$P\",\"exit\":$RC,\"violation_lines\":$NV,\"keys\":\"$(echo "$KEYS" | sed 's/"/\\"/g' | cut -c1-600)\"},"
done
git -C /repo checkout -- .
rm -rf $V/evidence; cp -r $KEEP/evidence $V/evidence; rm -rf $KEEP
python3 - "$OUT/meta.json" "$T1" "$D1" "$D0" "[${RES%,}]" <<'EOF'
import json, sys
p, t1, d1, d0, res = sys.argv[1:6]
try: m = json.load(open(p))
except Exception: m = {}
m["confirmed_by_main_session"] = {"tests_with_change": t1.strip(), "demo_exit_with_change": int(d1), "demo_exit_without_change": int(d0),
    "procedure": "in the scratch worktree: make + ./test-btcdeb + demo with the patch applied, git apply -R + make + demo without; then git -C /repo apply patch.diff; ./vcheck <id>; git -C /repo checkout -- ."}
m["checks_run_against_it"] = json.loads(res)
m["checks"] = [x["check"] for x in m["checks_run_against_it"]]   # tools/run_seeded.py re-runs these
json.dump(m, open(p, "w"), indent=1)
EOF
git -C /repo worktree remove --force "$WT" 2>/dev/null; git -C /repo worktree prune
rm -f $LOG*
echo "stored in $OUT"
