#!/usr/bin/env python3
"""Runs the registered checks against every stored property-breaking change.

usage: tools/run_seeded.py [name-prefix ...]
For each /verif/seeded/<name>/ : git -C /repo apply patch.diff ; ./vcheck <property> [--tier quick] ;
git -C /repo checkout -- .   The outcome (exit status, violation keys) is written into the seed's meta.json
("checks_run_against_it") and summarised in seeded/RESULTS.md. /repo must be clean before and is clean after.
"""
import json, os, re, subprocess, sys

V = os.path.dirname(os.path.dirname(os.path.abspath(__file__)))
S = os.path.join(V, "seeded")


def sh(cmd, **kw):
    return subprocess.run(cmd, shell=True, stdout=subprocess.PIPE, stderr=subprocess.STDOUT, text=True, **kw)


def main():
    want = sys.argv[1:]
    if sh("git -C /repo status --porcelain --untracked-files=no").stdout.strip():
        print("/repo has uncommitted changes; refusing"); return 2
    rows = []
    # evidence/ must describe the unchanged tree: keep it aside while checks run against modified trees
    import shutil, tempfile
    keep = tempfile.mkdtemp(prefix="evidence.keep.", dir="/var/tmp")
    shutil.copytree(os.path.join(V, "evidence"), os.path.join(keep, "evidence"))
    try:
        _loop(want, rows)
    finally:
        shutil.rmtree(os.path.join(V, "evidence"), ignore_errors=True)
        shutil.copytree(os.path.join(keep, "evidence"), os.path.join(V, "evidence"))
        shutil.rmtree(keep, ignore_errors=True)
    _report(rows)
    return 0


def _loop(want, rows):
    for name in sorted(os.listdir(S)):
        d = os.path.join(S, name)
        if not os.path.isdir(d) or not os.path.exists(os.path.join(d, "patch.diff")):
            continue
        meta = json.load(open(os.path.join(d, "meta.json")))
        props = meta.get("checks", [meta.get("property")])
        if meta.get("obsolete"):
            # the change no longer breaks the property on the repaired tree (a later fix: made it harmless); kept for the record
            rows.append((name, [{"check": "-", "exit": "-", "keys": "obsolete since %s: %s" % (meta["obsolete"]["since"], meta["obsolete"]["why"][:120])}]))
            continue
        if want and not any(name.startswith(w) for w in want):
            rows.append((name, meta.get("checks_run_against_it", [])))
            continue
        r = sh("git -C /repo apply %s" % os.path.join(d, "patch.diff"))
        if r.returncode:
            print(name, "patch does not apply:", r.stdout[-300:]); continue
        res = []
        try:
            for p in props:
                c = sh("cd %s && ./vcheck %s --tier quick" % (V, p))
                keys = [re.sub(r" count=.*", "", l.strip()[4:]) for l in c.stdout.splitlines() if l.startswith("  key=")]
                res.append({"check": p, "exit": c.returncode, "violation_lines": sum(1 for l in c.stdout.splitlines() if l.startswith("VIOLATION")), "keys": keys[:6]})
                print("%-55s %s exit=%d keys=%s" % (name, p, c.returncode, "; ".join(keys[:2])[:160]))
        finally:
            sh("git -C /repo checkout -- .")
        meta["checks_run_against_it"] = res
        json.dump(meta, open(os.path.join(d, "meta.json"), "w"), indent=1)
        rows.append((name, res))


def _report(rows):
    with open(os.path.join(S, "RESULTS.md"), "w") as fh:
        fh.write("# Seeded property-breaking changes and the checks that report them\n\n")
        fh.write("Each change was written by an independent sub-agent that saw only the property text and a scratch worktree, and was confirmed\n"
                 "in a scratch worktree (builds, existing tests pass, demonstration fails with / passes without the change) before being stored.\n\n")
        fh.write("| change | check | exit | first violation keys |\n|---|---|---|---|\n")
        for name, res in rows:
            for x in res:
                k = x.get("keys"); k = k if isinstance(k, str) else "; ".join(k[:3])
                fh.write("| %s | %s | %s | %s |\n" % (name, x.get("check"), x.get("exit"), k.replace("|", "/")[:200]))


if __name__ == "__main__":
    sys.exit(main())
