// Reference model, part 2: one-opcode step of Bitcoin Script for BASE / WITNESS_V0 /
// TAPSCRIPT, written from the consensus rules (BIP16/62/65/66/112/141/143/146/147/341/342)
// in their check order. Independent of the tree under test.
#pragma once
#include "refnum.hpp"
#include "refhash.hpp"
#include <functional>
#include <algorithm>

namespace ref {

enum class SigVer { BASE = 0, WITNESS_V0 = 1, TAPROOT = 2, TAPSCRIPT = 3 };

// verification flags (bit positions are Bitcoin Core's public constants)
enum : uint32_t {
    F_P2SH = 1u << 0, F_STRICTENC = 1u << 1, F_DERSIG = 1u << 2, F_LOW_S = 1u << 3, F_NULLDUMMY = 1u << 4,
    F_SIGPUSHONLY = 1u << 5, F_MINIMALDATA = 1u << 6, F_DISCOURAGE_UPGRADABLE_NOPS = 1u << 7, F_CLEANSTACK = 1u << 8,
    F_CLTV = 1u << 9, F_CSV = 1u << 10, F_WITNESS = 1u << 11, F_DISCOURAGE_UPGRADABLE_WITNESS_PROGRAM = 1u << 12,
    F_MINIMALIF = 1u << 13, F_NULLFAIL = 1u << 14, F_WITNESS_PUBKEYTYPE = 1u << 15, F_CONST_SCRIPTCODE = 1u << 16,
    F_TAPROOT = 1u << 17, F_DISCOURAGE_UPGRADABLE_TAPROOT_VERSION = 1u << 18, F_DISCOURAGE_OP_SUCCESS = 1u << 19,
    F_DISCOURAGE_UPGRADABLE_PUBKEYTYPE = 1u << 20,
};
// the standard policy set: everything except SIGPUSHONLY
static const uint32_t F_STANDARD = ((1u << 21) - 1) & ~F_SIGPUSHONLY;

enum class Err {
    OK, UNKNOWN_ERROR, EVAL_FALSE, OP_RETURN, SCRIPT_SIZE, PUSH_SIZE, OP_COUNT, STACK_SIZE, SIG_COUNT, PUBKEY_COUNT,
    VERIFY, EQUALVERIFY, CHECKMULTISIGVERIFY, CHECKSIGVERIFY, NUMEQUALVERIFY, BAD_OPCODE, DISABLED_OPCODE,
    INVALID_STACK_OPERATION, INVALID_ALTSTACK_OPERATION, UNBALANCED_CONDITIONAL, NEGATIVE_LOCKTIME, UNSATISFIED_LOCKTIME,
    SIG_HASHTYPE, SIG_DER, MINIMALDATA, SIG_PUSHONLY, SIG_HIGH_S, SIG_NULLDUMMY, PUBKEYTYPE, CLEANSTACK, MINIMALIF,
    SIG_NULLFAIL, DISCOURAGE_UPGRADABLE_NOPS, DISCOURAGE_UPGRADABLE_WITNESS_PROGRAM, DISCOURAGE_UPGRADABLE_TAPROOT_VERSION,
    DISCOURAGE_OP_SUCCESS, DISCOURAGE_UPGRADABLE_PUBKEYTYPE, WITNESS_PROGRAM_WRONG_LENGTH, WITNESS_PROGRAM_WITNESS_EMPTY,
    WITNESS_PROGRAM_MISMATCH, WITNESS_MALLEATED, WITNESS_MALLEATED_P2SH, WITNESS_UNEXPECTED, WITNESS_PUBKEYTYPE,
    SCHNORR_SIG_SIZE, SCHNORR_SIG_HASHTYPE, SCHNORR_SIG, TAPROOT_WRONG_CONTROL_SIZE, TAPSCRIPT_VALIDATION_WEIGHT,
    TAPSCRIPT_CHECKMULTISIG, TAPSCRIPT_MINIMALIF, OP_CODESEPARATOR, SIG_FINDANDDELETE
};
inline const char* err_name(Err e) {
    static const char* n[] = {"OK", "UNKNOWN_ERROR", "EVAL_FALSE", "OP_RETURN", "SCRIPT_SIZE", "PUSH_SIZE", "OP_COUNT", "STACK_SIZE",
        "SIG_COUNT", "PUBKEY_COUNT", "VERIFY", "EQUALVERIFY", "CHECKMULTISIGVERIFY", "CHECKSIGVERIFY", "NUMEQUALVERIFY",
        "BAD_OPCODE", "DISABLED_OPCODE", "INVALID_STACK_OPERATION", "INVALID_ALTSTACK_OPERATION", "UNBALANCED_CONDITIONAL",
        "NEGATIVE_LOCKTIME", "UNSATISFIED_LOCKTIME", "SIG_HASHTYPE", "SIG_DER", "MINIMALDATA", "SIG_PUSHONLY", "SIG_HIGH_S",
        "SIG_NULLDUMMY", "PUBKEYTYPE", "CLEANSTACK", "MINIMALIF", "SIG_NULLFAIL", "DISCOURAGE_UPGRADABLE_NOPS",
        "DISCOURAGE_UPGRADABLE_WITNESS_PROGRAM", "DISCOURAGE_UPGRADABLE_TAPROOT_VERSION", "DISCOURAGE_OP_SUCCESS",
        "DISCOURAGE_UPGRADABLE_PUBKEYTYPE", "WITNESS_PROGRAM_WRONG_LENGTH", "WITNESS_PROGRAM_WITNESS_EMPTY",
        "WITNESS_PROGRAM_MISMATCH", "WITNESS_MALLEATED", "WITNESS_MALLEATED_P2SH", "WITNESS_UNEXPECTED", "WITNESS_PUBKEYTYPE",
        "SCHNORR_SIG_SIZE", "SCHNORR_SIG_HASHTYPE", "SCHNORR_SIG", "TAPROOT_WRONG_CONTROL_SIZE", "TAPSCRIPT_VALIDATION_WEIGHT",
        "TAPSCRIPT_CHECKMULTISIG", "TAPSCRIPT_MINIMALIF", "OP_CODESEPARATOR", "SIG_FINDANDDELETE"};
    return n[int(e)];
}

// opcode bytes used by name below
enum : uint8_t {
    OP_0 = 0x00, OP_PUSHDATA1 = 0x4c, OP_PUSHDATA2 = 0x4d, OP_PUSHDATA4 = 0x4e, OP_1NEGATE = 0x4f, OP_RESERVED = 0x50,
    OP_1 = 0x51, OP_16 = 0x60, OP_NOP = 0x61, OP_VER = 0x62, OP_IF = 0x63, OP_NOTIF = 0x64, OP_VERIF = 0x65,
    OP_VERNOTIF = 0x66, OP_ELSE = 0x67, OP_ENDIF = 0x68, OP_VERIFY = 0x69, OP_RETURN = 0x6a, OP_TOALTSTACK = 0x6b,
    OP_FROMALTSTACK = 0x6c, OP_2DROP = 0x6d, OP_2DUP = 0x6e, OP_3DUP = 0x6f, OP_2OVER = 0x70, OP_2ROT = 0x71,
    OP_2SWAP = 0x72, OP_IFDUP = 0x73, OP_DEPTH = 0x74, OP_DROP = 0x75, OP_DUP = 0x76, OP_NIP = 0x77, OP_OVER = 0x78,
    OP_PICK = 0x79, OP_ROLL = 0x7a, OP_ROT = 0x7b, OP_SWAP = 0x7c, OP_TUCK = 0x7d, OP_CAT = 0x7e, OP_SUBSTR = 0x7f,
    OP_LEFT = 0x80, OP_RIGHT = 0x81, OP_SIZE = 0x82, OP_INVERT = 0x83, OP_AND = 0x84, OP_OR = 0x85, OP_XOR = 0x86,
    OP_EQUAL = 0x87, OP_EQUALVERIFY = 0x88, OP_RESERVED1 = 0x89, OP_RESERVED2 = 0x8a, OP_1ADD = 0x8b, OP_1SUB = 0x8c,
    OP_2MUL = 0x8d, OP_2DIV = 0x8e, OP_NEGATE = 0x8f, OP_ABS = 0x90, OP_NOT = 0x91, OP_0NOTEQUAL = 0x92, OP_ADD = 0x93,
    OP_SUB = 0x94, OP_MUL = 0x95, OP_DIV = 0x96, OP_MOD = 0x97, OP_LSHIFT = 0x98, OP_RSHIFT = 0x99, OP_BOOLAND = 0x9a,
    OP_BOOLOR = 0x9b, OP_NUMEQUAL = 0x9c, OP_NUMEQUALVERIFY = 0x9d, OP_NUMNOTEQUAL = 0x9e, OP_LESSTHAN = 0x9f,
    OP_GREATERTHAN = 0xa0, OP_LESSTHANOREQUAL = 0xa1, OP_GREATERTHANOREQUAL = 0xa2, OP_MIN = 0xa3, OP_MAX = 0xa4,
    OP_WITHIN = 0xa5, OP_RIPEMD160 = 0xa6, OP_SHA1 = 0xa7, OP_SHA256 = 0xa8, OP_HASH160 = 0xa9, OP_HASH256 = 0xaa,
    OP_CODESEPARATOR = 0xab, OP_CHECKSIG = 0xac, OP_CHECKSIGVERIFY = 0xad, OP_CHECKMULTISIG = 0xae,
    OP_CHECKMULTISIGVERIFY = 0xaf, OP_NOP1 = 0xb0, OP_CLTV = 0xb1, OP_CSV = 0xb2, OP_NOP4 = 0xb3, OP_NOP10 = 0xb9,
    OP_CHECKSIGADD = 0xba
};

inline bool is_disabled_opcode(uint8_t c) {
    switch (c) {
    case OP_CAT: case OP_SUBSTR: case OP_LEFT: case OP_RIGHT: case OP_INVERT: case OP_AND: case OP_OR: case OP_XOR:
    case OP_2MUL: case OP_2DIV: case OP_MUL: case OP_DIV: case OP_MOD: case OP_LSHIFT: case OP_RSHIFT: return true;
    }
    return false;
}
// BIP342 OP_SUCCESSx
inline bool is_op_success(uint8_t c) {
    return c == 80 || c == 98 || (c >= 126 && c <= 129) || (c >= 131 && c <= 134) || (c >= 137 && c <= 138) ||
           (c >= 141 && c <= 142) || (c >= 149 && c <= 153) || (c >= 187 && c <= 254);
}

static const size_t MAX_ELEM = 520, MAX_STACK = 1000, MAX_SCRIPT = 10000;
static const int MAX_OPS = 201, MAX_KEYS = 20;
static const int64_t WEIGHT_PER_SIGOP = 50, WEIGHT_OFFSET = 50;

// What a signature opcode needs from its context. The machine never hashes or verifies
// itself; C02's engine supplies a checker built on reftx/refec, C01's supplies "no tx".
struct ExecData {
    bool tapleaf_init = false; bytes tapleaf_hash;
    uint32_t codesep_pos = 0xffffffffu;
    bool annex_present = false; bytes annex_hash;
    bool weight_init = false; int64_t weight_left = 0;
};
struct SigChecker {
    virtual ~SigChecker() {}
    // ECDSA signature incl. hash-type byte over scriptCode; false when no transaction
    virtual bool check_ecdsa(const bytes& sig, const bytes& pubkey, const bytes& script_code, SigVer sv) { return false; }
    // BIP340 signature (64 or 65 bytes); sets err on failure
    virtual bool check_schnorr(const bytes& sig, const bytes& pubkey, SigVer sv, const ExecData& ed, Err& err) { err = Err::SCHNORR_SIG; return false; }
    virtual bool check_locktime(int64_t n) { return false; }
    virtual bool check_sequence(int64_t n) { return false; }
};

// signature / key encoding predicates, defined in refsigenc.hpp
bool is_valid_der_sig_encoding(const bytes& sig);       // BIP66 strict DER incl. hashtype byte
bool is_low_s(const bytes& sig_with_hashtype);
inline bool is_defined_hashtype(const bytes& sig) {
    if (sig.empty()) return false;
    uint8_t t = sig.back() & ~0x80;
    return t >= 1 && t <= 3;
}
inline bool is_compressed_or_uncompressed(const bytes& k) {
    if (k.size() < 33) return false;
    if (k[0] == 0x04) return k.size() == 65;
    if (k[0] == 0x02 || k[0] == 0x03) return k.size() == 33;
    return false;
}
inline bool is_compressed(const bytes& k) { return k.size() == 33 && (k[0] == 2 || k[0] == 3); }

inline Err check_sig_encoding(const bytes& sig, uint32_t flags) {
    if (sig.empty()) return Err::OK;
    if ((flags & (F_DERSIG | F_LOW_S | F_STRICTENC)) && !is_valid_der_sig_encoding(sig)) return Err::SIG_DER;
    if ((flags & F_LOW_S) && !is_low_s(sig)) return Err::SIG_HIGH_S;
    if ((flags & F_STRICTENC) && !is_defined_hashtype(sig)) return Err::SIG_HASHTYPE;
    return Err::OK;
}
inline Err check_pubkey_encoding(const bytes& k, uint32_t flags, SigVer sv) {
    if ((flags & F_STRICTENC) && !is_compressed_or_uncompressed(k)) return Err::PUBKEYTYPE;
    if ((flags & F_WITNESS_PUBKEYTYPE) && sv == SigVer::WITNESS_V0 && !is_compressed(k)) return Err::WITNESS_PUBKEYTYPE;
    return Err::OK;
}

// remove every occurrence of `pat` that starts at an opcode boundary (legacy FindAndDelete)
inline int find_and_delete(bytes& script, const bytes& pat) {
    if (pat.empty()) return 0;
    int found = 0;
    bytes out;
    size_t pc = 0, copied = 0;
    while (true) {
        while (script.size() - pc >= pat.size() && std::equal(pat.begin(), pat.end(), script.begin() + pc)) {
            // flush what precedes, skip the match
            out.insert(out.end(), script.begin() + copied, script.begin() + pc);
            pc += pat.size();
            copied = pc;
            found++;
        }
        if (pc >= script.size()) break;
        Op o = decode_op(script, pc);
        if (!o.ok) break;
        pc = o.end;
    }
    if (found) {
        out.insert(out.end(), script.begin() + copied, script.end());
        script = out;
    }
    return found;
}

struct Machine {
    SigVer sv = SigVer::BASE;
    uint32_t flags = 0;
    bool allow_disabled = false;      // btcdeb's --allow-disabled-opcodes (C17 denotations)
    bytes script;
    size_t pc = 0;
    std::vector<bytes> stack, alt;
    std::vector<bool> cond;
    int opcount = 0;
    size_t codehash_begin = 0;         // byte offset after the last executed OP_CODESEPARATOR
    uint32_t op_index = 0;             // index of the opcode about to be executed (BIP342 codeseparator position)
    ExecData ed;
    SigChecker* checker = nullptr;
    // mock signatures (C11): set of (sig, key) pairs; any key that appears in a pair is "mocked"
    std::vector<std::pair<bytes, bytes>> mock_pairs;

    bool executing() const { for (bool b : cond) if (!b) return false; return true; }
    // projection of the condition stack that the debugger can show
    size_t cond_size() const { return cond.size(); }
    int64_t cond_first_false() const { for (size_t i = 0; i < cond.size(); i++) if (!cond[i]) return int64_t(i); return -1; }
    bool at_end() const { return pc >= script.size(); }

    bool key_is_mocked(const bytes& k) const { for (auto& p : mock_pairs) if (p.second == k) return true; return false; }
    bool pair_is_mocked(const bytes& s, const bytes& k) const { for (auto& p : mock_pairs) if (p.first == s && p.second == k) return true; return false; }

    // executes the opcode at pc. Err::OK: state updated. Otherwise the script has failed with that error.
    Err step() {
        try { return step_inner(); }
        catch (const NumError&) { return Err::UNKNOWN_ERROR; }
    }

    // final verdict once pc is at the end
    Err finish() const { return cond.empty() ? Err::OK : Err::UNBALANCED_CONDITIONAL; }

private:
    bytes& top(int i) { return stack[stack.size() + i]; }  // i negative
    void pop() { stack.pop_back(); }
    bool minimal() const { return (flags & F_MINIMALDATA) != 0; }
    int64_t numtop(int i, size_t maxlen = 4) { return num_operand(top(i), minimal(), maxlen); }
    static int clamp_int(int64_t v) { if (v > INT32_MAX) return INT32_MAX; if (v < INT32_MIN) return INT32_MIN; return int(v); }

    Err eval_checksig(const bytes& sig, const bytes& key, bool& success) {
        if (key_is_mocked(key)) {
            if (pair_is_mocked(sig, key)) { success = true; return Err::OK; }
            // a mocked key with another signature falls through to the real check
        }
        if (sv == SigVer::BASE || sv == SigVer::WITNESS_V0) {
            bytes code(script.begin() + codehash_begin, script.end());
            if (sv == SigVer::BASE) {
                int found = find_and_delete(code, push_raw(sig));
                if (found > 0 && (flags & F_CONST_SCRIPTCODE)) return Err::SIG_FINDANDDELETE;
            }
            Err e = check_sig_encoding(sig, flags);
            if (e != Err::OK) return e;
            e = check_pubkey_encoding(key, flags, sv);
            if (e != Err::OK) return e;
            success = checker && checker->check_ecdsa(sig, key, code, sv);
            if (!success && (flags & F_NULLFAIL) && !sig.empty()) return Err::SIG_NULLFAIL;
            return Err::OK;
        }
        if (sv == SigVer::TAPROOT) {
            // key-path spend presented by the debugger as the pretend script "<output key> OP_CHECKSIG":
            // BIP341 key-path rule — the signature must be a valid BIP340 signature by the output key, else the spend fails
            Err e = Err::SCHNORR_SIG;
            ExecData d = ed;
            success = checker && checker->check_schnorr(sig, key, sv, d, e);
            return success ? Err::OK : e;
        }
        // tapscript (BIP342)
        success = !sig.empty();
        if (success) {
            ed.weight_left -= WEIGHT_PER_SIGOP;
            if (ed.weight_left < 0) return Err::TAPSCRIPT_VALIDATION_WEIGHT;
        }
        if (key.empty()) return Err::PUBKEYTYPE;
        if (key.size() == 32) {
            if (success) {
                Err e = Err::SCHNORR_SIG;
                ExecData d = ed;
                if (!checker || !checker->check_schnorr(sig, key, sv, d, e)) return e;
            }
        } else {
            if (flags & F_DISCOURAGE_UPGRADABLE_PUBKEYTYPE) return Err::DISCOURAGE_UPGRADABLE_PUBKEYTYPE;
        }
        return Err::OK;
    }

    Err step_inner() {
        bool fexec = executing();
        Op op = decode_op(script, pc);
        if (!op.ok) return Err::BAD_OPCODE;
        if (op.data.size() > MAX_ELEM) return Err::PUSH_SIZE;
        uint8_t c = op.code;
        if (sv == SigVer::BASE || sv == SigVer::WITNESS_V0) {
            if (c > OP_16 && ++opcount > MAX_OPS) return Err::OP_COUNT;
        }
        if (is_disabled_opcode(c) && !allow_disabled) return Err::DISABLED_OPCODE;
        if (c == OP_CODESEPARATOR && sv == SigVer::BASE && (flags & F_CONST_SCRIPTCODE)) return Err::OP_CODESEPARATOR;
        pc = op.end;
        uint32_t this_index = op_index++;

        if (fexec && c <= OP_PUSHDATA4) {
            if (minimal() && !push_is_minimal(c, op.data)) return Err::MINIMALDATA;
            stack.push_back(op.data);
        } else if (fexec || (c >= OP_IF && c <= OP_ENDIF)) {
            Err e = exec_op(c, fexec, this_index);
            if (e != Err::OK) return e;
        }
        if (stack.size() + alt.size() > MAX_STACK) return Err::STACK_SIZE;
        return Err::OK;
    }

    Err exec_extended(uint8_t c);

    Err exec_op(uint8_t c, bool fexec, uint32_t this_index) {
        if (is_disabled_opcode(c)) return exec_extended(c);
        if (c == OP_1NEGATE || (c >= OP_1 && c <= OP_16)) { stack.push_back(num_encode(int(c) - 0x50)); return Err::OK; }
        switch (c) {
        case OP_NOP: return Err::OK;
        case OP_CLTV: {
            if (!(flags & F_CLTV)) return Err::OK;
            if (stack.size() < 1) return Err::INVALID_STACK_OPERATION;
            int64_t n = numtop(-1, 5);
            if (n < 0) return Err::NEGATIVE_LOCKTIME;
            if (!checker || !checker->check_locktime(n)) return Err::UNSATISFIED_LOCKTIME;
            return Err::OK;
        }
        case OP_CSV: {
            if (!(flags & F_CSV)) return Err::OK;
            if (stack.size() < 1) return Err::INVALID_STACK_OPERATION;
            int64_t n = numtop(-1, 5);
            if (n < 0) return Err::NEGATIVE_LOCKTIME;
            if (n & (int64_t(1) << 31)) return Err::OK;
            if (!checker || !checker->check_sequence(n)) return Err::UNSATISFIED_LOCKTIME;
            return Err::OK;
        }
        case OP_NOP1: case 0xb3: case 0xb4: case 0xb5: case 0xb6: case 0xb7: case 0xb8: case 0xb9:
            if (flags & F_DISCOURAGE_UPGRADABLE_NOPS) return Err::DISCOURAGE_UPGRADABLE_NOPS;
            return Err::OK;
        case OP_IF: case OP_NOTIF: {
            bool v = false;
            if (fexec) {
                if (stack.size() < 1) return Err::UNBALANCED_CONDITIONAL;
                const bytes& t = top(-1);
                if (sv == SigVer::TAPSCRIPT) {
                    if (t.size() > 1 || (t.size() == 1 && t[0] != 1)) return Err::TAPSCRIPT_MINIMALIF;
                }
                if (sv == SigVer::WITNESS_V0 && (flags & F_MINIMALIF)) {
                    if (t.size() > 1 || (t.size() == 1 && t[0] != 1)) return Err::MINIMALIF;
                }
                v = cast_to_bool(t);
                if (c == OP_NOTIF) v = !v;
                pop();
            }
            cond.push_back(v);
            return Err::OK;
        }
        case OP_ELSE:
            if (cond.empty()) return Err::UNBALANCED_CONDITIONAL;
            cond.back() = !cond.back();
            return Err::OK;
        case OP_ENDIF:
            if (cond.empty()) return Err::UNBALANCED_CONDITIONAL;
            cond.pop_back();
            return Err::OK;
        case OP_VERIFY:
            if (stack.size() < 1) return Err::INVALID_STACK_OPERATION;
            if (!cast_to_bool(top(-1))) return Err::VERIFY;
            pop();
            return Err::OK;
        case OP_RETURN: return Err::OP_RETURN;
        case OP_TOALTSTACK:
            if (stack.size() < 1) return Err::INVALID_STACK_OPERATION;
            alt.push_back(top(-1)); pop();
            return Err::OK;
        case OP_FROMALTSTACK:
            if (alt.size() < 1) return Err::INVALID_ALTSTACK_OPERATION;
            stack.push_back(alt.back()); alt.pop_back();
            return Err::OK;
        case OP_2DROP:
            if (stack.size() < 2) return Err::INVALID_STACK_OPERATION;
            pop(); pop();
            return Err::OK;
        case OP_2DUP: {
            if (stack.size() < 2) return Err::INVALID_STACK_OPERATION;
            bytes a = top(-2), b = top(-1);
            stack.push_back(a); stack.push_back(b);
            return Err::OK;
        }
        case OP_3DUP: {
            if (stack.size() < 3) return Err::INVALID_STACK_OPERATION;
            bytes a = top(-3), b = top(-2), d = top(-1);
            stack.push_back(a); stack.push_back(b); stack.push_back(d);
            return Err::OK;
        }
        case OP_2OVER: {
            if (stack.size() < 4) return Err::INVALID_STACK_OPERATION;
            bytes a = top(-4), b = top(-3);
            stack.push_back(a); stack.push_back(b);
            return Err::OK;
        }
        case OP_2ROT: {
            if (stack.size() < 6) return Err::INVALID_STACK_OPERATION;
            bytes a = top(-6), b = top(-5);
            stack.erase(stack.end() - 6, stack.end() - 4);
            stack.push_back(a); stack.push_back(b);
            return Err::OK;
        }
        case OP_2SWAP: {
            if (stack.size() < 4) return Err::INVALID_STACK_OPERATION;
            std::swap(top(-4), top(-2)); std::swap(top(-3), top(-1));
            return Err::OK;
        }
        case OP_IFDUP: {
            if (stack.size() < 1) return Err::INVALID_STACK_OPERATION;
            bytes a = top(-1);
            if (cast_to_bool(a)) stack.push_back(a);
            return Err::OK;
        }
        case OP_DEPTH: stack.push_back(num_encode(int64_t(stack.size()))); return Err::OK;
        case OP_DROP:
            if (stack.size() < 1) return Err::INVALID_STACK_OPERATION;
            pop();
            return Err::OK;
        case OP_DUP: {
            if (stack.size() < 1) return Err::INVALID_STACK_OPERATION;
            bytes a = top(-1); stack.push_back(a);
            return Err::OK;
        }
        case OP_NIP:
            if (stack.size() < 2) return Err::INVALID_STACK_OPERATION;
            stack.erase(stack.end() - 2);
            return Err::OK;
        case OP_OVER: {
            if (stack.size() < 2) return Err::INVALID_STACK_OPERATION;
            bytes a = top(-2); stack.push_back(a);
            return Err::OK;
        }
        case OP_PICK: case OP_ROLL: {
            if (stack.size() < 2) return Err::INVALID_STACK_OPERATION;
            int n = clamp_int(numtop(-1));
            pop();
            if (n < 0 || size_t(n) >= stack.size()) return Err::INVALID_STACK_OPERATION;
            bytes a = stack[stack.size() - 1 - n];
            if (c == OP_ROLL) stack.erase(stack.end() - 1 - n);
            stack.push_back(a);
            return Err::OK;
        }
        case OP_ROT: {
            if (stack.size() < 3) return Err::INVALID_STACK_OPERATION;
            bytes a = top(-3);
            stack.erase(stack.end() - 3);
            stack.push_back(a);
            return Err::OK;
        }
        case OP_SWAP:
            if (stack.size() < 2) return Err::INVALID_STACK_OPERATION;
            std::swap(top(-2), top(-1));
            return Err::OK;
        case OP_TUCK: {
            if (stack.size() < 2) return Err::INVALID_STACK_OPERATION;
            bytes a = top(-1);
            stack.insert(stack.end() - 2, a);
            return Err::OK;
        }
        case OP_SIZE:
            if (stack.size() < 1) return Err::INVALID_STACK_OPERATION;
            stack.push_back(num_encode(int64_t(top(-1).size())));
            return Err::OK;
        case OP_EQUAL: case OP_EQUALVERIFY: {
            if (stack.size() < 2) return Err::INVALID_STACK_OPERATION;
            bool eq = top(-2) == top(-1);
            pop(); pop();
            if (c == OP_EQUALVERIFY) { if (!eq) return Err::EQUALVERIFY; }
            else stack.push_back(eq ? bytes{1} : bytes{});
            return Err::OK;
        }
        case OP_1ADD: case OP_1SUB: case OP_NEGATE: case OP_ABS: case OP_NOT: case OP_0NOTEQUAL: {
            if (stack.size() < 1) return Err::INVALID_STACK_OPERATION;
            int64_t a = numtop(-1), r = 0;
            switch (c) {
            case OP_1ADD: r = a + 1; break;
            case OP_1SUB: r = a - 1; break;
            case OP_NEGATE: r = -a; break;
            case OP_ABS: r = a < 0 ? -a : a; break;
            case OP_NOT: r = (a == 0); break;
            case OP_0NOTEQUAL: r = (a != 0); break;
            }
            pop();
            stack.push_back(num_encode(r));
            return Err::OK;
        }
        case OP_ADD: case OP_SUB: case OP_BOOLAND: case OP_BOOLOR: case OP_NUMEQUAL: case OP_NUMEQUALVERIFY:
        case OP_NUMNOTEQUAL: case OP_LESSTHAN: case OP_GREATERTHAN: case OP_LESSTHANOREQUAL: case OP_GREATERTHANOREQUAL:
        case OP_MIN: case OP_MAX: {
            if (stack.size() < 2) return Err::INVALID_STACK_OPERATION;
            int64_t a = numtop(-2), b = numtop(-1), r = 0;
            switch (c) {
            case OP_ADD: r = a + b; break;
            case OP_SUB: r = a - b; break;
            case OP_BOOLAND: r = (a != 0 && b != 0); break;
            case OP_BOOLOR: r = (a != 0 || b != 0); break;
            case OP_NUMEQUAL: case OP_NUMEQUALVERIFY: r = (a == b); break;
            case OP_NUMNOTEQUAL: r = (a != b); break;
            case OP_LESSTHAN: r = (a < b); break;
            case OP_GREATERTHAN: r = (a > b); break;
            case OP_LESSTHANOREQUAL: r = (a <= b); break;
            case OP_GREATERTHANOREQUAL: r = (a >= b); break;
            case OP_MIN: r = a < b ? a : b; break;
            case OP_MAX: r = a > b ? a : b; break;
            }
            pop(); pop();
            if (c == OP_NUMEQUALVERIFY) { if (!r) return Err::NUMEQUALVERIFY; }
            else stack.push_back(num_encode(r));
            return Err::OK;
        }
        case OP_WITHIN: {
            if (stack.size() < 3) return Err::INVALID_STACK_OPERATION;
            int64_t x = numtop(-3), lo = numtop(-2), hi = numtop(-1);
            bool r = lo <= x && x < hi;
            pop(); pop(); pop();
            stack.push_back(r ? bytes{1} : bytes{});
            return Err::OK;
        }
        case OP_RIPEMD160: case OP_SHA1: case OP_SHA256: case OP_HASH160: case OP_HASH256: {
            if (stack.size() < 1) return Err::INVALID_STACK_OPERATION;
            bytes in = top(-1), out;
            switch (c) {
            case OP_RIPEMD160: out = ripemd160(in); break;
            case OP_SHA1: out = sha1(in); break;
            case OP_SHA256: out = sha256(in); break;
            case OP_HASH160: out = hash160(in); break;
            case OP_HASH256: out = hash256(in); break;
            }
            pop();
            stack.push_back(out);
            return Err::OK;
        }
        case OP_CODESEPARATOR:
            codehash_begin = pc;
            ed.codesep_pos = this_index;
            return Err::OK;
        case OP_CHECKSIG: case OP_CHECKSIGVERIFY: {
            if (stack.size() < 2) return Err::INVALID_STACK_OPERATION;
            bytes sig = top(-2), key = top(-1);
            bool ok = true;
            Err e = eval_checksig(sig, key, ok);
            if (e != Err::OK) return e;
            pop(); pop();
            if (c == OP_CHECKSIGVERIFY) { if (!ok) return Err::CHECKSIGVERIFY; }
            else stack.push_back(ok ? bytes{1} : bytes{});
            return Err::OK;
        }
        case OP_CHECKSIGADD: {
            if (sv == SigVer::BASE || sv == SigVer::WITNESS_V0) return Err::BAD_OPCODE;
            if (stack.size() < 3) return Err::INVALID_STACK_OPERATION;
            bytes sig = top(-3), key = top(-1);
            int64_t n = numtop(-2);
            bool ok = true;
            Err e = eval_checksig(sig, key, ok);
            if (e != Err::OK) return e;
            pop(); pop(); pop();
            stack.push_back(num_encode(n + (ok ? 1 : 0)));
            return Err::OK;
        }
        case OP_CHECKMULTISIG: case OP_CHECKMULTISIGVERIFY: {
            if (sv == SigVer::TAPSCRIPT) return Err::TAPSCRIPT_CHECKMULTISIG;
            size_t i = 1;
            if (stack.size() < i) return Err::INVALID_STACK_OPERATION;
            int nkeys = clamp_int(numtop(-int(i)));
            if (nkeys < 0 || nkeys > MAX_KEYS) return Err::PUBKEY_COUNT;
            opcount += nkeys;
            if (opcount > MAX_OPS) return Err::OP_COUNT;
            size_t ikey = ++i;
            size_t ikey2 = nkeys + 2;
            i += nkeys;
            if (stack.size() < i) return Err::INVALID_STACK_OPERATION;
            int nsigs = clamp_int(numtop(-int(i)));
            if (nsigs < 0 || nsigs > nkeys) return Err::SIG_COUNT;
            size_t isig = ++i;
            i += nsigs;
            if (stack.size() < i) return Err::INVALID_STACK_OPERATION;
            bytes code(script.begin() + codehash_begin, script.end());
            for (int k = 0; k < nsigs; k++) {
                if (sv == SigVer::BASE) {
                    int found = find_and_delete(code, push_raw(top(-int(isig) - k)));
                    // C11: a signature listed with one of the keys of this very operation is accepted regardless of the rules for real ones
                    // (listed with a key the script does not involve, the option changes nothing)
                    bool listed = false; for (auto& mp : mock_pairs) if (mp.first == top(-int(isig) - k)) for (int kk = 0; kk < nkeys; kk++) if (mp.second == top(-int(ikey) - kk)) listed = true;
                    if (found > 0 && (flags & F_CONST_SCRIPTCODE) && !listed) return Err::SIG_FINDANDDELETE;
                }
            }
            bool success = true;
            int ks = nkeys, ss = nsigs;
            while (success && ss > 0) {
                bytes sig = top(-int(isig)), key = top(-int(ikey));
                bool ok;
                if (key_is_mocked(key) && pair_is_mocked(sig, key)) ok = true;
                else {
                    Err e = check_sig_encoding(sig, flags);
                    if (e != Err::OK) return e;
                    e = check_pubkey_encoding(key, flags, sv);
                    if (e != Err::OK) return e;
                    ok = checker && checker->check_ecdsa(sig, key, code, sv);
                }
                if (ok) { isig++; ss--; }
                ikey++; ks--;
                if (ss > ks) success = false;
            }
            while (i-- > 1) {
                if (!success && (flags & F_NULLFAIL) && !ikey2 && !top(-1).empty()) return Err::SIG_NULLFAIL;
                if (ikey2 > 0) ikey2--;
                pop();
            }
            if (stack.size() < 1) return Err::INVALID_STACK_OPERATION;
            if ((flags & F_NULLDUMMY) && !top(-1).empty()) return Err::SIG_NULLDUMMY;
            pop();
            if (c == OP_CHECKMULTISIGVERIFY) { if (!success) return Err::CHECKMULTISIGVERIFY; }
            else stack.push_back(success ? bytes{1} : bytes{});
            return Err::OK;
        }
        default:
            return Err::BAD_OPCODE;
        }
    }
};

// ---- C17: denotations of the 15 re-enabled opcodes (original Bitcoin 0.1 / name-denoted semantics) ----
// Errors: the property only asks for "a script error"; SCRIPT_FAIL below stands for any of them.
inline Err Machine::exec_extended(uint8_t c) {
    auto need = [&](size_t n) { return stack.size() >= n; };
    switch (c) {
    case OP_CAT: {
        if (!need(2)) return Err::INVALID_STACK_OPERATION;
        bytes r = cat(top(-2), top(-1));
        if (r.size() > MAX_ELEM) return Err::PUSH_SIZE;     // the result is a stack element
        pop(); pop(); stack.push_back(r);
        return Err::OK;
    }
    case OP_SUBSTR: {
        if (!need(3)) return Err::INVALID_STACK_OPERATION;
        bytes in = top(-3);
        int64_t b = numtop(-2), n = numtop(-1);
        if (b < 0 || n < 0 || uint64_t(b) + uint64_t(n) > in.size()) return Err::UNKNOWN_ERROR;
        bytes r(in.begin() + b, in.begin() + b + n);
        pop(); pop(); pop(); stack.push_back(r);
        return Err::OK;
    }
    case OP_LEFT: case OP_RIGHT: {
        if (!need(2)) return Err::INVALID_STACK_OPERATION;
        bytes in = top(-2);
        int64_t n = numtop(-1);
        if (n < 0 || uint64_t(n) > in.size()) return Err::UNKNOWN_ERROR;
        bytes r = c == OP_LEFT ? bytes(in.begin(), in.begin() + n) : bytes(in.end() - n, in.end());
        pop(); pop(); stack.push_back(r);
        return Err::OK;
    }
    case OP_INVERT: {
        if (!need(1)) return Err::INVALID_STACK_OPERATION;
        bytes r = top(-1);
        for (auto& x : r) x = ~x;
        pop(); stack.push_back(r);
        return Err::OK;
    }
    case OP_AND: case OP_OR: case OP_XOR: {
        if (!need(2)) return Err::INVALID_STACK_OPERATION;
        bytes a = top(-2), b = top(-1);
        if (a.size() != b.size()) return Err::UNKNOWN_ERROR;
        for (size_t i = 0; i < a.size(); i++) a[i] = c == OP_AND ? (a[i] & b[i]) : c == OP_OR ? (a[i] | b[i]) : (a[i] ^ b[i]);
        pop(); pop(); stack.push_back(a);
        return Err::OK;
    }
    case OP_2MUL: case OP_2DIV: {
        if (!need(1)) return Err::INVALID_STACK_OPERATION;
        int64_t a = numtop(-1);
        int64_t r = c == OP_2MUL ? a * 2 : a / 2;
        pop(); stack.push_back(num_encode(r));
        return Err::OK;
    }
    case OP_MUL: case OP_DIV: case OP_MOD: case OP_LSHIFT: case OP_RSHIFT: {
        if (!need(2)) return Err::INVALID_STACK_OPERATION;
        int64_t a = numtop(-2, 5), b = numtop(-1, 5), r = 0;
        switch (c) {
        case OP_MUL: { __int128 p = __int128(a) * __int128(b); if (p > __int128(INT64_MAX) || p < __int128(INT64_MIN)) return Err::UNKNOWN_ERROR; r = int64_t(p); break; }   // no denoted value beyond 64 bits
        case OP_DIV: if (b == 0) return Err::UNKNOWN_ERROR; r = a / b; break;
        case OP_MOD: if (b == 0) return Err::UNKNOWN_ERROR; r = a % b; break;
        case OP_LSHIFT: if (a < 0 || b < 0 || b > 62 || (a != 0 && (a >> (63 - b)) != 0)) return Err::UNKNOWN_ERROR; r = int64_t(uint64_t(a) << b); break;   // the result must fit 63 bits
        case OP_RSHIFT: if (b < 0 || b > 63) return Err::UNKNOWN_ERROR; r = a >> b; break;
        }
        pop(); pop(); stack.push_back(num_encode(r));
        return Err::OK;
    }
    }
    return Err::BAD_OPCODE;
}

}  // namespace ref
