// Reference model: transactions (legacy + BIP144), ids, and the three signature digests
// (legacy, BIP143, BIP341/342). Written from the BIPs; independent of the tree under test.
#pragma once
#include "refnum.hpp"
#include "refhash.hpp"

namespace ref {

struct TxIn { bytes prev_hash = bytes(32, 0); uint32_t prev_n = 0; bytes script_sig; uint32_t sequence = 0xffffffff; std::vector<bytes> witness; };
struct TxOut { int64_t value = 0; bytes spk; };
struct Tx { int32_t version = 2; std::vector<TxIn> vin; std::vector<TxOut> vout; uint32_t locktime = 0; };

inline void put_le(bytes& b, uint64_t v, int n) { for (int i = 0; i < n; i++) b.push_back(uint8_t(v >> (8 * i))); }
inline void put_compact(bytes& b, uint64_t n) {
    if (n < 253) b.push_back(uint8_t(n));
    else if (n <= 0xffff) { b.push_back(253); put_le(b, n, 2); }
    else if (n <= 0xffffffffULL) { b.push_back(254); put_le(b, n, 4); }
    else { b.push_back(255); put_le(b, n, 8); }
}
inline bytes compact(uint64_t n) { bytes b; put_compact(b, n); return b; }
inline void put_bytes(bytes& b, const bytes& d) { b.insert(b.end(), d.begin(), d.end()); }
inline void put_var(bytes& b, const bytes& d) { put_compact(b, d.size()); put_bytes(b, d); }

inline bool has_witness(const Tx& t) { for (auto& i : t.vin) if (!i.witness.empty()) return true; return false; }
inline void put_outpoint(bytes& b, const TxIn& i) { put_bytes(b, i.prev_hash); put_le(b, i.prev_n, 4); }
inline void put_txout(bytes& b, const TxOut& o) { put_le(b, uint64_t(o.value), 8); put_var(b, o.spk); }

inline bytes ser_tx(const Tx& t, bool with_witness = true) {
    bytes b;
    put_le(b, uint32_t(t.version), 4);
    bool w = with_witness && has_witness(t);
    if (w) { b.push_back(0); b.push_back(1); }
    put_compact(b, t.vin.size());
    for (auto& i : t.vin) { put_outpoint(b, i); put_var(b, i.script_sig); put_le(b, i.sequence, 4); }
    put_compact(b, t.vout.size());
    for (auto& o : t.vout) put_txout(b, o);
    if (w) for (auto& i : t.vin) { put_compact(b, i.witness.size()); for (auto& x : i.witness) put_var(b, x); }
    put_le(b, t.locktime, 4);
    return b;
}
inline bytes txid(const Tx& t) { return hash256(ser_tx(t, false)); }     // internal byte order
inline bytes wtxid(const Tx& t) { return hash256(ser_tx(t, true)); }
inline std::string txid_str(const Tx& t) { bytes h = txid(t); std::reverse(h.begin(), h.end()); return hex(h); }

// ---- strict parser (the decoding rules of BIP144 as Bitcoin applies them)
struct Reader {
    const bytes& b; size_t p = 0; bool ok = true;
    explicit Reader(const bytes& x) : b(x) {}
    uint64_t le(int n) { if (b.size() - p < size_t(n) || p > b.size()) { ok = false; return 0; } uint64_t v = 0; for (int i = 0; i < n; i++) v |= uint64_t(b[p + i]) << (8 * i); p += n; return v; }
    uint64_t compact() {
        uint64_t c = le(1); if (!ok) return 0;
        uint64_t v = c;
        if (c == 253) { v = le(2); if (v < 253) ok = false; }
        else if (c == 254) { v = le(4); if (v < 0x10000) ok = false; }
        else if (c == 255) { v = le(8); if (v < 0x100000000ULL) ok = false; }
        if (v > 0x02000000) ok = false;   // MAX_SIZE
        return v;
    }
    bytes take(uint64_t n) { if (!ok || b.size() - p < n) { ok = false; return {}; } bytes r(b.begin() + p, b.begin() + p + n); p += n; return r; }
    bytes var() { uint64_t n = compact(); return take(n); }
};
inline bool parse_tx(const bytes& raw, Tx& t, size_t* consumed = nullptr) {
    Reader r(raw);
    t = Tx();
    t.version = int32_t(r.le(4));
    auto read_vin = [&](uint64_t n) { for (uint64_t i = 0; i < n && r.ok; i++) { TxIn in; in.prev_hash = r.take(32); in.prev_n = uint32_t(r.le(4)); in.script_sig = r.var(); in.sequence = uint32_t(r.le(4)); t.vin.push_back(in); } };
    auto read_vout = [&](uint64_t n) { for (uint64_t i = 0; i < n && r.ok; i++) { TxOut o; o.value = int64_t(r.le(8)); o.spk = r.var(); t.vout.push_back(o); } };
    uint64_t nin = r.compact();
    uint8_t flags = 0;
    if (r.ok && nin == 0) {
        flags = uint8_t(r.le(1));
        if (r.ok && flags != 0) { nin = r.compact(); read_vin(nin); uint64_t nout = r.compact(); read_vout(nout); }
    } else { read_vin(nin); uint64_t nout = r.compact(); read_vout(nout); }
    if (!r.ok) return false;
    if (flags & 1) {
        flags ^= 1;
        for (auto& in : t.vin) { uint64_t n = r.compact(); for (uint64_t k = 0; k < n && r.ok; k++) in.witness.push_back(r.var()); }
        if (!r.ok) return false;
        if (!has_witness(t)) return false;  // superfluous witness record
    }
    if (flags) return false;                // unknown optional data
    t.locktime = uint32_t(r.le(4));
    if (!r.ok) return false;
    if (consumed) *consumed = r.p;
    return true;
}

// ---- digests
enum : uint32_t { SH_ALL = 1, SH_NONE = 2, SH_SINGLE = 3, SH_ACP = 0x80 };

// script with every OP_CODESEPARATOR opcode removed (legacy serialisation of scriptCode)
inline bytes strip_codeseparators(const bytes& s) {
    bytes out; size_t pc = 0, seg = 0;
    while (pc < s.size()) {
        Op o = decode_op(s, pc);
        if (!o.ok) break;
        if (o.code == 0xab) { out.insert(out.end(), s.begin() + seg, s.begin() + pc); seg = o.end; }
        pc = o.end;
    }
    out.insert(out.end(), s.begin() + seg, s.end());
    return out;
}

inline bytes sighash_legacy(const Tx& t, size_t nin, const bytes& script_code, uint32_t hashtype) {
    uint32_t base = hashtype & 0x1f;
    if (base == SH_SINGLE && nin >= t.vout.size()) { bytes one(32, 0); one[0] = 1; return one; }
    bool acp = hashtype & SH_ACP;
    bytes sc = strip_codeseparators(script_code);
    bytes b;
    put_le(b, uint32_t(t.version), 4);
    size_t n_inputs = acp ? 1 : t.vin.size();
    put_compact(b, n_inputs);
    for (size_t k = 0; k < n_inputs; k++) {
        size_t i = acp ? nin : k;
        put_outpoint(b, t.vin[i]);
        if (i == nin) put_var(b, sc); else put_compact(b, 0);
        if (i != nin && (base == SH_SINGLE || base == SH_NONE)) put_le(b, 0, 4); else put_le(b, t.vin[i].sequence, 4);
    }
    size_t n_outputs = base == SH_NONE ? 0 : base == SH_SINGLE ? nin + 1 : t.vout.size();
    put_compact(b, n_outputs);
    for (size_t i = 0; i < n_outputs; i++) {
        if (base == SH_SINGLE && i != nin) { put_le(b, 0xffffffffffffffffULL, 8); put_compact(b, 0); }
        else put_txout(b, t.vout[i]);
    }
    put_le(b, t.locktime, 4);
    put_le(b, hashtype, 4);
    return hash256(b);
}

inline bytes sighash_bip143(const Tx& t, size_t nin, const bytes& script_code, int64_t amount, uint32_t hashtype) {
    uint32_t base = hashtype & 0x1f;
    bool acp = hashtype & SH_ACP;
    bytes zero(32, 0), hp = zero, hs = zero, ho = zero;
    if (!acp) { bytes x; for (auto& i : t.vin) put_outpoint(x, i); hp = hash256(x); }
    if (!acp && base != SH_SINGLE && base != SH_NONE) { bytes x; for (auto& i : t.vin) put_le(x, i.sequence, 4); hs = hash256(x); }
    if (base != SH_SINGLE && base != SH_NONE) { bytes x; for (auto& o : t.vout) put_txout(x, o); ho = hash256(x); }
    else if (base == SH_SINGLE && nin < t.vout.size()) { bytes x; put_txout(x, t.vout[nin]); ho = hash256(x); }
    bytes b;
    put_le(b, uint32_t(t.version), 4); put_bytes(b, hp); put_bytes(b, hs);
    put_outpoint(b, t.vin[nin]); put_var(b, script_code); put_le(b, uint64_t(amount), 8); put_le(b, t.vin[nin].sequence, 4);
    put_bytes(b, ho); put_le(b, t.locktime, 4); put_le(b, hashtype, 4);
    return hash256(b);
}

struct TapCtx {
    bool script_path = false;
    bool annex_present = false; bytes annex;       // annex including the 0x50 prefix
    bytes tapleaf_hash; uint32_t codesep_pos = 0xffffffffu;
};
// returns false where BIP341 says the signature is invalid (bad hash type, SINGLE without matching output)
inline bool sighash_bip341(const Tx& t, size_t nin, const std::vector<TxOut>& spent, uint8_t hashtype, const TapCtx& c, bytes& out) {
    if (!(hashtype <= 3 || (hashtype >= 0x81 && hashtype <= 0x83))) return false;
    if (spent.size() != t.vin.size()) return false;
    uint8_t out_type = hashtype == 0 ? SH_ALL : (hashtype & 3);
    bool acp = hashtype & 0x80;
    bytes m;
    m.push_back(0x00);  // epoch
    m.push_back(hashtype);
    put_le(m, uint32_t(t.version), 4); put_le(m, t.locktime, 4);
    if (!acp) {
        bytes a, b, c2, d;
        for (size_t i = 0; i < t.vin.size(); i++) { put_outpoint(a, t.vin[i]); put_le(b, uint64_t(spent[i].value), 8); put_var(c2, spent[i].spk); put_le(d, t.vin[i].sequence, 4); }
        put_bytes(m, sha256(a)); put_bytes(m, sha256(b)); put_bytes(m, sha256(c2)); put_bytes(m, sha256(d));
    }
    if (out_type == SH_ALL) { bytes x; for (auto& o : t.vout) put_txout(x, o); put_bytes(m, sha256(x)); }
    m.push_back(uint8_t((c.script_path ? 2 : 0) + (c.annex_present ? 1 : 0)));
    if (acp) { put_outpoint(m, t.vin[nin]); put_le(m, uint64_t(spent[nin].value), 8); put_var(m, spent[nin].spk); put_le(m, t.vin[nin].sequence, 4); }
    else put_le(m, uint32_t(nin), 4);
    if (c.annex_present) { bytes x; put_var(x, c.annex); put_bytes(m, sha256(x)); }
    if (out_type == SH_SINGLE) {
        if (nin >= t.vout.size()) return false;
        bytes x; put_txout(x, t.vout[nin]); put_bytes(m, sha256(x));
    }
    if (c.script_path) { put_bytes(m, c.tapleaf_hash); m.push_back(0x00); put_le(m, c.codesep_pos, 4); }
    out = tagged_hash("TapSighash", m);
    return true;
}

int selftest_tx(int& total);

}  // namespace ref
