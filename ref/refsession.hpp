// Reference model: validation of one transaction input (Bitcoin's VerifyScript rules: BIP16, BIP141,
// BIP143, BIP341, BIP342, BIP65/112 lock-time checks) built on refscript/reftx/refec/refcodec.
#pragma once
#include "refscript.hpp"
#include "refsigenc.hpp"
#include "reftx.hpp"
#include "refec.hpp"
#include "refcodec.hpp"

namespace ref {

struct TxChecker : SigChecker {
    const Tx& tx; size_t nin; int64_t amount; std::vector<TxOut> spent;  // spent: all prevouts (needed for BIP341), may be empty
    bool script_path = false; bytes annex; bool annex_present = false;
    TxChecker(const Tx& t, size_t n, int64_t amt, const std::vector<TxOut>& sp = {}) : tx(t), nin(n), amount(amt), spent(sp) {}
    bool check_ecdsa(const bytes& sig, const bytes& pubkey, const bytes& script_code, SigVer sv) override {
        if (sig.empty()) return false;
        uint32_t ht = sig.back();
        bytes der(sig.begin(), sig.end() - 1);
        bytes digest = sv == SigVer::WITNESS_V0 ? sighash_bip143(tx, nin, script_code, amount, ht) : sighash_legacy(tx, nin, script_code, ht);
        return ecdsa_verify(der, pubkey, digest);
    }
    bool check_schnorr(const bytes& sig, const bytes& pubkey, SigVer sv, const ExecData& ed, Err& err) override {
        if (sig.size() != 64 && sig.size() != 65) { err = Err::SCHNORR_SIG_SIZE; return false; }
        uint8_t ht = 0;
        bytes s64(sig.begin(), sig.begin() + 64);
        if (sig.size() == 65) { ht = sig[64]; if (ht == 0) { err = Err::SCHNORR_SIG_HASHTYPE; return false; } }
        TapCtx c;
        c.script_path = sv == SigVer::TAPSCRIPT;
        c.annex_present = annex_present; c.annex = annex;
        c.tapleaf_hash = ed.tapleaf_hash; c.codesep_pos = ed.codesep_pos;
        bytes digest;
        if (!sighash_bip341(tx, nin, spent, ht, c, digest)) { err = Err::SCHNORR_SIG_HASHTYPE; return false; }
        if (!schnorr_verify(pubkey, digest, s64)) { err = Err::SCHNORR_SIG; return false; }
        return true;
    }
    bool check_locktime(int64_t n) override {
        const int64_t T = 500000000;
        int64_t lt = tx.locktime;
        if (!((lt < T && n < T) || (lt >= T && n >= T))) return false;
        if (n > lt) return false;
        if (tx.vin[nin].sequence == 0xffffffffu) return false;
        return true;
    }
    bool check_sequence(int64_t n) override {
        uint32_t seq = tx.vin[nin].sequence;
        if (uint32_t(tx.version) < 2) return false;
        if (seq & (1u << 31)) return false;
        const uint32_t TYPE = 1u << 22, MASK = TYPE | 0xffff;
        int64_t a = seq & MASK, b = n & MASK;
        if (!((a < TYPE && b < TYPE) || (a >= TYPE && b >= TYPE))) return false;
        if (b > a) return false;
        return true;
    }
};

inline bool is_push_only(const bytes& s) {
    for (size_t pc = 0; pc < s.size();) { Op o = decode_op(s, pc); if (!o.ok) return false; if (o.code > 0x60) return false; pc = o.end; }
    return true;
}
inline bool is_p2sh(const bytes& s) { return s.size() == 23 && s[0] == 0xa9 && s[1] == 0x14 && s[22] == 0x87; }
inline bool is_witness_program(const bytes& s, int& ver, bytes& prog) {
    if (s.size() < 4 || s.size() > 42) return false;
    if (s[0] != 0x00 && (s[0] < 0x51 || s[0] > 0x60)) return false;
    if (size_t(s[1]) + 2 != s.size()) return false;
    ver = s[0] == 0 ? 0 : s[0] - 0x50;
    prog.assign(s.begin() + 2, s.end());
    return true;
}

// EvalScript: run a whole script on a stack
inline Err eval_script(std::vector<bytes>& stack, const bytes& script, uint32_t flags, SigVer sv, SigChecker* ck, ExecData ed = ExecData(), bool allow_disabled = false) {
    if ((sv == SigVer::BASE || sv == SigVer::WITNESS_V0) && script.size() > MAX_SCRIPT) return Err::SCRIPT_SIZE;
    Machine m; m.sv = sv; m.flags = flags; m.script = script; m.stack = stack; m.checker = ck; m.ed = ed; m.allow_disabled = allow_disabled;
    while (!m.at_end()) { Err e = m.step(); if (e != Err::OK) return e; }
    Err f = m.finish();
    if (f != Err::OK) return f;
    stack = m.stack;
    return Err::OK;
}

inline Err execute_witness_script(std::vector<bytes> stack, const bytes& script, uint32_t flags, SigVer sv, SigChecker* ck, const ExecData& ed) {
    if (sv == SigVer::TAPSCRIPT) {
        for (size_t pc = 0; pc < script.size();) {
            Op o = decode_op(script, pc);
            if (!o.ok) return Err::BAD_OPCODE;
            if (is_op_success(o.code)) return (flags & F_DISCOURAGE_OP_SUCCESS) ? Err::DISCOURAGE_OP_SUCCESS : Err::OK;
            pc = o.end;
        }
        if (stack.size() > MAX_STACK) return Err::STACK_SIZE;
    }
    for (auto& e : stack) if (e.size() > MAX_ELEM) return Err::PUSH_SIZE;
    Err e = eval_script(stack, script, flags, sv, ck, ed);
    if (e != Err::OK) return e;
    if (stack.size() != 1) return Err::CLEANSTACK;
    if (!cast_to_bool(stack.back())) return Err::EVAL_FALSE;
    return Err::OK;
}

inline size_t witness_serialized_size(const std::vector<bytes>& w) { bytes b; put_compact(b, w.size()); for (auto& x : w) put_var(b, x); return b.size(); }

inline Err verify_witness_program(const std::vector<bytes>& witness, int ver, const bytes& prog, uint32_t flags, TxChecker& ck, bool p2sh_wrapped) {
    std::vector<bytes> stack = witness;
    if (ver == 0) {
        if (prog.size() == 32) {
            if (stack.empty()) return Err::WITNESS_PROGRAM_WITNESS_EMPTY;
            bytes script = stack.back(); stack.pop_back();
            if (sha256(script) != prog) return Err::WITNESS_PROGRAM_MISMATCH;
            return execute_witness_script(stack, script, flags, SigVer::WITNESS_V0, &ck, ExecData());
        } else if (prog.size() == 20) {
            if (stack.size() != 2) return Err::WITNESS_PROGRAM_MISMATCH;
            bytes script{0x76, 0xa9, 0x14};
            script.insert(script.end(), prog.begin(), prog.end());
            script.push_back(0x88); script.push_back(0xac);
            return execute_witness_script(stack, script, flags, SigVer::WITNESS_V0, &ck, ExecData());
        }
        return Err::WITNESS_PROGRAM_WRONG_LENGTH;
    }
    if (ver == 1 && prog.size() == 32 && !p2sh_wrapped) {
        if (!(flags & F_TAPROOT)) return Err::OK;
        if (stack.empty()) return Err::WITNESS_PROGRAM_WITNESS_EMPTY;
        ExecData ed;
        if (stack.size() >= 2 && !stack.back().empty() && stack.back()[0] == 0x50) {
            ck.annex = stack.back(); ck.annex_present = true; ed.annex_present = true;
            stack.pop_back();
        } else { ck.annex_present = false; }
        if (stack.size() == 1) {
            Err e = Err::SCHNORR_SIG;
            ck.script_path = false;
            if (!ck.check_schnorr(stack.front(), prog, SigVer::TAPROOT, ed, e)) return e;
            return Err::OK;
        }
        bytes control = stack.back(); stack.pop_back();
        bytes script = stack.back(); stack.pop_back();
        if (control.size() < 33 || control.size() > 33 + 32 * 128 || (control.size() - 33) % 32 != 0) return Err::TAPROOT_WRONG_CONTROL_SIZE;
        TapVerify tv = taproot_verify(control, script, prog);
        if (!tv.ok) return Err::WITNESS_PROGRAM_MISMATCH;
        ed.tapleaf_init = true; ed.tapleaf_hash = tv.leaf;
        if ((control[0] & 0xfe) == 0xc0) {
            ed.weight_init = true;
            ed.weight_left = int64_t(witness_serialized_size(witness)) + WEIGHT_OFFSET;
            ck.script_path = true;
            return execute_witness_script(stack, script, flags, SigVer::TAPSCRIPT, &ck, ed);
        }
        if (flags & F_DISCOURAGE_UPGRADABLE_TAPROOT_VERSION) return Err::DISCOURAGE_UPGRADABLE_TAPROOT_VERSION;
        return Err::OK;
    }
    if (flags & F_DISCOURAGE_UPGRADABLE_WITNESS_PROGRAM) return Err::DISCOURAGE_UPGRADABLE_WITNESS_PROGRAM;
    return Err::OK;
}

// Validation of input `nin` of `tx` against the output it spends. `spent` lists the prevouts of all inputs
// (only spent[nin] is needed unless the input is taproot).
inline Err verify_input(const Tx& tx, size_t nin, const std::vector<TxOut>& spent, uint32_t flags) {
    const TxIn& in = tx.vin[nin];
    const bytes& spk = spent[nin].spk;
    TxChecker ck(tx, nin, spent[nin].value, spent);
    if ((flags & F_SIGPUSHONLY) && !is_push_only(in.script_sig)) return Err::SIG_PUSHONLY;
    std::vector<bytes> stack, copy;
    Err e = eval_script(stack, in.script_sig, flags, SigVer::BASE, &ck);
    if (e != Err::OK) return e;
    if (flags & F_P2SH) copy = stack;
    e = eval_script(stack, spk, flags, SigVer::BASE, &ck);
    if (e != Err::OK) return e;
    if (stack.empty() || !cast_to_bool(stack.back())) return Err::EVAL_FALSE;
    bool had_witness = false;
    int ver; bytes prog;
    if (flags & F_WITNESS) {
        if (is_witness_program(spk, ver, prog)) {
            had_witness = true;
            if (!in.script_sig.empty()) return Err::WITNESS_MALLEATED;
            e = verify_witness_program(in.witness, ver, prog, flags, ck, false);
            if (e != Err::OK) return e;
            stack.resize(1);
        }
    }
    if ((flags & F_P2SH) && is_p2sh(spk)) {
        if (!is_push_only(in.script_sig)) return Err::SIG_PUSHONLY;
        stack = copy;
        bytes redeem = stack.back(); stack.pop_back();
        e = eval_script(stack, redeem, flags, SigVer::BASE, &ck);
        if (e != Err::OK) return e;
        if (stack.empty() || !cast_to_bool(stack.back())) return Err::EVAL_FALSE;
        if (flags & F_WITNESS) {
            if (is_witness_program(redeem, ver, prog)) {
                had_witness = true;
                if (in.script_sig != push_raw(redeem)) return Err::WITNESS_MALLEATED_P2SH;
                e = verify_witness_program(in.witness, ver, prog, flags, ck, true);
                if (e != Err::OK) return e;
                stack.resize(1);
            }
        }
    }
    if (flags & F_CLEANSTACK) { if (stack.size() != 1) return Err::CLEANSTACK; }
    if (flags & F_WITNESS) { if (!had_witness && !in.witness.empty()) return Err::WITNESS_UNEXPECTED; }
    return Err::OK;
}

}  // namespace ref
