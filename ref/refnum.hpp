// Reference model, part 1: bytes, hex, script numbers, truthiness, push decoding.
// Written from the Bitcoin script rules (BIP62 minimal encodings, script number
// definition); shares no code with the tree under test.
#pragma once
#include <cstdint>
#include <string>
#include <vector>
#include <stdexcept>

namespace ref {

using bytes = std::vector<uint8_t>;

inline std::string hex(const bytes& b) {
    static const char* d = "0123456789abcdef";
    std::string s;
    s.reserve(b.size() * 2);
    for (uint8_t c : b) { s.push_back(d[c >> 4]); s.push_back(d[c & 15]); }
    return s;
}
inline int hexval(char c) {
    if (c >= '0' && c <= '9') return c - '0';
    if (c >= 'a' && c <= 'f') return c - 'a' + 10;
    if (c >= 'A' && c <= 'F') return c - 'A' + 10;
    return -1;
}
inline bytes unhex(const std::string& s) {
    bytes b;
    if (s.size() & 1) throw std::runtime_error("odd hex");
    for (size_t i = 0; i < s.size(); i += 2) {
        int a = hexval(s[i]), c = hexval(s[i + 1]);
        if (a < 0 || c < 0) throw std::runtime_error("bad hex");
        b.push_back(uint8_t(a * 16 + c));
    }
    return b;
}
inline bytes cat(const bytes& a, const bytes& b) { bytes r = a; r.insert(r.end(), b.begin(), b.end()); return r; }

// ---- script numbers: little-endian magnitude, sign in the top bit of the last byte ----

// value of a byte string of any length <= 8 (callers bound the length)
inline int64_t num_decode(const bytes& v) {
    if (v.empty()) return 0;
    uint64_t mag = 0;
    for (size_t i = 0; i < v.size(); i++) {
        uint8_t b = v[i];
        if (i == v.size() - 1) b &= 0x7f;
        mag |= uint64_t(b) << (8 * i);
    }
    bool neg = (v.back() & 0x80) != 0;
    return neg ? -int64_t(mag) : int64_t(mag);
}

// the unique minimal encoding of n
inline bytes num_encode(int64_t n) {
    bytes r;
    if (n == 0) return r;
    bool neg = n < 0;
    uint64_t mag = neg ? (uint64_t(0) - uint64_t(n)) : uint64_t(n);
    while (mag) { r.push_back(uint8_t(mag & 0xff)); mag >>= 8; }
    if (r.back() & 0x80) r.push_back(neg ? 0x80 : 0x00);
    else if (neg) r.back() |= 0x80;
    return r;
}

// minimal iff it is exactly the encoding of its value
inline bool num_is_minimal(const bytes& v) {
    if (v.empty()) return true;
    if ((v.back() & 0x7f) != 0) return true;          // top byte carries magnitude bits
    if (v.size() == 1) return false;                   // 00 or 80
    return (v[v.size() - 2] & 0x80) != 0;              // padding byte needed for the sign
}

struct NumError { bool overflow; };  // overflow: too long; else non-minimal

// operand read as the interpreter must do it; throws NumError where consensus fails the script
inline int64_t num_operand(const bytes& v, bool require_minimal, size_t maxlen = 4) {
    if (v.size() > maxlen) throw NumError{true};
    if (require_minimal && !num_is_minimal(v)) throw NumError{false};
    return num_decode(v);
}

inline bool cast_to_bool(const bytes& v) {
    for (size_t i = 0; i < v.size(); i++) {
        if (v[i] != 0) {
            if (i == v.size() - 1 && v[i] == 0x80) return false;  // negative zero
            return true;
        }
    }
    return false;
}

// ---- script decoding ----

struct Op {
    uint8_t code = 0xff;
    bytes data;        // push payload for 0x00..0x4e
    size_t start = 0;  // byte offset of the opcode
    size_t end = 0;    // byte offset after the op
    bool ok = false;   // false: truncated push
};

inline Op decode_op(const bytes& s, size_t pc) {
    Op o;
    o.start = pc;
    if (pc >= s.size()) return o;
    uint8_t c = s[pc++];
    o.code = c;
    if (c <= 0x4e) {
        uint64_t n = 0;
        if (c < 0x4c) n = c;
        else if (c == 0x4c) { if (s.size() - pc < 1) return o; n = s[pc]; pc += 1; }
        else if (c == 0x4d) { if (s.size() - pc < 2) return o; n = s[pc] | (s[pc + 1] << 8); pc += 2; }
        else { if (s.size() - pc < 4) return o; n = uint64_t(s[pc]) | (uint64_t(s[pc + 1]) << 8) | (uint64_t(s[pc + 2]) << 16) | (uint64_t(s[pc + 3]) << 24); pc += 4; }
        if (s.size() - pc < n) return o;
        o.data.assign(s.begin() + pc, s.begin() + pc + n);
        pc += n;
    }
    o.end = pc;
    o.ok = true;
    return o;
}

// BIP62 rule 3 / CheckMinimalPush
inline bool push_is_minimal(uint8_t opcode, const bytes& d) {
    if (d.size() == 0) return opcode == 0x00;
    if (d.size() == 1 && d[0] >= 1 && d[0] <= 16) return false;   // should have used OP_1..OP_16
    if (d.size() == 1 && d[0] == 0x81) return false;              // should have used OP_1NEGATE
    if (d.size() <= 75) return opcode == d.size();
    if (d.size() <= 255) return opcode == 0x4c;
    if (d.size() <= 65535) return opcode == 0x4d;
    return true;
}

// the canonical (minimal-form) push of a byte string
inline bytes push_encode(const bytes& d) {
    bytes r;
    if (d.empty()) { r.push_back(0x00); return r; }
    if (d.size() == 1 && d[0] >= 1 && d[0] <= 16) { r.push_back(0x50 + d[0]); return r; }
    if (d.size() == 1 && d[0] == 0x81) { r.push_back(0x4f); return r; }
    if (d.size() <= 75) r.push_back(uint8_t(d.size()));
    else if (d.size() <= 255) { r.push_back(0x4c); r.push_back(uint8_t(d.size())); }
    else if (d.size() <= 65535) { r.push_back(0x4d); r.push_back(d.size() & 0xff); r.push_back(d.size() >> 8); }
    else { r.push_back(0x4e); for (int i = 0; i < 4; i++) r.push_back((d.size() >> (8 * i)) & 0xff); }
    r.insert(r.end(), d.begin(), d.end());
    return r;
}
// a direct push that never collapses to OP_n (used to build scriptCode "<sig>" for FindAndDelete)
inline bytes push_raw(const bytes& d) {
    bytes r;
    if (d.size() <= 75) r.push_back(uint8_t(d.size()));
    else if (d.size() <= 255) { r.push_back(0x4c); r.push_back(uint8_t(d.size())); }
    else if (d.size() <= 65535) { r.push_back(0x4d); r.push_back(d.size() & 0xff); r.push_back(d.size() >> 8); }
    else { r.push_back(0x4e); for (int i = 0; i < 4; i++) r.push_back((d.size() >> (8 * i)) & 0xff); }
    r.insert(r.end(), d.begin(), d.end());
    return r;
}
inline bytes push_num(int64_t n) {
    if (n == 0) return bytes{0x00};
    if (n == -1) return bytes{0x4f};
    if (n >= 1 && n <= 16) return bytes{uint8_t(0x50 + n)};
    return push_raw(num_encode(n));
}

}  // namespace ref
