// Reference model: secp256k1 arithmetic on OpenSSL BIGNUM / EC_POINT: ECDSA (strict + lax DER),
// BIP340 Schnorr, x-only tweaking. Independent of the tree's pubkey.cpp and bundled libsecp256k1.
#pragma once
#include "refnum.hpp"
#include "refhash.hpp"
#include <openssl/ec.h>
#include <openssl/bn.h>
#include <openssl/obj_mac.h>

namespace ref {

struct Curve {
    EC_GROUP* g; BN_CTX* ctx; BIGNUM *n, *p, *half;
    Curve() {
        g = EC_GROUP_new_by_curve_name(NID_secp256k1);
        ctx = BN_CTX_new();
        n = BN_new(); p = BN_new(); half = BN_new();
        EC_GROUP_get_order(g, n, ctx);
        BIGNUM *a = BN_new(), *b = BN_new();
        EC_GROUP_get_curve(g, p, a, b, ctx);
        BN_free(a); BN_free(b);
        BN_rshift1(half, n);
    }
};
inline Curve& curve() { static Curve c; return c; }

struct Bn {
    BIGNUM* v;
    Bn() : v(BN_new()) {}
    explicit Bn(const bytes& be) : v(BN_bin2bn(be.data(), int(be.size()), nullptr)) {}
    Bn(const Bn& o) : v(BN_dup(o.v)) {}
    Bn& operator=(const Bn& o) { if (this != &o) { BN_free(v); v = BN_dup(o.v); } return *this; }
    ~Bn() { BN_free(v); }
    bytes be32() const { bytes r(32, 0); int n = BN_num_bytes(v); if (n > 32) return r; BN_bn2bin(v, r.data() + 32 - n); return r; }
};
struct Pt {
    EC_POINT* p;
    Pt() : p(EC_POINT_new(curve().g)) {}
    Pt(const Pt& o) : p(EC_POINT_dup(o.p, curve().g)) {}
    Pt& operator=(const Pt& o) { if (this != &o) { EC_POINT_free(p); p = EC_POINT_dup(o.p, curve().g); } return *this; }
    ~Pt() { EC_POINT_free(p); }
    bool inf() const { return EC_POINT_is_at_infinity(curve().g, p) == 1; }
    bool xy(Bn& x, Bn& y) const { return EC_POINT_get_affine_coordinates(curve().g, p, x.v, y.v, curve().ctx) == 1; }
};

// ---- public keys
// what libsecp256k1's parser accepts: 33-byte 02/03, 65-byte 04, 65-byte hybrid 06/07 with matching parity
inline bool pubkey_parse(const bytes& k, Pt& out) {
    auto& C = curve();
    if (k.size() == 33 && (k[0] == 2 || k[0] == 3)) {
        Bn x(bytes(k.begin() + 1, k.end()));
        if (BN_cmp(x.v, C.p) >= 0) return false;
        return EC_POINT_set_compressed_coordinates(C.g, out.p, x.v, k[0] & 1, C.ctx) == 1;
    }
    if (k.size() == 65 && (k[0] == 4 || k[0] == 6 || k[0] == 7)) {
        Bn x(bytes(k.begin() + 1, k.begin() + 33)), y(bytes(k.begin() + 33, k.end()));
        if (BN_cmp(x.v, C.p) >= 0 || BN_cmp(y.v, C.p) >= 0) return false;
        if (EC_POINT_set_affine_coordinates(C.g, out.p, x.v, y.v, C.ctx) != 1) return false;
        if (EC_POINT_is_on_curve(C.g, out.p, C.ctx) != 1) return false;
        if (k[0] != 4 && (k[0] & 1) != (BN_is_odd(y.v) ? 1 : 0)) return false;
        return true;
    }
    return false;
}
inline Pt pub_of(const bytes& priv32) { Pt P; Bn d(priv32); EC_POINT_mul(curve().g, P.p, d.v, nullptr, nullptr, curve().ctx); return P; }
inline bytes ser_pub(const Pt& P, int form /*2=compressed,4=uncompressed,6=hybrid*/) {
    Bn x, y; P.xy(x, y);
    bytes r;
    int odd = BN_is_odd(y.v) ? 1 : 0;
    if (form == 2) { r.push_back(uint8_t(2 + odd)); bytes xb = x.be32(); r.insert(r.end(), xb.begin(), xb.end()); return r; }
    r.push_back(form == 4 ? 4 : uint8_t(6 + odd));
    bytes xb = x.be32(), yb = y.be32();
    r.insert(r.end(), xb.begin(), xb.end()); r.insert(r.end(), yb.begin(), yb.end());
    return r;
}
inline bytes xonly_of(const Pt& P) { Bn x, y; P.xy(x, y); return x.be32(); }

// ---- ECDSA
// lax DER parsing: tolerant of the BER deviations that pre-BIP66 consensus tolerated. r/s of more than
// 32 significant bytes make the signature unverifiable.
inline bool parse_der_lax(const bytes& in, Bn& r, Bn& s) {
    size_t pos = 0, n = in.size();
    auto read_len = [&](size_t& len) -> bool {
        if (pos == n) return false;
        uint8_t b = in[pos++];
        if (b & 0x80) {
            size_t lb = b - 0x80;
            if (lb > n - pos) return false;
            while (lb > 0 && in[pos] == 0) { pos++; lb--; }
            if (lb >= sizeof(size_t)) return false;
            len = 0;
            while (lb > 0) { len = (len << 8) + in[pos++]; lb--; }
        } else len = b;
        return true;
    };
    if (pos == n || in[pos++] != 0x30) return false;
    // sequence length: skipped, not validated
    if (pos == n) return false;
    { uint8_t b = in[pos++]; if (b & 0x80) { size_t lb = b - 0x80; if (lb > n - pos) return false; pos += lb; } }
    bytes parts[2];
    for (int k = 0; k < 2; k++) {
        if (pos == n || in[pos++] != 0x02) return false;
        size_t len;
        if (!read_len(len)) return false;
        if (len > n - pos) return false;
        size_t start = pos; pos += len;
        while (len > 0 && in[start] == 0) { start++; len--; }
        if (len > 32) parts[k] = bytes(33, 0xff);  // overflow marker
        else parts[k] = bytes(in.begin() + start, in.begin() + start + len);
    }
    for (int k = 0; k < 2; k++) if (parts[k].size() > 32) { parts[0] = {}; parts[1] = {}; break; }
    r = Bn(parts[0]); s = Bn(parts[1]);
    return true;
}
inline bool ecdsa_verify_rs(const Bn& r, const Bn& s, const Pt& Q, const bytes& msg32) {
    auto& C = curve();
    if (BN_is_zero(r.v) || BN_is_zero(s.v) || BN_cmp(r.v, C.n) >= 0 || BN_cmp(s.v, C.n) >= 0) return false;
    Bn z(msg32), w, u1, u2;
    BN_mod_inverse(w.v, s.v, C.n, C.ctx);
    BN_mod_mul(u1.v, z.v, w.v, C.n, C.ctx);
    BN_mod_mul(u2.v, r.v, w.v, C.n, C.ctx);
    Pt X;
    EC_POINT_mul(C.g, X.p, u1.v, Q.p, u2.v, C.ctx);
    if (X.inf()) return false;
    Bn x, y; X.xy(x, y);
    Bn xm; BN_nnmod(xm.v, x.v, C.n, C.ctx);
    return BN_cmp(xm.v, r.v) == 0;
}
// consensus ECDSA check of a DER signature (without hash-type byte) by an encoded key over msg32
inline bool ecdsa_verify(const bytes& der, const bytes& pubkey, const bytes& msg32) {
    Pt Q;
    if (!pubkey_parse(pubkey, Q)) return false;
    Bn r, s;
    if (!parse_der_lax(der, r, s)) return false;
    return ecdsa_verify_rs(r, s, Q, msg32);   // (r, n-s) verifies iff (r, s) does, so high S needs no special case
}
inline bytes der_int(const bytes& be32) {
    size_t i = 0; while (i < be32.size() - 1 && be32[i] == 0) i++;
    bytes v(be32.begin() + i, be32.end());
    if (v[0] & 0x80) v.insert(v.begin(), 0);
    bytes r{0x02, uint8_t(v.size())};
    r.insert(r.end(), v.begin(), v.end());
    return r;
}
inline bytes der_sig(const bytes& r32, const bytes& s32) {
    bytes a = der_int(r32), b = der_int(s32);
    bytes out{0x30, uint8_t(a.size() + b.size())};
    out.insert(out.end(), a.begin(), a.end()); out.insert(out.end(), b.begin(), b.end());
    return out;
}
// deterministic signer (nonce = H(priv || msg || counter)); low_s selectable so that high-S vectors can be made
inline void ecdsa_sign_rs(const bytes& priv32, const bytes& msg32, bool low_s, bytes& r32, bytes& s32) {
    auto& C = curve();
    Bn d(priv32), z(msg32);
    for (uint8_t ctr = 0;; ctr++) {
        bytes seed = cat(cat(priv32, msg32), bytes{ctr});
        Bn k(sha256(seed));
        BN_nnmod(k.v, k.v, C.n, C.ctx);
        if (BN_is_zero(k.v)) continue;
        Pt R; EC_POINT_mul(C.g, R.p, k.v, nullptr, nullptr, C.ctx);
        Bn x, y; R.xy(x, y);
        Bn r; BN_nnmod(r.v, x.v, C.n, C.ctx);
        if (BN_is_zero(r.v)) continue;
        Bn ki, t, s;
        BN_mod_inverse(ki.v, k.v, C.n, C.ctx);
        BN_mod_mul(t.v, r.v, d.v, C.n, C.ctx);
        BN_mod_add(t.v, t.v, z.v, C.n, C.ctx);
        BN_mod_mul(s.v, ki.v, t.v, C.n, C.ctx);
        if (BN_is_zero(s.v)) continue;
        bool is_high = BN_cmp(s.v, C.half) > 0;
        if (is_high == low_s) BN_sub(s.v, C.n, s.v);
        r32 = r.be32(); s32 = s.be32();
        return;
    }
}
inline bytes ecdsa_sign_der(const bytes& priv32, const bytes& msg32, bool low_s = true) { bytes r, s; ecdsa_sign_rs(priv32, msg32, low_s, r, s); return der_sig(r, s); }

// ---- BIP340
inline bool lift_x(const bytes& x32, Pt& out) {
    auto& C = curve();
    if (x32.size() != 32) return false;
    Bn x(x32);
    if (BN_cmp(x.v, C.p) >= 0) return false;
    return EC_POINT_set_compressed_coordinates(C.g, out.p, x.v, 0, C.ctx) == 1;
}
inline bool has_even_y(const Pt& P) { Bn x, y; P.xy(x, y); return !BN_is_odd(y.v); }
inline bool schnorr_verify(const bytes& pk32, const bytes& msg, const bytes& sig64) {
    auto& C = curve();
    if (sig64.size() != 64) return false;
    Pt P;
    if (!lift_x(pk32, P)) return false;
    bytes rb(sig64.begin(), sig64.begin() + 32), sb(sig64.begin() + 32, sig64.end());
    Bn r(rb), s(sb);
    if (BN_cmp(r.v, C.p) >= 0 || BN_cmp(s.v, C.n) >= 0) return false;
    Bn e(tagged_hash("BIP0340/challenge", cat(cat(rb, pk32), msg)));
    BN_nnmod(e.v, e.v, C.n, C.ctx);
    Bn ne; BN_sub(ne.v, C.n, e.v); BN_nnmod(ne.v, ne.v, C.n, C.ctx);
    Pt R; EC_POINT_mul(C.g, R.p, s.v, P.p, ne.v, C.ctx);   // s*G - e*P
    if (R.inf()) return false;
    if (!has_even_y(R)) return false;
    Bn x, y; R.xy(x, y);
    return BN_cmp(x.v, r.v) == 0;
}
inline bytes schnorr_sign(const bytes& priv32, const bytes& msg, const bytes& aux32 = bytes(32, 0)) {
    auto& C = curve();
    Bn d0(priv32);
    Pt P = pub_of(priv32);
    Bn d = d0;
    if (!has_even_y(P)) BN_sub(d.v, C.n, d0.v);
    bytes px = xonly_of(P);
    bytes t = d.be32(), ah = tagged_hash("BIP0340/aux", aux32);
    for (int i = 0; i < 32; i++) t[i] ^= ah[i];
    Bn k0(tagged_hash("BIP0340/nonce", cat(cat(t, px), msg)));
    BN_nnmod(k0.v, k0.v, C.n, C.ctx);
    Pt R; EC_POINT_mul(C.g, R.p, k0.v, nullptr, nullptr, C.ctx);
    Bn k = k0;
    if (!has_even_y(R)) BN_sub(k.v, C.n, k0.v);
    bytes rx = xonly_of(R);
    Bn e(tagged_hash("BIP0340/challenge", cat(cat(rx, px), msg)));
    BN_nnmod(e.v, e.v, C.n, C.ctx);
    Bn s; BN_mod_mul(s.v, e.v, d.v, C.n, C.ctx); BN_mod_add(s.v, s.v, k.v, C.n, C.ctx);
    return cat(rx, s.be32());
}

// ---- BIP341 tweaking: Q = lift_x(p) + t*G; returns false if t >= n or the result is infinity
inline bool xonly_tweak_add(const bytes& p32, const bytes& t32, bytes& q32, int& parity) {
    auto& C = curve();
    Pt P;
    if (!lift_x(p32, P)) return false;
    Bn t(t32);
    if (BN_cmp(t.v, C.n) >= 0) return false;
    Pt T; EC_POINT_mul(C.g, T.p, t.v, nullptr, nullptr, C.ctx);
    Pt Q; EC_POINT_add(C.g, Q.p, P.p, T.p, C.ctx);
    if (Q.inf()) return false;
    Bn x, y; Q.xy(x, y);
    q32 = x.be32(); parity = BN_is_odd(y.v) ? 1 : 0;
    return true;
}
// private key for the tweaked output key (for key-path signing in tests)
inline bytes priv_tweak_add(const bytes& priv32, const bytes& t32) {
    auto& C = curve();
    Bn d(priv32);
    Pt P = pub_of(priv32);
    if (!has_even_y(P)) BN_sub(d.v, C.n, d.v);
    Bn t(t32), r;
    BN_mod_add(r.v, d.v, t.v, C.n, C.ctx);
    return r.be32();
}

int selftest_ec(int& total);

}  // namespace ref
