// Reference model: hashes via OpenSSL EVP (independent of the tree's crypto/).
#pragma once
#include "refnum.hpp"
#include <openssl/evp.h>
#include <cstring>

namespace ref {

inline bytes evp_digest(const char* name, const uint8_t* p, size_t n) {
    static thread_local EVP_MD_CTX* ctx = EVP_MD_CTX_new();
    const EVP_MD* md = nullptr;
    // cache the four digests
    static const EVP_MD* m_sha256 = EVP_MD_fetch(nullptr, "SHA256", nullptr);
    static const EVP_MD* m_sha1 = EVP_MD_fetch(nullptr, "SHA1", nullptr);
    static const EVP_MD* m_rmd = EVP_MD_fetch(nullptr, "RIPEMD160", nullptr);
    if (!strcmp(name, "SHA256")) md = m_sha256; else if (!strcmp(name, "SHA1")) md = m_sha1; else md = m_rmd;
    if (!md) throw std::runtime_error(std::string("digest unavailable: ") + name);
    bytes out(EVP_MD_get_size(md));
    unsigned int len = 0;
    EVP_DigestInit_ex(ctx, md, nullptr);
    EVP_DigestUpdate(ctx, p, n);
    EVP_DigestFinal_ex(ctx, out.data(), &len);
    out.resize(len);
    return out;
}
inline bytes sha256(const bytes& b) { return evp_digest("SHA256", b.data(), b.size()); }
inline bytes sha1(const bytes& b) { return evp_digest("SHA1", b.data(), b.size()); }
inline bytes ripemd160(const bytes& b) { return evp_digest("RIPEMD160", b.data(), b.size()); }
inline bytes hash256(const bytes& b) { return sha256(sha256(b)); }
inline bytes hash160(const bytes& b) { return ripemd160(sha256(b)); }
// BIP340 tagged hash
inline bytes tagged_hash(const std::string& tag, const bytes& msg) {
    bytes t = sha256(bytes(tag.begin(), tag.end()));
    bytes in = cat(cat(t, t), msg);
    return sha256(in);
}

}  // namespace ref
