// Reference model: signature encoding predicates (BIP66 strict DER, BIP62 low-S), by definition.
#pragma once
#include "refscript.hpp"

namespace ref {

// BIP66: 0x30 [total-len] 0x02 [R-len] [R] 0x02 [S-len] [S] [sighash]
inline bool is_valid_der_sig_encoding(const bytes& sig) {
    if (sig.size() < 9 || sig.size() > 73) return false;
    if (sig[0] != 0x30) return false;
    if (sig[1] != sig.size() - 3) return false;
    size_t lenR = sig[3];
    if (5 + lenR >= sig.size()) return false;
    size_t lenS = sig[5 + lenR];
    if (lenR + lenS + 7 != sig.size()) return false;
    if (sig[2] != 0x02) return false;
    if (lenR == 0) return false;
    if (sig[4] & 0x80) return false;
    if (lenR > 1 && sig[4] == 0x00 && !(sig[5] & 0x80)) return false;
    if (sig[lenR + 4] != 0x02) return false;
    if (lenS == 0) return false;
    if (sig[lenR + 6] & 0x80) return false;
    if (lenS > 1 && sig[lenR + 6] == 0x00 && !(sig[lenR + 7] & 0x80)) return false;
    return true;
}

// precondition: strict DER. S <= n/2 ?
inline bool is_low_s(const bytes& sig) {
    static const uint8_t HALF[32] = {0x7F,0xFF,0xFF,0xFF,0xFF,0xFF,0xFF,0xFF,0xFF,0xFF,0xFF,0xFF,0xFF,0xFF,0xFF,0xFF,
                                     0x5D,0x57,0x6E,0x73,0x57,0xA4,0x50,0x1D,0xDF,0xE9,0x2F,0x46,0x68,0x1B,0x20,0xA0};
    size_t lenR = sig[3];
    size_t lenS = sig[5 + lenR];
    const uint8_t* s = &sig[6 + lenR];
    while (lenS > 0 && *s == 0) { s++; lenS--; }
    if (lenS > 32) return false;
    uint8_t buf[32] = {0};
    memcpy(buf + 32 - lenS, s, lenS);
    return memcmp(buf, HALF, 32) <= 0;
}

}  // namespace ref
