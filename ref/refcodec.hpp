// Reference model: bech32 / bech32m (BIP173/BIP350), base58check, BIP341 commitment rule and tree helpers.
#pragma once
#include "refnum.hpp"
#include "refhash.hpp"
#include "reftx.hpp"
#include "refec.hpp"

namespace ref {

// ---------------------------------------------------------------- bech32
static const char* B32 = "qpzry9x8gf2tvdw0s3jn54khce6mua7l";
enum class B32Enc { INVALID, BECH32, BECH32M };
inline uint32_t b32_polymod(const std::vector<uint8_t>& v) {
    static const uint32_t G[5] = {0x3b6a57b2, 0x26508e6d, 0x1ea119fa, 0x3d4233dd, 0x2a1462b3};
    uint32_t chk = 1;
    for (uint8_t x : v) { uint32_t b = chk >> 25; chk = ((chk & 0x1ffffff) << 5) ^ x; for (int i = 0; i < 5; i++) if ((b >> i) & 1) chk ^= G[i]; }
    return chk;
}
inline std::vector<uint8_t> b32_hrp_expand(const std::string& hrp) {
    std::vector<uint8_t> r;
    for (char c : hrp) r.push_back(uint8_t(c) >> 5);
    r.push_back(0);
    for (char c : hrp) r.push_back(uint8_t(c) & 31);
    return r;
}
inline std::string b32_encode(const std::string& hrp, const std::vector<uint8_t>& data5, B32Enc enc) {
    std::vector<uint8_t> v = b32_hrp_expand(hrp);
    v.insert(v.end(), data5.begin(), data5.end());
    v.insert(v.end(), 6, 0);
    uint32_t pm = b32_polymod(v) ^ (enc == B32Enc::BECH32M ? 0x2bc830a3 : 1);
    std::string out = hrp + "1";
    for (uint8_t d : data5) out += B32[d];
    for (int i = 0; i < 6; i++) out += B32[(pm >> (5 * (5 - i))) & 31];
    return out;
}
inline B32Enc b32_decode(const std::string& s, std::string& hrp, std::vector<uint8_t>& data5) {
    bool lower = false, upper = false;
    for (unsigned char c : s) { if (c < 33 || c > 126) return B32Enc::INVALID; if (c >= 'a' && c <= 'z') lower = true; if (c >= 'A' && c <= 'Z') upper = true; }
    if (lower && upper) return B32Enc::INVALID;
    size_t pos = s.rfind('1');
    if (s.size() > 90 || pos == std::string::npos || pos == 0 || pos + 7 > s.size()) return B32Enc::INVALID;
    hrp.clear(); data5.clear();
    for (size_t i = 0; i < pos; i++) hrp += char(tolower((unsigned char)s[i]));
    for (size_t i = pos + 1; i < s.size(); i++) { const char* q = strchr(B32, tolower((unsigned char)s[i])); if (!q || !s[i]) return B32Enc::INVALID; data5.push_back(uint8_t(q - B32)); }
    std::vector<uint8_t> v = b32_hrp_expand(hrp);
    v.insert(v.end(), data5.begin(), data5.end());
    uint32_t pm = b32_polymod(v);
    data5.resize(data5.size() - 6);
    if (pm == 1) return B32Enc::BECH32;
    if (pm == 0x2bc830a3) return B32Enc::BECH32M;
    return B32Enc::INVALID;
}
inline bool convert_bits(const std::vector<uint8_t>& in, int from, int to, bool pad, std::vector<uint8_t>& out) {
    uint32_t acc = 0; int bits = 0; uint32_t maxv = (1u << to) - 1;
    for (uint8_t v : in) { if (v >> from) return false; acc = (acc << from) | v; bits += from; while (bits >= to) { bits -= to; out.push_back((acc >> bits) & maxv); } }
    if (pad) { if (bits) out.push_back((acc << (to - bits)) & maxv); }
    else if (bits >= from || ((acc << (to - bits)) & maxv)) return false;
    return true;
}
inline std::string segwit_addr(const std::string& hrp, int witver, const bytes& prog) {
    std::vector<uint8_t> d{uint8_t(witver)};
    convert_bits(prog, 8, 5, true, d);
    return b32_encode(hrp, d, witver == 0 ? B32Enc::BECH32 : B32Enc::BECH32M);
}
inline bool segwit_addr_decode(const std::string& addr, std::string& hrp, int& witver, bytes& prog) {
    std::vector<uint8_t> d;
    B32Enc e = b32_decode(addr, hrp, d);
    if (e == B32Enc::INVALID || d.empty()) return false;
    witver = d[0];
    if (witver > 16) return false;
    if ((witver == 0) != (e == B32Enc::BECH32)) return false;
    prog.clear();
    if (!convert_bits(std::vector<uint8_t>(d.begin() + 1, d.end()), 5, 8, false, prog)) return false;
    if (prog.size() < 2 || prog.size() > 40) return false;
    if (witver == 0 && prog.size() != 20 && prog.size() != 32) return false;
    return true;
}

// ---------------------------------------------------------------- base58check
static const char* B58 = "123456789ABCDEFGHJKLMNPQRSTUVWXYZabcdefghijkmnopqrstuvwxyz";
inline std::string b58_encode(const bytes& in) {
    size_t zeros = 0; while (zeros < in.size() && in[zeros] == 0) zeros++;
    std::vector<uint8_t> digits;  // little-endian base58
    for (size_t i = zeros; i < in.size(); i++) {
        int carry = in[i];
        for (auto& d : digits) { carry += d * 256; d = carry % 58; carry /= 58; }
        while (carry) { digits.push_back(carry % 58); carry /= 58; }
    }
    std::string s(zeros, '1');
    for (auto it = digits.rbegin(); it != digits.rend(); ++it) s += B58[*it];
    return s;
}
inline bool b58_decode(const std::string& s, bytes& out) {
    size_t zeros = 0; while (zeros < s.size() && s[zeros] == '1') zeros++;
    std::vector<uint8_t> b;  // little-endian base256
    for (size_t i = zeros; i < s.size(); i++) {
        const char* q = strchr(B58, s[i]);
        if (!q || !s[i]) return false;
        int carry = int(q - B58);
        for (auto& d : b) { carry += d * 58; d = carry & 0xff; carry >>= 8; }
        while (carry) { b.push_back(carry & 0xff); carry >>= 8; }
    }
    out.assign(zeros, 0);
    out.insert(out.end(), b.rbegin(), b.rend());
    return true;
}
inline std::string b58check_encode(const bytes& payload) { bytes c = hash256(payload); bytes v = payload; v.insert(v.end(), c.begin(), c.begin() + 4); return b58_encode(v); }
inline bool b58check_decode(const std::string& s, bytes& payload) {
    bytes v;
    if (!b58_decode(s, v) || v.size() < 4) return false;
    bytes body(v.begin(), v.end() - 4), c = hash256(body);
    if (!std::equal(c.begin(), c.begin() + 4, v.end() - 4)) return false;
    payload = body;
    return true;
}

// ---------------------------------------------------------------- BIP341 commitment
inline bytes tapleaf_hash(uint8_t leaf_version, const bytes& script) { bytes m{leaf_version}; put_var(m, script); return tagged_hash("TapLeaf", m); }
inline bytes tapbranch_hash(const bytes& a, const bytes& b) { return std::lexicographical_compare(a.begin(), a.end(), b.begin(), b.end()) ? tagged_hash("TapBranch", cat(a, b)) : tagged_hash("TapBranch", cat(b, a)); }
inline bytes taptweak_hash(const bytes& p32, const bytes& root) { return tagged_hash("TapTweak", cat(p32, root)); }

struct TapVerify { bool size_ok = false, ok = false; bytes leaf; std::vector<bytes> k; /* running hash after each node */ bytes root; };
// BIP341 script-path rule for (control, script, 32-byte program)
inline TapVerify taproot_verify(const bytes& control, const bytes& script, const bytes& program) {
    TapVerify r;
    if (control.size() < 33 || control.size() > 33 + 32 * 128 || (control.size() - 33) % 32 != 0) return r;
    r.size_ok = true;
    size_t m = (control.size() - 33) / 32;
    bytes p(control.begin() + 1, control.begin() + 33);
    bytes k = tapleaf_hash(control[0] & 0xfe, script);
    r.leaf = k;
    for (size_t j = 0; j < m; j++) {
        bytes e(control.begin() + 33 + 32 * j, control.begin() + 65 + 32 * j);
        k = tapbranch_hash(k, e);
        r.k.push_back(k);
    }
    r.root = k;
    bytes t = taptweak_hash(p, k), q; int parity;
    if (!xonly_tweak_add(p, t, q, parity)) return r;
    r.ok = (q == program) && (parity == (control[0] & 1));
    return r;
}
// output key for an internal key and (possibly empty) merkle root
inline bool taproot_output_key(const bytes& p32, const bytes& root, bytes& q32, int& parity) {
    return xonly_tweak_add(p32, taptweak_hash(p32, root), q32, parity);
}
inline bytes p2tr_spk(const bytes& q32) { bytes s{0x51, 0x20}; s.insert(s.end(), q32.begin(), q32.end()); return s; }

int selftest_codec(int& total);

}  // namespace ref
